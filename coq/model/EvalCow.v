(* Evaluator core model, part 1: accounts and the copy-on-write overlay.
   Transcribes ledger/eval/cow.go (roundCowState: child, lookup through the parents,
   putAccount, checkDup, addTx, commitToParent, recycle, modifiedAccounts),
   ledger/ledgercore/statedelta.go (AccountDeltas.Upsert / MergeAccounts / ModifiedAccounts),
   ledger/ledgercore/accountdata.go (AccountData, IsZero, MinBalance, ClearOnlineState, Suspend)
   and data/basics/userBalance.go (WithUpdatedRewards, MinBalance).
   Checked arithmetic comes from model/Overflow.v (C45).  No proofs in this file.

   The overlay is an explicit stack: [c_top] is the cow the code currently writes to,
   [c_parents] are its ancestors (innermost first), [c_base] stands for roundCowBase / the
   ledger.  Every writer below touches [c_top] only; that the parents and the base are
   never touched before commitToParent is a THEOREM (proofs/EvalCowProofs.v), not a
   modelling decision: error results carry the state reached so far, and the group
   loop (EvalGroup.v) discards the child explicitly (recycle). *)
From Coq Require Import NArith List Bool.
From Verif.model Require Import Overflow.
Import ListNotations.
Open Scope N_scope.

(* ------------------------------------------------------------------ accounts *)
Inductive status := Offline | Online | NotPart.

Definition status_eqb (a b : status) : bool :=
  match a, b with
  | Offline, Offline | Online, Online | NotPart, NotPart => true
  | _, _ => false
  end.

(* ledgercore.AccountData restricted to what the evaluator reads or writes.  Addresses and
   keys are abstract identifiers (N, 0 = the zero value). *)
Record acct := mkAcct {
  a_status : status;
  a_algos : N;            (* MicroAlgos *)
  a_rbase : N;            (* RewardsBase *)
  a_rewarded : N;         (* RewardedMicroAlgos (wraps) *)
  a_auth : N;             (* AuthAddr, 0 = none *)
  a_elig : bool;          (* IncentiveEligible *)
  a_schema_u : N;         (* TotalAppSchema.NumUint *)
  a_schema_b : N;         (* TotalAppSchema.NumByteSlice *)
  a_extrapages : N;       (* TotalExtraAppPages *)
  a_appparams : N;        (* TotalAppParams *)
  a_applocals : N;        (* TotalAppLocalStates *)
  a_assetparams : N;      (* TotalAssetParams *)
  a_assets : N;           (* TotalAssets *)
  a_boxes : N;            (* TotalBoxes *)
  a_boxbytes : N;         (* TotalBoxBytes *)
  a_lastprop : N;         (* LastProposed *)
  a_lasthb : N;           (* LastHeartbeat *)
  a_votepk : N;           (* VoteID *)
  a_selpk : N;            (* SelectionID *)
  a_sppk : N;             (* StateProofID *)
  a_votefirst : N;
  a_votelast : N;
  a_votekd : N
}.

Definition acct0 : acct :=
  mkAcct Offline 0 0 0 0 false 0 0 0 0 0 0 0 0 0 0 0 0 0 0 0 0 0.

Definition acct_eqb (x y : acct) : bool :=
  status_eqb (a_status x) (a_status y) && (a_algos x =? a_algos y) && (a_rbase x =? a_rbase y) &&
  (a_rewarded x =? a_rewarded y) && (a_auth x =? a_auth y) && Bool.eqb (a_elig x) (a_elig y) &&
  (a_schema_u x =? a_schema_u y) && (a_schema_b x =? a_schema_b y) &&
  (a_extrapages x =? a_extrapages y) && (a_appparams x =? a_appparams y) &&
  (a_applocals x =? a_applocals y) && (a_assetparams x =? a_assetparams y) &&
  (a_assets x =? a_assets y) && (a_boxes x =? a_boxes y) && (a_boxbytes x =? a_boxbytes y) &&
  (a_lastprop x =? a_lastprop y) && (a_lasthb x =? a_lasthb y) && (a_votepk x =? a_votepk y) &&
  (a_selpk x =? a_selpk y) && (a_sppk x =? a_sppk y) && (a_votefirst x =? a_votefirst y) &&
  (a_votelast x =? a_votelast y) && (a_votekd x =? a_votekd y).

(* AccountData.IsZero: u == AccountData{} *)
Definition acct_is_zero (x : acct) : bool := acct_eqb x acct0.

(* field updates (Coq 8.16 has no record update syntax) *)
Definition set_money (x : acct) (algos rbase rewarded : N) : acct :=
  mkAcct (a_status x) algos rbase rewarded (a_auth x) (a_elig x) (a_schema_u x) (a_schema_b x)
         (a_extrapages x) (a_appparams x) (a_applocals x) (a_assetparams x) (a_assets x) (a_boxes x)
         (a_boxbytes x) (a_lastprop x) (a_lasthb x) (a_votepk x) (a_selpk x) (a_sppk x)
         (a_votefirst x) (a_votelast x) (a_votekd x).
Definition set_algos (x : acct) (algos : N) : acct := set_money x algos (a_rbase x) (a_rewarded x).
Definition set_auth (x : acct) (au : N) : acct :=
  mkAcct (a_status x) (a_algos x) (a_rbase x) (a_rewarded x) au (a_elig x) (a_schema_u x) (a_schema_b x)
         (a_extrapages x) (a_appparams x) (a_applocals x) (a_assetparams x) (a_assets x) (a_boxes x)
         (a_boxbytes x) (a_lastprop x) (a_lasthb x) (a_votepk x) (a_selpk x) (a_sppk x)
         (a_votefirst x) (a_votelast x) (a_votekd x).
Definition set_lasthb (x : acct) (hb : N) : acct :=
  mkAcct (a_status x) (a_algos x) (a_rbase x) (a_rewarded x) (a_auth x) (a_elig x) (a_schema_u x) (a_schema_b x)
         (a_extrapages x) (a_appparams x) (a_applocals x) (a_assetparams x) (a_assets x) (a_boxes x)
         (a_boxbytes x) (a_lastprop x) hb (a_votepk x) (a_selpk x) (a_sppk x)
         (a_votefirst x) (a_votelast x) (a_votekd x).
Definition set_lastprop (x : acct) (lp : N) : acct :=
  mkAcct (a_status x) (a_algos x) (a_rbase x) (a_rewarded x) (a_auth x) (a_elig x) (a_schema_u x) (a_schema_b x)
         (a_extrapages x) (a_appparams x) (a_applocals x) (a_assetparams x) (a_assets x) (a_boxes x)
         (a_boxbytes x) lp (a_lasthb x) (a_votepk x) (a_selpk x) (a_sppk x)
         (a_votefirst x) (a_votelast x) (a_votekd x).
Definition set_asset_counts (x : acct) (assetparams assets : N) : acct :=
  mkAcct (a_status x) (a_algos x) (a_rbase x) (a_rewarded x) (a_auth x) (a_elig x) (a_schema_u x) (a_schema_b x)
         (a_extrapages x) (a_appparams x) (a_applocals x) assetparams assets (a_boxes x)
         (a_boxbytes x) (a_lastprop x) (a_lasthb x) (a_votepk x) (a_selpk x) (a_sppk x)
         (a_votefirst x) (a_votelast x) (a_votekd x).
Definition set_app_counts (x : acct) (su sb pages appparams applocals : N) : acct :=
  mkAcct (a_status x) (a_algos x) (a_rbase x) (a_rewarded x) (a_auth x) (a_elig x) su sb
         pages appparams applocals (a_assetparams x) (a_assets x) (a_boxes x)
         (a_boxbytes x) (a_lastprop x) (a_lasthb x) (a_votepk x) (a_selpk x) (a_sppk x)
         (a_votefirst x) (a_votelast x) (a_votekd x).
Definition set_box_counts (x : acct) (boxes boxbytes : N) : acct :=
  mkAcct (a_status x) (a_algos x) (a_rbase x) (a_rewarded x) (a_auth x) (a_elig x) (a_schema_u x) (a_schema_b x)
         (a_extrapages x) (a_appparams x) (a_applocals x) (a_assetparams x) (a_assets x) boxes
         boxbytes (a_lastprop x) (a_lasthb x) (a_votepk x) (a_selpk x) (a_sppk x)
         (a_votefirst x) (a_votelast x) (a_votekd x).
(* status / eligibility / voting data in one go (keyreg, ClearOnlineState, Suspend, recordProposal) *)
Definition set_part (x : acct) (st : status) (elig : bool) (hb vpk spk sppk vf vl vkd : N) : acct :=
  mkAcct st (a_algos x) (a_rbase x) (a_rewarded x) (a_auth x) elig (a_schema_u x) (a_schema_b x)
         (a_extrapages x) (a_appparams x) (a_applocals x) (a_assetparams x) (a_assets x) (a_boxes x)
         (a_boxbytes x) (a_lastprop x) hb vpk spk sppk vf vl vkd.
Definition set_status (x : acct) (st : status) : acct :=
  set_part x st (a_elig x) (a_lasthb x) (a_votepk x) (a_selpk x) (a_sppk x) (a_votefirst x) (a_votelast x) (a_votekd x).

(* AccountData.ClearOnlineState: Status = Offline, VotingData = {} *)
Definition clear_online (x : acct) : acct := set_part x Offline (a_elig x) (a_lasthb x) 0 0 0 0 0 0.
(* AccountData.Suspend: Status = Offline, IncentiveEligible = false *)
Definition suspend (x : acct) : acct :=
  set_part x Offline false (a_lasthb x) (a_votepk x) (a_selpk x) (a_sppk x) (a_votefirst x) (a_votelast x) (a_votekd x).
(* AccountData.Suspended: Offline with a vote key *)
Definition suspended (x : acct) : bool := status_eqb (a_status x) Offline && negb (a_votepk x =? 0).

(* ------------------------------------------------------------------ consensus parameters *)
(* the fields of config.ConsensusParams the modelled code reads; the harness passes the
   values of the protocol under test with every case, the theorems hold for all values *)
Record params := mkParams {
  p_unit : N;               (* RewardUnit *)
  p_minbal : N;             (* MinBalance *)
  p_minfee : N;             (* MinTxnFee *)
  p_unfunded : bool;        (* UnfundedSenders *)
  p_maxgroup : N;           (* MaxTxGroupSize *)
  p_leases : bool;          (* SupportTransactionLeases *)
  p_payouts : bool;         (* Payouts.Enabled *)
  p_goonline : N;           (* Payouts.GoOnlineFee *)
  p_coherency : bool;       (* EnableKeyregCoherencyCheck *)
  p_nonpart : bool;         (* SupportBecomeNonParticipatingTransactions *)
  p_spcheck : bool;         (* EnableStateProofKeyregCheck *)
  p_maxminbal : N;          (* MaximumMinimumBalance *)
  p_maxassets : N;          (* MaxAssetsPerAccount *)
  p_appflatparams : N;      (* AppFlatParamsMinBalance *)
  p_appflatoptin : N;       (* AppFlatOptInMinBalance *)
  p_boxflat : N;            (* BoxFlatMinBalance *)
  p_boxbyte : N;            (* BoxByteMinBalance *)
  p_schemaentry : N;        (* SchemaMinBalancePerEntry *)
  p_schemauint : N;         (* SchemaUintMinBalance *)
  p_schemabytes : N;        (* SchemaBytesMinBalance *)
  p_lookback : N;           (* agreement.BalanceLookback(proto) *)
  p_maxexpired : N;         (* MaxProposedExpiredOnlineAccounts *)
  p_closeamount : bool;     (* EnableAssetCloseAmount *)
  p_maxappscreated : N;     (* MaxAppsCreated *)
  p_maxappsoptedin : N;     (* MaxAppsOptedIn *)
  p_maxkeylen : N;          (* MaxAppKeyLen *)
  p_maxboxsize : N;         (* MaxBoxSize *)
  p_properpages : bool      (* EnableProperExtraPageAccounting *)
}.

(* ------------------------------------------------------------------ rewards, min balance *)
Inductive res (A : Type) := Ok (a : A) | Err (e : N).
Arguments Ok {A}. Arguments Err {A}.

(* error classes (shared with the harness; see harness vc18ErrClass) *)
Definition E_DEAD : N := 1.        (* bookkeeping.TxnDeadError *)
Definition E_GENESIS : N := 2.     (* Alive: genesis id / hash *)
Definition E_DUP : N := 3.         (* TransactionInLedgerError *)
Definition E_LEASE : N := 4.       (* LeaseInLedgerError *)
Definition E_AUTH : N := 5.        (* "should have been authorized by" *)
Definition E_OVERSPEND : N := 6.   (* OverspendError *)
Definition E_MINBAL : N := 7.      (* MinBalanceError *)
Definition E_WF : N := 8.          (* TxnNotWellFormedError *)
Definition E_GSIZE : N := 9.       (* TxGroupMalformedError ExceedMaxSize *)
Definition E_GINCONS : N := 10.    (* ... InconsistentGroupID *)
Definition E_GEMPTY : N := 11.     (* ... EmptyGroupID *)
Definition E_GINCOMPLETE : N := 12. (* ... IncompleteGroup *)
Definition E_FEE : N := 13.        (* ... InvalidFee *)
Definition E_APPLY : N := 14.      (* any other error returned by ledger/apply or Move *)
Definition E_PANIC : N := 15.      (* EvalPanicError (recovered panic) *)
Definition E_CORRUPT : N := 16.    (* ErrEvaluatorCorruptedState *)
Definition E_MAXMINBAL : N := 17.  (* "would use too much space" *)
Definition E_NOSPACE : N := 18.    (* ErrNoSpace *)
Definition E_BLOCK : N := 19.      (* StartEvaluator / endOfBlock errors *)

(* MicroAlgos.RewardUnits; Go divides by proto.RewardUnit (a zero unit panics) *)
Definition reward_units (P : params) (algos : N) : N := algos / p_unit P.

(* basics.WithUpdatedRewards; Err E_PANIC = logging.Panicf on tracker overflow (also taken
   for a zero RewardUnit, where Go panics with a division by zero) *)
Definition with_rewards (P : params) (lvl : N) (x : acct) : res acct :=
  match a_status x with
  | NotPart => Ok x
  | _ =>
    if p_unit P =? 0 then Err E_PANIC else
    let units := reward_units P (a_algos x) in
    let '(delta, o1) := osub 64 lvl (a_rbase x) in
    let '(rewards, o2) := omul 64 units delta in
    let '(out, o3) := oadd 64 (a_algos x) rewards in
    if o1 || o2 || o3 then Err E_PANIC
    else Ok (set_money x out lvl ((a_rewarded x + rewards) mod 2 ^ 64))
  end.

(* basics.MinBalance with StateSchema.MinBalance inlined *)
Definition schema_minbal (P : params) (nu nb : N) : N :=
  let flat := mulsat 64 (p_schemaentry P) (addsat 64 nu nb) in
  let uints := mulsat 64 (p_schemauint P) nu in
  let bytes := mulsat 64 (p_schemabytes P) nb in
  addsat 64 (addsat 64 flat uints) bytes.

Definition min_balance (P : params) (x : acct) : N :=
  let m := p_minbal P in
  let m := addsat 64 m (mulsat 64 (p_minbal P) (a_assets x)) in
  let m := addsat 64 m (mulsat 64 (p_appflatparams P) (a_appparams x)) in
  let m := addsat 64 m (mulsat 64 (p_appflatoptin P) (a_applocals x)) in
  let m := addsat 64 m (schema_minbal P (a_schema_u x) (a_schema_b x)) in
  let m := addsat 64 m (mulsat 64 (p_appflatparams P) (a_extrapages x)) in
  let m := addsat 64 m (mulsat 64 (p_boxflat P) (a_boxes x)) in
  addsat 64 m (mulsat 64 (p_boxbyte P) (a_boxbytes x)).

(* ------------------------------------------------------------------ association lists *)
Fixpoint afind {V} (k : N) (l : list (N * V)) : option V :=
  match l with
  | [] => None
  | (k', v) :: r => if k' =? k then Some v else afind k r
  end.

(* AccountDeltas.Upsert: replace in place, else append *)
Fixpoint aupsert {V} (k : N) (v : V) (l : list (N * V)) : list (N * V) :=
  match l with
  | [] => [(k, v)]
  | (k', v') :: r => if k' =? k then (k', v) :: r else (k', v') :: aupsert k v r
  end.

Definition pair_eqb (a b : N * N) : bool := (fst a =? fst b) && (snd a =? snd b).

Fixpoint pfind {V} (k : N * N) (l : list ((N * N) * V)) : option V :=
  match l with
  | [] => None
  | (k', v) :: r => if pair_eqb k' k then Some v else pfind k r
  end.

Fixpoint pupsert {V} (k : N * N) (v : V) (l : list ((N * N) * V)) : list ((N * N) * V) :=
  match l with
  | [] => [(k, v)]
  | (k', v') :: r => if pair_eqb k' k then (k', v) :: r else (k', v') :: pupsert k v r
  end.

(* ------------------------------------------------------------------ assets *)
(* basics.AssetParams: the fields apply/asset.go reads; [ap_extra] identifies the remaining
   fields (decimals, names, URL, metadata hash), 0 = all zero *)
Record aparams := mkAP {
  ap_total : N;
  ap_dfrozen : bool;
  ap_manager : N;
  ap_reserve : N;
  ap_freeze : N;
  ap_clawback : N;
  ap_extra : N
}.
Definition ap_is_zero (p : aparams) : bool :=
  (ap_total p =? 0) && negb (ap_dfrozen p) && (ap_manager p =? 0) && (ap_reserve p =? 0) &&
  (ap_freeze p =? 0) && (ap_clawback p =? 0) && (ap_extra p =? 0).

(* basics.AssetHolding *)
Record holding := mkH { h_amount : N; h_frozen : bool }.

(* ledgercore.AssetParamsDelta / AssetHoldingDelta: nothing recorded, a value, or deleted *)
Inductive delta (A : Type) := DNone | DSome (a : A) | DDel.
Arguments DNone {A}. Arguments DSome {A}. Arguments DDel {A}.

(* one AssetResourceRecord of AccountDeltas: params and holding of (address, asset) *)
Record ares := mkAres { r_params : delta aparams; r_holding : delta holding }.

(* ------------------------------------------------------------------ applications *)
(* basics.AppParams as far as apply/application.go reads it (programs are the harness's fixed
   interpreter; Version / RejectVersion are not modelled) *)
Record appparams := mkApp {
  app_gs : N * N;          (* GlobalStateSchema (NumUint, NumByteSlice) *)
  app_ls : N * N;          (* LocalStateSchema *)
  app_pages : N;           (* ExtraProgramPages *)
  app_sponsor : N;         (* SizeSponsor, 0 = the creator *)
  app_fbr : bool;          (* ForeignBoxReads  (app_params_set) *)
  app_fba : bool           (* FamilyBoxAccess  (app_params_set) *)
}.

(* one AppResourceRecord: params and local state (its Schema) of (address, app) *)
Record appres := mkAppres { ar_params : delta appparams; ar_local : delta (N * N) }.

(* ledger/eval/appcow.go storageDelta: action (1 remainAlloc, 2 alloc, 3 dealloc), the
   key/value changes (key -> Some isBytes | None = deleted; values themselves are C23's
   business), counts, maxCounts *)
Record sdelta := mkSD { sd_action : N; sd_kv : list (N * option bool); sd_counts : N * N; sd_max : N * N }.

(* the application account (basics.AppIndex.Address()): a hash; modelled as an injective map
   into addresses no key pair owns *)
Definition app_addr (i : N) : N := 1000000 + i.

(* storagePtr (addr, aidx, global) as a pair key *)
Definition skey (a i : N) (global : bool) : N * N := (a, 2 * i + (if global then 1 else 0)).

(* ------------------------------------------------------------------ the overlay *)
(* one roundCowState: mods.Accts (slice order = ModifiedAccounts order), mods.Txids
   (insertion order: Intra = position), mods.Txleases, txnCount, feesCollected *)
Record layer := mkLayer {
  l_accts : list (N * acct);
  l_txids : list (N * N);              (* txid -> LastValid *)
  l_leases : list ((N * N) * N);       (* (sender, lease) -> expires *)
  l_txncount : N;
  l_fees : N;
  l_assets : list ((N * N) * ares);    (* mods.Accts.AssetResources, key (address, asset) *)
  l_creat : list (N * option N);       (* mods.Creatables (assets): Some creator = created, None = deleted *)
  l_apps : list ((N * N) * appres);    (* mods.Accts.AppResources, key (address, app) *)
  l_acreat : list (N * option N);      (* mods.Creatables (apps) *)
  l_store : list ((N * N) * sdelta);   (* sdeltas, key [skey] *)
  l_boxes : list ((N * N) * option N)  (* mods.KvMods for box keys (app, name): Some size | None = deleted *)
}.
Definition layer0 : layer := mkLayer [] [] [] 0 0 [] [] [] [] [] [].

(* field updaters: the only places (with [merge_layer]) that rebuild a layer *)
Definition upd_accts (l : layer) (x : list (N * acct)) : layer :=
  mkLayer x (l_txids l) (l_leases l) (l_txncount l) (l_fees l) (l_assets l) (l_creat l) (l_apps l) (l_acreat l) (l_store l) (l_boxes l).
Definition upd_fees (l : layer) (x : N) : layer :=
  mkLayer (l_accts l) (l_txids l) (l_leases l) (l_txncount l) x (l_assets l) (l_creat l) (l_apps l) (l_acreat l) (l_store l) (l_boxes l).
Definition upd_tx (l : layer) (txids : list (N * N)) (leases : list ((N * N) * N)) (cnt : N) : layer :=
  mkLayer (l_accts l) txids leases cnt (l_fees l) (l_assets l) (l_creat l) (l_apps l) (l_acreat l) (l_store l) (l_boxes l).
Definition upd_assets (l : layer) (x : list ((N * N) * ares)) : layer :=
  mkLayer (l_accts l) (l_txids l) (l_leases l) (l_txncount l) (l_fees l) x (l_creat l) (l_apps l) (l_acreat l) (l_store l) (l_boxes l).
Definition upd_creat (l : layer) (x : list (N * option N)) : layer :=
  mkLayer (l_accts l) (l_txids l) (l_leases l) (l_txncount l) (l_fees l) (l_assets l) x (l_apps l) (l_acreat l) (l_store l) (l_boxes l).
Definition upd_apps (l : layer) (x : list ((N * N) * appres)) : layer :=
  mkLayer (l_accts l) (l_txids l) (l_leases l) (l_txncount l) (l_fees l) (l_assets l) (l_creat l) x (l_acreat l) (l_store l) (l_boxes l).
Definition upd_acreat (l : layer) (x : list (N * option N)) : layer :=
  mkLayer (l_accts l) (l_txids l) (l_leases l) (l_txncount l) (l_fees l) (l_assets l) (l_creat l) (l_apps l) x (l_store l) (l_boxes l).
Definition upd_store (l : layer) (x : list ((N * N) * sdelta)) : layer :=
  mkLayer (l_accts l) (l_txids l) (l_leases l) (l_txncount l) (l_fees l) (l_assets l) (l_creat l) (l_apps l) (l_acreat l) x (l_boxes l).
Definition upd_boxes (l : layer) (x : list ((N * N) * option N)) : layer :=
  mkLayer (l_accts l) (l_txids l) (l_leases l) (l_txncount l) (l_fees l) (l_assets l) (l_creat l) (l_apps l) (l_acreat l) (l_store l) x.
Definition upd_txncount (l : layer) (cnt : N) : layer := upd_tx l (l_txids l) (l_leases l) cnt.

(* roundCowBase as far as the evaluator uses it: account table of the previous round, the
   transaction ids the ledger reports as already committed, previous TxnCounter *)
Record base := mkBase {
  b_accts : list (N * acct);
  b_txids : list N;
  b_counter : N;
  b_assets : list ((N * N) * (option aparams * option holding));  (* LookupAsset *)
  b_apps : list ((N * N) * (option appparams * option (N * N)));   (* LookupApplication: params, local state schema *)
  b_store : list ((N * N) * list (N * bool));                      (* GlobalState / LocalState.KeyValue: key -> isBytes, by [skey] *)
  b_boxes : list ((N * N) * N)                                     (* LookupKv for box keys (app, name): size *)
}.

Record cow := mkCow {
  c_top : layer;
  c_parents : list layer;
  c_base : base
}.

Definition set_top (c : cow) (l : layer) : cow := mkCow l (c_parents c) (c_base c).

Definition base_lookup (b : base) (a : N) : acct :=
  match afind a (b_accts b) with Some x => x | None => acct0 end.

Fixpoint layers_lookup (ls : list layer) (b : base) (a : N) : acct :=
  match ls with
  | [] => base_lookup b a
  | l :: r => match afind a (l_accts l) with Some x => x | None => layers_lookup r b a end
  end.

(* roundCowState.lookup *)
Definition lookup (c : cow) (a : N) : acct := layers_lookup (c_top c :: c_parents c) (c_base c) a.

(* roundCowState.putAccount *)
Definition put (c : cow) (a : N) (x : acct) : cow :=
  set_top c (upd_accts (c_top c) (aupsert a x (l_accts (c_top c)))).

(* roundCowState.modifiedAccounts *)
Definition modified (c : cow) : list N := map fst (l_accts (c_top c)).

(* roundCowState.child *)
Definition child (c : cow) : cow := mkCow layer0 (c_top c :: c_parents c) (c_base c).

(* roundCowState.recycle seen from the evaluator: the child is dropped, eval.state (its
   parent) is what remains.  A top-level cow has nothing to return to. *)
Definition recycle (c : cow) : cow :=
  match c_parents c with
  | [] => c
  | p :: ps => mkCow p ps (c_base c)
  end.

Fixpoint merge_accts (into from : list (N * acct)) : list (N * acct) :=
  match from with
  | [] => into
  | (a, x) :: r => merge_accts (aupsert a x into) r
  end.

Fixpoint merge_leases (into from : list ((N * N) * N)) : list ((N * N) * N) :=
  match from with
  | [] => into
  | (k, v) :: r => merge_leases (pupsert k v into) r
  end.

(* roundCowState.commitToParent followed by dropping the child: the parent becomes the
   current cow again *)
Fixpoint merge_assets (into from : list ((N * N) * ares)) : list ((N * N) * ares) :=
  match from with
  | [] => into
  | (k, v) :: r => merge_assets (pupsert k v into) r
  end.

Fixpoint merge_creat (into from : list (N * option N)) : list (N * option N) :=
  match from with
  | [] => into
  | (k, v) :: r => merge_creat (aupsert k v into) r
  end.

Fixpoint merge_apps (into from : list ((N * N) * appres)) : list ((N * N) * appres) :=
  match from with
  | [] => into
  | (k, v) :: r => merge_apps (pupsert k v into) r
  end.

Fixpoint merge_boxes (into from : list ((N * N) * option N)) : list ((N * N) * option N) :=
  match from with
  | [] => into
  | (k, v) :: r => merge_boxes (pupsert k v into) r
  end.

Fixpoint merge_kv (into from : list (N * option bool)) : list (N * option bool) :=
  match from with
  | [] => into
  | (k, v) :: r => merge_kv (aupsert k v into) r
  end.

(* storageDelta.applyChild *)
Definition apply_child (p ch : sdelta) : sdelta :=
  if sd_action ch =? 1
  then mkSD (sd_action p) (merge_kv (sd_kv p) (sd_kv ch)) (sd_counts ch) (sd_max ch)
  else mkSD (sd_action ch) (sd_kv ch) (sd_counts ch) (sd_max ch).

Fixpoint merge_store (into from : list ((N * N) * sdelta)) : list ((N * N) * sdelta) :=
  match from with
  | [] => into
  | (k, v) :: r => merge_store (pupsert k (match pfind k into with Some p => apply_child p v | None => v end) into) r
  end.

Definition merge_layer (p t : layer) : layer :=
  mkLayer (merge_accts (l_accts p) (l_accts t))
          (l_txids p ++ l_txids t)
          (merge_leases (l_leases p) (l_leases t))
          ((l_txncount p + l_txncount t) mod 2 ^ 64)
          (fst (oadd 64 (l_fees p) (l_fees t)))
          (merge_assets (l_assets p) (l_assets t))
          (merge_creat (l_creat p) (l_creat t))
          (merge_apps (l_apps p) (l_apps t))
          (merge_creat (l_acreat p) (l_acreat t))
          (merge_store (l_store p) (l_store t))
          (merge_boxes (l_boxes p) (l_boxes t)).

Definition commit (c : cow) : cow :=
  match c_parents c with
  | [] => c
  | p :: ps => mkCow (merge_layer p (c_top c)) ps (c_base c)
  end.

(* ---- checkDup through the layers down to the ledger ---- *)
Definition layer_checkdup (P : params) (rnd : N) (l : layer) (txid sender lease : N) : option N :=
  match afind txid (l_txids l) with
  | Some _ => Some E_DUP
  | None =>
    if p_leases P && negb (lease =? 0) then
      match pfind (sender, lease) (l_leases l) with
      | Some expires => if rnd <=? expires then Some E_LEASE else None
      | None => None
      end
    else None
  end.

(* the ledger behind the harness (evalTestLedger.CheckDup) knows committed txids only *)
Definition base_checkdup (b : base) (txid : N) : option N :=
  if existsb (N.eqb txid) (b_txids b) then Some E_DUP else None.

Fixpoint layers_checkdup (P : params) (rnd : N) (ls : list layer) (b : base) (txid sender lease : N) : option N :=
  match ls with
  | [] => base_checkdup b txid
  | l :: r => match layer_checkdup P rnd l txid sender lease with
              | Some e => Some e
              | None => layers_checkdup P rnd r b txid sender lease
              end
  end.

Definition checkdup (P : params) (rnd : N) (c : cow) (txid sender lease : N) : option N :=
  layers_checkdup P rnd (c_top c :: c_parents c) (c_base c) txid sender lease.

(* roundCowState.addTx *)
Definition addtx (c : cow) (txid lastvalid sender lease : N) : cow :=
  let l := c_top c in
  set_top c (upd_tx l (l_txids l ++ [(txid, lastvalid)])
                    (if lease =? 0 then l_leases l else pupsert (sender, lease) lastvalid (l_leases l))
                    ((l_txncount l + 1) mod 2 ^ 64)).

(* cs.feesCollected, _ = OAddA(cs.feesCollected, fee) *)
Definition addfee (c : cow) (fee : N) : cow :=
  set_top c (upd_fees (c_top c) (fst (oadd 64 (l_fees (c_top c)) fee))).

(* roundCowState.Counter *)
Definition counter (c : cow) : N :=
  fold_right (fun l acc => l_txncount l + acc) (b_counter (c_base c)) (c_top c :: c_parents c).

(* ------------------------------------------------------------------ asset resources *)
(* lookupAssetParams / lookupAssetHolding through the layers: the first layer that has a
   record with something recorded for that half answers; the ledger answers last.  (The
   cacheOnly variants used by the put functions can fail with ErrNotInCowCache in Go; every
   caller in ledger/apply has looked the resource up before, so the cache is warm -- not
   modelled.) *)
Definition base_params (b : base) (k : N * N) : delta aparams :=
  match pfind k (b_assets b) with Some (Some p, _) => DSome p | _ => DNone end.
Definition base_holding (b : base) (k : N * N) : delta holding :=
  match pfind k (b_assets b) with Some (_, Some h) => DSome h | _ => DNone end.

Fixpoint layers_params (ls : list layer) (b : base) (k : N * N) : delta aparams :=
  match ls with
  | [] => base_params b k
  | l :: r => match pfind k (l_assets l) with
              | Some res => match r_params res with DNone => layers_params r b k | d => d end
              | None => layers_params r b k
              end
  end.

Fixpoint layers_holding (ls : list layer) (b : base) (k : N * N) : delta holding :=
  match ls with
  | [] => base_holding b k
  | l :: r => match pfind k (l_assets l) with
              | Some res => match r_holding res with DNone => layers_holding r b k | d => d end
              | None => layers_holding r b k
              end
  end.

Definition params_delta (c : cow) (k : N * N) : delta aparams := layers_params (c_top c :: c_parents c) (c_base c) k.
Definition holding_delta (c : cow) (k : N * N) : delta holding := layers_holding (c_top c :: c_parents c) (c_base c) k.

(* GetAssetParams / GetAssetHolding: a deleted entry is "not found" *)
Definition get_params (c : cow) (a i : N) : option aparams :=
  match params_delta c (a, i) with DSome p => Some p | _ => None end.
Definition get_holding (c : cow) (a i : N) : option holding :=
  match holding_delta c (a, i) with DSome h => Some h | _ => None end.

(* putAssetHolding / putAssetParams: the record written to the current cow carries the other
   half as found through the chain *)
Definition put_holding_delta (c : cow) (a i : N) (d : delta holding) : cow :=
  set_top c (upd_assets (c_top c) (pupsert (a, i) (mkAres (params_delta c (a, i)) d) (l_assets (c_top c)))).
Definition put_params_delta (c : cow) (a i : N) (d : delta aparams) : cow :=
  set_top c (upd_assets (c_top c) (pupsert (a, i) (mkAres d (holding_delta c (a, i))) (l_assets (c_top c)))).

(* AllocateAsset / DeallocateAsset (global) *)
Definition set_creatable (c : cow) (i : N) (v : option N) : cow :=
  set_top c (upd_creat (c_top c) (aupsert i v (l_creat (c_top c)))).

(* GetCreatorForRound of the harness ledger: the account that holds the params *)
Fixpoint base_creator_scan (l : list ((N * N) * (option aparams * option holding))) (i : N) : option N :=
  match l with
  | [] => None
  | ((a, j), (Some _, _)) :: r => if j =? i then Some a else base_creator_scan r i
  | _ :: r => base_creator_scan r i
  end.

Fixpoint layers_creator (ls : list layer) (b : base) (i : N) : option N :=
  match ls with
  | [] => base_creator_scan (b_assets b) i
  | l :: r => match afind i (l_creat l) with
              | Some v => v
              | None => layers_creator r b i
              end
  end.

(* roundCowState.getCreator (assets) *)
Definition get_creator (c : cow) (i : N) : option N := layers_creator (c_top c :: c_parents c) (c_base c) i.

(* "addr not found in deltas": the Delete* functions insist on the account being in this cow *)
Definition in_mods (c : cow) (a : N) : bool := match afind a (l_accts (c_top c)) with Some _ => true | None => false end.

(* ------------------------------------------------------------------ application resources *)
Definition base_appparams (b : base) (k : N * N) : delta appparams :=
  match pfind k (b_apps b) with Some (Some p, _) => DSome p | _ => DNone end.
Definition base_applocal (b : base) (k : N * N) : delta (N * N) :=
  match pfind k (b_apps b) with Some (_, Some s) => DSome s | _ => DNone end.

Fixpoint layers_appparams (ls : list layer) (b : base) (k : N * N) : delta appparams :=
  match ls with
  | [] => base_appparams b k
  | l :: r => match pfind k (l_apps l) with
              | Some res => match ar_params res with DNone => layers_appparams r b k | d => d end
              | None => layers_appparams r b k
              end
  end.

Fixpoint layers_applocal (ls : list layer) (b : base) (k : N * N) : delta (N * N) :=
  match ls with
  | [] => base_applocal b k
  | l :: r => match pfind k (l_apps l) with
              | Some res => match ar_local res with DNone => layers_applocal r b k | d => d end
              | None => layers_applocal r b k
              end
  end.

Definition appparams_delta (c : cow) (k : N * N) : delta appparams := layers_appparams (c_top c :: c_parents c) (c_base c) k.
Definition applocal_delta (c : cow) (k : N * N) : delta (N * N) := layers_applocal (c_top c :: c_parents c) (c_base c) k.

(* GetAppParams / GetAppLocalState (HasAppLocalState) *)
Definition get_appparams (c : cow) (a i : N) : option appparams :=
  match appparams_delta c (a, i) with DSome p => Some p | _ => None end.
Definition get_applocal (c : cow) (a i : N) : option (N * N) :=
  match applocal_delta c (a, i) with DSome s => Some s | _ => None end.

Definition put_appparams_delta (c : cow) (a i : N) (d : delta appparams) : cow :=
  set_top c (upd_apps (c_top c) (pupsert (a, i) (mkAppres d (applocal_delta c (a, i))) (l_apps (c_top c)))).
Definition put_applocal_delta (c : cow) (a i : N) (d : delta (N * N)) : cow :=
  set_top c (upd_apps (c_top c) (pupsert (a, i) (mkAppres (appparams_delta c (a, i)) d) (l_apps (c_top c)))).

(* AccountDeltas.ModifiedAccounts (ledgercore/statedelta.go) panics when a resource record of this
   cow carries a Deleted params / holding / local-state part while the account record itself is not
   in the same cow ("... not in base account").  Reachable in this fork: app_params_set writes the
   params through PutAppParams only, and putAppParams copies the local-state part it finds in an
   ancestor -- Deleted when the creator closed out of its own application earlier in the block. *)
Definition is_ddel {A : Type} (d : delta A) : bool := match d with DDel => true | _ => false end.
Definition mods_consistent (c : cow) : bool :=
  forallb (fun e : (N * N) * appres => negb (is_ddel (ar_params (snd e)) || is_ddel (ar_local (snd e))) || in_mods c (fst (fst e)))
          (l_apps (c_top c)) &&
  forallb (fun e : (N * N) * ares => negb (is_ddel (r_params (snd e)) || is_ddel (r_holding (snd e))) || in_mods c (fst (fst e)))
          (l_assets (c_top c)).

Definition set_app_creatable (c : cow) (i : N) (v : option N) : cow :=
  set_top c (upd_acreat (c_top c) (aupsert i v (l_acreat (c_top c)))).

Fixpoint base_app_creator_scan (l : list ((N * N) * (option appparams * option (N * N)))) (i : N) : option N :=
  match l with
  | [] => None
  | ((a, j), (Some _, _)) :: r => if j =? i then Some a else base_app_creator_scan r i
  | _ :: r => base_app_creator_scan r i
  end.

Fixpoint layers_app_creator (ls : list layer) (b : base) (i : N) : option N :=
  match ls with
  | [] => base_app_creator_scan (b_apps b) i
  | l :: r => match afind i (l_acreat l) with
              | Some v => v
              | None => layers_app_creator r b i
              end
  end.

(* roundCowState.getCreator (apps).  Asset and app indexes come from one counter, so an index
   never names both; the Ctype test of the Go code is therefore not modelled. *)
Definition get_app_creator (c : cow) (i : N) : option N := layers_app_creator (c_top c :: c_parents c) (c_base c) i.

(* ------------------------------------------------------------------ storage deltas (appcow.go) *)
(* roundCowBase.allocated *)
Definition base_allocated (b : base) (a i : N) (global : bool) : bool :=
  if global then match base_appparams b (a, i) with DSome _ => true | _ => false end
  else match base_applocal b (a, i) with DSome _ => true | _ => false end.

Fixpoint layers_allocated (ls : list layer) (b : base) (a i : N) (global : bool) : bool :=
  match ls with
  | [] => base_allocated b a i global
  | l :: r => match pfind (skey a i global) (l_store l) with
              | Some sd => if sd_action sd =? 2 then true else if sd_action sd =? 3 then false
                           else layers_allocated r b a i global
              | None => layers_allocated r b a i global
              end
  end.
Definition allocated (c : cow) (a i : N) (global : bool) : bool :=
  layers_allocated (c_top c :: c_parents c) (c_base c) a i global.

(* TealKeyValue.ToStateSchema *)
Definition kv_counts (kv : list (N * bool)) : N * N :=
  fold_right (fun (e : N * bool) (acc : N * N) => if snd e then (fst acc, snd acc + 1) else (fst acc + 1, snd acc)) (0, 0) kv.

Definition base_kv (b : base) (a i : N) (global : bool) : list (N * bool) :=
  match pfind (skey a i global) (b_store b) with Some kv => kv | None => [] end.

(* roundCowBase.getStorageLimits: from the creator's AppParams *)
Definition base_limits (b : base) (i : N) (global : bool) : N * N :=
  match base_app_creator_scan (b_apps b) i with
  | None => (0, 0)
  | Some cr => match base_appparams b (cr, i) with
               | DSome p => if global then app_gs p else app_ls p
               | _ => (0, 0)
               end
  end.

(* getStorageCounts / getStorageLimits below a layer list (each level tests allocated first) *)
Fixpoint layers_counts (ls : list layer) (b : base) (a i : N) (global : bool) : N * N :=
  match ls with
  | [] => if base_allocated b a i global then kv_counts (base_kv b a i global) else (0, 0)
  | l :: r => if negb (layers_allocated ls b a i global) then (0, 0)
              else match pfind (skey a i global) (l_store l) with
                   | Some sd => sd_counts sd
                   | None => layers_counts r b a i global
                   end
  end.

Fixpoint layers_limits (ls : list layer) (b : base) (a i : N) (global : bool) : N * N :=
  match ls with
  | [] => base_limits b i global
  | l :: r => if negb (layers_allocated ls b a i global) then (0, 0)
              else match pfind (skey a i global) (l_store l) with
                   | Some sd => sd_max sd
                   | None => layers_limits r b a i global
                   end
  end.

(* getKey: None = error ("cannot fetch key": not allocated at some level), Some None = no
   such key, Some (Some isBytes) = present *)
Fixpoint layers_getkey (ls : list layer) (b : base) (a i : N) (global : bool) (key : N) : option (option bool) :=
  match ls with
  | [] => if base_allocated b a i global then Some (afind key (base_kv b a i global)) else None
  | l :: r => if negb (layers_allocated ls b a i global) then None
              else match pfind (skey a i global) (l_store l) with
                   | Some sd => match afind key (sd_kv sd) with
                                | Some v => Some v
                                | None => if sd_action sd =? 1 then layers_getkey r b a i global key else Some None
                                end
                   | None => layers_getkey r b a i global key
                   end
  end.
Definition getkey (c : cow) (a i : N) (global : bool) (key : N) : option (option bool) :=
  layers_getkey (c_top c :: c_parents c) (c_base c) a i global key.

(* ensureStorageDelta: the record of the current cow, created from what the chain says *)
Definition ensure_sd (c : cow) (a i : N) (global : bool) (action : N) : sdelta :=
  match pfind (skey a i global) (l_store (c_top c)) with
  | Some sd => sd
  | None => mkSD action [] (layers_counts (c_top c :: c_parents c) (c_base c) a i global)
                 (layers_limits (c_top c :: c_parents c) (c_base c) a i global)
  end.

Definition put_sd (c : cow) (a i : N) (global : bool) (sd : sdelta) : cow :=
  set_top c (upd_store (c_top c) (pupsert (skey a i global) sd (l_store (c_top c)))).

(* updateCounts: ++ / -- wrap *)
Definition dec64 (n : N) : N := (n + 2 ^ 64 - 1) mod 2 ^ 64.
Definition inc64 (n : N) : N := (n + 1) mod 2 ^ 64.
Definition update_counts (cnt : N * N) (old new : option bool) : N * N :=
  let c1 := match old with
            | Some true => (fst cnt, dec64 (snd cnt))
            | Some false => (dec64 (fst cnt), snd cnt)
            | None => cnt
            end in
  match new with
  | Some true => (fst c1, inc64 (snd c1))
  | Some false => (inc64 (fst c1), snd c1)
  | None => c1
  end.
Definition counts_ok (sd : sdelta) : bool :=
  (fst (sd_counts sd) <=? fst (sd_max sd)) && (snd (sd_counts sd) <=? snd (sd_max sd)).

(* ------------------------------------------------------------------ boxes (KvMods) *)
Definition base_box (b : base) (k : N * N) : option N := pfind k (b_boxes b).
Fixpoint layers_box (ls : list layer) (b : base) (k : N * N) : option N :=
  match ls with
  | [] => base_box b k
  | l :: r => match pfind k (l_boxes l) with
              | Some v => v
              | None => layers_box r b k
              end
  end.
(* kvGet of a box key: its size if it exists *)
Definition get_box (c : cow) (app name : N) : option N := layers_box (c_top c :: c_parents c) (c_base c) (app, name).
Definition put_box (c : cow) (app name : N) (v : option N) : cow :=
  set_top c (upd_boxes (c_top c) (pupsert (app, name) v (l_boxes (c_top c)))).

(* incTxnCount *)
Definition inc_txncount (c : cow) : cow :=
  set_top c (upd_txncount (c_top c) ((l_txncount (c_top c) + 1) mod 2 ^ 64)).
