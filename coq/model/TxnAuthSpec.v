(* C28: the DECLARATIVE statement of "authorised by address a", independent of the order of
   checks in the verifier, as a Prop ([authorised_by]) and as the executable oracle that
   [check] evaluates on the implementation's own accept/reject observation ([authorised_b]).
   Their equivalence is proved in proofs/TxnAuthProofs.v.  No proofs here. *)
From Coq Require Import String Ascii NArith ZArith List Bool.
Import ListNotations.
From Verif.lib Require Import Term.
From Verif.model Require Import Commitments TxnAuth.
Open Scope N_scope.

Section Spec.
  Variable sig_ok : bytes -> bytes -> bytes -> bool.
  Variable pq_ok : bytes -> bytes -> bytes -> bytes -> bool.
  Variable H : bytes -> bytes.

  Definition sig_present (s : stxn) : bool := negb (all_zero (t_sig s)).
  Definition msig_present (s : stxn) : bool := negb (msig_blank (t_msig s)).
  Definition lsig_present (s : stxn) : bool := has_program (t_lsig s).
  Definition pq_present (s : stxn) : bool := negb (pq_blank (t_pq s)).

  Definition count_true (l : list bool) : nat := length (filter (fun b => b) l).
  Definition categories (s : stxn) : list bool :=
    [sig_present s; msig_present s; lsig_present s; pq_present s].
  Definition exactly_one_category (s : stxn) : Prop := count_true (categories s) = 1%nat.
  Definition exactly_one_b (s : stxn) : bool := (count_true (categories s) =? 1)%nat.

  (* the one exemption in the code: the state proof transaction from the special sender
     carries no authorization at all *)
  Definition sp_exempt (s : stxn) : Prop := t_is_sp s = true /\ count_true (categories s) = 0%nat.
  Definition sp_exempt_b (s : stxn) : bool := t_is_sp s && (count_true (categories s) =? 0)%nat.

  (* sub-signatures that are present and verify under their own key *)
  Definition valid_subsigs (msg : bytes) (subs : list subsig) : list subsig :=
    filter (fun s => negb (all_zero (ss_sig s)) && sig_ok (ss_key s) msg (ss_sig s)) subs.

  (* version-1 multisig whose recomputed address is a, with >= threshold valid sub-signatures *)
  Definition msig_authorises (a msg : bytes) (m : msig) : Prop :=
    ms_v m = 1 /\ 1 <= ms_thr m /\
    H (str "MultisigAddr" ++ [ms_v m; ms_thr m] ++ flat_map ss_key (ms_subs m)) = a /\
    ms_thr m <= blen (valid_subsigs msg (ms_subs m)).
  Definition msig_authorises_b (a msg : bytes) (m : msig) : bool :=
    (ms_v m =? 1) && (1 <=? ms_thr m) &&
    beqb (H (str "MultisigAddr" ++ [ms_v m; ms_thr m] ++ flat_map ss_key (ms_subs m))) a &&
    (ms_thr m <=? blen (valid_subsigs msg (ms_subs m))).

  Definition pq_authorises (a msg : bytes) (q : pqsig) : Prop :=
    pq_scheme q = scheme_f1 /\ H (str "PQA" ++ pq_scheme q ++ [pq_salt q] ++ pq_pk q) = a /\
    pq_sg q <> [] /\ pq_ok (pq_scheme q) (pq_pk q) msg (pq_sg q) = true.
  Definition pq_authorises_b (a msg : bytes) (q : pqsig) : bool :=
    beqb (pq_scheme q) scheme_f1 && beqb (H (str "PQA" ++ pq_scheme q ++ [pq_salt q] ++ pq_pk q)) a &&
    negb (length (pq_sg q) =? 0)%nat && pq_ok (pq_scheme q) (pq_pk q) msg (pq_sg q).

  (* an approving LogicSig that belongs to a: the program hashes to a (contract account), or a
     delegated it by a signature of a's key / a multisig whose address is a / a PQ key whose
     address is a *)
  Definition lsig_authorises (a : bytes) (l : lsig) : Prop :=
    l_eval l = 0 /\
    (H (program_msg (l_logic l)) = a \/
     (all_zero (l_sig l) = false /\ sig_ok a (program_msg (l_logic l)) (l_sig l) = true) \/
     msig_authorises a (program_msg (l_logic l)) (l_msig l) \/
     msig_authorises a (msig_program_msg a (l_logic l)) (l_lmsig l) \/
     pq_authorises a (pq_program_msg a (l_logic l)) (l_pq l)).
  Definition lsig_authorises_b (a : bytes) (l : lsig) : bool :=
    (l_eval l =? 0) &&
    (beqb (H (program_msg (l_logic l))) a ||
     (negb (all_zero (l_sig l)) && sig_ok a (program_msg (l_logic l)) (l_sig l)) ||
     msig_authorises_b a (program_msg (l_logic l)) (l_msig l) ||
     msig_authorises_b a (msig_program_msg a (l_logic l)) (l_lmsig l) ||
     pq_authorises_b a (pq_program_msg a (l_logic l)) (l_pq l)).

  (* the transaction, exactly as encoded, is authorised by address a *)
  Definition authorised_by (a : bytes) (s : stxn) : Prop :=
    (sig_present s = true /\ sig_ok a (txn_msg s) (t_sig s) = true) \/
    (msig_present s = true /\ msig_authorises a (txn_msg s) (t_msig s)) \/
    (lsig_present s = true /\ lsig_authorises a (t_lsig s)) \/
    (pq_present s = true /\ pq_authorises a (txn_msg s) (t_pq s)).
  Definition authorised_b (a : bytes) (s : stxn) : bool :=
    (sig_present s && sig_ok a (txn_msg s) (t_sig s)) ||
    (msig_present s && msig_authorises_b a (txn_msg s) (t_msig s)) ||
    (lsig_present s && lsig_authorises_b a (t_lsig s)) ||
    (pq_present s && pq_authorises_b a (txn_msg s) (t_pq s)).

  (* what acceptance of a transaction must imply *)
  Definition accept_ok (a : bytes) (s : stxn) : Prop :=
    sp_exempt s \/ (exactly_one_category s /\ authorised_by a s).
  Definition accept_ok_b (a : bytes) (s : stxn) : bool :=
    sp_exempt_b s || (exactly_one_b s && authorised_b a s).

  (* every signature that is present in the category that is used (and whatever the heartbeat
     proof enqueues) *)
  Definition msig_items (msg : bytes) (m : msig) : list item :=
    if msig_blank m then [] else
    map (fun s => (ss_key s, msg, ss_sig s)) (filter (fun s => negb (all_zero (ss_sig s))) (ms_subs m)).
  Definition lsig_items (a : bytes) (l : lsig) : list item :=
    (if all_zero (l_sig l) then [] else [(a, program_msg (l_logic l), l_sig l)]) ++
    msig_items (program_msg (l_logic l)) (l_msig l) ++
    msig_items (msig_program_msg a (l_logic l)) (l_lmsig l).
  Definition present_sigs (s : stxn) : list item :=
    t_extra s ++
    (if sig_present s then [(authorizer s, txn_msg s, t_sig s)] else []) ++
    msig_items (txn_msg s) (t_msig s) ++
    (if lsig_present s then lsig_items (authorizer s) (t_lsig s) else []).
End Spec.
