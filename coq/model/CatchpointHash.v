(* C15 model: byte-exact pre-images of the catchpoint commitments.

   Transcribed from
     /repo/ledger/store/trackerdb/hashing.go      hashBufV6, finishV6, AccountHashBuilderV6,
                                                  ResourcesHashBuilderV6 (+ rdGetCreatableHashKind),
                                                  KvHashBuilderV6, the HashKind enumeration
     github.com/algorand/avm-abi/apps/box.go      MakeBoxKey
     /repo/ledger/ledgercore/catchpointlabel.go   CatchpointLabelMakerV6/V7/Current.buffer, MakeLabel
     /repo/ledger/catchpointtracker.go            createCatchpoint (label version selection),
                                                  accountsUpdateBalances / recordFirstStageInfo
                                                  (the trie = set of leaves, its root goes into the label)
   over an ABSTRACT hash function [H] (crypto.Hash); bytes are [list N] with every element < 256.
   go-codec/msgp encodings of BaseAccountData / ResourcesData are inputs (byte strings); the
   reflection encoding of ledgercore.AccountTotals is transcribed ([enc_totals]) because the
   label code calls the encoder itself.
   No proofs in this file. *)
From Coq Require Import List NArith Bool.
Import ListNotations.
Open Scope N_scope.

Definition bytes := list N.

(* Go's builtin copy(dst, src) on a dst slice: overwrites min(len) bytes, keeps the rest *)
Definition go_copy (dst src : bytes) : bytes :=
  firstn (length dst) src ++ skipn (length src) dst.

(* for i := n-1; i >= 0; i-- { buf[i] = byte(x); x >>= 8 }    (big-endian low n bytes) *)
Fixpoint be_low (n : nat) (x : N) (acc : bytes) : bytes :=
  match n with
  | O => acc
  | S n' => be_low n' (x / 256) (x mod 256 :: acc)
  end.

(* binary.LittleEndian.PutUint64 and friends: n low bytes, least significant first *)
Fixpoint le_bytes (n : nat) (x : N) : bytes :=
  match n with
  | O => []
  | S n' => x mod 256 :: le_bytes n' (x / 256)
  end.

(* HashKind *)
Definition AccountHK : N := 0.
Definition AssetHK : N := 1.
Definition AppHK : N := 2.
Definition KvHK : N := 3.

Definition digestSize : nat := 32.

Section Builders.
  Variable H : bytes -> bytes.                     (* crypto.Hash = SHA-512/256 *)

  (* hashBufV6: make([]byte, 4+32); hash[0..3] = low 32 bits of affinity (big endian);
     hash[HashKindEncodingIndex = 4] = kind *)
  Definition hashBufV6 (affinity kind : N) : bytes :=
    be_low 4 affinity [] ++ kind :: repeat 0 (digestSize - 1).

  (* finishV6: copy(v6hash[5:], entryHash[1:]) *)
  Definition finishV6 (v6hash prehash : bytes) : bytes :=
    firstn 5 v6hash ++ go_copy (skipn 5 v6hash) (tl (H prehash)).

  (* what a leaf keeps of the digest of its pre-image: bytes 1..31 *)
  Definition trunc31 (prehash : bytes) : bytes :=
    go_copy (repeat 0 (digestSize - 1)) (tl (H prehash)).

  (* AccountHashBuilderV6(addr, accountData{UpdateRound, RewardsBase}, encodedAccountData);
     addr is a [32]byte *)
  Definition account_prehash (addr enc : bytes) : bytes := addr ++ enc.
  Definition account_affinity (upd rb : N) : N := if upd =? 0 then rb else upd.
  Definition account_leaf (addr : bytes) (upd rb : N) (enc : bytes) : bytes :=
    finishV6 (hashBufV6 (account_affinity upd rb) AccountHK) (account_prehash addr enc).

  (* rdGetCreatableHashKind: IsAsset() first, then IsApp(), otherwise an error *)
  Definition resource_kind (is_asset is_app : bool) : option N :=
    if is_asset then Some AssetHK else if is_app then Some AppHK else None.

  (* ResourcesHashBuilderV6(rd, addr, cidx, updateRound, encodedResourceData) *)
  Definition resource_prehash (addr : bytes) (cidx : N) (enc : bytes) : bytes :=
    addr ++ le_bytes 8 cidx ++ enc.
  Definition resource_leaf_k (kind : N) (addr : bytes) (cidx upd : N) (enc : bytes) : bytes :=
    finishV6 (hashBufV6 upd kind) (resource_prehash addr cidx enc).
  Definition resource_leaf (is_asset is_app : bool) (addr : bytes) (cidx upd : N) (enc : bytes)
    : option bytes :=
    match resource_kind is_asset is_app with
    | Some k => Some (resource_leaf_k k addr cidx upd enc)
    | None => None
    end.

  (* KvHashBuilderV6(key, value): prehash = key ‖ value, nothing in between *)
  Definition kv_prehash (key value : bytes) : bytes := key ++ value.
  Definition kv_leaf (key value : bytes) : bytes :=
    finishV6 (hashBufV6 0 KvHK) (kv_prehash key value).

  (* ---- entries of a ledger state as the catchpoint tracker hashes them ---- *)
  Inductive entry : Type :=
  | EAcct (addr : bytes) (upd rb : N) (enc : bytes)
  | ERes (addr : bytes) (cidx : N) (is_asset is_app : bool) (upd : N) (enc : bytes)
  | EKv (key value : bytes).

  Definition leaf_of (e : entry) : option bytes :=
    match e with
    | EAcct a u r enc => Some (account_leaf a u r enc)
    | ERes a c ia ip u enc => resource_leaf ia ip a c u enc
    | EKv k v => Some (kv_leaf k v)
    end.

  Definition prehash_of (e : entry) : bytes :=
    match e with
    | EAcct a _ _ enc => account_prehash a enc
    | ERes a c _ _ _ enc => resource_prehash a c enc
    | EKv k v => kv_prehash k v
    end.

  (* the kind byte a well-formed entry is hashed under (4 = none: the builder errors) *)
  Definition kind_of (e : entry) : N :=
    match e with
    | EAcct _ _ _ _ => AccountHK
    | ERes _ _ ia ip _ _ => match resource_kind ia ip with Some k => k | None => 4 end
    | EKv _ _ => KvHK
    end.

  (* ---- catchpoint label ---- *)
  (* CatchpointLabelMaker{V6,V7,Current}.buffer(): block hash ‖ trie root ‖ EncodeReflect(totals)
     ‖ the version's extra digests (V7: spver; Current: spver, onlineaccounts, onlineroundparams) *)
  Definition label_buffer (bh root totals_enc : bytes) (extras : list bytes) : bytes :=
    bh ++ root ++ totals_enc ++ concat extras.
  Definition label_digest (bh root totals_enc : bytes) (extras : list bytes) : bytes :=
    H (label_buffer bh root totals_enc extras).
End Builders.

(* createCatchpoint: which label maker is used *)
Definition label_version (withOnlineAccounts withSPContexts : bool) : option N :=
  if withOnlineAccounts then (if withSPContexts then Some 8 else None)
  else if withSPContexts then Some 7 else Some 6.

Definition label_extras (ver : N) (spver onl onlrp : bytes) : list bytes :=
  if ver =? 6 then [] else if ver =? 7 then [spver] else [spver; onl; onlrp].

(* apps.MakeBoxKey(appIdx, name) = "bx:" ‖ 8-byte big-endian app id ‖ name *)
Definition make_box_key (app : N) (name : bytes) : bytes :=
  [98; 120; 58] ++ be_low 8 app [] ++ name.

(* ---- msgpack (go-codec, canonical, omitempty) encoding of ledgercore.AccountTotals ---- *)
Definition msgp_uint (x : N) : bytes :=
  if x <? 128 then [x]
  else if x <? 256 then [204; x]
  else if x <? 65536 then 205 :: be_low 2 x []
  else if x <? 4294967296 then 206 :: be_low 4 x []
  else 207 :: be_low 8 x [].

(* fixstr header + ASCII name, names are shorter than 32 bytes *)
Definition msgp_name (s : bytes) : bytes := (160 + N.of_nat (length s)) :: s.

(* a struct with omitempty: fixmap header with the number of non-empty fields, then
   name/value pairs of the non-empty fields in codec-name order *)
Definition msgp_struct (fields : list (bytes * option bytes)) : bytes :=
  let present := filter (fun f => match snd f with Some _ => true | None => false end) fields in
  (128 + N.of_nat (length present)) ::
  concat (map (fun f => match snd f with Some v => msgp_name (fst f) ++ v | None => [] end) present).

Definition opt_uint (x : N) : option bytes := if x =? 0 then None else Some (msgp_uint x).

(* AlgoCount{Money `mon`, RewardUnits `rwd`} *)
Definition enc_algocount (mon rwd : N) : option bytes :=
  if (mon =? 0) && (rwd =? 0) then None
  else Some (msgp_struct [([109; 111; 110], opt_uint mon); ([114; 119; 100], opt_uint rwd)]).

Record totals := { t_on_mon : N; t_on_rwd : N; t_off_mon : N; t_off_rwd : N;
                   t_np_mon : N; t_np_rwd : N; t_lvl : N }.

(* AccountTotals{Online `online`, Offline `offline`, NotParticipating `notpart`, RewardsLevel `rwdlvl`};
   canonical order of the names: notpart < offline < online < rwdlvl *)
Definition enc_totals (t : totals) : bytes :=
  msgp_struct [ ([110; 111; 116; 112; 97; 114; 116], enc_algocount (t_np_mon t) (t_np_rwd t));
                ([111; 102; 102; 108; 105; 110; 101], enc_algocount (t_off_mon t) (t_off_rwd t));
                ([111; 110; 108; 105; 110; 101], enc_algocount (t_on_mon t) (t_on_rwd t));
                ([114; 119; 100; 108; 118; 108], opt_uint (t_lvl t)) ].

(* ---- MakeLabel: fmt.Sprintf("%d#%s", round, base32(StdEncoding, no padding)(hash)) ---- *)
Fixpoint dec_digits (fuel : nat) (n : N) (acc : bytes) : bytes :=
  match fuel with
  | O => acc
  | S f => let acc' := (48 + n mod 10) :: acc in
           if n / 10 =? 0 then acc' else dec_digits f (n / 10) acc'
  end.
Definition decimal (n : N) : bytes := dec_digits (S (N.to_nat (N.size n))) n [].

Definition b32_char (v : N) : N := if v <? 26 then 65 + v else 24 + v.    (* 'A'.. / '2'.. *)

(* bit accumulator: [acc] holds [nbits] (< 5) pending bits *)
Fixpoint b32_go (l : bytes) (acc nbits : N) : bytes :=
  match l with
  | [] => if nbits =? 0 then [] else [b32_char ((acc * 2 ^ (5 - nbits)) mod 32)]
  | b :: l' =>
      let acc1 := acc * 256 + b in
      let n1 := nbits + 8 in
      (* n1 in 8..12: one or two groups of 5 bits are complete *)
      let c1 := (acc1 / 2 ^ (n1 - 5)) mod 32 in
      let n2 := n1 - 5 in
      let acc2 := acc1 mod 2 ^ n2 in
      if n2 <? 5 then b32_char c1 :: b32_go l' acc2 n2
      else
        let c2 := (acc2 / 2 ^ (n2 - 5)) mod 32 in
        let n3 := n2 - 5 in
        b32_char c1 :: b32_char c2 :: b32_go l' (acc2 mod 2 ^ n3) n3
  end.
Definition base32 (l : bytes) : bytes := b32_go l 0 0.

Definition make_label (H : bytes -> bytes) (round : N) (bh root totals_enc : bytes)
           (extras : list bytes) : bytes :=
  decimal round ++ [35] ++ base32 (label_digest H bh root totals_enc extras).
