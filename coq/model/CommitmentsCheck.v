(* C29: declarative oracles and the executable [check] for the harness cases.

   case kinds (HTAB rows are (preimage digest) for tg/cg/tt and (kind preimage digest) for cm/pc)
     (tg ...)                                   see model/TxnAuthCheck.v (TransactionGroup)
     (cg ((group body)...) HTAB OBS ORIG)       transactions.CheckTxnGroup
     (tt maxGroup ((group body preOk)...) HTAB OBS ORIG)   BlockEvaluator.TestTransactionGroup
        OBS = (ok) | (err class index);  ORIG = () | (gid (body...)): the group id and the
        members (Group blanked) of the committed group that the case was derived from
     (cm (protoOk type sha256 sha512) ((stibEnc (txnEnc)|())...) (native sha256 sha512) HTAB match ORIG)
        Block.ContentsMatchHeader; ORIG = () | ((stibEnc...)): the payset that the (unmodified)
        header commitment was computed from by the real PaysetCommit
     (pc protoOk sha512 prevRound round branch branch512 prevEnc restOk HTAB OBS (origBranch origPrevEnc))
        BlockHeader.PreCheck; origBranch = hash of the previous header origPrevEnc as computed by
        the real code before the mutation *)
From Coq Require Import String Ascii NArith ZArith List Bool.
Import ListNotations.
From Verif.lib Require Import Term.
From Verif.model Require Import Commitments TxnAuth TxnAuthSpec TxnAuthCheck.
Open Scope N_scope.

Section Spec.
  Variable H : N -> bytes -> bytes.

  (* "every member carries the group id, and it is the hash of all members' ids in order"
     (a lone transaction may carry no group id at all) *)
  Definition group_bound (g : list gtx) : bool :=
    match g with
    | [] => true
    | t0 :: _ =>
        ((length g =? 1)%nat && all_zero (g_grp t0)) ||
        (negb (all_zero (g_grp t0)) && forallb (fun t => beqb (g_grp t) (g_grp t0)) g &&
         beqb (g_grp t0) (group_hash H (member_ids H g)))
    end.

  (* the case was derived from a group committed to by [gid]: whoever still carries that id
     must consist of exactly the committed members, in order *)
  Definition orig_rule (g : list gtx) (orig : option (bytes * list bytes)) : bool :=
    match orig, g with
    | Some (gid, bodies), t0 :: _ =>
        if beqb (g_grp t0) gid && negb (all_zero gid)
        then list_eqb beqb (map g_body g) bodies else true
    | _, _ => true
    end.

  Definition spec_group (accepted : bool) (g : list gtx) (orig : option (bytes * list bytes)) : bool :=
    negb accepted || (group_bound g && orig_rule g orig).

  (* PreCheck accepted: the header names the successor round and the hash(es) of prev *)
  Definition links (i : pcin) : bool :=
    (((pc_prev_round i + 1) mod 2 ^ 64) =? pc_round i) &&
    beqb (pc_branch i) (header_hash H K512_256 (pc_prev_enc i)) &&
    (if pc_sha512 i then beqb (pc_branch512 i) (header_hash H K512 (pc_prev_enc i))
     else beqb (pc_branch512 i) (zeros 64)).
End Spec.

Definition dec_gtx (t : term) : option gtx :=
  match t with TL [TB g; TB b] => Some (mkGtx g b) | _ => None end.
Definition dec_gtx_pre (t : term) : option (gtx * bool) :=
  match t with
  | TL [TB g; TB b; p] => match as_bool p with Some p => Some (mkGtx g b, p) | None => None end
  | _ => None
  end.

Definition t_gres (r : gres) : term :=
  let e (c : string) (i : Z) := TL [TS "err"; TS c; TZ i] in
  match r with
  | GOk => TL [TS "ok"]
  | GErrEmpty i => e "grp_empty"%string (Z.of_N i)
  | GErrInconsistent i => e "grp_inconsistent"%string (Z.of_N i)
  | GErrIncomplete => e "grp_incomplete"%string (-1)%Z
  end.
Definition t_tres (r : tres) : term :=
  let e (c : string) (i : Z) := TL [TS "err"; TS c; TZ i] in
  match r with
  | TOk => TL [TS "ok"]
  | TErrTooBig => e "toobig"%string (-1)%Z
  | TErrPre i => e "pre"%string (Z.of_N i)
  | TErrGroup (GErrEmpty i) => e "grp_empty"%string (Z.of_N i)
  | TErrGroup (GErrInconsistent _) => e "grp_inconsistent"%string (-1)%Z
  | TErrGroup GErrIncomplete => e "grp_incomplete"%string (-1)%Z
  | TErrGroup GOk => e "grp_ok"%string (-1)%Z
  end.

Definition dec_h3row (t : term) : option (N * bytes * bytes) :=
  match t with
  | TL [k; TB pre; TB d] => match as_N k with Some k => Some (k, pre, d) | None => None end
  | _ => None
  end.
Definition dec_stib (t : term) : option stib :=
  match t with
  | TL [TB enc; TL []] => Some (mkStib enc None)
  | TL [TB enc; TL [TB tenc]] => Some (mkStib enc (Some tenc))
  | _ => None
  end.
Definition dec_cparams (t : term) : option cparams :=
  match t with
  | TL [a; b; c; d] =>
      match as_bool a, as_N b, as_bool c, as_bool d with
      | Some a, Some b, Some c, Some d => Some (mkCParams a b c d)
      | _, _, _, _ => None
      end
  | _ => None
  end.
Definition dec_encs (t : term) : option (option (list bytes)) :=
  match t with
  | TL [] => Some None
  | TL [TL l] => match map_opt as_bytes l with Some l => Some (Some l) | None => None end
  | _ => None
  end.

Definition t_pres (r : pres) : term :=
  TS (match r with
      | POk => "ok" | PErrProto => "proto" | PErrRound => "round" | PErrBranch => "branch"
      | PErrBranch512 => "branch512" | PErrBranch512NotAllowed => "branch512_notallowed"
      | PErrOther => "other"
      end)%string.

Definition check (t : term) : term :=
  match t with
  | TL (TS "tg" :: _) =>
      match dec_tg t with
      | None => v_parse
      | Some c =>
          let g := map e_gtx (tg_txs c) in
          let m := tg_model_obs c in
          verdict (spec_group (tg_H c) (tg_accepted (tg_obs c)) g (tg_orig c))
                  (term_eqb (tg_obs c) m)
                  ((1 <? length g)%nat || existsb (fun x => negb (all_zero (g_grp x))) g) m
      end
  | TL [TS "cg"; TL txs; TL h; obs; orig] =>
      match map_opt dec_gtx txs, map_opt dec_hrow h, dec_orig orig with
      | Some g, Some h, Some orig =>
          let Hf := fun _ : N => h_of h in
          let m := t_gres (check_group_id Hf g) in
          verdict (spec_group Hf (obs_ok obs) g orig) (term_eqb obs m)
                  ((1 <? length g)%nat || existsb (fun x => negb (all_zero (g_grp x))) g) m
      | _, _, _ => v_parse
      end
  | TL [TS "tt"; mg; TL txs; TL h; obs; orig] =>
      match as_N mg, map_opt dec_gtx_pre txs, map_opt dec_hrow h, dec_orig orig with
      | Some mg, Some gp, Some h, Some orig =>
          let Hf := fun _ : N => h_of h in
          let g := map fst gp in
          let m := t_tres (test_txgroup Hf mg gp) in
          verdict (spec_group Hf (obs_ok obs) g orig) (term_eqb obs m)
                  ((1 <? length g)%nat || existsb (fun x => negb (all_zero (g_grp x))) g) m
      | _, _, _, _ => v_parse
      end
  | TL [TS "cm"; ps; TL stibs; TL [TB c0; TB c1; TB c2]; TL h; mt; orig] =>
      match dec_cparams ps, map_opt dec_stib stibs, map_opt dec_h3row h, as_bool mt, dec_encs orig with
      | Some p, Some l, Some h, Some mt, Some orig =>
          let Hf := hlookup h in
          let hdr := mkCommit c0 c1 c2 in
          let m := contents_match Hf p l hdr in
          (* accepted => the payset is, byte for byte, the one the header was computed from *)
          let spec := negb mt ||
                      match orig with
                      | Some encs => list_eqb beqb (map s_enc l) encs
                      | None => true
                      end in
          verdict spec (Bool.eqb mt m) true (tb m)
      | _, _, _, _, _ => v_parse
      end
  | TL [TS "pc"; po; s5; pr; rd; TB br; TB br5; TB penc; ro; TL h; obs; TL [TB obr; TB openc]] =>
      match as_bool po, as_bool s5, as_N pr, as_N rd, as_bool ro, map_opt dec_h3row h with
      | Some po, Some s5, Some pr, Some rd, Some ro, Some h =>
          let Hf := hlookup h in
          let i := mkPc po s5 pr rd br br5 penc ro in
          let m := t_pres (precheck Hf i) in
          let acc := term_eqb obs (TS "ok") in
          let spec := negb acc ||
                      (links Hf i && (negb (beqb br obr) || beqb penc openc)) in
          verdict spec (term_eqb obs m) true m
      | _, _, _, _, _, _ => v_parse
      end
  | _ => v_parse
  end.
