(* C35: the declarative availability rule [justified] ("the transaction group made it available
   under the program version's sharing rules"), its executable form [justified_b] (the oracle that
   [check] applies to the resources the IMPLEMENTATION touched), and [check].  No proofs. *)
From Coq Require Import List NArith ZArith Bool String.
From Verif.lib Require Import Term.
From Verif.model Require Import AvmResources.
Import ListNotations.
Open Scope N_scope.

Section Spec.
Variable appaddr : N -> addr.

(* ------------------------------------------------------------ what one transaction names *)
(* the accounts an application call using foreign arrays brings in *)
Definition foreign_account (s : addr) (ap : appl) (a : addr) : Prop :=
  a = s \/ In a (ap_accounts ap) \/ (ap_id ap <> 0 /\ a = appaddr (ap_id ap)) \/
  exists f, In f (ap_fapps ap) /\ a = appaddr f.
Definition foreign_app (ap : appl) (p : N) : Prop := (ap_id ap <> 0 /\ p = ap_id ap) \/ In p (ap_fapps ap).

Definition names_acct (t : txn) (a : addr) : Prop :=
  match t with
  | TPay s r c => a = s \/ a = r \/ (c <> 0 /\ a = c)
  | TKeyreg s => a = s
  | TAcfg s _ => a = s
  | TAxfer s _ r asnd cl => a = s \/ a = r \/ (asnd <> 0 /\ a = asnd) \/ (cl <> 0 /\ a = cl)
  | TAfrz s _ f => a = s \/ a = f
  | TAppl s ap =>
      match ap_access ap with
      | Some l => a = s \/ (a <> 0 /\ In (RAddr a) l)
      | None => foreign_account s ap a
      end
  | TOther _ => False
  end.

Definition names_asset (t : txn) (n : N) : Prop :=
  match t with
  | TAcfg _ id => id <> 0 /\ n = id
  | TAxfer _ id _ _ _ => n = id
  | TAfrz _ id _ => n = id
  | TAppl _ ap =>
      match ap_access ap with
      | Some l => n <> 0 /\ In (RAsset n) l
      | None => In n (ap_fassets ap)
      end
  | _ => False
  end.

Definition names_app (t : txn) (p : N) : Prop :=
  match t with
  | TAppl _ ap =>
      match ap_access ap with
      | Some l => (ap_id ap <> 0 /\ p = ap_id ap) \/ (p <> 0 /\ In (RApp p) l)
      | None => foreign_app ap p
      end
  | _ => False
  end.

(* a holding is named as a PAIR: naming the account in one transaction and the asset in another
   does not name the holding *)
Definition names_hold (t : txn) (a : addr) (n : N) : Prop :=
  match t with
  | TAxfer s id r asnd cl => n = id /\ id <> 0 /\ (a = s \/ a = r \/ (asnd <> 0 /\ a = asnd) \/ (cl <> 0 /\ a = cl))
  | TAfrz _ id f => n = id /\ id <> 0 /\ a = f
  | TAppl s ap =>
      match ap_access ap with
      | Some l => exists ai si, In (RHold ai si) l /\ resolve_hold l s ai si = Some (a, n)
      | None => foreign_account s ap a /\ In n (ap_fassets ap)
      end
  | _ => False
  end.

Definition names_loc (t : txn) (a : addr) (p : N) : Prop :=
  match t with
  | TAppl s ap =>
      match ap_access ap with
      | Some l => (ap_id ap <> 0 /\ a = s /\ p = ap_id ap) \/
                  exists ai pi, In (RLoc ai pi) l /\ (ai <> 0 \/ pi <> 0) /\   (* LocalsRef{0,0} is the empty element *)
                                resolve_loc l s (ap_id ap) ai pi = Some (a, p)
      | None => foreign_account s ap a /\ foreign_app ap p
      end
  | _ => False
  end.

(* box references: index 0 = the called app (nothing while it is being created), index i = i-th
   foreign app / Access element *)
Definition box_target (ap : appl) (app0 app : N) : Prop :=
  (app0 <> 0 /\ app = app0) \/ (app0 = 0 /\ ap_id ap <> 0 /\ app = ap_id ap).
Definition names_box (t : txn) (app : N) (name : bytes) : Prop :=
  match t with
  | TAppl _ ap =>
      match ap_access ap with
      | Some l => exists idx app0, In (RBox idx name) l /\ (idx <> 0 \/ name <> []) /\   (* BoxRef{0,nil}: empty *)
                                   resolve_box l idx = Some app0 /\ box_target ap app0 app
      | None => exists idx, In (idx, name) (ap_boxes ap) /\
                  ((idx = 0 /\ box_target ap 0 app) \/
                   (idx <> 0 /\ exists app0, nth1 (ap_fapps ap) idx = Some app0 /\ box_target ap app0 app))
      end
  | _ => False
  end.
(* ... and the index-0 references of a call that creates the app belong to the new app *)
Definition create_names_box (ap : appl) (name : bytes) : Prop :=
  In (0, name) (ap_boxes ap) \/ (name <> [] /\ In (RBox 0 name) (access_of ap)).

(* ------------------------------------------------------------ the rule *)
Definition created_apps (w : world) : list N :=
  map snd (w_creates w) ++ (if ap_id (w_cur w) =? 0 then [w_appid w] else []).
Definition created_calls (w : world) : list (appl * N) :=
  w_creates w ++ (if ap_id (w_cur w) =? 0 then [(w_cur w, w_appid w)] else []).

Definition shared (w : world) : Prop := sharedResourcesVersion <= w_version w.
Definition group_names {A} (w : world) (P : txn -> A -> Prop) (x : A) : Prop :=
  exists t, In t (w_group w) /\ P t x.

Definition J_acct (w : world) (a : addr) : Prop :=
  a = w_sender w \/ In a (ap_accounts (w_cur w)) \/ (a <> 0 /\ In (RAddr a) (access_of (w_cur w)))   (* named by this call *)
  \/ (createdResourcesVersion <= w_version w /\ exists id, In id (created_apps w) /\ a = appaddr id)   (* account of an app created earlier in the group *)
  \/ (shared w /\ group_names w names_acct a)                                                        (* named by any transaction of the group *)
  \/ (appAddressAvailableVersion <= w_version w /\ exists id, In id (ap_fapps (w_cur w)) /\ a = appaddr id)
  \/ a = appaddr (w_appid w).                                                                        (* the program's own account *)

Definition J_asset (w : world) (n : N) : Prop :=
  (n <> 0 /\ In (RAsset n) (access_of (w_cur w))) \/ In n (ap_fassets (w_cur w))
  \/ (createdResourcesVersion <= w_version w /\ In n (w_created_asas w))
  \/ (shared w /\ group_names w names_asset n).

Definition J_app (w : world) (p : N) : Prop :=
  (p <> 0 /\ In (RApp p) (access_of (w_cur w))) \/ In p (ap_fapps (w_cur w))
  \/ (createdResourcesVersion <= w_version w /\ In p (created_apps w))
  \/ p = w_appid w
  \/ (shared w /\ group_names w names_app p).

Definition J_hold (w : world) (a : addr) (n : N) : Prop :=
  if sharedResourcesVersion <=? w_version w then
    group_names w (fun t => names_hold t a) n
    \/ (In n (w_created_asas w) /\ J_acct w a)
    \/ ((exists id, In id (created_apps w) /\ a = appaddr id) /\ J_asset w n)
  else J_acct w a /\ J_asset w n.

Definition J_loc (w : world) (a : addr) (p : N) : Prop :=
  if sharedResourcesVersion <=? w_version w then
    group_names w (fun t => names_loc t a) p
    \/ (In p (created_apps w) /\ J_acct w a)
    \/ ((exists id, In id (created_apps w) /\ a = appaddr id) /\ J_app w p)
  else J_acct w a /\ J_app w p.

(* boxes: named by a transaction of the group (every version that has boxes), or an index-0 reference
   of the call that created the app.  (The third way -- a box of an app created in this group,
   charged to an empty reference -- is a quota, not a name: see box_quota_* in props/C35.v.) *)
Definition J_box (w : world) (app : N) (name : bytes) : Prop :=
  group_names w (fun t => names_box t app) name
  \/ exists c, In c (created_calls w) /\ snd c = app /\ create_names_box (fst c) name.

Definition justified (w : world) (r : resource) : Prop :=
  match r with
  | ResAcct a => J_acct w a
  | ResAsset n => J_asset w n
  | ResApp p => J_app w p
  | ResHold a n => J_hold w a n
  | ResLoc a p => J_loc w a p
  | ResBox app name => J_box w app name
  end.

(* AppForbidLowResources: ids <= 255 can not be looked up by an opcode *)
Definition low_ok (w : world) (r : resource) : Prop :=
  w_forbid_low w = true ->
  match r with
  | ResAsset n | ResApp n | ResHold _ n | ResLoc _ n => lastForbiddenResource < n
  | _ => True
  end.

(* the zero address / id 0 is the empty value of a tx.Access component *)
Definition nonzero (r : resource) : Prop :=
  match r with
  | ResAcct a => a <> 0
  | ResAsset n | ResApp n => n <> 0
  | ResHold a n | ResLoc a n => a <> 0 /\ n <> 0
  | ResBox _ _ => True
  end.

(* ------------------------------------------------------------ executable oracle *)
Definition nzb (x : N) : bool := negb (x =? 0).
Definition rref_eqb (x y : rref) : bool :=
  match x, y with
  | RAddr a, RAddr b => a =? b
  | RAsset a, RAsset b => a =? b
  | RApp a, RApp b => a =? b
  | RHold a b, RHold c d => (a =? c) && (b =? d)
  | RLoc a b, RLoc c d => (a =? c) && (b =? d)
  | RBox i n, RBox j m => (i =? j) && bytes_eqb n m
  | REmpty, REmpty => true
  | _, _ => false
  end.
Definition mem_rref (x : rref) (l : list rref) : bool := existsb (rref_eqb x) l.
Definition opt_pair_is (o : option (addr * N)) (a : addr) (n : N) : bool :=
  match o with Some (a', n') => (a' =? a) && (n' =? n) | None => false end.

Definition foreign_account_b (s : addr) (ap : appl) (a : addr) : bool :=
  (a =? s) || memN a (ap_accounts ap) || (nzb (ap_id ap) && (a =? appaddr (ap_id ap)))
  || existsb (fun f => a =? appaddr f) (ap_fapps ap).
Definition foreign_app_b (ap : appl) (p : N) : bool := (nzb (ap_id ap) && (p =? ap_id ap)) || memN p (ap_fapps ap).

Definition names_acct_b (t : txn) (a : addr) : bool :=
  match t with
  | TPay s r c => (a =? s) || (a =? r) || (nzb c && (a =? c))
  | TKeyreg s => a =? s
  | TAcfg s _ => a =? s
  | TAxfer s _ r asnd cl => (a =? s) || (a =? r) || (nzb asnd && (a =? asnd)) || (nzb cl && (a =? cl))
  | TAfrz s _ f => (a =? s) || (a =? f)
  | TAppl s ap =>
      match ap_access ap with
      | Some l => (a =? s) || (nzb a && mem_rref (RAddr a) l)
      | None => foreign_account_b s ap a
      end
  | TOther _ => false
  end.
Definition names_asset_b (t : txn) (n : N) : bool :=
  match t with
  | TAcfg _ id => nzb id && (n =? id)
  | TAxfer _ id _ _ _ => n =? id
  | TAfrz _ id _ => n =? id
  | TAppl _ ap =>
      match ap_access ap with
      | Some l => nzb n && mem_rref (RAsset n) l
      | None => memN n (ap_fassets ap)
      end
  | _ => false
  end.
Definition names_app_b (t : txn) (p : N) : bool :=
  match t with
  | TAppl _ ap =>
      match ap_access ap with
      | Some l => (nzb (ap_id ap) && (p =? ap_id ap)) || (nzb p && mem_rref (RApp p) l)
      | None => foreign_app_b ap p
      end
  | _ => false
  end.
Definition names_hold_b (t : txn) (a : addr) (n : N) : bool :=
  match t with
  | TAxfer s id r asnd cl =>
      (n =? id) && nzb id && ((a =? s) || (a =? r) || (nzb asnd && (a =? asnd)) || (nzb cl && (a =? cl)))
  | TAfrz _ id f => (n =? id) && nzb id && (a =? f)
  | TAppl s ap =>
      match ap_access ap with
      | Some l => existsb (fun rr => match rr with
                                     | RHold ai si => opt_pair_is (resolve_hold l s ai si) a n
                                     | _ => false
                                     end) l
      | None => foreign_account_b s ap a && memN n (ap_fassets ap)
      end
  | _ => false
  end.
Definition names_loc_b (t : txn) (a : addr) (p : N) : bool :=
  match t with
  | TAppl s ap =>
      match ap_access ap with
      | Some l => (nzb (ap_id ap) && (a =? s) && (p =? ap_id ap)) ||
                  existsb (fun rr => match rr with
                                     | RLoc ai pi => negb ((ai =? 0) && (pi =? 0)) &&
                                                     opt_pair_is (resolve_loc l s (ap_id ap) ai pi) a p
                                     | _ => false
                                     end) l
      | None => foreign_account_b s ap a && foreign_app_b ap p
      end
  | _ => false
  end.
Definition box_target_b (ap : appl) (app0 app : N) : bool :=
  (nzb app0 && (app =? app0)) || ((app0 =? 0) && nzb (ap_id ap) && (app =? ap_id ap)).
Definition names_box_b (t : txn) (app : N) (name : bytes) : bool :=
  match t with
  | TAppl _ ap =>
      match ap_access ap with
      | Some l => existsb (fun rr => match rr with
                                     | RBox idx nm =>
                                         bytes_eqb nm name &&
                                         negb ((idx =? 0) && (match nm with [] => true | _ => false end)) &&
                                         match resolve_box l idx with
                                         | Some app0 => box_target_b ap app0 app
                                         | None => false
                                         end
                                     | _ => false
                                     end) l
      | None => existsb (fun br : N * bytes =>
                           bytes_eqb (snd br) name &&
                           (if fst br =? 0 then box_target_b ap 0 app
                            else match nth1 (ap_fapps ap) (fst br) with
                                 | Some app0 => box_target_b ap app0 app
                                 | None => false
                                 end)) (ap_boxes ap)
      end
  | _ => false
  end.
Definition create_names_box_b (ap : appl) (name : bytes) : bool :=
  memB (0, name) (ap_boxes ap) ||
  (negb (match name with [] => true | _ => false end) && mem_rref (RBox 0 name) (access_of ap)).

Definition shared_b (w : world) : bool := sharedResourcesVersion <=? w_version w.
Definition group_names_b {A} (w : world) (P : txn -> A -> bool) (x : A) : bool :=
  existsb (fun t => P t x) (w_group w).

Definition J_acct_b (w : world) (a : addr) : bool :=
  (a =? w_sender w) || memN a (ap_accounts (w_cur w)) || (nzb a && mem_rref (RAddr a) (access_of (w_cur w)))
  || ((createdResourcesVersion <=? w_version w) && existsb (fun id => a =? appaddr id) (created_apps w))
  || (shared_b w && group_names_b w names_acct_b a)
  || ((appAddressAvailableVersion <=? w_version w) && existsb (fun id => a =? appaddr id) (ap_fapps (w_cur w)))
  || (a =? appaddr (w_appid w)).
Definition J_asset_b (w : world) (n : N) : bool :=
  (nzb n && mem_rref (RAsset n) (access_of (w_cur w))) || memN n (ap_fassets (w_cur w))
  || ((createdResourcesVersion <=? w_version w) && memN n (w_created_asas w))
  || (shared_b w && group_names_b w names_asset_b n).
Definition J_app_b (w : world) (p : N) : bool :=
  (nzb p && mem_rref (RApp p) (access_of (w_cur w))) || memN p (ap_fapps (w_cur w))
  || ((createdResourcesVersion <=? w_version w) && memN p (created_apps w))
  || (p =? w_appid w)
  || (shared_b w && group_names_b w names_app_b p).
Definition J_hold_b (w : world) (a : addr) (n : N) : bool :=
  if sharedResourcesVersion <=? w_version w then
    group_names_b w (fun t => names_hold_b t a) n
    || (memN n (w_created_asas w) && J_acct_b w a)
    || (existsb (fun id => a =? appaddr id) (created_apps w) && J_asset_b w n)
  else J_acct_b w a && J_asset_b w n.
Definition J_loc_b (w : world) (a : addr) (p : N) : bool :=
  if sharedResourcesVersion <=? w_version w then
    group_names_b w (fun t => names_loc_b t a) p
    || (memN p (created_apps w) && J_acct_b w a)
    || (existsb (fun id => a =? appaddr id) (created_apps w) && J_app_b w p)
  else J_acct_b w a && J_app_b w p.
Definition J_box_b (w : world) (app : N) (name : bytes) : bool :=
  group_names_b w (fun t => names_box_b t app) name
  || existsb (fun c : appl * N => (snd c =? app) && create_names_box_b (fst c) name) (created_calls w).

Definition justified_b (w : world) (r : resource) : bool :=
  match r with
  | ResAcct a => J_acct_b w a
  | ResAsset n => J_asset_b w n
  | ResApp p => J_app_b w p
  | ResHold a n => J_hold_b w a n
  | ResLoc a p => J_loc_b w a p
  | ResBox app name => J_box_b w app name
  end.

(* the recorded deviation: tx.Access is searched by struct component (IndexByAddress: rr.Address ==
   target, availableAsset: rr.Asset == aid, availableApp: rr.App == aid), so the zero address / id 0
   is "named" by any element of another kind *)
Definition zero_acct_via_access (w : world) (a : addr) : bool :=
  (a =? 0) && existsb (fun rr => rr_address rr =? 0) (access_of (w_cur w)).
Definition zero_asset_via_access (w : world) (n : N) : bool :=
  (n =? 0) && existsb (fun rr => rr_asset rr =? 0) (access_of (w_cur w)).
Definition zero_app_via_access (w : world) (n : N) : bool :=
  (n =? 0) && existsb (fun rr => rr_app rr =? 0) (access_of (w_cur w)).
Definition zero_via_access (w : world) (r : resource) : bool :=
  match r with
  | ResAcct a => zero_acct_via_access w a
  | ResAsset n => zero_asset_via_access w n
  | ResApp n => zero_app_via_access w n
  | ResHold a n => zero_acct_via_access w a || zero_asset_via_access w n
  | ResLoc a n => zero_acct_via_access w a || zero_app_via_access w n
  | ResBox _ _ => false
  end.

End Spec.

(* the quota for boxes of apps created in the group: one unnamed box per EMPTY reference *)
Definition is_nil (b : bytes) : bool := match b with [] => true | _ => false end.
Definition rref_empty (rr : rref) : bool :=
  match rr with
  | REmpty => true
  | RAddr a | RAsset a | RApp a => a =? 0
  | RHold a s | RLoc a s => (a =? 0) && (s =? 0)
  | RBox i nm => (i =? 0) && is_nil nm
  end.
Definition box_empty (br : N * bytes) : bool := (fst br =? 0) && is_nil (snd br).
Definition empty_refs (t : txn) : N :=
  match t with
  | TAppl _ ap =>
      match ap_access ap with
      | Some l => N.of_nat (List.length (filter rref_empty l))
      | None => N.of_nat (List.length (filter box_empty (ap_boxes ap)))
      end
  | _ => 0
  end.
Definition group_empty_refs (g : list txn) : N := fold_left (fun acc t => acc + empty_refs t) g 0.

(* ==================================================================== checker *)
(* Concrete address space of the harness: 0 = zero address, 1..999 plain accounts, 1000 + id = the
   address of application id. *)
Definition appaddr_c (id : N) : addr := 1000 + id.

Definition p_bytes (t : term) : option bytes := as_bytes t.

Definition p_rref (t : term) : option rref :=
  match t with
  | TL [TS "d"; a] => option_map RAddr (as_N a)
  | TL [TS "s"; a] => option_map RAsset (as_N a)
  | TL [TS "p"; a] => option_map RApp (as_N a)
  | TL [TS "h"; a; b] => match as_N a, as_N b with Some a, Some b => Some (RHold a b) | _, _ => None end
  | TL [TS "l"; a; b] => match as_N a, as_N b with Some a, Some b => Some (RLoc a b) | _, _ => None end
  | TL [TS "b"; a; TB n] => match as_N a with Some a => Some (RBox a n) | None => None end
  | TL [TS "e"] => Some REmpty
  | _ => None
  end.

Definition p_box (t : term) : option (N * bytes) :=
  match t with TL [i; TB n] => match as_N i with Some i => Some (i, n) | None => None end | _ => None end.

Definition p_appl (t : term) : option appl :=
  match t with
  | TL [id; clr; accts; fapps; fassets; TL boxes; acc] =>
      match as_N id, as_bool clr, as_N_list accts, as_N_list fapps, as_N_list fassets, map_opt p_box boxes with
      | Some id, Some clr, Some accts, Some fapps, Some fassets, Some boxes =>
          match acc with
          | TS "none" => Some (mkAppl id clr accts fapps fassets boxes None)
          | TL l => match map_opt p_rref l with
                    | Some l => Some (mkAppl id clr accts fapps fassets boxes (Some l))
                    | None => None
                    end
          | _ => None
          end
      | _, _, _, _, _, _ => None
      end
  | _ => None
  end.

Definition p_txn (t : term) : option txn :=
  match t with
  | TL [TS "pay"; s; r; c] =>
      match as_N s, as_N r, as_N c with Some s, Some r, Some c => Some (TPay s r c) | _, _, _ => None end
  | TL [TS "keyreg"; s] => option_map TKeyreg (as_N s)
  | TL [TS "acfg"; s; a] => match as_N s, as_N a with Some s, Some a => Some (TAcfg s a) | _, _ => None end
  | TL [TS "axfer"; s; a; r; f; c] =>
      match as_N s, as_N a, as_N r, as_N f, as_N c with
      | Some s, Some a, Some r, Some f, Some c => Some (TAxfer s a r f c)
      | _, _, _, _, _ => None
      end
  | TL [TS "afrz"; s; a; f] =>
      match as_N s, as_N a, as_N f with Some s, Some a, Some f => Some (TAfrz s a f) | _, _, _ => None end
  | TL [TS "appl"; s; ap] => match as_N s, p_appl ap with Some s, Some ap => Some (TAppl s ap) | _, _ => None end
  | TL [TS "other"; s] => option_map TOther (as_N s)
  | _ => None
  end.

Definition p_aref (t : term) : option aref :=
  match t with
  | TL [TS "i"; n] => option_map ByIndex (as_N n)
  | TL [TS "a"; n] => option_map ByAddr (as_N n)
  | _ => None
  end.

Definition p_itxn (t : term) : option itxn :=
  match t with
  | TL [TS "pay"; r; c] => match as_N r, as_N c with Some r, Some c => Some (IPay r c) | _, _ => None end
  | TL [TS "axfer"; a; r; f; c] =>
      match as_N a, as_N r, as_N f, as_N c with
      | Some a, Some r, Some f, Some c => Some (IAxfer a r f c)
      | _, _, _, _ => None
      end
  | TL [TS "acfg"; a] => option_map IAcfg (as_N a)
  | TL [TS "afrz"; a; f] => match as_N a, as_N f with Some a, Some f => Some (IAfrz a f) | _, _ => None end
  | TL [TS "appl"; id; accts; fassets; fapps] =>
      match as_N id, as_N_list accts, as_N_list fassets, as_N_list fapps with
      | Some id, Some accts, Some fassets, Some fapps => Some (IAppl id accts fassets fapps)
      | _, _, _, _ => None
      end
  | _ => None
  end.

Definition p_access (t : term) : option access :=
  match t with
  | TL [TS "acct"; r] => option_map AAcct (p_aref r)
  | TL [TS "aparams"; n] => option_map AAssetParams (as_N n)
  | TL [TS "pparams"; n] => option_map AAppParams (as_N n)
  | TL [TS "hold"; r; n] => match p_aref r, as_N n with Some r, Some n => Some (AHold r n) | _, _ => None end
  | TL [TS "loc"; r; n] => match p_aref r, as_N n with Some r, Some n => Some (ALoc r n) | _, _ => None end
  | TL [TS "locmut"; r] => option_map ALocMut (p_aref r)
  | TL [TS "iacct"; a] => option_map AIAcct (as_N a)
  | TL [TS "iasset"; a] => option_map AIAsset (as_N a)
  | TL [TS "iapp"; a] => option_map AIApp (as_N a)
  | TL [TS "isub"; it; cv] => match p_itxn it, as_N cv with Some it, Some cv => Some (AISubmit it cv) | _, _ => None end
  | _ => None
  end.

Definition p_bop (t : term) : option bop :=
  match t with
  | TL [TS k; app; TB name; size] =>
      match as_N app, as_N size with
      | Some app, Some size =>
          if String.eqb k "create" then Some (mkBop BCreate app name size)
          else if String.eqb k "read" then Some (mkBop BRead app name size)
          else if String.eqb k "del" then Some (mkBop BDel app name size)
          else None
      | _, _ => None
      end
  | _ => None
  end.

Definition p_resource (t : term) : option resource :=
  match t with
  | TL [TS "acct"; a] => option_map ResAcct (as_N a)
  | TL [TS "asset"; a] => option_map ResAsset (as_N a)
  | TL [TS "app"; a] => option_map ResApp (as_N a)
  | TL [TS "hold"; a; n] => match as_N a, as_N n with Some a, Some n => Some (ResHold a n) | _, _ => None end
  | TL [TS "loc"; a; n] => match as_N a, as_N n with Some a, Some n => Some (ResLoc a n) | _, _ => None end
  | TL [TS "box"; a; TB n] => match as_N a with Some a => Some (ResBox a n) | None => None end
  | _ => None
  end.

Definition t_resource (r : resource) : term :=
  match r with
  | ResAcct a => TL [TS "acct"; tn a]
  | ResAsset a => TL [TS "asset"; tn a]
  | ResApp a => TL [TS "app"; tn a]
  | ResHold a n => TL [TS "hold"; tn a; tn n]
  | ResLoc a n => TL [TS "loc"; tn a; tn n]
  | ResBox a n => TL [TS "box"; tn a; TB n]
  end.

(* the policy of the package's mockUnnamedResourcePolicy{allowEverything: true} *)
Definition allow_all : policy :=
  mkPolicy (fun _ => true) (fun _ => true) (fun _ => true) (fun _ _ => true) (fun _ _ => true) (fun _ _ => true).

(* WellFormed-ness of tx.Access references (application.go: ResourceRef.wellFormed) *)
Definition wf_rref (l : list rref) (s : addr) (ap : appl) (rr : rref) : bool :=
  match rr with
  | RHold ai si => ((ai =? 0) && (si =? 0)) || (match resolve_hold l s ai si with Some _ => true | None => false end)
  | RLoc ai pi => ((ai =? 0) && (pi =? 0)) ||
                  ((match resolve_loc l s (ap_id ap) ai pi with Some _ => true | None => false end) &&
                   negb ((ap_id ap =? 0) && (pi =? 0)))
  | RBox idx _ => match resolve_box l idx with Some _ => true | None => false end
  | _ => true
  end.
Definition wf_appl (s : addr) (ap : appl) : bool :=
  match ap_access ap with
  | Some l => forallb (wf_rref l s ap) l &&
              match ap_accounts ap, ap_fapps ap, ap_fassets ap, ap_boxes ap with [], [], [], [] => true | _, _, _, _ => false end
  | None => forallb (fun br : N * bytes => fst br <=? N.of_nat (List.length (ap_fapps ap))) (ap_boxes ap)
  end.
Definition wf_txn (t : txn) : bool := match t with TAppl s ap => wf_appl s ap | _ => true end.

Fixpoint p_creates (g : list txn) (l : list term) : option (list (appl * N)) :=
  match l with
  | [] => Some []
  | TL [gi; id] :: rest =>
      match as_N gi, as_N id, p_creates g rest with
      | Some gi, Some id, Some cs =>
          match nth_error g (N.to_nat gi) with
          | Some (TAppl _ ap) => if ap_id ap =? 0 then Some ((ap, id) :: cs) else None
          | _ => None
          end
      | _, _, _ => None
      end
  | _ => None
  end.

Definition class_term (e : N) : term := tn e.
Definition sort_free_eq (a b : list term) : bool :=
  forallb (fun x => existsb (term_eqb x) b) a && forallb (fun x => existsb (term_eqb x) a) b.

(* case = (c35 version forbid_low policy (txn...) gi appid ((gi id)...) (asa...) bytes_per_ref probe obs)
     probe = (one access) | (box op...)
     obs   = (class... ) (touched resource...)       class list: one class for `one`, one per executed op for `box`
   see harness/go/data/transactions/logic/zz_verif_c35_test.go *)
Definition check (t : term) : term :=
  match t with
  | TL [TS "c35"; ver; fl; pl; TL g; gi; appid; TL crs; asas; bpr; probe; TL [TL ocls; TL otouch]] =>
      match as_N ver, as_bool fl, as_bool pl, map_opt p_txn g, as_N gi, as_N appid, as_N_list asas, as_N bpr,
            map_opt as_N ocls, map_opt p_resource otouch with
      | Some ver, Some fl, Some pl, Some g, Some gi, Some appid, Some asas, Some bpr, Some ocls, Some otouch =>
          match p_creates g crs, nth_error g (N.to_nat gi) with
          | Some crs, Some (TAppl s cur) =>
              if negb (forallb wf_txn g) then v_parse else
              let w := mkWorld ver fl g crs asas s cur appid (if pl then Some allow_all else None) in
              let cx := ctx_of appaddr_c w in
              (* the property on the implementation's observation: everything touched is justified *)
              let bad := filter (fun r => negb (justified_b appaddr_c w r)) otouch in
              let spec_ok := pl || match bad with [] => true | _ => false end in
              let known := negb pl && negb (match bad with [] => true | _ => false end) &&
                           forallb (zero_via_access w) bad in
              match probe with
              | TL [TS "one"; acc] =>
                  match p_access acc with
                  | None => v_parse
                  | Some acc =>
                      (* an inner transaction that got past cx.allows under sharing: the holdings / local
                         states it (or its pre-sharing callee) will reach count as touched *)
                      let extra := match acc with
                                   | AISubmit it cv =>
                                       if list_eqb N.eqb ocls [0] && (sharedResourcesVersion <=? ver)
                                       then needs_res (inner_needs appaddr_c cx it cv) else []
                                   | _ => []
                                   end in
                      let bad := filter (fun r => negb (justified_b appaddr_c w r)) (otouch ++ extra) in
                      let spec_ok := pl || match bad with [] => true | _ => false end in
                      let known := negb pl && negb (match bad with [] => true | _ => false end) &&
                                   forallb (zero_via_access w) bad in
                      let m := resolve appaddr_c cx acc in
                      let mcls := match m with Ok _ => 0 | Err e => e end in
                      let mtouch := match m with Ok rs => rs | Err _ => [] end in
                      let mobs := TL [TL [tn mcls]; TL (map t_resource mtouch)] in
                      let is_sub := match acc with AISubmit _ _ | AIAcct _ | AIAsset _ | AIApp _ => true | _ => false end in
                      let corr := list_eqb N.eqb ocls [mcls] &&
                                  (is_sub || sort_free_eq (map t_resource mtouch) (map t_resource otouch)) in
                      if known then v_known "c35_zero_value_via_access" mobs
                      else verdict spec_ok corr (negb (mcls =? E_PRE)) mobs
                  end
              | TL (TS "box" :: ops) =>
                  match map_opt p_bop ops with
                  | None => v_parse
                  | Some ops =>
                      if negb (begin_check cx =? 0) then
                        verdict spec_ok (list_eqb N.eqb ocls [E_PRE]) false (TL [TL [tn E_PRE]; TL []])
                      else
                        let st0 := mkBst (cx_av cx) [] 0 [] in
                        let '(_, mcls) := box_run cx (io_budget bpr g) st0 ops in
                        let mobs := TL [TL (map tn mcls); TL []] in
                        (* box touches: named, or of an app created in this group (quota) *)
                        let bad_box := filter (fun r => match r with
                                                        | ResBox app _ => negb (memN app (created_apps w))
                                                        | _ => true
                                                        end) bad in
                        (* ... and at most one such box per empty reference of the group (C35_box_quota) *)
                        let spec_ok := pl || (match bad_box with [] => true | _ => false end &&
                                              (N.of_nat (List.length bad) <=? group_empty_refs g)) in
                        verdict spec_ok (list_eqb N.eqb ocls mcls) true mobs
                  end
              | _ => v_parse
              end
          | _, _ => v_parse
          end
      | _, _, _, _, _, _, _, _, _, _ => v_parse
      end
  | _ => v_parse
  end.
