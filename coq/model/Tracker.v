(* Executable model of ledger/acctupdates.go (accountUpdates), the LRU caches
   (lruaccts.go / lruresources.go / lrukv.go), the commit path of ledger/acctdeltas.go
   (compaction + accountsNewRound) and the commit protocol of ledger/tracker.go
   (trackerRegistry.scheduleCommit / commitSyncer / commitRound).  No proofs in this file.

   The four key spaces (accounts, resources, KV, creatables) are four copies of the same
   pattern in the Go code; the model has ONE generic key-space component (Section Space),
   instantiated four times with the differences as parameters:
     interp   value a delta record denotes (what newBlockImpl stores in the modified map)
     merge    folding a record into a compact delta (makeCompact*Deltas: SetCoreAccountData /
              SetAssetData+SetAppData / compactKvDeltas / compactCreatableDeltas)
     skip     accountsNewRoundImpl leaves the row (and the cache) alone: KV "changed back" /
              "came and went" tests on the first OldData
     nf_mode  the cache has a notFound side table (accounts, resources) or caches deleted
              entries as values (KV)
     strict   INSERT fails on an existing row (assetcreators primary key)

   Abstractions (listed in the trusted base of C08): SQL statements are map operations on a
   per-space table [list (K * V)] holding the non-empty rows; account row ids are not
   modelled; a lookup, NewBlock, each of the three commit phases, a flush and a reload are
   atomic steps (the Go code runs them under accountsMu / inside one SQL transaction).  The one
   thing a lookup does after dropping its read lock -- queueing what it read from the DB for
   the base cache (writePending / writeNotFoundPending) -- is a separate step: a lookup can be
   issued as a "stalled reader" (OSAcct ...) whose cache write lands at any later time (OLand).
   [cf_fix] selects flushPendingWritesSince (pending entries read at an older DB round only
   promote) versus the original flushPendingWrites (they are written like any other). *)
From Coq Require Import NArith List Bool Arith.
From Verif.model Require Import LedgerSpec.
Import ListNotations.

Inductive lres (A : Type) : Type :=
| LOk (a : A)          (* value returned *)
| LRetry               (* the Go code waits on accountsReadCond (DB ahead of memory) *)
| LErr (code : nat).   (* 1 RoundOffsetError, 2 round too high, 3 StaleDatabaseRoundError *)
Arguments LOk {A}. Arguments LRetry {A}. Arguments LErr {A}.

Section Space.
  Variables K V D : Type.
  Variable keqb : K -> K -> bool.
  Variable interp : D -> V.
  Variable merge : V -> D -> V.
  Variable vempty : V.
  Variable is_empty : V -> bool.
  Variable skip : D -> V -> bool.
  Variable nf_mode : bool.
  Variable strict : bool.

  (* ---- association lists ---- *)
  Fixpoint aget {A : Type} (k : K) (l : list (K * A)) : option A :=
    match l with
    | [] => None
    | (k', a) :: tl => if keqb k k' then Some a else aget k tl
    end.
  Definition adel {A : Type} (k : K) (l : list (K * A)) : list (K * A) :=
    filter (fun p => negb (keqb k (fst p))) l.

  (* ---- the table of the tracker DB for this space: non-empty rows only ---- *)
  Definition table := list (K * V).
  Definition db_get (t : table) (k : K) : V := match aget k t with Some v => v | None => vempty end.
  Definition db_set (t : table) (k : K) (v : V) : table :=
    if is_empty v then adel k t else (k, v) :: adel k t.

  (* ---- au.accounts / au.resources / au.kvStore / au.creatables: (latest value, ndeltas) ---- *)
  Definition mods := list (K * (V * nat)).
  Definition mods_bump (m : mods) (k : K) (v : V) : mods :=
    match aget k m with
    | Some (_, n) => (k, (v, S n)) :: adel k m
    | None => (k, (v, 1)) :: m
    end.
  (* newBlockImpl: one loop per space *)
  Definition mods_newblock (m : mods) (recs : list (K * D)) : mods :=
    fold_left (fun m p => mods_bump m (fst p) (interp (snd p))) recs m.
  (* postCommit: drop cnt references; None = log.Panicf("inconsistency: flushed ...") *)
  Definition mods_drop (m : mods) (k : K) (cnt : nat) : option mods :=
    match aget k m with
    | None => None
    | Some (v, n) =>
        if n <? cnt then None
        else if n =? cnt then Some (adel k m)
        else Some ((k, (v, n - cnt)) :: adel k m)
    end.

  (* ---- LRU cache with pending-write channels (lruaccts.go ...) ---- *)
  Record centry := mkCE { ce_key : K; ce_val : V; ce_rnd : nat }.
  Record cache := mkCache {
    c_lru : list centry;     (* front = most recently used *)
    c_pend : list centry;    (* pendingAccounts channel, oldest first *)
    c_nf : list K;           (* notFound *)
    c_pnf : list (K * nat);  (* pendingNotFound channel: key and the DB round it was looked up at *)
    c_stall : list (centry + K * nat) }.
                             (* cache writes of readers that have read the DB but not yet executed
                                their writePending / writeNotFoundPending *)
  Definition cache_empty : cache := mkCache [] [] [] [] [].

  Definition c_read (l : list centry) (k : K) : option centry :=
    find (fun e => keqb k (ce_key e)) l.
  Definition c_remove (l : list centry) (k : K) : list centry :=
    filter (fun e => negb (keqb k (ce_key e))) l.
  (* lruAccounts.write: keep the newer of the two by Round, move to front *)
  Definition lru_write (l : list centry) (e : centry) : list centry :=
    match c_read l (ce_key e) with
    | Some old => (if ce_rnd old <? ce_rnd e then e else old) :: c_remove l (ce_key e)
    | None => e :: l
    end.
  (* MoveToFront of the entry for k, if there is one *)
  Definition lru_touch (l : list centry) (k : K) : list centry :=
    match c_read l k with
    | Some old => old :: c_remove l k
    | None => l
    end.
  (* en = the cache was initialised with pendingWrites > 0 (else map and channels are nil) *)
  Definition cache_write (en : bool) (c : cache) (e : centry) : cache :=
    if en then mkCache (lru_write (c_lru c) e) (c_pend c) (c_nf c) (c_pnf c) (c_stall c) else c.
  Definition cache_wpend (en : bool) (pcap : nat) (c : cache) (e : centry) : cache :=
    if en && (length (c_pend c) <? pcap)
    then mkCache (c_lru c) (c_pend c ++ [e]) (c_nf c) (c_pnf c) (c_stall c) else c.
  Definition cache_wpnf (en : bool) (pcap : nat) (c : cache) (p : K * nat) : cache :=
    if en && (length (c_pnf c) <? pcap)
    then mkCache (c_lru c) (c_pend c) (c_nf c) (c_pnf c ++ [p]) (c_stall c) else c.
  (* the cache write of a lookup that went to the DB: executed right away, or left with the
     reader (stall) to be executed by a later OLand *)
  Definition cache_put (stall en : bool) (pcap : nat) (c : cache) (x : centry + K * nat) : cache :=
    if stall then
      (if en then mkCache (c_lru c) (c_pend c) (c_nf c) (c_pnf c) (c_stall c ++ [x]) else c)
    else match x with
         | inl e => cache_wpend en pcap c e
         | inr p => cache_wpnf en pcap c p
         end.
  Fixpoint remove_nth {A : Type} (n : nat) (l : list A) : list A :=
    match l, n with
    | [], _ => []
    | _ :: tl, 0 => tl
    | x :: tl, S m => x :: remove_nth m tl
    end.
  Definition cache_land (en : bool) (pcap : nat) (c : cache) (n : nat) : cache :=
    match nth_error (c_stall c) n with
    | Some x =>
        cache_put false en pcap
                  (mkCache (c_lru c) (c_pend c) (c_nf c) (c_pnf c) (remove_nth n (c_stall c))) x
    | None => c
    end.
  (* With the original flushPendingWrites a held reader's write is harmless if it lands while
     the DB round it was read at is still the current one, or while a newer entry for its key
     (written by the postCommit that changed it) is still in the cache. *)
  Definition item_land_ok (R : nat) (c : cache) (x : centry + K * nat) : bool :=
    match x with
    | inl e => (ce_rnd e =? R) ||
               match c_read (c_lru c) (ce_key e) with Some e' => ce_rnd e <? ce_rnd e' | None => false end
    | inr p => (snd p =? R) ||
               match c_read (c_lru c) (fst p) with Some _ => true | None => false end
    end.
  Definition cache_land_ok (R : nat) (c : cache) (n : nat) : bool :=
    match nth_error (c_stall c) n with Some x => item_land_ok R c x | None => true end.

  (* flushPendingWritesSince(R) (fixed) / flushPendingWrites (original) *)
  Definition flush_one (fixed : bool) (R : nat) (l : list centry) (e : centry) : list centry :=
    if fixed && (ce_rnd e <? R) then lru_touch l (ce_key e) else lru_write l e.
  Definition cache_flush (en fixed : bool) (R : nat) (c : cache) : cache :=
    if en then
      mkCache (fold_left (flush_one fixed R) (c_pend c) (c_lru c)) []
              (map fst (filter (fun p => negb (fixed && (snd p <? R))) (c_pnf c)) ++ c_nf c) []
              (c_stall c)
    else c.
  Definition cache_prune (en : bool) (c : cache) (n : nat) : cache :=
    if en then mkCache (firstn n (c_lru c)) (c_pend c) [] (c_pnf c) (c_stall c) else c.

  (* ---- one key space of accountUpdates ---- *)
  Record sp := mkSp { s_mods : mods; s_cache : cache; s_db : table }.
  Definition sp_init (t : table) : sp := mkSp [] cache_empty t.
  Definition sp_setc (s : sp) (c : cache) : sp := mkSp (s_mods s) c (s_db s).

  (* newest record for k in a chronological list of rounds ("walk deltas backwards") *)
  Fixpoint walk (ds : list (list (K * D))) (k : K) : option D :=
    match ds with
    | [] => None
    | recs :: tl => match walk tl k with Some d => Some d | None => rfind keqb k recs end
    end.

  (* lookupWithoutRewards / lookupResource / lookupKv.  mem = this space's records of
     au.deltas; dbr = the round stored in the DB (what the SQL lookup returns as Round). *)
  (* second half of a lookup: base cache, then the DB with the round re-check.  The promotion of
     a cache hit is queued while the read lock is still held; what was read from the DB is
     queued after the lock has been dropped ([stall]: not yet) *)
  Definition sp_fall (stall en : bool) (pcap : nat) (dbRound dbr : nat) (s : sp) (k : K) : lres V * sp :=
    match c_read (c_lru (s_cache s)) k with
    | Some e => (LOk (ce_val e), sp_setc s (cache_wpend en pcap (s_cache s) e))
    | None =>
        if nf_mode && existsb (keqb k) (c_nf (s_cache s)) then (LOk vempty, s)
        else if dbr =? dbRound then
          let v := db_get (s_db s) k in
          if nf_mode && is_empty v
          then (LOk vempty, sp_setc s (cache_put stall en pcap (s_cache s) (inr (k, dbr))))
          else (LOk v, sp_setc s (cache_put stall en pcap (s_cache s) (inl (mkCE k v dbr))))
        else if dbr <? dbRound then (LErr 3, s)
        else (LRetry, s)
    end.

  Definition sp_lookup (stall en : bool) (pcap : nat) (dbRound dbr : nat) (mem : list (list (K * D)))
             (s : sp) (rnd : nat) (k : K) : lres V * sp :=
    if rnd <? dbRound then (LErr 1, s) else
    let off := rnd - dbRound in
    if length mem <? off then (LErr 2, s) else
    match aget k (s_mods s) with
    | Some (v, _) =>
        if off =? length mem then (LOk v, s)
        else match walk (firstn off mem) k with
             | Some d => (LOk (interp d), s)
             | None => sp_fall stall en pcap dbRound dbr s k
             end
    | None => sp_fall stall en pcap dbRound dbr s k
    end.

  (* getCreatorForRound: no cache; the modified map is only consulted for the latest round *)
  Definition cr_lookup (dbRound dbr : nat) (mem : list (list (K * D))) (s : sp) (rnd : nat) (k : K) : lres V :=
    if rnd <? dbRound then LErr 1 else
    let off := rnd - dbRound in
    if length mem <? off then LErr 2 else
    let dbq : lres V :=
      if dbr =? dbRound then LOk (db_get (s_db s) k)
      else if dbr <? dbRound then LErr 3 else LRetry in
    if off =? length mem then
      match aget k (s_mods s) with Some (v, _) => LOk v | None => dbq end
    else match walk (firstn off mem) k with Some d => LOk (interp d) | None => dbq end.

  (* makeCompact*Deltas: per key (new value, number of records, first record), in order of
     first appearance *)
  Definition cent := (K * (V * nat * D))%type.
  Definition compact_add (c : list cent) (p : K * D) : list cent :=
    match aget (fst p) c with
    | Some (v, n, f) =>
        map (fun q => if keqb (fst p) (fst q) then (fst p, (merge v (snd p), S n, f)) else q) c
    | None => c ++ [(fst p, (merge vempty (snd p), 1, snd p))]
    end.
  Definition compact (ds : list (list (K * D))) : list cent :=
    fold_left (fun c recs => fold_left compact_add recs c) ds [].

  (* accountsNewRoundImpl on this space's table; None = SQL error (transaction rolled back) *)
  Definition commit_one (t : option table) (e : cent) : option table :=
    match t with
    | None => None
    | Some t =>
        let '(k, (v, _, f)) := e in
        if skip f v then Some t
        else if strict && negb (is_empty v) && (match aget k t with Some _ => true | None => false end)
        then None
        else Some (db_set t k v)
    end.
  Definition sp_commit_db (ds : list (list (K * D))) (s : sp) : option sp :=
    match fold_left commit_one (compact ds) (Some (s_db s)) with
    | Some t => Some (mkSp (s_mods s) (s_cache s) t)
    | None => None
    end.

  (* postCommit on this space: reference counts, then the rows written go to the cache *)
  Definition post_mods (m : option mods) (e : cent) : option mods :=
    match m with
    | None => None
    | Some m => let '(k, (_, n, _)) := e in mods_drop m k n
    end.
  Definition post_cache (en : bool) (newBase : nat) (c : cache) (e : cent) : cache :=
    let '(k, (v, _, f)) := e in
    if skip f v then c else cache_write en c (mkCE k v newBase).
  Definition sp_post (en : bool) (newBase : nat) (ds : list (list (K * D))) (s : sp) : option sp :=
    let c := compact ds in
    match fold_left post_mods c (Some (s_mods s)) with
    | Some m => Some (mkSp m (fold_left (post_cache en newBase) c (s_cache s)) (s_db s))
    | None => None
    end.

  (* newBlockImpl on this space: flushPendingWrites, update the modified map, prune *)
  Definition sp_newblock (en fixed : bool) (R buf : nat) (recs : list (K * D)) (s : sp) : sp :=
    let c := cache_flush en fixed R (s_cache s) in
    let m := mods_newblock (s_mods s) recs in
    mkSp m (cache_prune en c (length m + 1 + buf)) (s_db s).

  Definition sp_flush (en fixed : bool) (R : nat) (s : sp) : sp :=
    sp_setc s (cache_flush en fixed R (s_cache s)).
  Definition sp_prune (en fixed : bool) (R n : nat) (s : sp) : sp :=
    sp_setc s (cache_prune en (cache_flush en fixed R (s_cache s)) n).
  Definition sp_land (en : bool) (pcap n : nat) (s : sp) : sp :=
    sp_setc s (cache_land en pcap (s_cache s) n).
  (* loadFromDisk / initializeFromDisk: fresh maps and caches over the same table *)
  Definition sp_reset (s : sp) : sp := sp_init (s_db s).
End Space.

Arguments LOk {A}. Arguments LRetry {A}. Arguments LErr {A}.

(* ------------------------------------------------------------------------------------ *)
(* the four instances                                                                      *)
Definition half_merge (prev : option N) (h : half) : option N :=
  match h with HSet n => Some n | HDel => None | HKeep => prev end.
(* ResourcesData.SetAssetData / SetAppData *)
Definition res_merge (prev : res) (r : resrec) : res :=
  (half_merge (fst prev) (fst r), half_merge (snd prev) (snd r)).
Definition res_is_empty (r : res) : bool :=
  match r with (None, None) => true | _ => false end.
Definition kv_is_empty (v : option bytes) : bool := match v with None => true | Some _ => false end.
(* accountsNewRoundImpl, KV loop: first OldData against the newest Data *)
Definition kv_skip (first : kvrec) (v : option bytes) : bool :=
  match v with
  | Some d => match snd first with Some o => bytes_eqb o d | None => false end
  | None => match snd first with None => true | Some _ => false end
  end.
Definition no_skip {D V : Type} (_ : D) (_ : V) : bool := false.
(* values of the creatable space are normalised: not created = creat_none *)
Definition creat_is_empty (c : creat) : bool := creat_eqb c creat_none.

Definition asp := sp addr acct.
Definition rsp := sp (addr * cidx) res.
Definition ksp := sp kvkey (option bytes).
Definition csp := sp cidx creat.

Definition a_lookup := sp_lookup addr acct acct N.eqb (fun a => a) acct_empty acct_is_empty true.
Definition r_lookup := sp_lookup (addr * cidx) res resrec pair_eqb res_interp res_empty res_is_empty true.
Definition k_lookup := sp_lookup kvkey (option bytes) kvrec bytes_eqb kv_interp None kv_is_empty false.
Definition c_lookup := cr_lookup cidx creat creat N.eqb creat_interp creat_none.

Definition a_commit := sp_commit_db addr acct acct N.eqb (fun _ d => d) acct_empty acct_is_empty no_skip false.
Definition r_commit := sp_commit_db (addr * cidx) res resrec pair_eqb res_merge res_empty res_is_empty no_skip false.
Definition k_commit := sp_commit_db kvkey (option bytes) kvrec bytes_eqb (fun _ d => kv_interp d) None kv_is_empty kv_skip false.
Definition c_commit := sp_commit_db cidx creat creat N.eqb (fun _ d => creat_interp d) creat_none creat_is_empty no_skip true.

Definition a_post := sp_post addr acct acct N.eqb (fun _ d => d) acct_empty no_skip.
Definition r_post := sp_post (addr * cidx) res resrec pair_eqb res_merge res_empty no_skip.
Definition k_post := sp_post kvkey (option bytes) kvrec bytes_eqb (fun _ d => kv_interp d) None kv_skip.
Definition c_post := sp_post cidx creat creat N.eqb (fun _ d => creat_interp d) creat_none no_skip.

Definition a_newblock := sp_newblock addr acct acct N.eqb (fun a => a).
Definition r_newblock := sp_newblock (addr * cidx) res resrec pair_eqb res_interp.
Definition k_newblock := sp_newblock kvkey (option bytes) kvrec bytes_eqb kv_interp.
Definition c_newblock := sp_newblock cidx creat creat N.eqb creat_interp.

(* ------------------------------------------------------------------------------------ *)
(* the tracker                                                                             *)
Record cfg := mkCfg {
  cf_lookback : nat;     (* config.Local.MaxAcctLookback *)
  cf_cache : bool;       (* !DisableLedgerLRUCache *)
  (* baseAccountsPendingAccountsBufferSize / baseResourcesPendingAccountsBufferSize /
     baseKVPendingBufferSize: capacity of the pending channels of a cache and slack of its
     prune size in newBlockImpl *)
  cf_na : nat; cf_nr : nat; cf_nk : nat;
  cf_fix : bool }.       (* flushPendingWritesSince (the repaired flush) rather than flushPendingWrites *)

Inductive phase :=
| PIdle
| PPrepared (off : nat)     (* commitRound: prepareCommit done, SQL transaction open *)
| PCommitted (off : nat).   (* transaction committed (DB ahead of memory), postCommit pending *)

Record st := mkSt {
  t_cfg : cfg;
  t_blocks : list delta;        (* the ledger's block store: the whole history *)
  t_dbRound : nat;              (* au.cachedDBRound; equals tr.dbRound whenever scheduleCommit can run *)
  t_dbr : nat;                  (* acctrounds.rnd in the tracker DB *)
  t_deltas : list delta;        (* au.deltas (au.versions[1..] are their d_ver) *)
  t_acc : asp; t_res : rsp; t_kv : ksp; t_cre : csp;
  t_queue : option (nat * nat); (* tr.deferredCommits (capacity 1): (oldBase, offset) *)
  t_phase : phase }.

(* genesis accounts as rows (the first entry for an address wins, as in [genesis_world]) *)
Definition acct_table (accts : list (addr * acct)) : table addr acct :=
  fold_right (fun p t => db_set addr acct N.eqb acct_is_empty t (fst p) (snd p)) [] accts.

Definition init (c : cfg) (genesis : list (addr * acct)) : st :=
  mkSt c [] 0 0 []
       (sp_init addr acct (acct_table genesis)) (sp_init (addr * cidx) res [])
       (sp_init kvkey (option bytes) []) (sp_init cidx creat [])
       None PIdle.

Definition latest (s : st) : nat := t_dbRound s + length (t_deltas s).

(* sort.Search(n, f) *)
Fixpoint bsearch (fuel i j : nat) (f : nat -> bool) : nat :=
  match fuel with
  | 0 => i
  | S fu => if i <? j then
              let h := (i + j) / 2 in
              if f h then bsearch fu i h f else bsearch fu (h + 1) j f
            else i
  end.
Definition ver_at (ds : list delta) (i : nat) : N := d_ver (nth i ds delta_dummy).
(* accountUpdates.consecutiveVersion: versions[1+i] = d_ver (deltas[i]) *)
Definition consecutive (ds : list delta) (off : nat) : nat :=
  if N.eqb (ver_at ds 0) (ver_at ds (off - 1)) then off
  else bsearch off 0 off (fun i => negb (N.eqb (ver_at ds 0) (ver_at ds i))).

Inductive op :=
| ONewBlock (d : delta)
| OSchedule (r : nat)        (* trackerRegistry.committedUpTo(r) -> scheduleCommit *)
| OBegin                     (* commitSyncer dequeues; commitRound up to and incl. prepareCommit *)
| OCommitDB                  (* the SQL transaction (all accountsNewRound + UpdateAccountsRound) commits *)
| OPostCommit
| OReload                    (* close + loadFromDisk + replay *)
| OFlush                     (* Ledger.FlushCaches *)
| OPrune (na nr nk : nat)    (* flushPendingWrites + prune(n) on the three caches (test-only pressure) *)
| OQAcct (rnd : nat) (a : addr)
| OQRes (rnd : nat) (a : addr) (c : cidx)
| OQKv (rnd : nat) (k : kvkey)
| OQCre (rnd : nat) (c : cidx) (ctype : N)
(* the same lookups by a reader that stalls between its DB read and its cache write *)
| OSAcct (rnd : nat) (a : addr)
| OSRes (rnd : nat) (a : addr) (c : cidx)
| OSKv (rnd : nat) (k : kvkey)
(* the n-th stalled cache write of a space lands (0 accounts, 1 resources, 2 KV) *)
| OLand (space n : nat).

Inductive out :=
| RDone                                   (* state-changing operation performed / not enabled *)
| RPanic                                  (* log.Panicf / index out of range in the Go code *)
| RAcct (r : lres acct)
| RRes (r : lres res)
| RKv (r : lres (option bytes))
| RCre (r : lres (option addr)).

Definition set_spaces (s : st) (a : asp) (r : rsp) (k : ksp) (c : csp) : st :=
  mkSt (t_cfg s) (t_blocks s) (t_dbRound s) (t_dbr s) (t_deltas s) a r k c (t_queue s) (t_phase s).
Definition set_queue (s : st) (q : option (nat * nat)) : st :=
  mkSt (t_cfg s) (t_blocks s) (t_dbRound s) (t_dbr s) (t_deltas s)
       (t_acc s) (t_res s) (t_kv s) (t_cre s) q (t_phase s).
Definition set_phase (s : st) (p : phase) : st :=
  mkSt (t_cfg s) (t_blocks s) (t_dbRound s) (t_dbr s) (t_deltas s)
       (t_acc s) (t_res s) (t_kv s) (t_cre s) (t_queue s) p.

(* accountUpdates.newBlockImpl (memory only) *)
Definition newblock_mem (s : st) (d : delta) : st :=
  let c := t_cfg s in
  mkSt c (t_blocks s) (t_dbRound s) (t_dbr s) (t_deltas s ++ [d])
       (a_newblock (cf_cache c) (cf_fix c) (t_dbRound s) (cf_na c) (d_accts d) (t_acc s))
       (r_newblock (cf_cache c) (cf_fix c) (t_dbRound s) (cf_nr c) (d_res d) (t_res s))
       (k_newblock (cf_cache c) (cf_fix c) (t_dbRound s) (cf_nk c) (d_kv d) (t_kv s))
       (c_newblock false true (t_dbRound s) 0 (d_cre d) (t_cre s))
       (t_queue s) (t_phase s).
Definition newblock (s : st) (d : delta) : st :=
  let s1 := newblock_mem s d in
  mkSt (t_cfg s1) (t_blocks s ++ [d]) (t_dbRound s1) (t_dbr s1) (t_deltas s1)
       (t_acc s1) (t_res s1) (t_kv s1) (t_cre s1) (t_queue s1) (t_phase s1).

(* scheduleCommit(r, lookback) with accountUpdates.produceCommittingTask; the time/size based
   flush conditions are taken as met.  None = log.Panicf("block too far in the future") *)
Definition schedule (s : st) (r : nat) : option st :=
  let lb := cf_lookback (t_cfg s) in
  if r <? lb then Some s else
  let newBase := r - lb in
  if newBase <=? t_dbRound s then Some s
  else if t_dbRound s + length (t_deltas s) <? newBase then None
  else
    let off := consecutive (t_deltas s) (newBase - t_dbRound s) in
    match t_queue s with
    | None => Some (set_queue s (Some (t_dbRound s, off)))
    | Some _ => Some s                      (* channel full: the task is dropped *)
    end.

(* trackerRegistry.commitRound, first half.  None = index out of range *)
Definition begin (s : st) : option st :=
  match t_phase s, t_queue s with
  | PIdle, Some (ob, off) =>
      let s := set_queue s None in
      if (t_dbRound s <? ob) || (off <? t_dbRound s - ob) then Some s     (* out of order *)
      else
        let off' := off - (t_dbRound s - ob) in
        if off' =? 0 then Some s
        else if length (t_deltas s) <? off' then None
        else if negb (N.eqb (ver_at (t_deltas s) 0) (ver_at (t_deltas s) (off' - 1))) then Some s
        else Some (set_phase s (PPrepared off'))
  | _, _ => Some s
  end.

Definition commitdb (s : st) : st :=
  match t_phase s with
  | PPrepared off =>
      let ds := firstn off (t_deltas s) in
      match a_commit (map d_accts ds) (t_acc s), r_commit (map d_res ds) (t_res s),
            k_commit (map d_kv ds) (t_kv s), c_commit (map d_cre ds) (t_cre s) with
      | Some a, Some r, Some k, Some c =>
          mkSt (t_cfg s) (t_blocks s) (t_dbRound s) (t_dbRound s + off) (t_deltas s) a r k c
               (t_queue s) (PCommitted off)
      | _, _, _, _ => set_phase s PIdle          (* transaction rolled back *)
      end
  | _ => s
  end.

(* None = one of the postCommit consistency panics *)
Definition postcommit (s : st) : option st :=
  match t_phase s with
  | PCommitted off =>
      let ds := firstn off (t_deltas s) in
      let en := cf_cache (t_cfg s) in
      let nb := t_dbRound s + off in
      match a_post en nb (map d_accts ds) (t_acc s), r_post en nb (map d_res ds) (t_res s),
            k_post en nb (map d_kv ds) (t_kv s), c_post false nb (map d_cre ds) (t_cre s) with
      | Some a, Some r, Some k, Some c =>
          Some (mkSt (t_cfg s) (t_blocks s) nb (t_dbr s) (skipn off (t_deltas s)) a r k c
                     (t_queue s) PIdle)
      | _, _, _, _ => None
      end
  | _ => Some s
  end.

Definition opt_or (s : st) (o : option st) : st * bool :=
  match o with Some s' => (s', false) | None => (s, true) end.

(* trackerRegistry.close + initialize + loadFromDisk (incl. replay and its final flush) *)
Definition reload (s : st) : st * bool :=
  match t_phase s, t_queue s with
  | PIdle, None =>
      let s0 := mkSt (t_cfg s) (t_blocks s) (t_dbr s) (t_dbr s) []
                     (sp_reset _ _ (t_acc s)) (sp_reset _ _ (t_res s))
                     (sp_reset _ _ (t_kv s)) (sp_reset _ _ (t_cre s)) None PIdle in
      let s1 := fold_left newblock_mem (skipn (t_dbr s) (t_blocks s)) s0 in
      if t_dbRound s1 + cf_lookback (t_cfg s1) <? latest s1 then
        match schedule s1 (latest s1) with
        | None => (s1, true)
        | Some s2 =>
            match begin s2 with
            | None => (s2, true)
            | Some s3 => opt_or (commitdb s3) (postcommit (commitdb s3))
            end
        end
      else (s1, false)
  | _, _ => (s, false)
  end.

(* the landing of a held reader's cache write that the original flush tolerates (any landing is
   fine with the proposed flushPendingWritesSince) *)
Definition land_okb (s : st) (space n : nat) : bool :=
  cf_fix (t_cfg s) ||
  match space with
  | 0 => cache_land_ok _ _ N.eqb (t_dbRound s) (s_cache _ _ (t_acc s)) n
  | 1 => cache_land_ok _ _ pair_eqb (t_dbRound s) (s_cache _ _ (t_res s)) n
  | 2 => cache_land_ok _ _ bytes_eqb (t_dbRound s) (s_cache _ _ (t_kv s)) n
  | _ => true
  end.

Definition lmap {A B : Type} (f : A -> B) (r : lres A) : lres B :=
  match r with LOk a => LOk (f a) | LRetry => LRetry | LErr c => LErr c end.

Definition step (s : st) (o : op) : st * out :=
  let c := t_cfg s in
  let en := cf_cache c in
  match o with
  | ONewBlock d => (newblock s d, RDone)
  | OSchedule r => let (s', p) := opt_or s (schedule s r) in (s', if p then RPanic else RDone)
  | OBegin => let (s', p) := opt_or s (begin s) in (s', if p then RPanic else RDone)
  | OCommitDB => (commitdb s, RDone)
  | OPostCommit => let (s', p) := opt_or s (postcommit s) in (s', if p then RPanic else RDone)
  | OReload => let (s', p) := reload s in (s', if p then RPanic else RDone)
  | OFlush =>
      let fx := cf_fix c in let R := t_dbRound s in
      (set_spaces s (sp_flush _ _ N.eqb en fx R (t_acc s)) (sp_flush _ _ pair_eqb en fx R (t_res s))
                  (sp_flush _ _ bytes_eqb en fx R (t_kv s)) (t_cre s), RDone)
  | OPrune na nr nk =>
      let fx := cf_fix c in let R := t_dbRound s in
      (set_spaces s (sp_prune _ _ N.eqb en fx R na (t_acc s)) (sp_prune _ _ pair_eqb en fx R nr (t_res s))
                  (sp_prune _ _ bytes_eqb en fx R nk (t_kv s)) (t_cre s), RDone)
  | OQAcct rnd a =>
      let (r, a') := a_lookup false en (cf_na c) (t_dbRound s) (t_dbr s) (map d_accts (t_deltas s)) (t_acc s) rnd a in
      (set_spaces s a' (t_res s) (t_kv s) (t_cre s), RAcct r)
  | OQRes rnd a ci =>
      let (r, r') := r_lookup false en (cf_nr c) (t_dbRound s) (t_dbr s) (map d_res (t_deltas s)) (t_res s) rnd (a, ci) in
      (set_spaces s (t_acc s) r' (t_kv s) (t_cre s), RRes r)
  | OQKv rnd k =>
      let (r, k') := k_lookup false en (cf_nk c) (t_dbRound s) (t_dbr s) (map d_kv (t_deltas s)) (t_kv s) rnd k in
      (set_spaces s (t_acc s) (t_res s) k' (t_cre s), RKv r)
  | OSAcct rnd a =>
      let (r, a') := a_lookup true en (cf_na c) (t_dbRound s) (t_dbr s) (map d_accts (t_deltas s)) (t_acc s) rnd a in
      (set_spaces s a' (t_res s) (t_kv s) (t_cre s), RAcct r)
  | OSRes rnd a ci =>
      let (r, r') := r_lookup true en (cf_nr c) (t_dbRound s) (t_dbr s) (map d_res (t_deltas s)) (t_res s) rnd (a, ci) in
      (set_spaces s (t_acc s) r' (t_kv s) (t_cre s), RRes r)
  | OSKv rnd k =>
      let (r, k') := k_lookup true en (cf_nk c) (t_dbRound s) (t_dbr s) (map d_kv (t_deltas s)) (t_kv s) rnd k in
      (set_spaces s (t_acc s) (t_res s) k' (t_cre s), RKv r)
  | OLand sp n =>
      (match sp with
       | 0 => set_spaces s (sp_land _ _ en (cf_na c) n (t_acc s)) (t_res s) (t_kv s) (t_cre s)
       | 1 => set_spaces s (t_acc s) (sp_land _ _ en (cf_nr c) n (t_res s)) (t_kv s) (t_cre s)
       | 2 => set_spaces s (t_acc s) (t_res s) (sp_land _ _ en (cf_nk c) n (t_kv s)) (t_cre s)
       | _ => s
       end, RDone)
  | OQCre rnd ci ct =>
      (s, RCre (lmap (fun v => creator_of v ct)
                     (c_lookup (t_dbRound s) (t_dbr s) (map d_cre (t_deltas s)) (t_cre s) rnd ci)))
  end.

Fixpoint run (s : st) (ops : list op) : st * list out :=
  match ops with
  | [] => (s, [])
  | o :: tl => let (s1, r) := step s o in let (s2, rs) := run s1 tl in (s2, r :: rs)
  end.

(* every landing in the run is one the original flush tolerates *)
Fixpoint lands_ok (s : st) (ops : list op) : bool :=
  match ops with
  | [] => true
  | o :: tl => match o with OLand sp n => land_okb s sp n | _ => true end && lands_ok (fst (step s o)) tl
  end.

(* the block history an operation sequence produces *)
Fixpoint history_of (ops : list op) : list delta :=
  match ops with
  | [] => []
  | ONewBlock d :: tl => d :: history_of tl
  | _ :: tl => history_of tl
  end.
