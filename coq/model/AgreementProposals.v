(* Agreement model -- part 3: proposal machines below the proposalManager.
   Transcribes proposalTracker.go (proposalSeeker, proposalTracker, + proposalTrackerContract.go),
   proposalStore.go (blockAssembler, proposalStore).  No proofs. *)
From Coq Require Import NArith List Bool String.
Import ListNotations.
From Verif.model Require Import AgreementTypes AgreementVotes.
Open Scope N_scope.

(* LateCredentialTrackingEffect *)
Definition note_none : N := 0.
Definition note_unverified : N := 1.
Definition note_better : N := 2.

(* ---------- proposalSeeker.accept: (new seeker, effect, err?) ---------- *)
Definition cred_less (a b : vote) : bool := vt_cred a <? vt_cred b.
Definition sk_accept (s : seeker) (v : vote) : seeker * N * bool :=
  if sk_frozen s then
    if negb (sk_haslate s) || cred_less v (sk_late s)
    then (mkSeeker (sk_lowest s) (sk_filled s) (sk_frozen s) v true, note_better, true)
    else (s, note_none, true)
  else if sk_filled s && negb (cred_less v (sk_lowest s)) then (s, note_none, true)
  else (mkSeeker v true (sk_frozen s) v true, note_better, false).

(* results of the proposal machines for a proposal-vote *)
Inductive pvres :=
| PVNone                                        (* emptyEvent *)
| PVFiltered (note : N)
| PVMalformed
| PVAccepted (prop : value) (payload_ok : bool).

Definition pt_set_contract (t : ptracker) (one froze soft cert : bool) : ptracker :=
  mkPT (pt_dup t) (pt_freezer t) (pt_staging t) one froze soft cert.

(* proposalTracker.handle(voteVerified) *)
Definition pt_vote (t : ptracker) (v : vote) : ptracker * pvres :=
  if existsb (N.eqb (vt_snd v)) (pt_dup t) then (t, PVFiltered note_none)
  else
    let dup' := pt_dup t ++ [vt_snd v] in
    let '(nf, effect, err) := sk_accept (pt_freezer t) v in
    (* copyLateCredentialTrackingState *)
    let fz := pt_freezer t in
    let fz1 := mkSeeker (sk_lowest fz) (sk_filled fz) (sk_frozen fz) (sk_late nf) (sk_haslate nf) in
    if negb (is_bottom (pt_staging t))
    then (mkPT dup' fz1 (pt_staging t) (pc_one t) (pc_froze t) (pc_soft t) (pc_cert t), PVFiltered effect)
    else if err
    then (mkPT dup' fz1 (pt_staging t) (pc_one t) (pc_froze t) (pc_soft t) (pc_cert t), PVFiltered effect)
    else (mkPT dup' nf (pt_staging t) (pc_one t) (pc_froze t) (pc_soft t) (pc_cert t),
          PVAccepted (vt_val v) false).

(* checkedListener{proposalTracker, proposalTrackerContract}: voteVerified *)
Definition pt_checked_vote (t : ptracker) (v : vote) : res (ptracker * pvres) :=
  let '(t1, out) := pt_vote t v in
  let accepted := match out with PVAccepted _ _ => true | _ => false end in
  if negb (pc_one t) && negb (pc_froze t) && negb (pc_soft t) && negb (pc_cert t) && negb accepted
  then Panic "proposalTracker_post_first_vote"
  else if (pc_froze t || pc_soft t || pc_cert t) && accepted
  then Panic "proposalTracker_post_not_filtered"
  else Ok (pt_set_contract t1 true (pc_froze t1) (pc_soft t1) (pc_cert t1), out).

(* voteFilterRequest: true = voteFiltered (duplicate sender) *)
Definition pt_filter (t : ptracker) (v : vote) : bool := existsb (N.eqb (vt_snd v)) (pt_dup t).

(* proposalFrozen *)
Definition pt_checked_freeze (t : ptracker) : res (ptracker * value) :=
  if pc_froze t then Panic "proposalTracker_pre_frozen_twice"
  else
    let out := vt_val (sk_lowest (pt_freezer t)) in
    let fz := pt_freezer t in
    let t1 := mkPT (pt_dup t) (mkSeeker (sk_lowest fz) (sk_filled fz) true (sk_late fz) (sk_haslate fz))
                   (pt_staging t) (pc_one t) (pc_froze t) (pc_soft t) (pc_cert t) in
    if negb (pc_one t) && negb (is_bottom out) then Panic "proposalTracker_post_frozen_nonbottom"
    else Ok (pt_set_contract t1 (pc_one t1) true (pc_soft t1) (pc_cert t1), out).

(* softThreshold / certThreshold: sets Staging *)
Definition pt_checked_threshold (t : ptracker) (th : thresh) : res (ptracker * value) :=
  match th_t th with
  | TSoft =>
      if pc_soft t then Panic "proposalTracker_pre_soft_twice"
      else if is_bottom (th_val th) then Panic "proposalTracker_pre_soft_bottom"
      else Ok (mkPT (pt_dup t) (pt_freezer t) (th_val th) (pc_one t) (pc_froze t) true (pc_cert t), th_val th)
  | TCert =>
      Ok (mkPT (pt_dup t) (pt_freezer t) (th_val th) (pc_one t) (pc_froze t) (pc_soft t) true, th_val th)
  | TNext => Panic "proposalTracker_pre_bad_event"
  end.

(* lifted to the period node *)
Definition pn_set_pt (t : ptracker) (pn : periodNode) : periodNode := mkPN t (pn_vp pn) (pn_steps pn).
Definition pn_pt_op {A} (f : ptracker -> res (ptracker * A)) (pn : periodNode) : res (periodNode * A) :=
  do r <- f (pn_pt pn); let '(t, a) := r in Ok (pn_set_pt t pn, a).

(* ---------- blockAssembler ---------- *)
Definition asm_trim (per : N) (a : assembler) : assembler :=
  mkAsm (as_filled a) (as_assembled a) (filter (fun v => per <=? vt_per v) (as_auth a)).
Fixpoint authenticator (per : N) (l : list vote) : option vote :=
  match l with
  | [] => None
  | v :: t => if vt_per v =? per then Some v else authenticator per t
  end.

(* ---------- proposalStore ---------- *)
Definition ps_asm_get (st : pstore) (v : value) : assembler :=
  match aget value_eqb v (ps_asm st) with Some a => a | None => as_zero end.
Definition ps_set_asm (v : value) (a : assembler) (st : pstore) : pstore :=
  mkPS (ps_relevant st) (ps_pinned st) (aset value_eqb v a (ps_asm st)).

Definition ps_trim (pl : player) (st : pstore) : pstore :=
  let keys := ps_pinned st :: map snd (ps_relevant st) in
  let asm' := fold_left (fun acc k => aset value_eqb k (asm_trim (p_per pl) (ps_asm_get st k)) acc) keys [] in
  mkPS (ps_relevant st) (ps_pinned st) (adel value_eqb bottom asm').

(* lastRelevant *)
Definition ps_last_relevant (st : pstore) (pv : value) : N * bool :=
  if value_eqb (ps_pinned st) pv then (0, true)
  else (fold_left (fun p kv => if (p <? fst kv) && value_eqb (snd kv) pv then fst kv else p)
                  (ps_relevant st) 0, false).

Definition rn_set_store (st : pstore) (rn : roundNode) : roundNode :=
  mkRN st (rn_fresh rn) (rn_periods rn).

(* results for payload events *)
Inductive plres :=
| PLNone                                                      (* emptyEvent (newRound) *)
| PLRejected
| PLMalformed
| PLPipelined (rnd per : N) (pinned : bool) (prop : value) (auth : option vote)
| PLAccepted (prop : value) (auth : option vote)
| PLCommittable (prop : value) (auth : option vote).

(* readStaging handled by the proposalStore of this round node (after roundRouter.update):
   returns (Proposal, Committable) *)
Definition rn_read_staging (pl : player) (per : N) (rn : roundNode) : res (roundNode * (value * bool)) :=
  do r <- with_period pl per 0 rn (fun pn => Ok (pn, pt_staging (pn_pt pn)));
  let '(rn1, v) := r in
  Ok (rn1, (v, as_assembled (ps_asm_get (rn_store rn1) v))).

(* stagedValue(p, r, rnd, per) issued from inside the proposalStore: handled by the same
   roundRouter (update(state, per), then the store again) *)
Definition rn_staged_value (pl : player) (per : N) (rn : roundNode) : res (roundNode * (value * bool)) :=
  rn_read_staging pl per (rn_update pl per rn).

(* proposalStore.handle(voteVerified) *)
Definition rn_store_vote (pl : player) (rn : roundNode) (v : vote) : res (roundNode * pvres) :=
  do r <- with_period pl (vt_per v) 0 rn (pn_pt_op (fun t => pt_checked_vote t v));
  let '(rn1, ev) := r in
  match ev with
  | PVAccepted prop _ =>
      let st := rn_store rn1 in
      let ea := ps_asm_get st prop in
      let ea' := mkAsm (as_filled ea) (as_assembled ea) (as_auth ea ++ [v]) in
      let st1 := ps_set_asm prop ea' st in
      let st2 := mkPS (aset N.eqb (vt_per v) prop (ps_relevant st1)) (ps_pinned st1) (ps_asm st1) in
      Ok (rn_set_store (ps_trim pl st2) rn1, PVAccepted prop (as_assembled ea))
  | _ => Ok (rn1, ev)
  end.

(* proposalStore.handle(payloadPresent); the Round field is filled in by the manager *)
Definition rn_store_payload_present (pl : player) (rn : roundNode) (pv : value) : roundNode * plres :=
  let st := rn_store rn in
  match aget value_eqb pv (ps_asm st) with
  | None => (rn, PLRejected)
  | Some ea =>
      if as_assembled ea then (rn, PLRejected)
      else if as_filled ea then (rn, PLRejected)
      else
        let st1 := ps_set_asm pv (mkAsm true (as_assembled ea) (as_auth ea)) st in
        let '(rper, pinned) := ps_last_relevant st1 pv in
        (rn_set_store st1 rn, PLPipelined 0 rper pinned pv (authenticator (p_per pl) (as_auth ea)))
  end.

(* proposalStore.handle(payloadVerified) *)
Definition rn_store_payload_verified (pl : player) (rn : roundNode) (pv : value) : res (roundNode * plres) :=
  let st := rn_store rn in
  match aget value_eqb pv (ps_asm st) with
  | None => Ok (rn, PLRejected)
  | Some ea =>
      if as_assembled ea then Ok (rn, PLRejected)
      else
        let rn1 := rn_set_store (ps_set_asm pv (mkAsm (as_filled ea) true (as_auth ea)) st) rn in
        do r <- rn_staged_value pl (p_per pl) rn1;
        let '(rn2, (sv, _)) := r in
        let auth := authenticator (p_per pl) (as_auth ea) in
        if value_eqb sv pv then Ok (rn2, PLCommittable pv auth) else Ok (rn2, PLAccepted pv auth)
  end.

(* proposalStore.handle(newPeriod) *)
Definition rn_store_new_period (pl : player) (rn : roundNode) (target : N) (starting : value) : res roundNode :=
  do r <- rn_staged_value pl (p_per pl) rn;
  let '(rn1, (staged, _)) := r in
  let st := rn_store rn1 in
  let pinned := if negb (is_bottom starting) then starting
                else if negb (is_bottom staged) then staged else ps_pinned st in
  let rel := filter (fun kv => negb (add1 (fst kv) <? target)) (ps_relevant st) in
  Ok (rn_set_store (ps_trim pl (mkPS rel pinned (ps_asm st))) rn1).

(* proposalStore.handle(newRound) *)
Definition rn_store_new_round (pl : player) (rn : roundNode) : res plres :=
  let st := rn_store rn in
  match ps_asm st with
  | _ :: _ :: _ => Panic "proposalStore_too_many_assemblers"
  | [(pv, ea)] =>
      if as_filled ea then
        let '(rper, pinned) := ps_last_relevant st pv in
        Ok (PLPipelined 0 rper pinned pv (authenticator (p_per pl) (as_auth ea)))
      else Ok PLNone
  | [] => Ok PLNone
  end.

(* proposalStore.handle(softThreshold / certThreshold): committable? *)
Inductive thres := THCommittable (prop : value) (auth : option vote) | THAccepted (prop : value).
Definition rn_store_threshold (pl : player) (rn : roundNode) (th : thresh) : res (roundNode * thres) :=
  do r <- with_period pl (th_per th) 0 rn (pn_pt_op (fun t => pt_checked_threshold t th));
  let '(rn1, prop) := r in
  let st := rn_store rn1 in
  let ea := ps_asm_get st prop in
  if as_assembled ea then Ok (rn1, THCommittable prop (authenticator (p_per pl) (as_auth ea)))
  else
    let st1 := ps_set_asm prop ea st in
    let st2 := mkPS (aset N.eqb (th_per th) prop (ps_relevant st1)) (ps_pinned st1) (ps_asm st1) in
    Ok (rn_set_store (ps_trim pl st2) rn1, THAccepted prop).

(* proposalStore.handle(readLowestVote): only the routing side effects remain in the model *)
Definition rn_store_read_lowest (pl : player) (rn : roundNode) (per : N) : res roundNode :=
  do r <- with_period pl per 0 rn (fun pn => Ok (pn, tt));
  Ok (fst r).

(* proposalStore.handle(readPinned): (Pinned, PayloadOK) *)
Definition rn_store_read_pinned (rn : roundNode) : value * bool :=
  let st := rn_store rn in (ps_pinned st, as_assembled (ps_asm_get st (ps_pinned st))).
