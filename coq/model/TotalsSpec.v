(* C12: the property as declarative sums over the accounts of a round (unbounded N arithmetic,
   no wrap, no incremental bookkeeping), and the executable checker run on the implementation's
   observations.  No proofs in this file. *)
From Coq Require Import NArith ZArith List Bool String.
From Verif.lib Require Import Term.
From Verif.model Require Import Overflow Totals.
Import ListNotations.
Open Scope N_scope.

(* ---------- what the totals of a round must be ---------- *)
Definition units_of (unit : N) (a : acct) : N := a_malgos a / unit.
(* AccountData.Money: balance including the rewards pending at level L *)
Definition money_at (unit L : N) (a : acct) : N :=
  if a_st a =? stNotPart then a_malgos a
  else a_malgos a + units_of unit a * (L - a_rbase a).

Definition sum_by {A} (f : A -> N) (l : list A) : N := fold_right (fun x s => f x + s) 0 l.

Definition cls_money (unit L X : N) (a : acct) : N := if a_st a =? X then money_at unit L a else 0.
Definition cls_units (unit X : N) (a : acct) : N := if a_st a =? X then units_of unit a else 0.

Definition class_count (unit L X : N) (w : world) : algocount :=
  mkAC (sum_by (fun e => cls_money unit L X (snd e)) w) (sum_by (fun e => cls_units unit X (snd e)) w).

Definition class_sums (unit L : N) (w : world) : totals :=
  mkT (class_count unit L stOnline w) (class_count unit L stOffline w)
      (class_count unit L stNotPart w) L.

(* the accounts of round r read off the block history alone *)
Definition state_at (genesis : list (N * acct)) (bs : list block) (r : nat) : world :=
  fold_left (fun w b => wapply (b_mods b) w) (firstn r bs) (wapply genesis []).
Definition level_at (bs : list block) (r : nat) : N :=
  match r with O => 0 | S r' => match nth_error bs r' with Some b => b_level b | None => 0 end end.
Definition spec_totals (unit : N) (genesis : list (N * acct)) (bs : list block) (r : nat) : totals :=
  class_sums unit (level_at bs r) (state_at genesis bs r).

(* the blocks of a schedule *)
Fixpoint blocks_of (ops : list top) : list block :=
  match ops with
  | [] => []
  | TNewBlock b :: r => b :: blocks_of r
  | _ :: r => blocks_of r
  end.

(* uint64 typing of the inputs *)
Definition u64 (x : N) : bool := x <? 2 ^ 64.
Definition acct_ok (a : acct) : bool := u64 (a_malgos a) && u64 (a_rbase a).
Definition accts_ok (l : list (N * acct)) : bool := forallb (fun e => acct_ok (snd e)) l.
Fixpoint nodup_keys (l : list (N * acct)) : bool :=
  match l with
  | [] => true
  | (k, _) :: r => negb (existsb (fun e => fst e =? k) r) && nodup_keys r
  end.
Definition mods_ok (l : list (N * acct)) : bool := accts_ok l && nodup_keys l.
Definition block_ok (b : block) : bool := u64 (b_level b) && mods_ok (b_mods b).

(* ---------- what Ledger.LookupAccount reports for an account (rewards applied) ---------- *)
(* (status, MicroAlgos with pending rewards, MicroAlgos without) ; None = the Go code panics *)
Definition lookup_account (unit L : N) (a : acct) : option (N * N * N) :=
  match with_updated_rewards unit a L with
  | Some m => Some (a_st a, m, a_malgos a)
  | None => None
  end.

(* class sums over the LookupAccount answers of all addresses *)
Definition obs_count (unit X : N) (l : list (N * (N * N * N))) : algocount :=
  mkAC (sum_by (fun e => let '(st, mw, _) := snd e in if st =? X then mw else 0) l)
       (sum_by (fun e => let '(st, _, mo) := snd e in if st =? X then mo / unit else 0) l).
Definition obs_sums (unit L : N) (l : list (N * (N * N * N))) : totals :=
  mkT (obs_count unit stOnline l) (obs_count unit stOffline l) (obs_count unit stNotPart l) L.

(* ---------- equality / encodings ---------- *)
Definition ac_eqb (a b : algocount) : bool := (c_money a =? c_money b) && (c_units a =? c_units b).
Definition totals_eqb (a b : totals) : bool :=
  ac_eqb (t_on a) (t_on b) && ac_eqb (t_off a) (t_off b) && ac_eqb (t_np a) (t_np b) &&
  (t_level a =? t_level b).

Definition t_totals (t : totals) : term :=
  TL [tn (c_money (t_on t)); tn (c_units (t_on t)); tn (c_money (t_off t)); tn (c_units (t_off t));
      tn (c_money (t_np t)); tn (c_units (t_np t)); tn (t_level t)].
Definition as_totals (t : term) : option totals :=
  match as_N_list t with
  | Some [a; b; c; d; e; f; g] => Some (mkT (mkAC a b) (mkAC c d) (mkAC e f) g)
  | _ => None
  end.
Definition as_acct_entry (t : term) : option (N * acct) :=
  match as_N_list t with
  | Some [k; st; m; rb] => Some (k, mkA st m rb)
  | _ => None
  end.
Definition as_accts (t : term) : option (list (N * acct)) :=
  match t with TL l => map_opt as_acct_entry l | _ => None end.
Definition as_obs_entry (t : term) : option (N * (N * N * N)) :=
  match as_N_list t with
  | Some [k; st; mw; mo] => Some (k, (st, mw, mo))
  | _ => None
  end.

(* ---------- raw steps: one AccountTotals method call on arbitrary data ---------- *)
(* closed-form requirement on an observed step (independent of the wrapped model):
   the tracker flag is raised exactly when the exact result leaves uint64, and while it is
   not raised the stored numbers are the exact ones. *)
Definition W : N := 2 ^ 64.
Definition exact_money (unit L : N) (a : acct) : option N :=    (* None: the call must panic *)
  if a_st a =? stNotPart then Some (a_malgos a)
  else if a_rbase a <=? L then
         let m := money_at unit L a in if m <? W then Some m else None
       else None.

Definition spec_field_step (add : bool) (c : algocount) (m u : N) (c' : algocount) (ot ot' : bool) : bool :=
  let ovf := if add then (W <=? c_money c + m) || (W <=? c_units c + u)
             else (c_money c <? m) || (c_units c <? u) in
  Bool.eqb ot' (ot || ovf) &&
  (ot' || (if add then (c_money c' =? c_money c + m) && (c_units c' =? c_units c + u)
           else (c_money c' =? c_money c - m) && (c_units c' =? c_units c - u))).

Definition others_same (st : N) (t t' : totals) : bool :=
  (t_level t =? t_level t') &&
  ((st =? stOnline) || ac_eqb (t_on t) (t_on t')) &&
  ((st =? stOffline) || ac_eqb (t_off t) (t_off t')) &&
  ((st =? stNotPart) || ac_eqb (t_np t) (t_np t')).

Definition spec_adddel (add : bool) (unit : N) (a : acct) (t : totals) (ot : bool)
           (obs : option (totals * bool)) : bool :=
  match status_field (a_st a) t, (if unit =? 0 then None else exact_money unit (t_level t) a) with
  | Some c, Some m =>
      match obs with
      | Some (t', ot') =>
          match status_field (a_st a) t' with
          | Some c' => spec_field_step add c m (units_of unit a) c' ot ot' && others_same (a_st a) t t'
          | None => false
          end
      | None => false
      end
  | _, _ => match obs with None => true | Some _ => false end
  end.

Definition spec_rewards (level : N) (t : totals) (ot : bool) (obs : option (totals * bool)) : bool :=
  match obs with
  | None => false                       (* ApplyRewards never panics *)
  | Some (t', ot') =>
      let rpu := level - t_level t in
      let ovf := (level <? t_level t)
                 || (W <=? c_units (t_on t) * rpu) || (W <=? c_money (t_on t) + c_units (t_on t) * rpu)
                 || (W <=? c_units (t_off t) * rpu) || (W <=? c_money (t_off t) + c_units (t_off t) * rpu) in
      (t_level t' =? level) && ac_eqb (t_np t) (t_np t') &&
      (c_units (t_on t') =? c_units (t_on t)) && (c_units (t_off t') =? c_units (t_off t)) &&
      Bool.eqb ot' (ot || ovf) &&
      (ot' || ((c_money (t_on t') =? c_money (t_on t) + c_units (t_on t) * rpu) &&
               (c_money (t_off t') =? c_money (t_off t) + c_units (t_off t) * rpu)))
  end.

Definition t_step_obs (o : option (totals * bool)) : term :=
  match o with
  | Some (t, ot) => TL [TS "ok"; t_totals t; tb ot]
  | None => TL [TS "panic"]
  end.
Definition as_step_obs (t : term) : option (option (totals * bool)) :=
  match t with
  | TL [TS "ok"; tx; TZ o] =>
      match as_totals tx, as_bool (TZ o) with
      | Some x, Some b => Some (Some (x, b))
      | _, _ => None
      end
  | TL [TS "panic"] => Some None
  | _ => None
  end.

Definition step_obs_eqb (a b : option (totals * bool)) : bool :=
  match a, b with
  | Some (x, o), Some (y, p) => totals_eqb x y && Bool.eqb o p
  | None, None => true
  | _, _ => false
  end.

Definition totals_u64 (t : totals) : bool :=
  u64 (c_money (t_on t)) && u64 (c_units (t_on t)) && u64 (c_money (t_off t)) && u64 (c_units (t_off t)) &&
  u64 (c_money (t_np t)) && u64 (c_units (t_np t)) && u64 (t_level t).

Definition check_raw (unit : N) (t : totals) (ot : bool) (op obs : term) : term :=
  if negb (u64 unit && totals_u64 t) then v_parse else
  match as_step_obs obs with
  | None => v_parse
  | Some o =>
      match op with
      | TL [TS "add"; TZ st; TZ m; TZ rb] =>
          let a := mkA (Z.to_N st) (Z.to_N m) (Z.to_N rb) in
          if negb (acct_ok a) || (st <? 0)%Z || (m <? 0)%Z || (rb <? 0)%Z then v_parse else
          let mo := add_account unit a t ot in
          verdict (spec_adddel true unit a t ot o) (step_obs_eqb mo o) true (t_step_obs mo)
      | TL [TS "del"; TZ st; TZ m; TZ rb] =>
          let a := mkA (Z.to_N st) (Z.to_N m) (Z.to_N rb) in
          if negb (acct_ok a) || (st <? 0)%Z || (m <? 0)%Z || (rb <? 0)%Z then v_parse else
          let mo := del_account unit a t ot in
          verdict (spec_adddel false unit a t ot o) (step_obs_eqb mo o) true (t_step_obs mo)
      | TL [TS "rew"; TZ lv0] =>
          let lv := Z.to_N lv0 in
          if negb (u64 lv) || (lv0 <? 0)%Z then v_parse else
          let mo := Some (apply_rewards lv t ot) in
          verdict (spec_rewards lv t ot o) (step_obs_eqb mo o) true (t_step_obs mo)
      | _ => v_parse
      end
  end.

(* All() / Participating() / RewardUnits(): obs = (ok part all units) | (panic ...) per call *)
Definition t_opt (o : option N) : term := match o with Some n => tn n | None => TZ (-1) end.
Definition spec_sum2 (a b : N) : option N := if a + b <? W then Some (a + b) else None.
Definition check_all (t : totals) (obs : term) : term :=
  if negb (totals_u64 t) then v_parse else
  let m := TL [t_opt (participating t); t_opt (all_money t); t_opt (part_units t)] in
  let part := spec_sum2 (c_money (t_on t)) (c_money (t_off t)) in
  let s := TL [t_opt part;
               t_opt (match part with Some p => spec_sum2 (c_money (t_np t)) p | None => None end);
               t_opt (spec_sum2 (c_units (t_on t)) (c_units (t_off t)))] in
  verdict (term_eqb obs s) (term_eqb obs m) true m.

(* ---------- ledger histories ---------- *)
Record lst := mkL {
  l_tr : option tracker;     (* the model; None once the model rejects an operation *)
  l_bs : list block;         (* blocks so far (rounds 1..) *)
  l_spec : bool;
  l_corr : bool;
  l_bad : bool;
  l_nq : N;                  (* served queries checked *)
  l_moves : N;               (* account modifications that changed the status class *)
  l_first : term
}.

Definition l_fail_spec (c : lst) (d : term) : lst :=
  mkL (l_tr c) (l_bs c) false (l_corr c) (l_bad c) (l_nq c) (l_moves c)
      (if l_spec c then d else l_first c).
Definition l_fail_corr (c : lst) (d : term) : lst :=
  mkL (l_tr c) (l_bs c) (l_spec c) false (l_bad c) (l_nq c) (l_moves c)
      (if l_spec c && l_corr c then d else l_first c).
Definition l_set_bad (c : lst) : lst :=
  mkL (l_tr c) (l_bs c) (l_spec c) (l_corr c) true (l_nq c) (l_moves c) (l_first c).

Definition model_latest_totals (c : lst) : option totals :=
  match l_tr c with
  | Some s => nth_error (tr_round_totals s) (List.length (tr_deltas s))
  | None => None
  end.

Definition count_moves (w : world) (mods : list (N * acct)) : N :=
  N.of_nat (List.length (filter (fun e => negb (a_st (wget (fst e) w) =? a_st (snd e))) mods)).

(* model's LookupAccount for every observed address *)
Definition model_lookups (unit L : N) (w : world) (keys : list N) : list (option (N * (N * N * N))) :=
  map (fun k => match lookup_account unit L (wget k w) with
                | Some r => Some (k, r) | None => None end) keys.
Definition obs_entry_eqb (a : option (N * (N * N * N))) (b : N * (N * N * N)) : bool :=
  match a with
  | Some (k, (st, mw, mo)) =>
      let '(k', (st', mw', mo')) := b in (k =? k') && (st =? st') && (mw =? mw') && (mo =? mo')
  | None => false
  end.
Fixpoint all2 {A B} (f : A -> B -> bool) (l1 : list A) (l2 : list B) : bool :=
  match l1, l2 with
  | [], [] => true
  | x :: r1, y :: r2 => f x y && all2 f r1 r2
  | _, _ => false
  end.

Definition do_lop (unit : N) (genesis : list (N * acct)) (c : lst) (idx : N) (t : term) : lst :=
  if l_bad c then c else
  match t with
  | TL [TS "b"; TZ lv; mods; tobs] =>
      match as_accts mods, as_totals tobs with
      | Some ms, Some to =>
          let b := mkB (Z.to_N lv) ms in
          if negb (block_ok b) then l_set_bad c else
          let bs := l_bs c ++ [b] in
          let wprev := state_at genesis (l_bs c) (List.length (l_bs c)) in
          let tr' := match l_tr c with Some s => tstep unit s (TNewBlock b) | None => None end in
          let c1 := mkL tr' bs (l_spec c) (l_corr c) (l_bad c) (l_nq c)
                        (l_moves c + count_moves wprev ms) (l_first c) in
          (* the totals the evaluator put into the StateDelta *)
          let want := spec_totals unit genesis bs (List.length bs) in
          let c2 := if totals_eqb to want then c1
                    else l_fail_spec c1 (TL [tn idx; TS "delta_totals"; t_totals want]) in
          match model_latest_totals c2 with
          | Some mt => if totals_eqb mt to then c2
                       else l_fail_corr c2 (TL [tn idx; TS "delta_totals_model"; t_totals mt])
          | None => l_fail_corr c2 (TL [tn idx; TS "model_rejects_block"])
          end
      | _, _ => l_set_bad c
      end
  | TL [TS "c"; TZ newdb] =>
      match l_tr c with
      | Some s =>
          let nd := Z.to_N newdb in
          if nd <? tr_dbround s then l_fail_corr c (TL [tn idx; TS "dbround_went_back"])
          else mkL (tstep unit s (TCommit (N.to_nat (nd - tr_dbround s)))) (l_bs c) (l_spec c) (l_corr c)
                   (l_bad c) (l_nq c) (l_moves c) (l_first c)
      | None => c
      end
  | TL [TS "r"] =>
      match l_tr c with
      | Some s => mkL (tstep unit s TReload) (l_bs c) (l_spec c) (l_corr c) (l_bad c) (l_nq c)
                      (l_moves c) (l_first c)
      | None => c
      end
  | TL [TS "q"; TZ rnd; TL [TS "err"]; _] =>
      let r := Z.to_N rnd in
      match l_tr c with
      | Some s => match serve s r with
                  | None => c
                  | Some mt => l_fail_corr c (TL [tn idx; TS "served_by_model"; t_totals mt])
                  end
      | None => c
      end
  | TL [TS "q"; TZ rnd; TL [TS "ok"; tobs]; TL accts] =>
      match as_totals tobs, map_opt as_obs_entry accts with
      | Some to, Some obsl =>
          let r := Z.to_N rnd in
          let rn := N.to_nat r in
          if (List.length (l_bs c) <? rn)%nat then
            l_fail_spec c (TL [tn idx; TS "served_future_round"])
          else
          let L := level_at (l_bs c) rn in
          let w := state_at genesis (l_bs c) rn in
          (* the property, twice: against the sums of the LookupAccount answers, and against
             the sums over the accounts the block history implies *)
          let s1 := obs_sums unit L obsl in
          let s2 := class_sums unit L w in
          let c1 := mkL (l_tr c) (l_bs c) (l_spec c) (l_corr c) (l_bad c) (l_nq c + 1) (l_moves c) (l_first c) in
          let c2 := if totals_eqb to s1 then c1
                    else l_fail_spec c1 (TL [tn idx; TS "sum_of_lookups"; t_totals s1]) in
          let c3 := if totals_eqb to s2 then c2
                    else l_fail_spec c2 (TL [tn idx; TS "sum_of_history"; t_totals s2]) in
          let c4 := match l_tr c with
                    | Some s => match serve s r with
                                | Some mt => if totals_eqb mt to then c3
                                             else l_fail_corr c3 (TL [tn idx; TS "model_totals"; t_totals mt])
                                | None => l_fail_corr c3 (TL [tn idx; TS "model_does_not_serve"])
                                end
                    | None => l_fail_corr c3 (TL [tn idx; TS "model_stopped"])
                    end in
          if all2 obs_entry_eqb (model_lookups unit L w (map fst obsl)) obsl then c4
          else l_fail_corr c4 (TL [tn idx; TS "lookup_account"])
      | _, _ => l_set_bad c
      end
  | _ => l_set_bad c
  end.

Fixpoint do_lops (unit : N) (genesis : list (N * acct)) (c : lst) (idx : N) (ops : list term) : lst :=
  match ops with
  | [] => c
  | o :: r => do_lops unit genesis (do_lop unit genesis c idx o) (idx + 1) r
  end.

Definition check_led (unit : N) (genesis : list (N * acct)) (ops : list term) : term :=
  if negb (u64 unit && mods_ok genesis) then v_parse else
  let c0 := mkL (tracker_init unit genesis) [] true true false 0 0 (TL []) in
  let c := do_lops unit genesis c0 0 ops in
  if l_bad c then v_parse
  else verdict (l_spec c) (l_corr c) ((0 <? l_nq c) && (0 <? l_moves c)) (l_first c).

Definition check (t : term) : term :=
  match t with
  | TL [TS "raw"; TZ unit; tx; TZ ot; op; obs] =>
      match as_totals tx, as_bool (TZ ot) with
      | Some t0, Some o => if (unit <? 0)%Z then v_parse else check_raw (Z.to_N unit) t0 o op obs
      | _, _ => v_parse
      end
  | TL [TS "all"; tx; obs] =>
      match as_totals tx with Some t0 => check_all t0 obs | None => v_parse end
  | TL [TS "led"; TZ unit; g; TL ops] =>
      match as_accts g with
      | Some genesis => if (unit <? 0)%Z then v_parse else check_led (Z.to_N unit) genesis ops
      | None => v_parse
      end
  | _ => v_parse
  end.
