(* C04 model: agreement/bundle.go unauthenticatedBundle.verifyAsync and
   agreement/certificate.go Certificate.Authenticate, same checks in the same order.
   Per-vote cryptographic verification (membership, key window, one-time signature, VRF
   credential: unauthenticatedVote.verify after its pure prefix) is an oracle: each vote of
   the bundle carries the outcome of verifying it RE-ASSEMBLED with the bundle's
   round/period/step/proposal ([Some weight] or [None]).  No proofs in this file. *)
From Coq Require Import List NArith ZArith Bool String.
From Verif.lib Require Import Term.
Import ListNotations.
Open Scope N_scope.

Record bvote := { bv_sender : N; bv_ok : option N }.
(* equivocation pair: proposals identical?, outcome of verifying each half *)
Record beq := { be_sender : N; be_same : bool; be_ok0 : option N; be_ok1 : bool }.

Record ubundle := {
  b_step : N;            (* 0 propose, 1 soft, 2 cert, 3.. next, 253 late, 254 redo, 255 down *)
  b_bottom : bool;       (* the bundle's proposal value is bottom *)
  b_votes : list bvote;
  b_eqs : list beq
}.

Inductive verr := EStep | ETooLarge | EDupVote | EDupEq | EBadVote | EBadEq | EWeight.

(* pure prefix of unauthenticatedVote.verify: propose/soft/cert votes cannot validate bottom *)
Definition vote_valid (step : N) (bottom : bool) (v : bvote) : option N :=
  if (step <=? 2) && bottom then None else bv_ok v.

Definition eq_valid (e : beq) : option N :=
  if be_same e then None
  else match be_ok0 e with
       | None => None
       | Some w => if be_ok1 e then Some w else None
       end.

Fixpoint mem (x : N) (l : list N) : bool :=
  match l with [] => false | y :: l' => (x =? y) || mem x l' end.

(* first loop: duplicate senders among Votes; second: among EquivocationVotes and vs Votes *)
Fixpoint dup_scan (seen : list N) (l : list N) : option (list N) :=
  match l with
  | [] => Some seen
  | x :: l' => if mem x seen then None else dup_scan (x :: seen) l'
  end.

Definition W64 : N := 2 ^ 64.
Definition wadd (a b : N) : N := (a + b) mod W64.

(* results are consumed in arbitrary completion order; the first invalid one aborts.  The
   outcome (accept / reject) does not depend on that order; the model scans in list order. *)
Fixpoint sum_votes (step : N) (bottom : bool) (l : list bvote) (acc : N) : option N :=
  match l with
  | [] => Some acc
  | v :: l' => match vote_valid step bottom v with
               | None => None
               | Some w => sum_votes step bottom l' (wadd acc w)
               end
  end.

Fixpoint sum_eqs (l : list beq) (acc : N) : option N :=
  match l with
  | [] => Some acc
  | e :: l' => match eq_valid e with
               | None => None
               | Some w => sum_eqs l' (wadd acc w)
               end
  end.

Definition verify (thr : N) (b : ubundle) : option verr :=   (* None = accepted *)
  if b_step b =? 0 then Some EStep else
  let nv := N.of_nat (List.length (b_votes b)) in
  let ne := N.of_nat (List.length (b_eqs b)) in
  if (thr <? nv) || (thr <? ne) || (thr <? nv + ne) then Some ETooLarge else
  match dup_scan [] (map bv_sender (b_votes b)) with
  | None => Some EDupVote
  | Some seen =>
      match dup_scan seen (map be_sender (b_eqs b)) with
      | None => Some EDupEq
      | Some _ =>
          match sum_votes (b_step b) (b_bottom b) (b_votes b) 0 with
          | None => Some EBadVote
          | Some w1 =>
              match sum_eqs (b_eqs b) w1 with
              | None => Some EBadEq
              | Some w => if thr <=? w then None else Some EWeight
              end
          end
      end
  end.

Inductive cerr := CStep | CRound | CDigest | CBundle (e : verr).

(* Certificate.Authenticate *)
Definition authenticate (thr : N) (cert_round blk_round : N) (digest_match : bool) (b : ubundle) : option cerr :=
  if negb (b_step b =? 2) then Some CStep else
  if negb (cert_round =? blk_round) then Some CRound else
  if negb digest_match then Some CDigest else
  match verify thr b with None => None | Some e => Some (CBundle e) end.

(* ---- the property, declaratively (independent of the scan order above) ---- *)
Fixpoint nodupb (l : list N) : bool :=
  match l with [] => true | x :: l' => negb (mem x l') && nodupb l' end.

Fixpoint total (ws : list (option N)) : option N :=
  match ws with
  | [] => Some 0
  | None :: _ => None
  | Some w :: ws' => match total ws' with None => None | Some t => Some (w + t) end
  end.

Definition all_weights (b : ubundle) : list (option N) :=
  map (vote_valid (b_step b) (b_bottom b)) (b_votes b) ++ map eq_valid (b_eqs b).

(* distinct voters, every vote valid for the claimed (round, period, step, value), every
   equivocation pair a genuine valid pair, and the total weight reaches the threshold *)
Definition proves_quorum (thr : N) (b : ubundle) : bool :=
  negb (b_step b =? 0) &&
  nodupb (map bv_sender (b_votes b) ++ map be_sender (b_eqs b)) &&
  match total (all_weights b) with
  | None => false
  | Some t => thr <=? t
  end.

(* ---- line protocol ---- *)
Definition p_optw (ok w : Z) : option N := if Z.eqb ok 1 then Some (Z.to_N w) else None.

Definition p_vote (t : term) : option bvote :=
  match t with
  | TL [TZ s; TZ ok; TZ w] => Some {| bv_sender := Z.to_N s; bv_ok := p_optw ok w |}
  | _ => None
  end.

Definition p_eq (t : term) : option beq :=
  match t with
  | TL [TZ s; TZ same; TZ ok0; TZ w0; TZ ok1] =>
      Some {| be_sender := Z.to_N s; be_same := Z.eqb same 1; be_ok0 := p_optw ok0 w0; be_ok1 := Z.eqb ok1 1 |}
  | _ => None
  end.

Definition p_bundle (t : term) : option ubundle :=
  match t with
  | TL [TZ step; TZ bottom; TL vs; TL es] =>
      match map_opt p_vote vs, map_opt p_eq es with
      | Some vs', Some es' => Some {| b_step := Z.to_N step; b_bottom := Z.eqb bottom 1; b_votes := vs'; b_eqs := es' |}
      | _, _ => None
      end
  | _ => None
  end.

Definition small_sum (b : ubundle) : bool :=   (* no uint64 wrap in the weight sum *)
  match total (map (fun v => match bv_ok v with Some w => Some w | None => Some 0 end) (b_votes b) ++
               map (fun e => match be_ok0 e with Some w => Some w | None => Some 0 end) (b_eqs b)) with
  | Some t => t <? W64
  | None => false
  end.

(* case: (bundle thr <bundle> accepted)  |  (cert thr cround bround digestmatch <bundle> accepted) *)
Definition check (t : term) : term :=
  match t with
  | TL [TS "bundle"; TZ thr; bt; TZ acc] =>
      match p_bundle bt with
      | None => v_parse
      | Some b =>
          if negb (small_sum b) then v_parse else
          let thr := Z.to_N thr in
          let acc := Z.eqb acc 1 in
          let m := match verify thr b with None => true | Some _ => false end in
          (* spec: accepted -> proves a quorum (rejection of every listed alteration is the
             contrapositive); completeness up to the size rule is carried by the model *)
          verdict (implb acc (proves_quorum thr b)) (Bool.eqb acc m)
                  (negb (Nat.eqb (List.length (b_votes b) + List.length (b_eqs b)) 0)) (tb m)
      end
  | TL [TS "cert"; TZ thr; TZ cr; TZ br; TZ dm; bt; TZ acc] =>
      match p_bundle bt with
      | None => v_parse
      | Some b =>
          if negb (small_sum b) then v_parse else
          let thr := Z.to_N thr in
          let acc := Z.eqb acc 1 in
          let m := match authenticate thr (Z.to_N cr) (Z.to_N br) (Z.eqb dm 1) b with None => true | Some _ => false end in
          let spec := (b_step b =? 2) && (Z.eqb cr br) && (Z.eqb dm 1) && proves_quorum thr b &&
                      (negb (b_bottom b) || Nat.eqb (List.length (b_votes b)) 0) in
          verdict (implb acc spec) (Bool.eqb acc m) true (tb m)
      end
  | _ => v_parse
  end.
