(* C39  State proofs verify iff enough valid signatures back them.
   Executable transcription of /repo/crypto/stateproof/prover.go (MakeProver, Present, IsValid,
   Add, Ready, coinIndex, CreateProof) and verifier.go (Verifier.Verify,
   verifyStateProofTreesDepth), and of stateproof/verify/stateproof.go (ValidateStateProof,
   calculateAcceptableStateProofWeight).  Same order of checks, explicit mod 2^64 where the Go
   code adds uint64 values.

   ABSTRACT (Section variables; every theorem carries what it needs about them as premises):
     PK Sig Msg Dig Prf      public keys, merkle signatures, message hashes, digests, VC proofs
     salt_ok  sig v          Signature.ValidateSaltVersion(v) == nil
     commit_ok sig           buildCommittableSignature(sigslotCommit{sig,_}) returns no error
     sig_ok pk round msg sig merklesignature.Verifier.VerifyBytes(round, msg, sig) == nil
                             (this is validity for the key-lifetime window of [round]:
                              VerifyBytes only looks at round - round % KeyLifetime)
     coin seed j             the j-th value returned by getNextCoin of makeCoinGenerator(seed)
                             (SHAKE256 + rejection sampling: model/SpWeights.v, C38)
     vcs_* / vcp_*           BuildVectorCommitmentTree(..).Root / Prove / VerifyVectorCommitment over
                             the signature-slot array and the participant array (model/MerkleArray.v,
                             C37; instantiated there by proofs/StateProofMerkle.v)
     prf_depth               Proof.TreeDepth
   weights.go (numReveals, verifyWeights) is imported from model/SpWeights.v (C38, over Z).
   LnIntApproximation (float64) is not modelled: lnProvenWeight is a field of prover / verifier
   (as in ProverPersistedFields / MkVerifierWithLnProvenWeight); ValidateStateProof takes it
   through the abstract [ln_approx].
   [isValid] is IsValid with /verif/fixes/C39.patch (the signature must be committable);
   [isValid_unfixed] is the code before it.
   Not modelled: Prover.cachedProof (the model is the first CreateProof call), msgpack.
   Go maps (StateProof.Reveals) are association lists; [verify] walks them in list order (the Go
   iteration order is random: it only decides WHICH error is reported when several reveals are
   bad).  No proofs in this file. *)
From Coq Require Import NArith ZArith List Bool.
From Verif.model Require Import SpWeights.
Import ListNotations.
Open Scope N_scope.

Definition W64 : N := 2 ^ 64.
Definition MaxTreeDepth : N := 20.
Definition wadd (a b : N) : N := (a + b) mod W64.      (* uint64 + *)

Inductive sperr : Type :=
| ENotReady                 (* ErrSignedWeightLessThanProvenWeight *)
| EWeights (e : werr)       (* numReveals / verifyWeights *)
| ECommit                   (* buildCommittableSignature / BuildVectorCommitmentTree *)
| ECoinIndex                (* ErrCoinIndexError *)
| EPosBound                 (* ErrPositionOutOfBound *)
| EPresent                  (* ErrPositionAlreadyPresent *)
| EZeroWeight               (* ErrPositionWithZeroWeight *)
| EProve                    (* merklearray Tree.Prove error *)
| EDepth                    (* ErrTreeDepthTooLarge *)
| ESalt                     (* ErrSignatureSaltVersionMismatch *)
| ESig                      (* "signature in reveal pos %d does not verify" *)
| EVcSig | EVcPart          (* VerifyVectorCommitment on SigCommit / participantsCommitment *)
| ENoReveal                 (* ErrNoRevealInPos *)
| ECoin                     (* ErrCoinNotInRange *)
(* stateproof/verify *)
| ENotEnabled | ENotMultiple | EInsufficientWeight | EOverflow | ELnZero.

Inductive spres (A : Type) : Type :=
| SOk (a : A)
| SErr (e : sperr)
| SPanic          (* index out of range / shift panic: excluded by the theorems' premises *)
| SFuel.          (* never (coinIndex fuel): excluded by every theorem, counted by the harness *)
Arguments SOk {A}. Arguments SErr {A}. Arguments SPanic {A}. Arguments SFuel {A}.

Inductive cires : Type := CIOk (pos : N) | CIErr | CIPanic | CIFuel.

Fixpoint set_nth {A} (l : list A) (i : nat) (x : A) : list A :=
  match l, i with
  | [], _ => []
  | _ :: t, O => x :: t
  | h :: t, S i' => h :: set_nth t i' x
  end.

Fixpoint lookup {A} (k : N) (m : list (N * A)) : option A :=
  match m with
  | [] => None
  | (k', v) :: r => if k =? k' then Some v else lookup k r
  end.

Set Implicit Arguments.
Section Model.
  Variables PK Sig Msg Dig Prf : Type.

  Record participant : Type := mkPart { pt_pk : PK; pt_weight : N }.      (* basics.Participant *)
  Record slotC : Type := mkSlotC { sc_sig : Sig; sc_L : N }.              (* sigslotCommit *)
  Record slot : Type := mkSlot { sl_weight : N; sl_c : slotC }.           (* sigslot *)
  Record reveal : Type := mkReveal { rv_slot : slotC; rv_part : participant }.
  Record seed : Type := mkSeed                                            (* coinChoiceSeed *)
    { sd_partcom : Dig; sd_lnpw : N; sd_sigcom : Dig; sd_sw : N; sd_data : Msg }.
  Record stateproof : Type := mkSP
    { sp_sigcommit : Dig; sp_sw : N; sp_sigproofs : Prf; sp_partproofs : Prf; sp_salt : N;
      sp_reveals : list (N * reveal); sp_positions : list N }.
  Record verifier : Type := mkVerifier { v_st : N; v_lnpw : N; v_partcom : Dig }.
  (* Prover: persisted fields + sigs + signedWeight.  Parttree is the vector commitment of
     b_parts (what the callers of MakeProver pass). *)
  Record builder : Type := mkB
    { b_data : Msg; b_round : N; b_parts : list participant; b_lnpw : N; b_pw : N; b_st : N;
      b_sigs : list slot; b_sw : N }.

  Variable sig0 : Sig.                                   (* zero merklesignature.Signature *)
  Variable scheme_salt : N.                              (* merklesignature.SchemeSaltVersion *)
  Variable salt_ok : Sig -> N -> bool.
  Variable commit_ok : Sig -> bool.
  Variable sig_ok : PK -> N -> Msg -> Sig -> bool.
  Variable coin : seed -> nat -> N.
  Variable prf_depth : Prf -> N.
  Variable vcs_root : list slotC -> Dig.
  Variable vcs_prove : list slotC -> list N -> option Prf.
  Variable vcs_verify : Dig -> list (N * slotC) -> Prf -> bool.
  Variable vcp_root : list participant -> Dig.
  Variable vcp_prove : list participant -> list N -> option Prf.
  Variable vcp_verify : Dig -> list (N * participant) -> Prf -> bool.

  (* ---------------------------------------------------------------- prover.go *)
  Definition makeProver (data : Msg) (round pw lnpw : N) (parts : list participant) (st : N) : builder :=
    mkB data round parts lnpw pw st (repeat (mkSlot 0 (mkSlotC sig0 0)) (length parts)) 0.

  Definition present (b : builder) (pos : N) : spres bool :=
    match nth_error (b_sigs b) (N.to_nat pos) with
    | None => SErr EPosBound
    | Some s => SOk (negb (sl_weight s =? 0))
    end.

  (* IsValid with /verif/fixes/C39.patch: the signature must also be committable (checked
     outside the verifySig branch).  [isValid_unfixed] is the code before the patch. *)
  Definition isValid_gen (fixed : bool) (b : builder) (pos : N) (sig : Sig) (verifySig : bool) : spres unit :=
    match nth_error (b_parts b) (N.to_nat pos) with
    | None => SErr EPosBound
    | Some p =>
        if pt_weight p =? 0 then SErr EZeroWeight
        else if verifySig && negb (salt_ok sig scheme_salt) then SErr ESalt
        else if verifySig && negb (sig_ok (pt_pk p) (b_round b) (b_data b) sig) then SErr ESig
        else if fixed && negb (commit_ok sig) then SErr ECommit
        else SOk tt
    end.
  Definition isValid := isValid_gen true.
  Definition isValid_unfixed := isValid_gen false.

  Definition add (b : builder) (pos : N) (sig : Sig) : spres builder :=
    match present b pos with
    | SOk true => SErr EPresent
    | SOk false =>
        match nth_error (b_parts b) (N.to_nat pos), nth_error (b_sigs b) (N.to_nat pos) with
        | Some p, Some s =>
            SOk (mkB (b_data b) (b_round b) (b_parts b) (b_lnpw b) (b_pw b) (b_st b)
                     (set_nth (b_sigs b) (N.to_nat pos) (mkSlot (pt_weight p) (mkSlotC sig (sc_L (sl_c s)))))
                     (wadd (b_sw b) (pt_weight p)))
        | _, _ => SPanic
        end
    | SErr e => SErr e
    | SPanic => SPanic
    | SFuel => SFuel
    end.

  Definition ready (b : builder) : bool := b_pw b <? b_sw b.

  (* for i := 1; i < len(sigs); i++ { sigs[i].L = sigs[i-1].L + sigs[i-1].Weight } *)
  Fixpoint commitL_from (l : N) (sigs : list slot) : list slot :=
    match sigs with
    | [] => []
    | s :: r => mkSlot (sl_weight s) (mkSlotC (sc_sig (sl_c s)) l) :: commitL_from (wadd l (sl_weight s)) r
    end.
  Definition commitL (sigs : list slot) : list slot :=
    match sigs with
    | [] => []
    | s :: r => s :: commitL_from (wadd (sc_L (sl_c s)) (sl_weight s)) r     (* sigs[0].L is kept *)
    end.

  (* coinIndex: binary search with the goto loop unrolled by fuel *)
  Fixpoint coinIndex (fuel : nat) (sigs : list slot) (c lo hi : N) : cires :=
    match fuel with
    | O => CIFuel
    | S f =>
        if hi <=? lo then CIErr
        else
          let mid := (lo + hi) / 2 in
          match nth_error sigs (N.to_nat mid) with
          | None => CIPanic
          | Some s =>
              if c <? sc_L (sl_c s) then coinIndex f sigs c lo mid
              else if c <? wadd (sc_L (sl_c s)) (sl_weight s) then CIOk mid
              else coinIndex f sigs c (mid + 1) hi
          end
    end.

  Record rstate : Type := mkRS { rs_reveals : list (N * reveal); rs_seq : list N; rs_pp : list N }.

  (* the reveal loop of CreateProof: k iterations left, j = index of the next coin *)
  Fixpoint revealLoop (sigs : list slot) (parts : list participant) (sd : seed)
           (k j : nat) (st : rstate) : spres rstate :=
    match k with
    | O => SOk st
    | S k' =>
        match coinIndex (S (length sigs)) sigs (coin sd j) 0 (N.of_nat (length sigs)) with
        | CIErr => SErr ECoinIndex
        | CIPanic => SPanic
        | CIFuel => SFuel
        | CIOk pos =>
            if N.of_nat (length parts) <=? pos then SErr EPosBound
            else match lookup pos (rs_reveals st) with
                 | Some _ => revealLoop sigs parts sd k' (S j)
                                        (mkRS (rs_reveals st) (rs_seq st ++ [pos]) (rs_pp st))
                 | None =>
                     match nth_error sigs (N.to_nat pos), nth_error parts (N.to_nat pos) with
                     | Some s, Some p =>
                         revealLoop sigs parts sd k' (S j)
                                    (mkRS (rs_reveals st ++ [(pos, mkReveal (sl_c s) p)])
                                          (rs_seq st ++ [pos]) (rs_pp st ++ [pos]))
                     | _, _ => SPanic
                     end
                 end
        end
    end.

  Definition createProof (b : builder) : spres stateproof :=
    if negb (ready b) then SErr ENotReady
    else
      let sigs := commitL (b_sigs b) in
      if negb (forallb (fun s => commit_ok (sc_sig (sl_c s))) sigs) then SErr ECommit
      else
        let slots := map sl_c sigs in
        let sigcom := vcs_root slots in
        match numReveals (Z.of_N (b_sw b)) (Z.of_N (b_lnpw b)) (Z.of_N (b_st b)) with
        | WErr e => SErr (EWeights e)
        | WPanic => SPanic
        | WOk nr =>
            let sd := mkSeed (vcp_root (b_parts b)) (b_lnpw b) sigcom (b_sw b) (b_data b) in
            match revealLoop sigs (b_parts b) sd (Z.to_nat nr) 0 (mkRS [] [] []) with
            | SErr e => SErr e
            | SPanic => SPanic
            | SFuel => SFuel
            | SOk st =>
                match vcs_prove slots (rs_pp st), vcp_prove (b_parts b) (rs_pp st) with
                | Some sp, Some pp =>
                    SOk (mkSP sigcom (b_sw b) sp pp scheme_salt (rs_reveals st) (rs_seq st))
                | _, _ => SErr EProve
                end
            end
        end.

  (* ---------------------------------------------------------------- verifier.go *)
  Definition sig_claims (rv : list (N * reveal)) : list (N * slotC) :=
    map (fun pr => (fst pr, rv_slot (snd pr))) rv.
  Definition part_claims (rv : list (N * reveal)) : list (N * participant) :=
    map (fun pr => (fst pr, rv_part (snd pr))) rv.

  (* second loop over s.Reveals: buildCommittableSignature, then PK.VerifyBytes *)
  Fixpoint checkReveals (round : N) (data : Msg) (rv : list (N * reveal)) : option sperr :=
    match rv with
    | [] => None
    | (_, r) :: rest =>
        if negb (commit_ok (sc_sig (rv_slot r))) then Some ECommit
        else if negb (sig_ok (pt_pk (rv_part r)) round data (sc_sig (rv_slot r))) then Some ESig
        else checkReveals round data rest
    end.

  Fixpoint coinLoop (sd : seed) (rv : list (N * reveal)) (ps : list N) (j : nat) : spres unit :=
    match ps with
    | [] => SOk tt
    | pos :: rest =>
        match lookup pos rv with
        | None => SErr ENoReveal
        | Some r =>
            let c := coin sd j in
            if (sc_L (rv_slot r) <=? c) && (c <? wadd (sc_L (rv_slot r)) (pt_weight (rv_part r)))
            then coinLoop sd rv rest (S j)
            else SErr ECoin
        end
    end.

  Definition verify (v : verifier) (round : N) (data : Msg) (s : stateproof) : spres unit :=
    if MaxTreeDepth <? prf_depth (sp_sigproofs s) then SErr EDepth
    else if MaxTreeDepth <? prf_depth (sp_partproofs s) then SErr EDepth
    else
      match verifyWeights (Z.of_N (sp_sw s)) (Z.of_N (v_lnpw v))
                          (Z.of_nat (length (sp_positions s))) (Z.of_N (v_st v)) with
      | WErr e => SErr (EWeights e)
      | WPanic => SPanic
      | WOk _ =>
          if negb (forallb (fun pr => salt_ok (sc_sig (rv_slot (snd pr))) (sp_salt s)) (sp_reveals s))
          then SErr ESalt
          else match checkReveals round data (sp_reveals s) with
               | Some e => SErr e
               | None =>
                   if negb (vcs_verify (sp_sigcommit s) (sig_claims (sp_reveals s)) (sp_sigproofs s))
                   then SErr EVcSig
                   else if negb (vcp_verify (v_partcom v) (part_claims (sp_reveals s)) (sp_partproofs s))
                   then SErr EVcPart
                   else coinLoop (mkSeed (v_partcom v) (v_lnpw v) (sp_sigcommit s) (sp_sw s) data)
                                 (sp_reveals s) (sp_positions s) 0
               end
      end.

  (* ---------------------------------------------------------------- stateproof/verify *)
  (* basics.Muldiv(a, b, c): (a*b/c, overflow) *)
  Definition muldiv (a b c : N) : N * bool :=
    let q := a * b / c in (q mod W64, W64 <=? q).

  Record vctx : Type := mkCtx          (* consensus parameters + StateProofVerificationContext *)
    { c_interval : N; c_threshold : N; c_strength : N;
      c_last : N; c_total : N; c_voters : Dig }.

  (* calculateAcceptableStateProofWeight(total, proto, lastAttestedRound, firstValid) *)
  Definition acceptableWeight (interval threshold total last firstValid : N) : N :=
    let half := interval / 2 in
    let offset := firstValid - last in                       (* SubSaturate; N.sub truncates *)
    if offset =? 0 then total
    else
      let offset := offset - half in
      if offset =? 0 then total
      else
        let '(pw, ovf) := muldiv total threshold (2 ^ 32) in
        if ovf || (total <? pw) then 0
        else if half <=? offset then pw
        else
          let '(scaled, ovf2) := muldiv (total - pw) (half - offset) half in
          if ovf2 then 0
          else if W64 <=? pw + scaled then 0 else pw + scaled.

  Variable ln_approx : N -> option N.       (* LnIntApproximation: None for 0 *)

  (* ValidateStateProof, parametric in the inner verification (errors of Verifier.Verify are
     wrapped in errStateProofCrypto) *)
  Definition validate_with (inner : verifier -> N -> Msg -> stateproof -> spres unit)
             (c : vctx) (s : stateproof) (atRound : N) (msg : Msg) : spres unit :=
    if c_interval c =? 0 then SErr ENotEnabled
    else if negb (c_last c mod c_interval c =? 0) then SErr ENotMultiple
    else if sp_sw s <? acceptableWeight (c_interval c) (c_threshold c) (c_total c) (c_last c) atRound
    then SErr EInsufficientWeight
    else
      let '(pw, ovf) := muldiv (c_total c) (c_threshold c) (2 ^ 32) in
      if ovf then SErr EOverflow
      else match ln_approx pw with
           | None => SErr ELnZero
           | Some lnpw => inner (mkVerifier (c_strength c) lnpw (c_voters c)) (c_last c) msg s
           end.

  Definition validateStateProof : vctx -> stateproof -> N -> Msg -> spres unit := validate_with verify.
End Model.
Unset Implicit Arguments.
