(* C37: specification-level definitions used by the theorem statements (no proofs):
   the assumptions on the hash function, the description of an honest claim, and an ideal
   toy hash (digest size 1 over unbounded "bytes") that satisfies the assumptions and is
   used for non-vacuity examples and for the executable refutation witnesses. *)
From Coq Require Import NArith List Bool.
From Verif.model Require Import MerkleArray.
Import ListNotations.

Section Spec.
  Variable E : Type.
  Variable s : nat.
  Variable hleaf : E -> digest.
  Variable hbottom : digest.
  Variable hnode : list N -> digest.

  (* every hash output has the digest size *)
  Definition hash_sizes : Prop :=
    (forall e, length (hleaf e) = s) /\ length hbottom = s /\ (forall b, length (hnode b) = s).

  (* "except through a hash collision": injective on internal-node buffers and on leaves,
     leaves / padding leaf / internal nodes are domain separated (protocol.HashID prefixes
     TE.. / "MB" / "MA"), and the all-zero digest is never an output *)
  Definition hash_ideal : Prop :=
    (forall b1 b2, length b1 = (2 * s)%nat -> length b2 = (2 * s)%nat -> hnode b1 = hnode b2 -> b1 = b2) /\
    (forall e1 e2, hleaf e1 = hleaf e2 -> e1 = e2) /\
    (forall e b, hleaf e <> hnode b) /\ (forall b, hbottom <> hnode b) /\ (forall e, hleaf e <> hbottom) /\
    (forall e, hleaf e <> zeros s) /\ hbottom <> zeros s /\ (forall b, hnode b <> zeros s).

  (* the Go map  elems = { p -> arr[p] | p in idxs }  (keys of a map are distinct) *)
  Definition honest_claims (arr : list E) (idxs : list N) (elems : list (N * E)) : Prop :=
    NoDup (map fst elems) /\
    forall p e, In (p, e) elems <-> In p idxs /\ nth_error arr (N.to_nat p) = Some e.

  Definition in_range (arr : list E) (idxs : list N) : Prop :=
    idxs <> [] /\ (forall i, In i idxs -> (N.to_nat i < length arr)%nat) /\
    (N.of_nat (length arr) <= 2 ^ 63)%N.
End Spec.

(* ---- an ideal hash for examples: s = 1, elements are numbers ---- *)
Definition toy_pair (a b : N) : N := ((a + b) * (a + b) + a)%N.
Definition toy_hleaf (e : N) : digest := [(3 * e + 1)%N].
Definition toy_hbottom : digest := [2%N].
Definition toy_hnode (b : list N) : digest :=
  match b with
  | [x; y] => [(3 * toy_pair x y + 3)%N]
  | _ => [3%N]
  end.

Definition toy_build := build N 1 toy_hleaf toy_hnode.
Definition toy_buildVC := buildVC N 1 toy_hleaf toy_hbottom toy_hnode.
Definition toy_verify := verify N 1 toy_hleaf toy_hnode.
Definition toy_verify_unfixed := verify_unfixed N 1 toy_hleaf toy_hnode.
Definition toy_verifyVC := verifyVC N 1 toy_hleaf toy_hnode.
