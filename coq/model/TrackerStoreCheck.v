(* C47: decoding of the harness cases, the canonical observations of the abstract store (= what
   SQLite must answer), of the repaired key-value code and of the key-value code as found, and the
   executable [check].  Case line (harness/go/ledger/store/trackerdb/testsuite/zz_verif_c47_test.go):
       ( (op ...) query sqlite-observation kv-observation )
   No proofs in this file. *)
From Coq Require Import NArith ZArith List Bool String.
From Verif.lib Require Import Term.
From Verif.model Require Import TrackerStore.
Import ListNotations.
Open Scope string_scope.
Open Scope N_scope.

Inductive query :=
| QAcct (a : bytes) | QRes (a : bytes) (i ct : N) | QAllRes (a : bytes) | QLimRes (a : bytes) (mi mx ct : N)
| QKv (k : bytes) | QPfx (p : bytes) (maxn : N) (pre : results) (cnt : N)
| QPfxc (p cur : bytes) (limit maxb : N) (incl : bool) (excl : list bytes)
| QCreator (i ct : N) | QMeta (st : bool) | QResData (a : bytes) (i : N) | QOnlData (a : bytes)
| QTop (r off n : N) | QOrp | QExp (r vr : N) | QOnlAll (mx : N) | QTxTail (dbr : N)
| QOnline (a : bytes) (r : N) | QOrpr (r : N) | QHist (a : bytes) | QSp (r : N) | QSpAll
| QStub (name : string) (a : bytes).

(* ---------- decoding ---------- *)
Definition dec_op (t : term) : option op :=
  match t with
  | TL [TS "uar"; TZ r] => Some (OUar (Z.to_N r))
  | TL [TS "ia"; TB a; TZ p] => Some (OIa a (Z.to_N p))
  | TL [TS "ua"; TB a; TZ p] => Some (OUa a (Z.to_N p))
  | TL [TS "da"; TB a] => Some (ODa a)
  | TL [TS "ir"; TB a; TZ i; TZ k; TZ p] => Some (OIr a (Z.to_N i) (Z.to_N k) (Z.to_N p))
  | TL [TS "ur"; TB a; TZ i; TZ k; TZ p] => Some (OUr a (Z.to_N i) (Z.to_N k) (Z.to_N p))
  | TL [TS "dr"; TB a; TZ i] => Some (ODr a (Z.to_N i))
  | TL [TS "uk"; TB k; TB v] => Some (OUk k v)
  | TL [TS "dk"; TB k] => Some (ODk k)
  | TL [TS "ic"; TZ i; TZ ct; TB cr] => Some (OIc (Z.to_N i) (Z.to_N ct) cr)
  | TL [TS "dc"; TZ i; TZ ct] => Some (ODc (Z.to_N i) (Z.to_N ct))
  | TL [TS "io"; TB a; TZ upd; TZ nb; TZ vl; TZ al] => Some (OIo a (Z.to_N upd) (Z.to_N nb) (Z.to_N vl) (Z.to_N al))
  | TL [TS "od"; TZ fb] => Some (OOd (Z.to_N fb))
  | TL [TS "tt"; TZ base; ps; TZ fb] =>
      match as_N_list ps with Some l => Some (OTt (Z.to_N base) l (Z.to_N fb)) | None => None end
  | TL [TS "po"; ps; TZ start] =>
      match as_N_list ps with Some l => Some (OPo l (Z.to_N start)) | None => None end
  | TL [TS "pr"; TZ r] => Some (OPr (Z.to_N r))
  | TL [TS "ss"; TL l] =>
      match map_opt (fun e => match e with TL [TZ r; TZ p] => Some (Z.to_N r, Z.to_N p) | _ => None end) l with
      | Some l' => Some (OSs l') | None => None end
  | TL [TS "ds"; TZ r] => Some (ODs (Z.to_N r))
  | TL [TS "pt"; TZ st; TZ p] => Some (OPt (Z.eqb st 1) (Z.to_N p))
  | _ => None
  end.

Definition dec_query (t : term) : option query :=
  match t with
  | TL [TS "qacct"; TB a] => Some (QAcct a)
  | TL [TS "qres"; TB a; TZ i; TZ ct] => Some (QRes a (Z.to_N i) (Z.to_N ct))
  | TL [TS "qallres"; TB a] => Some (QAllRes a)
  | TL [TS "qlimres"; TB a; TZ mi; TZ mx; TZ ct] => Some (QLimRes a (Z.to_N mi) (Z.to_N mx) (Z.to_N ct))
  | TL [TS "qkv"; TB k] => Some (QKv k)
  | TL [TS "qpfx"; TB p; TZ mx; TL pre; TZ cnt] =>
      match map_opt (fun e => match e with TL [TB k; TZ f] => Some (k, Z.eqb f 1) | _ => None end) pre with
      | Some l => Some (QPfx p (Z.to_N mx) (fold_left (fun m e => results_set m (fst e) (snd e)) l []) (Z.to_N cnt))
      | None => None
      end
  | TL [TS "qpfxc"; TB p; TB cur; TZ limit; TZ maxb; TZ incl; TL excl] =>
      match map_opt as_bytes excl with
      | Some l => Some (QPfxc p cur (Z.to_N limit) (Z.to_N maxb) (Z.eqb incl 1) l)
      | None => None
      end
  | TL [TS "qcreator"; TZ i; TZ ct] => Some (QCreator (Z.to_N i) (Z.to_N ct))
  | TL [TS "qmeta"; TZ st] => Some (QMeta (Z.eqb st 1))
  | TL [TS "qresdata"; TB a; TZ i] => Some (QResData a (Z.to_N i))
  | TL [TS "qonldata"; TB a] => Some (QOnlData a)
  | TL [TS "qtop"; TZ r; TZ off; TZ n] => Some (QTop (Z.to_N r) (Z.to_N off) (Z.to_N n))
  | TL [TS "qorp"] => Some QOrp
  | TL [TS "qexp"; TZ r; TZ vr] => Some (QExp (Z.to_N r) (Z.to_N vr))
  | TL [TS "qonlall"; TZ mx] => Some (QOnlAll (Z.to_N mx))
  | TL [TS "qtxtail"; TZ r] => Some (QTxTail (Z.to_N r))
  | TL [TS "qonline"; TB a; TZ r] => Some (QOnline a (Z.to_N r))
  | TL [TS "qorpr"; TZ r] => Some (QOrpr (Z.to_N r))
  | TL [TS "qhist"; TB a] => Some (QHist a)
  | TL [TS "qsp"; TZ r] => Some (QSp (Z.to_N r))
  | TL [TS "qspall"] => Some QSpAll
  | TL [TS "qstub"; TS name; TB a] => Some (QStub name a)
  | _ => None
  end.

(* the reader arguments the backends are compared on: valid addresses, numbers inside SQLite's int64,
   LookupKeysByPrefix called with room left (resultCount < maxKeyNum, as accountUpdates does) *)
Definition query_ok (q : query) : bool :=
  match q with
  | QAcct a | QAllRes a | QOnlData a | QHist a | QStub _ a => valid_addr a
  | QRes a i ct => valid_addr a && i63 i && (ct <? 2)
  | QLimRes a mi mx ct => valid_addr a && i63 mi && i63 mx && (ct <? 2)
  | QKv k => all_lt256 k
  | QPfx p maxn pre cnt => all_lt256 p && (cnt <? maxn) && u64 maxn && forallb (fun e => all_lt256 (fst e)) pre
  | QPfxc p cur limit maxb _ excl => all_lt256 p && all_lt256 cur && u64 limit && u64 maxb && forallb all_lt256 excl
  | QCreator i ct => i63 i && (ct <? 2)
  | QMeta _ | QOrp | QSpAll => true
  | QResData a i => valid_addr a && i63 i
  | QTop r off n => i63 r && i63 off && i63 n
  | QExp r vr => i63 r && i63 vr
  | QOnlAll mx => i63 mx
  | QTxTail r | QOrpr r | QSp r => i63 r
  | QOnline a r => valid_addr a && i63 r
  end.

(* ---------- canonical observations ---------- *)
Definition t_err (s : string) : term := TL [TS "err"; TS s].
Definition t_res {A} (f : A -> term) (r : res A) : term :=
  match r with
  | Ok x => f x
  | ErrNotFound => t_err "notfound" | ErrOther => t_err "other" | ErrStrangePrefix => t_err "strangeprefix"
  | ErrNotSupported => t_err "notsupported" | ErrNullScan => t_err "nullscan" | Panic => TL [TS "panic"]
  end.
Definition t_onl (v : value) : term := TL [tn (nth 1 v 0); tn (nth 0 v 0)].      (* (algos votelast) *)
Definition t_kp (kp : N * N) : term := TL [tn (fst kp); tn (snd kp)].

Fixpoint ains {V} (e : bytes * V) (l : list (bytes * V)) : list (bytes * V) :=
  match l with [] => [e] | x :: t => if bltb (fst e) (fst x) then e :: l else x :: ains e t end.
Definition asort {V} (l : list (bytes * V)) : list (bytes * V) := fold_right ains [] l.

Definition o_acct (r : res (N * bool * N)) : term :=
  t_res (fun x => let '(rnd, found, p) := x in TL [tn rnd; tb true; tb found; tn p]) r.
Definition o_res (i : N) (r : res (N * option (N * N))) : term :=
  t_res (fun x => match snd x with
                  | None => TL [tn (fst x); tn i; tb false; tb true]
                  | Some kp => TL [tn (fst x); tn i; tb true; t_kp kp]
                  end) r.
Definition o_allres (r : res (N * list (N * N * N))) : term :=
  t_res (fun x => TL [tn (fst x); TL (map (fun e => let '(i, kind, p) := e in
                                                   TL [tn i; tn (fst x); tb true; TL [tn kind; tn p]]) (snd x))]) r.
Definition o_limres (r : res (N * list N)) : term := t_res (fun x => TL [tn (fst x); TL (map tn (snd x))]) r.
Definition o_kv (r : res (N * option bytes)) : term :=
  t_res (fun x => match snd x with
                  | None => TL [tn (fst x); tb false; TB []]
                  | Some v => TL [tn (fst x); tb true; TB v]
                  end) r.
Definition o_pfx (r : res (N * results)) : term :=
  t_res (fun x => TL [tn (fst x); TL (map (fun e => TL [TB (fst e); tb (snd e)]) (snd x))]) r.
Definition o_pfxc (r : res (N * list (bytes * bytes) * bool)) : term :=
  t_res (fun x => let '(rnd, l, more) := x in
                  TL [tn rnd; TL (map (fun e => TL [TB (fst e); TB (snd e)]) l); tb more]) r.
Definition o_creator (r : res (N * bool * bytes)) : term :=
  t_res (fun x => let '(rnd, ok, a) := x in TL [tn rnd; tb ok; TB a]) r.
Definition o_meta (rnd : res N) (tot : res N) : term :=
  t_res (fun x => x) (bind rnd (fun r => bind tot (fun p => Ok (TL [tn r; tn p])))).
Definition o_resdata (x : bool * res (N * N)) : term := TL [tb (fst x); t_res t_kp (snd x)].
Definition o_onldata (r : res (N * N)) : term := t_res (fun x => TL [tb true; TL [tn (snd x); tn (fst x)]]) r.
Definition o_top (l : list (bytes * value)) : term :=
  TL [TL (map (fun e => TL [TB (fst e); tb true; tn (nth 1 (snd e) 0); tn (nth 1 (snd e) 0); tn (nth 0 (snd e) 0)]) (asort l))].
Definition o_orp (x : list N * N) : term := TL [TL (map tn (fst x)); tn (snd x)].
Definition o_exp (l : list (bytes * value)) : term :=
  TL [TL (map (fun e => TL [TB (fst e); tn (nth 1 (snd e) 0); tn (nth 0 (snd e) 0)]) (asort l))].
Definition o_onlall (r : res (list (bytes * N * N * value))) : term :=
  t_res (fun l => TL [TL (map (fun e => let '(a, upd, rf, v) := e in TL [TB a; tn upd; tn rf; tb true; t_onl v]) l)]) r.
Definition o_txtail (r : res (list N * N)) : term := t_res (fun x => TL [TL (map tn (fst x)); tn (snd x)]) r.
Definition o_online (r : res (N * option (N * value))) : term :=
  t_res (fun x => match snd x with
                  | None => TL [tn (fst x); tb true; tb false; tn 0; tb true]
                  | Some uv => TL [tn (fst x); tb true; tb true; tn (fst uv); t_onl (snd uv)]
                  end) r.
Definition o_n (r : res N) : term := t_res (fun p => TL [tn p]) r.
Definition o_hist (r : res (N * list (N * value))) : term :=
  t_res (fun x => TL [tn (fst x); TL (map (fun e => TL [tb true; tn (fst e); tn 0; tb true; t_onl (snd e)]) (snd x))]) r.
Definition o_sp (rd : N) (r : res N) : term := t_res (fun p => TL [tn rd; tn p]) r.
Definition o_spall (l : list (N * N)) : term := TL [TL (map t_kp l)].

(* the reference: what the SQL statements return on the abstract store *)
Definition obs_spec (s : spec) (q : query) : term :=
  match q with
  | QAcct a => o_acct (spec_lookup_account s a)
  | QRes a i ct => o_res i (spec_lookup_resources s a i ct)
  | QAllRes a => o_allres (spec_lookup_all_resources s a)
  | QLimRes a mi mx ct => o_limres (spec_lookup_limited_resources s a mi mx ct)
  | QKv k => o_kv (spec_lookup_key_value s k)
  | QPfx p maxn pre cnt => o_pfx (spec_lookup_keys_by_prefix s p maxn pre cnt)
  | QPfxc p cur limit maxb incl excl => o_pfxc (spec_lookup_keys_by_prefix_cursor s p cur limit maxb incl excl)
  | QCreator i ct => o_creator (spec_lookup_creator s i ct)
  | QMeta st => o_meta (spec_round s) (spec_accounts_totals s st)
  | QResData a i => o_resdata (spec_lookup_resource_data s a i)
  | QOnlData a => o_onldata (spec_lookup_online_data_by_address s a)
  | QTop r off n => o_top (spec_accounts_online_top s r off n)
  | QOrp => o_orp (spec_accounts_online_round_params s)
  | QExp r vr => o_exp (spec_expired_online_accounts s r vr)
  | QOnlAll mx => o_onlall (spec_online_accounts_all s mx false)
  | QTxTail r => o_txtail (spec_load_txtail s r)
  | QOnline a r => o_online (spec_lookup_online s a r)
  | QOrpr r => o_n (spec_lookup_online_round_params s r)
  | QHist a => o_hist (spec_lookup_online_history s a)
  | QSp r => o_sp r (spec_lookup_sp_context s r)
  | QSpAll => o_spall (spec_get_all_sp_contexts s)
  | QStub name a =>
      if String.eqb name "accounts" then TL [tn (count_where s (fun k => match k with KAcct _ => true | _ => false end))]
      else if String.eqb name "resources" then TL [tn (count_where s (fun k => match k with KRes _ _ => true | _ => false end))]
      else if String.eqb name "kvs" then TL [tn (count_where s (fun k => match k with KApp _ => true | _ => false end))]
      else if String.eqb name "onlinerows" then TL [tn (count_where s is_onl)]
      else if String.eqb name "onlineroundparams" then TL [tn (count_where s is_orp)]
      else if String.eqb name "addrfromid" then t_res (fun _ => TL [TB a]) (spec_lookup_account_rowid s a)
      else if String.eqb name "catchpointreader" then TL [tn 0]
      else if String.eqb name "catchpointwriter" then TL [tb true]
      else v_parse
  end.

(* the key-value backend; [orig] selects the reader code as found instead of the repaired one *)
Definition obs_kv (orig : bool) (s : kvs) (q : query) : term :=
  match q with
  | QAcct a => o_acct (kv_lookup_account s a)
  | QRes a i ct => o_res i (kv_lookup_resources s a i ct)
  | QAllRes a => o_allres (kv_lookup_all_resources s a)
  | QLimRes a mi mx ct => o_limres (kv_lookup_limited_resources s a mi mx ct)
  | QKv k => o_kv (kv_lookup_key_value s k)
  | QPfx p maxn pre cnt =>
      o_pfx (if orig then kv_lookup_keys_by_prefix_orig s p maxn pre cnt else kv_lookup_keys_by_prefix s p maxn pre cnt)
  | QPfxc p cur limit maxb incl excl =>
      o_pfxc (if orig then kv_lookup_keys_by_prefix_cursor_orig s p cur limit maxb incl excl
              else kv_lookup_keys_by_prefix_cursor s p cur limit maxb incl excl)
  | QCreator i ct => o_creator (kv_lookup_creator s i ct)
  | QMeta st => o_meta (kv_accounts_round s) (kv_accounts_totals s st)
  | QResData a i => o_resdata (kv_lookup_resource_data s a i)
  | QOnlData a => o_onldata (kv_lookup_online_data_by_address s a)
  | QTop r off n => o_top (kv_accounts_online_top s r off n)
  | QOrp => o_orp (kv_accounts_online_round_params s)
  | QExp r vr => o_exp (kv_expired_online_accounts s r vr)
  | QOnlAll mx => o_onlall (kv_online_accounts_all s mx)
  | QTxTail r => o_txtail (kv_load_txtail s r)
  | QOnline a r => o_online (if orig then kv_lookup_online_orig s a r else kv_lookup_online s a r)
  | QOrpr r => o_n (kv_lookup_online_round_params s r)
  | QHist a => o_hist (kv_lookup_online_history s a)
  | QSp r => o_sp r (kv_lookup_sp_context s r)
  | QSpAll => o_spall (kv_get_all_sp_contexts s)
  | QStub name a =>
      if String.eqb name "addrfromid" then t_res (fun _ => TL [TB zero_addr]) (kv_lookup_account_rowid s a)
      else if String.eqb name "catchpointreader" || String.eqb name "catchpointwriter" then TL [TS "panic"]
      else TL [tn 0]
  end.

(* ---------- the finding signatures ---------- *)
(* recorded deviations of the key-value backend that the repairs do not touch: named when the
   observation is exactly what the transcribed key-value code computes *)
Definition recorded_name (q : query) : option string :=
  match q with
  | QLimRes _ _ _ _ => Some "kv_lookup_limited_resources_unsupported"
  | QTop _ _ _ => Some "kv_online_top_order"
  | QOnlAll _ => Some "kv_online_all_round_field"
  | QHist _ => Some "sql_online_history_unknown_addr_error"
  | QStub name _ => if String.eqb name "catchpointreader" || String.eqb name "catchpointwriter"
                    then Some "kv_catchpoint_unimplemented" else Some "kv_catchpoint_stub_zero"
  | _ => None
  end.
(* the defects repaired by fixes/C47a-c: named when the observation is exactly what the code as
   found computes *)
Definition orig_reader_name (q : query) : option string :=
  match q with
  | QPfx _ _ _ _ | QPfxc _ _ _ _ _ _ => Some "kv_prefix_scan_raw_range"
  | QOnline _ _ => Some "kv_lookup_online_round_wrap"
  | _ => None
  end.

Definition not_err (t : term) : bool := match t with TL (TZ _ :: _) => true | _ => false end.

Definition strip_vals (t : term) : term :=
  match t with
  | TL [r; TL rows; more] => TL [r; TL (map (fun row => match row with TL [k; _] => k | x => x end) rows); more]
  | x => x
  end.

Definition classify (q : query) (sqlo kvo : term) (s : spec) (k korig : kvs) : term :=
  let ms := obs_spec s q in
  if negb (term_eqb sqlo ms) then v_viol ms
  else if term_eqb kvo (obs_kv false k q) then
    match recorded_name q with Some n => v_known n ms | None => v_viol ms end
  else if term_eqb kvo (obs_kv false korig q) then v_known "kv_online_delete_inclusive" ms
  else if term_eqb kvo (obs_kv true k q) || term_eqb kvo (obs_kv true korig q) then
    match orig_reader_name q with Some n => v_known n ms | None => v_viol ms end
  else match q with
       | QPfx p maxn pre cnt =>
           if term_eqb kvo (o_pfx (kv_lookup_keys_by_prefix_flags k p maxn pre cnt))
              || term_eqb kvo (o_pfx (kv_lookup_keys_by_prefix_flags korig p maxn pre cnt))
           then v_known "kv_prefix_result_flags" ms
           else if strange_prefix p && not_err kvo then v_known "kv_prefix_scan_raw_range" ms else v_viol ms
       | QPfxc p _ _ _ _ _ =>
           (* the code as found answers with rows of other tables: their keys are reproduced by the model,
              their raw msgpack values are not; "" / all-0xff prefixes are not rejected *)
           if (strange_prefix p && not_err kvo)
              || term_eqb (strip_vals kvo) (strip_vals (obs_kv true k q))
              || term_eqb (strip_vals kvo) (strip_vals (obs_kv true korig q))
           then v_known "kv_prefix_scan_raw_range" ms else v_viol ms
       | _ => v_viol ms
       end.

Definition nonempty {A} (l : list A) : bool := match l with [] => false | _ => true end.

(* spec_ok: the two backends gave the same canonical answer.  corr: SQLite answered what the abstract
   store says and the key-value backend answered what the transcribed (repaired) code says. *)
Definition check (t : term) : term :=
  match t with
  | TL [TL ops; tq; sqlo; kvo] =>
      match map_opt dec_op ops, dec_query tq with
      | Some l, Some q =>
          if negb (query_ok q) then v_parse else
          match run_ops spec_init kv_init kv_init l with
          | None => v_parse
          | Some (s, k, korig) =>
              if term_eqb sqlo kvo then
                verdict true (term_eqb sqlo (obs_spec s q) && term_eqb kvo (obs_kv false k q)) (nonempty l) (obs_spec s q)
              else classify q sqlo kvo s k korig
          end
      | _, _ => v_parse
      end
  | _ => v_parse
  end.
