(* C20: the two modes of the block evaluator (ledger/eval/eval.go), deliberately small and
   self-contained: payments (with close-to), fees, proposer payout; rewards-free accounts.

   ONE evaluator with the two flags of the Go code ([e_validate], [e_generate]) transcribes
     StartEvaluator   (generate: GenesisHash / RewardsState are written into the header;
                       validate: PreCheck, "bad rewards state", "wrong genesis hash";
                       rewards-pool record re-put, pool >= MinBalance)
     TransactionGroup (size bound, WellFormed if validate, child cow, per-transaction loop,
                       ErrNoSpace accounting if validate, group-id / fee checks, Payset append,
                       commitToParent)
     transaction      (validate: Alive, checkDup; applyTransaction; validate && !generate:
                       ApplyData comparison; validate || generate: checkMinBalance; addTx)
     takeFee, Move, apply.Payment (incl. CloseRemainderTo / CloseAccount)
     endOfBlock       (generate: TxnCommitments, TxnCounter, FeesCollected, ProposerPayout,
                       Load are COMPUTED; validate: the same fields are CHECKED;
                       validateForPayouts, performPayout, recordProposal)
     GenerateBlock    (pool groups that fail are dropped: AssembleBlock / the pool's evaluator)
     UnfinishedBlock.FinishBlock + Block.WithProposer
     Eval             (the Load check after endOfBlock).
   [eval_generate] = flags (true, true) over a pool; [eval_block true] = Ledger.Validate's
   Eval (flags (true, false)); [eval_block false] = Ledger.AddBlock's Eval (false, false).

   Abstractions (each is named where it is used):
   - accounts are (MicroAlgos, LastProposed); no rewards (the rewards level of the block equals
     the previous one, so WithUpdatedRewards is the identity), no keys, assets, apps, rekeying,
     leases: the expired / absent participation lists are empty and StateProofTracking is
     absent in this subset;
   - RewardsState and GenesisHash are opaque tokens: [lv_nextrs] is what
     prevHeader.NextRewardsState(...) returns for this ledger state (C25), [lv_genhash] the
     ledger's genesis hash; both modes call the same function on the same arguments;
   - PaysetCommit is modelled as the identity on the flat list of (txid, ApplyData): that the
     Merkle commitment is binding is C37 / hash collision-freeness;
   - per group, the state-independent checks that are literally the same code in both modes are
     inputs computed by the real code: [g_wf] (every Txn.WellFormed), [t_gidok] per member
     (group id consistent with the first member's and non-zero in a multi-member group; checked
     inside the loop) and [g_gid] (the group is complete: the hash check after the loop), [g_feeok] (CheckGroupFees of SummarizeFees); per transaction
     [t_genok] (Alive's genesis id / hash checks) and [t_len] (GetEncodedLength of the
     SignedTxnInBlock);
   - the group structure of the payset is explicit (Go: DecodePaysetGroups recovers it from the
     group ids); corruptedState / panics inside a group are C19.
   No proofs in this file. *)
From Coq Require Import NArith List Bool.
Import ListNotations.
Open Scope N_scope.

Definition W64 : N := 18446744073709551616.   (* 2^64 *)

Inductive res (A : Type) := Ok (a : A) | Err (e : N).
Arguments Ok {A}. Arguments Err {A}.

Definition bind {A B} (x : res A) (f : A -> res B) : res B :=
  match x with Ok a => f a | Err e => Err e end.
Notation "'do' x <- a ; b" := (bind a (fun x => b)) (at level 200, x pattern, a at level 100, b at level 200).
Definition guard (b : bool) (e : N) : res unit := if b then Ok tt else Err e.

(* error classes (shared with the harness: vc20ErrClass) *)
Definition E_DEAD : N := 1.        (* bookkeeping.TxnDeadError *)
Definition E_GENESIS : N := 2.     (* Alive: genesis id / hash *)
Definition E_DUP : N := 3.         (* TransactionInLedgerError *)
Definition E_OVERSPEND : N := 4.   (* OverspendError *)
Definition E_MINBAL : N := 5.      (* MinBalanceError *)
Definition E_WF : N := 6.          (* TxnNotWellFormedError *)
Definition E_GSIZE : N := 7.       (* TxGroupMalformedError ExceedMaxSize *)
Definition E_GID : N := 8.         (* ... InconsistentGroupID / EmptyGroupID / IncompleteGroup *)
Definition E_FEE : N := 9.         (* ... InvalidFee *)
Definition E_APPLY : N := 10.      (* other errors of ledger/apply or Move (balance overflow, close) *)
Definition E_PANIC : N := 11.      (* a Go panic (division by zero, NewPercent > 100) *)
Definition E_NOSPACE : N := 12.    (* ErrNoSpace *)
Definition E_AD : N := 13.         (* "applyData mismatch" / "applyData not supported" *)
Definition E_PRE : N := 14.        (* BlockHeader.PreCheck, ErrRoundZero *)
Definition E_RS : N := 15.         (* "bad rewards state" *)
Definition E_GENHASH : N := 16.    (* "wrong genesis hash" *)
Definition E_POOL : N := 17.       (* rewards pool below MinBalance *)
Definition E_ROOT : N := 18.       (* "txn root wrong" *)
Definition E_COUNT : N := 19.      (* "txn count wrong" *)
Definition E_FEES : N := 20.       (* "fees collected wrong" / fees present when payouts disabled *)
Definition E_PAYOUT : N := 21.     (* payout too high / overflow / present when disabled *)
Definition E_PROPOSER : N := 22.   (* proposer missing / closed / present when disabled *)
Definition E_LOAD : N := 23.       (* "bad load" *)

(* ------------------------------------------------------------------ parameters, accounts *)
Record params := mkParams {
  p_minbal : N;            (* MinBalance *)
  p_unit : N;              (* RewardUnit *)
  p_unfunded : bool;       (* UnfundedSenders *)
  p_maxgroup : N;          (* MaxTxGroupSize *)
  p_payouts : bool;        (* Payouts.Enabled *)
  p_percent : N;           (* Payouts.Percent *)
  p_txncounter : bool;     (* TxnCounter *)
  p_loadtracking : bool;   (* LoadTracking *)
  p_maxbytes : N;          (* MaxTxnBytesPerBlock *)
  p_genhash : bool;        (* SupportGenesisHash *)
  p_applydata : bool       (* ApplyData *)
}.

Record acct := mkAcct { a_algos : N; a_lastprop : N }.
Definition acct0 : acct := mkAcct 0 0.
Definition acct_is_zero (x : acct) : bool := (a_algos x =? 0) && (a_lastprop x =? 0).
Definition acct_eqb (x y : acct) : bool := (a_algos x =? a_algos y) && (a_lastprop x =? a_lastprop y).
Definition set_algos (x : acct) (v : N) : acct := mkAcct v (a_lastprop x).
Definition set_lastprop (x : acct) (r : N) : acct := mkAcct (a_algos x) r.

Fixpoint afind {V} (k : N) (l : list (N * V)) : option V :=
  match l with
  | [] => None
  | (k', v) :: r => if k' =? k then Some v else afind k r
  end.

(* AccountDeltas.Upsert: replace in place, else append *)
Fixpoint aupsert {V} (k : N) (v : V) (l : list (N * V)) : list (N * V) :=
  match l with
  | [] => [(k, v)]
  | (k', v') :: r => if k' =? k then (k', v) :: r else (k', v') :: aupsert k v r
  end.

Fixpoint memN (k : N) (l : list N) : bool :=
  match l with [] => false | x :: r => (x =? k) || memN k r end.

(* ------------------------------------------------------------------ transactions, blocks *)
(* transactions.ApplyData of a payment: ClosingAmount; [ad_other] = 0 iff every other field
   (SenderRewards, ReceiverRewards, CloseRewards, EvalDelta, ids) is zero *)
Record ad := mkAD { ad_closing : N; ad_other : N }.
Definition ad0 : ad := mkAD 0 0.
Definition ad_eqb (x y : ad) : bool := (ad_closing x =? ad_closing y) && (ad_other x =? ad_other y).

Record txn := mkTxn {
  t_id : N;        (* Txid *)
  t_snd : N;       (* Sender; address 0 = the zero address *)
  t_rcv : N;       (* Receiver *)
  t_amt : N;       (* Amount *)
  t_close : N;     (* CloseRemainderTo, 0 = none *)
  t_fee : N;
  t_fv : N;        (* FirstValid *)
  t_lv : N;        (* LastValid *)
  t_genok : bool;
  t_len : N;
  t_gidok : bool   (* the group-id checks made inside TransactionGroup's loop pass for this member:
                      Group = txgroup[0].Group, and Group is non-zero unless the group is a singleton *)
}.

Definition stib : Type := (txn * ad)%type.       (* SignedTxnInBlock / SignedTxnWithAD *)

Record group := mkGroup { g_txns : list stib; g_wf : bool; g_gid : bool; g_feeok : bool }.

(* what the evaluator reads of the ledger at the previous round (roundCowBase, prevHeader,
   txTail) *)
Record lview := mkLV {
  lv_accts : list (N * acct);
  lv_txids : list N;         (* committed transaction ids still in the tail *)
  lv_counter : N;            (* prevHeader.TxnCounter *)
  lv_round : N;              (* prevHeader.Round *)
  lv_genhash : N;            (* l.GenesisHash() *)
  lv_nextrs : N;             (* prevHeader.NextRewardsState(...) *)
  lv_nextbonus : N;          (* bookkeeping.NextBonus(prevHeader) *)
  lv_sink : N;               (* FeeSink *)
  lv_pool : N                (* RewardsPool *)
}.

Record header := mkHdr {
  h_round : N;               (* set by MakeBlock, checked by PreCheck *)
  h_bonus : N;               (* set by MakeBlock, checked by PreCheck *)
  h_proposer : N;            (* set by agreement (WithProposer) *)
  (* computed by the evaluator in generate mode: *)
  h_genhash : N;
  h_rs : N;                  (* RewardsState *)
  h_root : list (N * ad);    (* TxnCommitments (see the header of this file) *)
  h_counter : N;             (* TxnCounter *)
  h_fees : N;                (* FeesCollected *)
  h_payout : N;              (* ProposerPayout *)
  h_load : N                 (* Load *)
}.

Record block := mkBlock { b_hdr : header; b_payset : list group }.

(* ------------------------------------------------------------------ the overlay *)
(* one roundCowState: mods.Accts (Upsert order), mods.Txids (insertion order), txnCount,
   feesCollected *)
Record layer := mkLayer { l_accts : list (N * acct); l_txids : list N; l_count : N; l_fees : N }.
Definition layer0 : layer := mkLayer [] [] 0 0.

Definition base_lookup (L : lview) (a : N) : acct :=
  match afind a (lv_accts L) with Some x => x | None => acct0 end.

(* roundCowState.lookup through the chain [ls] (innermost first) down to the ledger *)
Fixpoint lookup (L : lview) (ls : list layer) (a : N) : acct :=
  match ls with
  | [] => base_lookup L a
  | l :: r => match afind a (l_accts l) with Some x => x | None => lookup L r a end
  end.

(* roundCowState.putAccount *)
Definition put (l : layer) (a : N) (x : acct) : layer :=
  mkLayer (aupsert a x (l_accts l)) (l_txids l) (l_count l) (l_fees l).

Fixpoint merge_accts (into from : list (N * acct)) : list (N * acct) :=
  match from with
  | [] => into
  | (a, x) :: r => merge_accts (aupsert a x into) r
  end.

(* roundCowState.commitToParent *)
Definition merge (p c : layer) : layer :=
  mkLayer (merge_accts (l_accts p) (l_accts c)) (l_txids p ++ l_txids c)
          ((l_count p + l_count c) mod W64) ((l_fees p + l_fees c) mod W64).

(* roundCowState.Counter at the block level *)
Definition counter (L : lview) (top : layer) : N := (lv_counter L + l_count top) mod W64.

(* ------------------------------------------------------------------ Move, takeFee, Payment *)
(* the "only write the change if it's meaningful" condition of Move *)
Definition writes (P : params) (amt : N) (bal : acct) : bool :=
  negb (amt =? 0) || (0 <? a_algos bal / p_unit P) || negb (p_unfunded P).

(* roundCowState.Move on the cow [l] whose parents are [below]; rewards-free *)
Definition move (P : params) (L : lview) (below : list layer) (l : layer) (from to amt : N) : res layer :=
  if p_unit P =? 0 then Err E_PANIC else
  let fromBal := lookup L (l :: below) from in
  do l1 <- (if writes P amt fromBal then
              if a_algos fromBal <? amt then Err E_OVERSPEND
              else Ok (put l from (set_algos fromBal (a_algos fromBal - amt)))
            else Ok l) ;
  let toBal := lookup L (l1 :: below) to in
  if writes P amt toBal then
    if W64 <=? a_algos toBal + amt then Err E_APPLY
    else Ok (put l1 to (set_algos toBal (a_algos toBal + amt)))
  else Ok l1.

Definition add_fees (l : layer) (fee : N) : layer :=
  mkLayer (l_accts l) (l_txids l) (l_count l) ((l_fees l + fee) mod W64).

Definition take_fee (P : params) (L : lview) (below : list layer) (l : layer) (tx : txn) : res layer :=
  do l1 <- move P L below l (t_snd tx) (lv_sink L) (t_fee tx) ;
  if t_snd tx =? lv_sink L then Ok l1 else Ok (add_fees l1 (t_fee tx)).

(* apply.Payment; returns the ApplyData it fills in *)
Definition payment (P : params) (L : lview) (below : list layer) (l : layer) (tx : txn) : res (layer * ad) :=
  do l1 <- (if negb (t_amt tx =? 0) || negb (t_rcv tx =? 0)
            then move P L below l (t_snd tx) (t_rcv tx) (t_amt tx) else Ok l) ;
  if t_close tx =? 0 then Ok (l1, ad0) else
  let closeAmount := a_algos (lookup L (l1 :: below) (t_snd tx)) in
  do l2 <- move P L below l1 (t_snd tx) (t_close tx) closeAmount ;
  if negb (a_algos (lookup L (l2 :: below) (t_snd tx)) =? 0) then Err E_APPLY
  else Ok (put l2 (t_snd tx) acct0, mkAD closeAmount 0).       (* CloseAccount *)

(* BlockEvaluator.applyTransaction (payments) *)
Definition apply_transaction (P : params) (L : lview) (below : list layer) (l : layer) (tx : txn) : res (layer * ad) :=
  do l1 <- take_fee P L below l tx ;
  payment P L below l1 tx.

(* ------------------------------------------------------------------ transaction *)
(* [e_cap] = eval.maxTxnBytesPerBlock: the node-local cap on the block size handed to
   StartEvaluator by the transaction pool, normalised by [eff_cap]; the Load of the header is
   always relative to the protocol's MaxTxnBytesPerBlock *)
Record env := mkEnv { e_P : params; e_validate : bool; e_generate : bool; e_rnd : N; e_cap : N }.

(* StartEvaluator: "if the caller did not provide a valid block size limit, default to the
   consensus params" *)
Definition eff_cap (P : params) (cap : N) : N :=
  if (cap =? 0) || (p_maxbytes P <? cap) then p_maxbytes P else cap.

(* BlockEvaluator.checkMinBalance over the accounts modified in this cow *)
Fixpoint check_min_balance (P : params) (L : lview) (ls : list layer) (addrs : list N) : res unit :=
  match addrs with
  | [] => Ok tt
  | a :: r =>
    if (a =? lv_sink L) || (a =? lv_pool L) then check_min_balance P L ls r
    else
      let data := lookup L ls a in
      if acct_is_zero data then check_min_balance P L ls r
      else if a_algos data <? p_minbal P then Err E_MINBAL
      else check_min_balance P L ls r
  end.

(* roundCowState.addTx *)
Definition addtx (l : layer) (tx : txn) : layer :=
  mkLayer (l_accts l) (l_txids l ++ [t_id tx]) ((l_count l + 1) mod W64) (l_fees l).

(* roundCowState.checkDup through the chain and the ledger's txTail *)
Fixpoint checkdup (L : lview) (ls : list layer) (id : N) : bool :=
  match ls with
  | [] => memN id (lv_txids L)
  | l :: r => memN id (l_txids l) || checkdup L r id
  end.

(* BlockEvaluator.transaction on the group's cow [c] (parent [parent] = eval.state) *)
Definition transaction (E : env) (L : lview) (parent c : layer) (s : stib) : res (layer * stib) :=
  let tx := fst s in
  do _ <- (if e_validate E then
             if (e_rnd E <? t_fv tx) || (t_lv tx <? e_rnd E) then Err E_DEAD
             else if negb (t_genok tx) then Err E_GENESIS
             else if checkdup L [c; parent] (t_id tx) then Err E_DUP
             else Ok tt
           else Ok tt) ;
  do r <- apply_transaction (e_P E) L [parent] c tx ;
  let '(c1, ad') := r in
  do _ <- (if e_validate E && negb (e_generate E) then
             if p_applydata (e_P E) then guard (ad_eqb (snd s) ad') E_AD
             else guard (ad_eqb (snd s) ad0) E_AD
           else Ok tt) ;
  do _ <- (if e_validate E || e_generate E
           then check_min_balance (e_P E) L [c1; parent] (map fst (l_accts c1)) else Ok tt) ;
  Ok (addtx c1 tx, (tx, ad')).

(* ------------------------------------------------------------------ TransactionGroup *)
(* eval.state, eval.block.Payset (group structure explicit), eval.blockTxBytes *)
Record evst := mkEv { ev_top : layer; ev_payset : list group; ev_bytes : N }.

(* the per-transaction loop: [gbytes] = groupTxBytes so far *)
Fixpoint group_loop (E : env) (L : lview) (parent c : layer) (blockbytes gbytes : N) (txs : list stib)
  : res (layer * list stib * N) :=
  match txs with
  | [] => Ok (c, [], gbytes)
  | s :: r =>
    do r1 <- transaction E L parent c s ;
    let '(c1, s') := r1 in
    let gbytes1 := if e_validate E then gbytes + t_len (fst s) else gbytes in
    if e_validate E && (e_cap E <? blockbytes + gbytes1) then Err E_NOSPACE else
    (* "inconsistent group values" / "had zero Group but was submitted in a group": per member,
       after the space check and before the next member is evaluated *)
    if negb (t_gidok (fst s)) then Err E_GID else
    do r2 <- group_loop E L parent c1 blockbytes gbytes1 r ;
    let '(c2, ss, gb) := r2 in
    Ok (c2, s' :: ss, gb)
  end.

Definition transaction_group (E : env) (L : lview) (ev : evst) (g : group) : res evst :=
  match g_txns g with
  | [] => Ok ev                                      (* "Nothing to do" *)
  | _ =>
    if p_maxgroup (e_P E) <? N.of_nat (length (g_txns g)) then Err E_GSIZE else
    if e_validate E && negb (g_wf g) then Err E_WF else
    do r <- group_loop E L (ev_top ev) layer0 (ev_bytes ev) 0 (g_txns g) ;
    let '(c, ss, gb) := r in
    if negb (g_gid g) then Err E_GID else
    if negb (g_feeok g) then Err E_FEE else
    Ok (mkEv (merge (ev_top ev) c)
             (ev_payset ev ++ [mkGroup ss (g_wf g) (g_gid g) (g_feeok g)])
             (ev_bytes ev + gb))
  end.

(* Eval's loop over the block's groups: the first error rejects the block *)
Fixpoint run_groups (E : env) (L : lview) (ev : evst) (gs : list group) : res evst :=
  match gs with
  | [] => Ok ev
  | g :: r => do ev1 <- transaction_group E L ev g ; run_groups E L ev1 r
  end.

(* block assembly: a failing group is dropped, the evaluator state is unchanged (C19) *)
Fixpoint gen_groups (E : env) (L : lview) (ev : evst) (pool : list group) : evst :=
  match pool with
  | [] => ev
  | g :: r => match transaction_group E L ev g with
              | Ok ev1 => gen_groups E L ev1 r
              | Err _ => gen_groups E L ev r
              end
  end.

(* the per-group outcome (0 = accepted) for the correspondence run *)
Fixpoint gen_codes (E : env) (L : lview) (ev : evst) (pool : list group) : list N :=
  match pool with
  | [] => []
  | g :: r => match transaction_group E L ev g with
              | Ok ev1 => 0 :: gen_codes E L ev1 r
              | Err e => e :: gen_codes E L ev r
              end
  end.

(* ------------------------------------------------------------------ StartEvaluator *)
Definition set_start (h : header) (gh rs : N) : header :=
  mkHdr (h_round h) (h_bonus h) (h_proposer h) gh rs (h_root h) (h_counter h) (h_fees h) (h_payout h) (h_load h).

Definition start (E : env) (L : lview) (hdr : header) : res (header * layer) :=
  let P := e_P E in
  if h_round hdr =? 0 then Err E_PRE else
  let hdr1 := if e_generate E
              then set_start hdr (if p_genhash P then lv_genhash L else h_genhash hdr) (lv_nextrs L)
              else hdr in
  do _ <- (if e_validate E then
             (* BlockHeader.PreCheck *)
             if negb (h_round hdr1 =? lv_round L + 1) then Err E_PRE
             else if negb (h_bonus hdr1 =? lv_nextbonus L) then Err E_PRE
             else if negb (p_loadtracking P) && negb (h_load hdr1 =? 0) then Err E_PRE
             else if negb (p_genhash P) && negb (h_genhash hdr1 =? 0) then Err E_PRE
             (* "bad rewards state", "wrong genesis hash" *)
             else if negb (h_rs hdr1 =? lv_nextrs L) then Err E_RS
             else if p_genhash P && negb (h_genhash hdr1 =? lv_genhash L) then Err E_GENHASH
             else Ok tt
           else Ok tt) ;
  (* rewards withdrawal with an unchanged level: the pool record is written back *)
  let poolOld := base_lookup L (lv_pool L) in
  if a_algos poolOld <? p_minbal P then Err E_POOL
  else Ok (hdr1, put layer0 (lv_pool L) poolOld).

(* ------------------------------------------------------------------ endOfBlock *)
Definition payset_commit (ps : list group) : list (N * ad) :=
  map (fun s : stib => (t_id (fst s), snd s)) (concat (map g_txns ps)).

Fixpoint root_eqb (a b : list (N * ad)) : bool :=
  match a, b with
  | [], [] => true
  | (i, x) :: r, (j, y) :: r' => (i =? j) && ad_eqb x y && root_eqb r r'
  | _, _ => false
  end.

(* ComputeLoad *)
Definition compute_load (bytes maxb : N) : res N :=
  if maxb =? 0 then Err E_PANIC else Ok (N.min (1000000 * bytes / maxb) 1000000).

(* BlockEvaluator.proposerPayout with eval.block.FeesCollected = [fees], Bonus = [bonus] *)
Definition proposer_payout (P : params) (L : lview) (top : layer) (fees bonus : N) : res N :=
  if 100 <? p_percent P then Err E_PANIC else
  let incentive := fees * p_percent P / 100 in
  let total := incentive + bonus in
  if W64 <=? total then Err E_PAYOUT else
  let sink := lookup L [top] (lv_sink L) in
  Ok (N.min total (a_algos sink - p_minbal P)).          (* AvailableBalance saturates at 0 *)

Definition set_end (h : header) (root : list (N * ad)) (cnt fees payout load : N) : header :=
  mkHdr (h_round h) (h_bonus h) (h_proposer h) (h_genhash h) (h_rs h) root cnt fees payout load.

Definition validate_for_payouts (E : env) (L : lview) (hdr : header) (top : layer) : res unit :=
  let P := e_P E in
  if negb (p_payouts P) then
    if negb (h_fees hdr =? 0) then Err E_FEES
    else if negb (h_proposer hdr =? 0) then Err E_PROPOSER
    else if negb (h_payout hdr =? 0) then Err E_PAYOUT
    else Ok tt
  else
    if negb (h_fees hdr =? l_fees top) then Err E_FEES else
    do expected <- proposer_payout P L top (h_fees hdr) (h_bonus hdr) ;
    if expected <? h_payout hdr then Err E_PAYOUT else
    if negb (e_generate E) then
      if h_proposer hdr =? 0 then Err E_PROPOSER
      else if negb (h_payout hdr =? 0) && acct_is_zero (lookup L [top] (h_proposer hdr)) then Err E_PROPOSER
      else Ok tt
    else Ok tt.

Definition perform_payout (P : params) (L : lview) (hdr : header) (top : layer) : res layer :=
  if h_proposer hdr =? 0 then Ok top
  else if h_payout hdr =? 0 then Ok top
  else move P L [] top (lv_sink L) (h_proposer hdr) (h_payout hdr).

Definition record_proposal (L : lview) (hdr : header) (top : layer) : layer :=
  if h_proposer hdr =? 0 then top
  else
    let prp := lookup L [top] (h_proposer hdr) in
    put top (h_proposer hdr) (if acct_is_zero prp then prp else set_lastprop prp (h_round hdr)).

Definition end_of_block (E : env) (L : lview) (hdr : header) (ev : evst) : res (header * layer) :=
  let P := e_P E in
  let top := ev_top ev in
  do hdr1 <- (if e_generate E then
                let cnt := if p_txncounter P then counter L top else 0 in
                do fp <- (if p_payouts P then
                            do po <- proposer_payout P L top (l_fees top) (h_bonus hdr) ;
                            Ok (l_fees top, po)
                          else Ok (h_fees hdr, h_payout hdr)) ;
                do load <- (if p_loadtracking P then compute_load (ev_bytes ev) (p_maxbytes P)
                            else Ok (h_load hdr)) ;
                Ok (set_end hdr (payset_commit (ev_payset ev)) cnt (fst fp) (snd fp) load)
              else Ok hdr) ;
  (* validateExpiredOnlineAccounts ... suspendAbsentAccounts: the lists are empty here *)
  do _ <- (if e_validate E then
             if negb (root_eqb (payset_commit (ev_payset ev)) (h_root hdr1)) then Err E_ROOT
             else if negb (h_counter hdr1 =? (if p_txncounter P then counter L top else 0)) then Err E_COUNT
             else validate_for_payouts E L hdr1 top
           else Ok tt) ;
  do top1 <- perform_payout P L hdr1 top ;
  Ok (hdr1, record_proposal L hdr1 top1).

(* ------------------------------------------------------------------ Eval, GenerateBlock *)
(* eval.Eval(ctx, l, blk, validate, ...): the StateDelta is the evaluator's top cow *)
Definition eval_block (P : params) (validate : bool) (L : lview) (blk : block) : res layer :=
  let E := mkEnv P validate false (h_round (b_hdr blk)) (p_maxbytes P) in
  do r <- start E L (b_hdr blk) ;
  let '(hdr1, l0) := r in
  do ev <- run_groups E L (mkEv l0 [] 0) (b_payset blk) ;
  do r2 <- end_of_block E L hdr1 ev ;
  let '(hdr2, top) := r2 in
  do _ <- (if validate && p_loadtracking P then
             do load <- compute_load (ev_bytes ev) (p_maxbytes P) ;
             guard (h_load hdr2 =? load) E_LOAD
           else Ok tt) ;
  Ok top.

Definition eval_validate (P : params) := eval_block P true.

(* ledgercore.UnfinishedBlock: block, deltas, finalAccounts of the participating addresses *)
Record ublock := mkUB { ub_hdr : header; ub_payset : list group; ub_delta : layer; ub_final : list (N * acct) }.

(* the header MakeBlock hands to the evaluator: round and bonus set, the rest zero *)
Definition hdr_template (rnd bonus : N) : header := mkHdr rnd bonus 0 0 0 [] 0 0 0 0.

(* StartEvaluator(Generate, Validate) + TransactionGroup over the pool + GenerateBlock *)
Definition eval_generate_cap (P : params) (cap : N) (L : lview) (rnd bonus : N) (pool : list group) (parts : list N) : res ublock :=
  let E := mkEnv P true true rnd (eff_cap P cap) in
  do r <- start E L (hdr_template rnd bonus) ;
  let '(hdr1, l0) := r in
  let ev := gen_groups E L (mkEv l0 [] 0) pool in
  do r2 <- end_of_block E L hdr1 ev ;
  let '(hdr2, top) := r2 in
  Ok (mkUB hdr2 (ev_payset ev) top (map (fun a => (a, lookup L [top] a)) parts)).

(* the default: no node-local cap *)
Definition eval_generate (P : params) := eval_generate_cap P 0.

(* The transaction pool stops feeding the evaluator at the first group that does not fit
   (ErrNoSpace) and calls GenerateBlock right away (addToPendingBlockEvaluatorOnce): the pool
   as the evaluator sees it for this block is the prefix up to and including that group. *)
Fixpoint pool_until_full (E : env) (L : lview) (ev : evst) (pool : list group) : list group :=
  match pool with
  | [] => []
  | g :: r => match transaction_group E L ev g with
              | Ok ev1 => g :: pool_until_full E L ev1 r
              | Err e => if e =? E_NOSPACE then [g] else g :: pool_until_full E L ev r
              end
  end.

Definition eval_generate_full (P : params) (cap : N) (L : lview) (rnd bonus : N) (pool : list group) (parts : list N) : res ublock :=
  let E := mkEnv P true true rnd (eff_cap P cap) in
  match start E L (hdr_template rnd bonus) with
  | Err e => Err e
  | Ok (_, l0) => eval_generate_cap P cap L rnd bonus (pool_until_full E L (mkEv l0 [] 0) pool) parts
  end.

(* ------------------------------------------------------------------ counters as functions of the payset *)
(* what eval.blockTxBytes, the transaction count and feesCollected must be, read off the final
   payset alone (no memory of groups that were tried and dropped) *)
Definition payset_txns (ps : list group) : list stib := concat (map g_txns ps).
Definition payset_bytes (ps : list group) : N := fold_right (fun s acc => t_len (fst s) + acc) 0 (payset_txns ps).
Definition payset_count (ps : list group) : N := N.of_nat (length (payset_txns ps)).
Definition txns_fees (L : lview) (txs : list stib) : N :=
  fold_right (fun s acc => (if t_snd (fst s) =? lv_sink L then 0 else t_fee (fst s)) + acc) 0 txs.
Definition payset_fees (L : lview) (ps : list group) : N := txns_fees L (payset_txns ps).

Definition set_proposer (h : header) (p : N) : header :=
  mkHdr (h_round h) (h_bonus h) p (h_genhash h) (h_rs h) (h_root h) (h_counter h) (h_fees h) (h_payout h) (h_load h).
Definition set_payout (h : header) (v : N) : header :=
  mkHdr (h_round h) (h_bonus h) (h_proposer h) (h_genhash h) (h_rs h) (h_root h) (h_counter h) (h_fees h) v (h_load h).

(* UnfinishedBlock.FinishBlock + Block.WithProposer *)
Definition finish_block (P : params) (ub : ublock) (proposer : N) (eligible : bool) : block :=
  let elig := match afind proposer (ub_final ub) with
              | Some d => if a_algos d =? 0 then false else eligible
              | None => false
              end in
  let h1 := if p_payouts P then set_proposer (ub_hdr ub) proposer else ub_hdr ub in
  let h2 := if negb (p_payouts P) || negb elig then set_payout h1 0 else h1 in
  mkBlock h2 (ub_payset ub).

(* what Validate adds to the generator's delta: the payout and the proposal record *)
Definition finish_delta (P : params) (L : lview) (hdr : header) (top : layer) : res layer :=
  do top1 <- perform_payout P L hdr top ; Ok (record_proposal L hdr top1).
