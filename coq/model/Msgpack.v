(* C40 / C41: schema-directed canonical msgpack as produced / accepted by go-algorand's codec.

   Sources transcribed (pinned module versions of /repo/go.mod):
     protocol/codec.go                      Encode / EncodeReflect / Decode, AllowableDepth
     github.com/algorand/msgp  msgp/write_bytes.go   AppendUint64 AppendInt64 AppendBytes AppendString
                                                     AppendMapHeader AppendArrayHeader
                               msgp/read_bytes.go    ReadUint64Bytes ReadInt64Bytes ReadBoolBytes
                                                     ReadMapHeaderBytes ReadArrayHeaderBytes
                                                     ReadBytesBytes ReadStringZC ReadExactBytes ReadMapKeyZC
                               gen/marshal.go gen/unmarshal.go gen/spec.go   shape of the generated
                                                     MarshalMsg / UnmarshalMsgWithState per type constructor
     go-codec canonical handle (Canonical, RecursiveEmptyCheck, PositiveIntUnsigned): same bytes,
     except for the emptiness of a non-nil pointer ([deep] below).

   A schema is what the msgp generator sees: [SRef id] is a named type decoded by a CALL of its own
   UnmarshalMsgWithState (one unit of AllowableDepth), everything else is inlined structure.
   Struct fields are listed sorted by codec name (embedded structs flattened), with their position in
   declaration order (struct-from-array decoding), the `required` option and whether the field is
   omitted when zero.  The schemas of the real types are generated into coq/gen/Schemas.v.

   [enc] is the single encoder (both Go encoders are compared with it); [dec] transcribes the
   generated decoder on a FRESH target including its leniencies (nil for anything, every integer
   format, str/bin interchangeable, non-shortest headers, any field order, explicit zero fields,
   struct-from-array, missing fields, short/long fixed byte arrays, trailing bytes).  Inputs whose
   treatment depends on decoding into a non-fresh target or on the go-codec compatibility slow paths
   are reported as [Unm k] (outside the model):
        Unm 1  a struct map key occurs twice (second occurrence decodes into the existing value)
        Unm 3  byte string / string / fixed byte array given as an array of integers
        Unm 4  a map header where an array header is expected (flattened key/value array)
   No proofs in this file. *)
From Coq Require Import List NArith ZArith Bool.
Import ListNotations.
Open Scope N_scope.

Definition bytes := list N.

(* ------------------------------------------------------------------ schema, values *)

Record fhdr := mkF { f_name : bytes; f_decl : N; f_req : bool; f_oe : bool }.

Inductive schema : Type :=
| SUint (max : N)                       (* unsigned integer kinds; max = largest admissible value *)
| SInt (bits : N)
| SBool
| SBytes (bound : option N)             (* []byte *)
| SString (bound : option N)
| SFixBytes (n : N)                     (* [n]byte *)
| SArray (n : N) (e : schema)
| SSlice (bound : option N) (e : schema)
| SMap (bound : option N) (k v : schema)
| SStruct (fs : list (fhdr * schema))
| SPtr (e : schema)
| SRef (id : N).

Inductive value : Type :=
| VUint (n : N)
| VInt (z : Z)
| VBool (b : bool)
| VBytes (b : bytes)                    (* non-nil []byte, string, [n]byte *)
| VNil                                  (* nil slice / map / []byte / pointer *)
| VList (l : list value)                (* array, non-nil slice *)
| VMap (l : list (value * value))       (* non-nil map, keys strictly increasing *)
| VStruct (l : list value)              (* one value per field, schema order *)
| VRef (v : value)                      (* value of a called named type *)
| VSome (v : value)                     (* non-nil pointer *)
| VDefault.                             (* Go zero value of an omitted (omitempty) struct field *)

Definition len {A} (l : list A) : N := N.of_nat (length l).

Definition within (bd : option N) (n : N) : bool :=
  match bd with None => true | Some b => n <=? b end.

(* ------------------------------------------------------------------ primitive encoders *)

(* big-endian, k bytes, most significant first *)
Fixpoint be (k : nat) (n : N) : bytes :=
  match k with
  | O => []
  | S k' => (n / 256 ^ N.of_nat k') mod 256 :: be k' n
  end.

Definition enc_uint (n : N) : bytes :=
  if n <? 128 then [n]
  else if n <? 256 then 204 :: be 1 n
  else if n <? 65536 then 205 :: be 2 n
  else if n <? 4294967296 then 206 :: be 4 n
  else 207 :: be 8 n.

(* AppendInt64: non-negative values use the unsigned forms (PositiveIntUnsigned) *)
Definition enc_int (z : Z) : bytes :=
  if (0 <=? z)%Z then enc_uint (Z.to_N z)
  else if (-32 <=? z)%Z then [Z.to_N (256 + z)]
  else if (-128 <=? z)%Z then 208 :: be 1 (Z.to_N (256 + z))
  else if (-32768 <=? z)%Z then 209 :: be 2 (Z.to_N (65536 + z))
  else if (-2147483648 <=? z)%Z then 210 :: be 4 (Z.to_N (4294967296 + z))
  else 211 :: be 8 (Z.to_N (18446744073709551616 + z)).

Definition hdr_map (n : N) : bytes :=
  if n <? 16 then [128 + n] else if n <? 65536 then 222 :: be 2 n else 223 :: be 4 n.
Definition hdr_arr (n : N) : bytes :=
  if n <? 16 then [144 + n] else if n <? 65536 then 220 :: be 2 n else 221 :: be 4 n.
Definition hdr_str (n : N) : bytes :=
  if n <? 32 then [160 + n] else if n <? 256 then 217 :: be 1 n
  else if n <? 65536 then 218 :: be 2 n else 219 :: be 4 n.
Definition hdr_bin (n : N) : bytes :=
  if n <? 256 then 196 :: be 1 n else if n <? 65536 then 197 :: be 2 n else 198 :: be 4 n.

Definition enc_str (s : bytes) : bytes := hdr_str (len s) ++ s.
Definition enc_bin (s : bytes) : bytes := hdr_bin (len s) ++ s.

(* ------------------------------------------------------------------ value order / equality *)

Fixpoint lex_lt (a b : bytes) : bool :=
  match a, b with
  | _, [] => false
  | [], _ :: _ => true
  | x :: a', y :: b' => (x <? y) || ((x =? y) && lex_lt a' b')
  end.

Fixpoint bytes_eqb (a b : bytes) : bool :=
  match a, b with
  | [], [] => true
  | x :: a', y :: b' => (x =? y) && bytes_eqb a' b'
  | _, _ => false
  end.

(* order of map keys (msgp sort interfaces / go-codec canonical): numeric for integers,
   bytewise for strings and byte arrays *)
Fixpoint vlt (a b : value) : bool :=
  match a, b with
  | VUint x, VUint y => x <? y
  | VInt x, VInt y => (x <? y)%Z
  | VBytes x, VBytes y => lex_lt x y
  | VRef x, VRef y => vlt x y
  | _, _ => false
  end.

Fixpoint value_eqb (a b : value) {struct a} : bool :=
  match a, b with
  | VUint x, VUint y => x =? y
  | VInt x, VInt y => (x =? y)%Z
  | VBool x, VBool y => Bool.eqb x y
  | VBytes x, VBytes y => bytes_eqb x y
  | VNil, VNil => true
  | VDefault, VDefault => true
  | VRef x, VRef y => value_eqb x y
  | VSome x, VSome y => value_eqb x y
  | VList xs, VList ys | VStruct xs, VStruct ys =>
      (fix go (l1 l2 : list value) {struct l1} : bool :=
         match l1, l2 with
         | [], [] => true
         | x :: l1', y :: l2' => value_eqb x y && go l1' l2'
         | _, _ => false
         end) xs ys
  | VMap xs, VMap ys =>
      (fix go (l1 l2 : list (value * value)) {struct l1} : bool :=
         match l1, l2 with
         | [], [] => true
         | (k1, x1) :: l1', (k2, x2) :: l2' => value_eqb k1 k2 && value_eqb x1 x2 && go l1' l2'
         | _, _ => false
         end) xs ys
  | _, _ => false
  end.

(* number of nested calls needed to decode the value: AllowableDepth it consumes *)
Fixpoint need (v : value) : nat :=
  match v with
  | VRef v' => S (need v')
  | VSome v' => need v'
  | VList l | VStruct l => fold_right (fun x m => Nat.max (need x) m) O l
  | VMap l => fold_right (fun kv m => Nat.max (Nat.max (need (fst kv)) (need (snd kv))) m) O l
  | _ => O
  end.

(* map keys of the supported kinds (integers, strings, byte arrays, named versions of these) *)
Fixpoint vkey (v : value) : bool :=
  match v with
  | VUint _ | VInt _ | VBytes _ => true
  | VRef v' => vkey v'
  | _ => false
  end.

(* the encoding is the single nil byte (a pointer to such a value cannot be told from a nil pointer) *)
Fixpoint head_nil (v : value) : bool :=
  match v with
  | VNil => true
  | VRef v' | VSome v' => head_nil v'
  | _ => false
  end.

Fixpoint minsert (k v : value) (l : list (value * value)) : list (value * value) :=
  match l with
  | [] => [(k, v)]
  | (k', v') :: l' =>
      if vlt k k' then (k, v) :: l
      else if vlt k' k then (k', v') :: minsert k v l'
      else (k, v) :: l'
  end.

Fixpoint sorted_keys (l : list (value * value)) : bool :=
  match l with
  | [] => true
  | (k, _) :: l' => forallb (fun kv => vlt k (fst kv)) l' && sorted_keys l'
  end.

(* ------------------------------------------------------------------ decoder results *)

Inductive err := EShort | EType | EOverflow | ERange | EDepth | ENoField | ERequired | ETooMany | EArray | ESchema.
Inductive res (A : Type) := Ok (a : A) | Err (e : err) | Unm (k : N).
Arguments Ok {A} a.
Arguments Err {A} e.
Arguments Unm {A} k.

Definition bind {A B} (r : res A) (f : A -> res B) : res B :=
  match r with Ok a => f a | Err e => Err e | Unm k => Unm k end.
Notation "r >>= f" := (bind r f) (at level 50, left associativity).

(* ------------------------------------------------------------------ primitive readers *)

Fixpoint rdbe (k : nat) (acc : N) (b : bytes) : option (N * bytes) :=
  match k with
  | O => Some (acc, b)
  | S k' => match b with [] => None | x :: b' => rdbe k' (acc * 256 + x) b' end
  end.

Definition rdU (k : nat) (b : bytes) : res (N * bytes) :=
  match rdbe k 0 b with Some p => Ok p | None => Err EShort end.

(* signed field read as a non-negative number (ReadUint64Bytes on int8..int64) *)
Definition rdSnn (k : nat) (b : bytes) : res (N * bytes) :=
  match rdbe k 0 b with
  | Some (n, r) => if n <? 2 ^ (8 * N.of_nat k - 1) then Ok (n, r) else Err ERange
  | None => Err EShort
  end.

(* signed field, two's complement *)
Definition rdS (k : nat) (b : bytes) : res (Z * bytes) :=
  match rdbe k 0 b with
  | Some (n, r) => if n <? 2 ^ (8 * N.of_nat k - 1) then Ok (Z.of_N n, r)
                   else Ok ((Z.of_N n - 2 ^ (8 * Z.of_nat k))%Z, r)
  | None => Err EShort
  end.

(* ReadUint64Bytes *)
Definition rd_uint64 (b : bytes) : res (N * bytes) :=
  match b with
  | [] => Err EShort
  | lead :: t =>
      if lead <? 128 then Ok (lead, t)
      else if lead =? 192 then Ok (0, t)
      else if lead =? 204 then rdU 1 t
      else if lead =? 205 then rdU 2 t
      else if lead =? 206 then rdU 4 t
      else if lead =? 207 then rdU 8 t
      else if lead =? 208 then rdSnn 1 t
      else if lead =? 209 then rdSnn 2 t
      else if lead =? 210 then rdSnn 4 t
      else if lead =? 211 then rdSnn 8 t
      else if 224 <=? lead then Err ERange
      else Err EType
  end.

(* ReadInt64Bytes (a uint64 above MaxInt64 wraps, as in go-codec) *)
Definition rd_int64 (b : bytes) : res (Z * bytes) :=
  match b with
  | [] => Err EShort
  | lead :: t =>
      if lead <? 128 then Ok (Z.of_N lead, t)
      else if 224 <=? lead then Ok ((Z.of_N lead - 256)%Z, t)
      else if lead =? 192 then Ok (0%Z, t)
      else if lead =? 208 then rdS 1 t
      else if lead =? 209 then rdS 2 t
      else if lead =? 210 then rdS 4 t
      else if lead =? 211 then rdS 8 t
      else if lead =? 204 then rdU 1 t >>= fun p => Ok (Z.of_N (fst p), snd p)
      else if lead =? 205 then rdU 2 t >>= fun p => Ok (Z.of_N (fst p), snd p)
      else if lead =? 206 then rdU 4 t >>= fun p => Ok (Z.of_N (fst p), snd p)
      else if lead =? 207 then rdS 8 t
      else Err EType
  end.

Definition rd_bool (b : bytes) : res (bool * bytes) :=
  match b with
  | [] => Err EShort
  | lead :: t => if lead =? 195 then Ok (true, t)
                 else if (lead =? 194) || (lead =? 192) then Ok (false, t)
                 else Err EType
  end.

(* ReadMapHeaderBytes: (size, isnil, rest) *)
Definition rd_maphdr (b : bytes) : res (N * bool * bytes) :=
  match b with
  | [] => Err EShort
  | lead :: t =>
      if (128 <=? lead) && (lead <? 144) then Ok (lead - 128, false, t)
      else if lead =? 192 then Ok (0, true, t)
      else if lead =? 222 then rdU 2 t >>= fun p => Ok (fst p, false, snd p)
      else if lead =? 223 then rdU 4 t >>= fun p => Ok (fst p, false, snd p)
      else Err EType
  end.

Definition is_map_lead (lead : N) : bool :=
  ((128 <=? lead) && (lead <? 144)) || (lead =? 222) || (lead =? 223).
Definition is_arr_lead (lead : N) : bool :=
  ((144 <=? lead) && (lead <? 160)) || (lead =? 220) || (lead =? 221).

(* ReadArrayHeaderBytes; a map header is flattened by the real code: outside the model *)
Definition rd_arrhdr (b : bytes) : res (N * bool * bytes) :=
  match b with
  | [] => Err EShort
  | lead :: t =>
      if (144 <=? lead) && (lead <? 160) then Ok (lead - 144, false, t)
      else if is_map_lead lead then Unm 4
      else if lead =? 192 then Ok (0, true, t)
      else if lead =? 220 then rdU 2 t >>= fun p => Ok (fst p, false, snd p)
      else if lead =? 221 then rdU 4 t >>= fun p => Ok (fst p, false, snd p)
      else Err EType
  end.

(* [lacks b n] = fewer than n bytes left (= len b <? n, without measuring all of b) *)
Fixpoint lacks (b : bytes) (n : N) : bool :=
  match b with
  | [] => negb (n =? 0)
  | _ :: b' => if n =? 0 then false else lacks b' (n - 1)
  end.

Definition take (n : N) (b : bytes) : res (bytes * bytes) :=
  if lacks b n then Err EShort else Ok (firstn (N.to_nat n) b, skipn (N.to_nat n) b).

(* length prefix of a str / bin object: (length, rest) *)
Definition rd_strbin_len (lead : N) (t : bytes) : option (res (N * bytes)) :=
  if (160 <=? lead) && (lead <? 192) then Some (Ok (lead - 160, t))
  else if (lead =? 217) || (lead =? 196) then Some (rdU 1 t)
  else if (lead =? 218) || (lead =? 197) then Some (rdU 2 t)
  else if (lead =? 219) || (lead =? 198) then Some (rdU 4 t)
  else None.

(* readBytesBytes: None = nil.  [flat] = flattenMap of the real code *)
Definition rd_bin (flat : bool) (b : bytes) : res (option bytes * bytes) :=
  match b with
  | [] => Err EShort
  | lead :: t =>
      match rd_strbin_len lead t with
      | Some r => r >>= fun p => take (fst p) (snd p) >>= fun q => Ok (Some (fst q), snd q)
      | None =>
          if lead =? 192 then Ok (None, t)
          else if is_arr_lead lead || (flat && is_map_lead lead) then Unm 3
          else Err EType
      end
  end.

(* ReadStringZC: nil is the empty string; bin accepted; a map header is a type error *)
Definition rd_str (b : bytes) : res (bytes * bytes) :=
  match rd_bin false b with
  | Ok (Some s, r) => Ok (s, r)
  | Ok (None, r) => Ok ([], r)
  | Err e => Err e
  | Unm k => Unm k
  end.

(* ReadExactBytes into a zeroed [n]byte: copies min(n, length), consumes the whole object *)
Definition rd_exact (n : N) (b : bytes) : res (bytes * bytes) :=
  match rd_bin true b with
  | Ok (Some s, r) => Ok (firstn (N.to_nat n) s ++ repeat 0 (N.to_nat n - length s), r)
  | Ok (None, r) => Ok (repeat 0 (N.to_nat n), r)
  | Err e => Err e
  | Unm k => Unm k
  end.

(* ------------------------------------------------------------------ schema-directed codec *)

Section Codec.
Variable env : list schema.
(* [deep]: go-codec's RecursiveEmptyCheck looks through non-nil pointers; msgp does not *)
Variable deep : bool.

Definition lookup (id : N) : option schema := nth_error env (N.to_nat id).

(* zero-ness as used for omitempty / required (generated MsgIsZero, go-codec isEmptyValue) *)
Fixpoint is_zero (s : schema) (v : value) {struct v} : bool :=
  match v with
  | VDefault => true
  | VNil => true
  | VUint n => n =? 0
  | VInt z => (z =? 0)%Z
  | VBool b => negb b
  | VBytes b => match s with
                | SFixBytes _ => forallb (N.eqb 0) b
                | _ => match b with [] => true | _ => false end
                end
  | VList l => match s with
               | SArray _ e => forallb (is_zero e) l
               | _ => match l with [] => true | _ => false end
               end
  | VMap l => match l with [] => true | _ => false end
  | VStruct vs =>
      match s with
      | SStruct fs =>
          (fix go (fs : list (fhdr * schema)) (vs : list value) {struct vs} : bool :=
             match fs, vs with
             | (_, fsch) :: fs', v :: vs' => is_zero fsch v && go fs' vs'
             | _, _ => true
             end) fs vs
      | _ => false
      end
  | VRef v' => match s with
               | SRef id => match lookup id with Some s' => is_zero s' v' | None => false end
               | _ => false
               end
  | VSome v' => match s with
                | SPtr e => deep && is_zero e v'
                | _ => false
                end
  end.

Definition omitted (h : fhdr) (s : schema) (v : value) : bool := f_oe h && is_zero s v.

Fixpoint enc (s : schema) (v : value) {struct v} : bytes :=
  match v with
  | VUint n => enc_uint n
  | VInt z => enc_int z
  | VBool b => [if b then 195 else 194]
  | VNil => [192]
  | VDefault => []
  | VBytes b => match s with SString _ => enc_str b | _ => enc_bin b end
  | VList l => match s with
               | SArray _ e | SSlice _ e => hdr_arr (len l) ++ flat_map (enc e) l
               | _ => []
               end
  | VMap l => match s with
              | SMap _ ks vs =>
                  hdr_map (len l) ++ flat_map (fun kv : value * value => let (k, x) := kv in enc ks k ++ enc vs x) l
              | _ => []
              end
  | VStruct vs =>
      match s with
      | SStruct fs =>
          let p := (fix go (fs : list (fhdr * schema)) (vs : list value) {struct vs} : N * bytes :=
                      match fs, vs with
                      | (h, fsch) :: fs', v :: vs' =>
                          let (n, bs) := go fs' vs' in
                          if omitted h fsch v then (n, bs)
                          else (n + 1, enc_str (f_name h) ++ enc fsch v ++ bs)
                      | _, _ => (0, [])
                      end) fs vs in
          hdr_map (fst p) ++ snd p
      | _ => []
      end
  | VRef v' => match s with
               | SRef id => match lookup id with Some s' => enc s' v' | None => [] end
               | _ => []
               end
  | VSome v' => match s with SPtr e => enc e v' | _ => [] end
  end.

(* normal form: an omitted field is the zero value *)
Fixpoint norm (s : schema) (v : value) {struct v} : value :=
  match v with
  | VList l => match s with
               | SArray _ e | SSlice _ e => VList (map (norm e) l)
               | _ => v
               end
  | VMap l => match s with
              | SMap _ ks vs => VMap (map (fun kv : value * value => let (k, x) := kv in (norm ks k, norm vs x)) l)
              | _ => v
              end
  | VStruct vs =>
      match s with
      | SStruct fs =>
          VStruct ((fix go (fs : list (fhdr * schema)) (vs : list value) {struct vs} : list value :=
                      match fs, vs with
                      | (h, fsch) :: fs', v :: vs' =>
                          (if omitted h fsch v then VDefault else norm fsch v) :: go fs' vs'
                      | _, _ => []
                      end) fs vs)
      | _ => v
      end
  | VRef v' => match s with
               | SRef id => match lookup id with Some s' => VRef (norm s' v') | None => v end
               | _ => v
               end
  | VSome v' => match s with SPtr e => VSome (norm e v') | _ => v end
  | _ => v
  end.

Definition bytes_ok (b : bytes) : bool := forallb (fun x => x <? 256) b.

Definition int_ok (bits : N) (z : Z) : bool :=
  ((- 2 ^ (Z.of_N bits - 1) <=? z) && (z <? 2 ^ (Z.of_N bits - 1)))%Z.

Definition u32 : N := 4294967296.

(* well-typed values (shape, ranges, declared bounds, sorted keys, required fields) *)
Fixpoint wtb (s : schema) (v : value) {struct v} : bool :=
  match v with
  | VUint n => match s with SUint mx => (n <=? mx) && (mx <? 18446744073709551616) | _ => false end
  | VInt z => match s with SInt bits => int_ok bits z && (0 <? bits) && (bits <=? 64) | _ => false end
  | VBool _ => match s with SBool => true | _ => false end
  | VNil => match s with SBytes _ | SSlice _ _ | SMap _ _ _ | SPtr _ => true | _ => false end
  | VDefault => false
  | VBytes b => match s with
                | SBytes bd | SString bd => bytes_ok b && within bd (len b) && (len b <? u32)
                | SFixBytes n => bytes_ok b && (len b =? n) && (n <? u32)
                | _ => false
                end
  | VList l => match s with
               | SArray n e => (len l =? n) && (n <? u32) && forallb (wtb e) l
               | SSlice bd e => within bd (len l) && (len l <? u32) && forallb (wtb e) l
               | _ => false
               end
  | VMap l => match s with
              | SMap bd ks vs =>
                  within bd (len l) && (len l <? u32) && sorted_keys l
                  && forallb (fun kv : value * value => let (k, x) := kv in vkey k && wtb ks k && wtb vs x) l
              | _ => false
              end
  | VStruct vs =>
      match s with
      | SStruct fs =>
          (fix go (fs : list (fhdr * schema)) (vs : list value) {struct vs} : bool :=
             match fs, vs with
             | [], [] => true
             | (h, fsch) :: fs', v :: vs' =>
                 (omitted h fsch v || wtb fsch v)
                 && (negb (f_req h) || negb (is_zero fsch v))
                 && go fs' vs'
             | _, _ => false
             end) fs vs
      | _ => false
      end
  | VRef v' => match s with
               | SRef id => match lookup id with Some s' => wtb s' v' | None => false end
               | _ => false
               end
  | VSome v' => match s with SPtr e => wtb e v' && negb (head_nil v') | _ => false end
  end.

(* declared allocbounds only (the C41 observable): every collection within its bound;
   [chkmap = false] ignores the bounds of maps (signature of the duplicate-key merge finding) *)
Fixpoint bounds_gen (chkmap : bool) (s : schema) (v : value) {struct v} : bool :=
  match v with
  | VBytes b => match s with SBytes bd | SString bd => within bd (len b) | _ => true end
  | VList l => match s with
               | SArray _ e => forallb (bounds_gen chkmap e) l
               | SSlice bd e => within bd (len l) && forallb (bounds_gen chkmap e) l
               | _ => true
               end
  | VMap l => match s with
              | SMap bd ks vs =>
                  (negb chkmap || within bd (len l)) && forallb (fun kv : value * value => let (k, x) := kv in bounds_gen chkmap ks k && bounds_gen chkmap vs x) l
              | _ => true
              end
  | VStruct vs =>
      match s with
      | SStruct fs =>
          (fix go (fs : list (fhdr * schema)) (vs : list value) {struct vs} : bool :=
             match fs, vs with
             | (_, fsch) :: fs', v :: vs' => bounds_gen chkmap fsch v && go fs' vs'
             | _, _ => true
             end) fs vs
      | _ => true
      end
  | VRef v' => match s with
               | SRef id => match lookup id with Some s' => bounds_gen chkmap s' v' | None => true end
               | _ => true
               end
  | VSome v' => match s with SPtr e => bounds_gen chkmap e v' | _ => true end
  | _ => true
  end.

Definition bounds_okb := bounds_gen true.

(* ---------------- decoder ---------------- *)

(* Go zero value of a type (target of a missing non-omitempty field / short array).  The zero value of
   a called named type is left abstract ([VDefault]): no decoder call is made for it. *)
Fixpoint zero_val (s : schema) : value :=
  match s with
  | SUint _ => VUint 0
  | SInt _ => VInt 0
  | SBool => VBool false
  | SBytes _ => VNil
  | SString _ => VBytes []
  | SFixBytes n => VBytes (repeat 0 (N.to_nat n))
  | SArray n e => VList (repeat (zero_val e) (N.to_nat n))
  | SSlice _ _ | SMap _ _ _ | SPtr _ => VNil
  | SStruct fs =>
      VStruct ((fix gof (fs : list (fhdr * schema)) : list value :=
                  match fs with
                  | [] => []
                  | (h, fsch) :: fs' => (if f_oe h then VDefault else zero_val fsch) :: gof fs'
                  end) fs)
  | SRef _ => VDefault
  end.

Fixpoint set_nth {A} (i : nat) (x : A) (l : list A) : list A :=
  match l, i with
  | [], _ => []
  | _ :: l', O => x :: l'
  | y :: l', S i' => y :: set_nth i' x l'
  end.

(* ---- loops of the generated code, parameterised by the element decoders ---- *)
Definition decoder := bytes -> res (value * bytes).

(* `for i := range slice { decode element }` *)
Fixpoint dec_list (D : decoder) (k : nat) (b : bytes) : res (list value * bytes) :=
  match k with
  | O => Ok ([], b)
  | S k' => D b >>= fun p => dec_list D k' (snd p) >>= fun q => Ok (fst p :: fst q, snd q)
  end.

(* `for sz > 0 { sz--; key; value; m[key] = value }` : a Go map is kept as its sorted entry list *)
Fixpoint dec_map (DK DV : decoder) (k : nat) (b : bytes) (acc : list (value * value))
  : res (list (value * value) * bytes) :=
  match k with
  | O => Ok (acc, b)
  | S k' => DK b >>= fun p => DV (snd p) >>= fun q => dec_map DK DV k' (snd q) (minsert (fst p) (fst q) acc)
  end.

Definition fdec := (fhdr * schema * decoder)%type.

Fixpoint find_name (key : bytes) (fds : list fdec) (i : nat) : option (nat * decoder) :=
  match fds with
  | [] => None
  | (h, _, D) :: t => if bytes_eqb (f_name h) key then Some (i, D) else find_name key t (S i)
  end.

Fixpoint find_decl (d : N) (fds : list fdec) (i : nat) : option (nat * decoder) :=
  match fds with
  | [] => None
  | (h, _, D) :: t => if f_decl h =? d then Some (i, D) else find_decl d t (S i)
  end.

(* struct from a map: `switch string(field)`; a field met twice decodes into the existing value: Unm 1 *)
Fixpoint sloop_map (fds : list fdec) (k : nat) (b : bytes) (slots : list (option value))
  : res (list (option value) * bytes) :=
  match k with
  | O => Ok (slots, b)
  | S k' =>
      rd_str b >>= fun p =>
      match find_name (fst p) fds O with
      | None => Err ENoField
      | Some (i, D) =>
          match nth i slots None with
          | Some _ => Unm 1
          | None => D (snd p) >>= fun q => sloop_map fds k' (snd q) (set_nth i (Some (fst q)) slots)
          end
      end
  end.

(* struct from an array: fields in declaration order, ErrTooManyArrayFields beyond the last *)
Fixpoint sloop_arr (fds : list fdec) (k : nat) (d : N) (b : bytes) (slots : list (option value))
  : res (list (option value) * bytes) :=
  match k with
  | O => Ok (slots, b)
  | S k' =>
      match find_decl d fds O with
      | None => Err ETooMany
      | Some (i, D) => D b >>= fun q => sloop_arr fds k' (d + 1) (snd q) (set_nth i (Some (fst q)) slots)
      end
  end.

(* fields that were not met keep the Go zero value *)
Fixpoint fin_slots (zero : schema -> value) (fds : list fdec) (sl : list (option value)) : list value :=
  match fds, sl with
  | (h, fsch, _) :: fds', o :: sl' =>
      (match o with
       | Some v => v
       | None => if f_oe h then VDefault else zero fsch
       end) :: fin_slots zero fds' sl'
  | _, _ => []
  end.

(* `required` fields must be non-zero after decoding *)
Fixpoint req_ok (fds : list fdec) (vs : list value) : bool :=
  match fds, vs with
  | (h, fsch, _) :: fds', v :: vs' => (negb (f_req h) || negb (is_zero fsch v)) && req_ok fds' vs'
  | _, _ => true
  end.

Definition struct_dec (zero : schema -> value) (fds : list fdec) (b : bytes) : res (value * bytes) :=
  let finish (q : list (option value) * bytes) : res (value * bytes) :=
    let vs := fin_slots zero fds (fst q) in
    if req_ok fds vs then Ok (VStruct vs, snd q) else Err ERequired in
  match rd_maphdr b with
  | Ok (sz, _, r) =>
      if lacks r sz then Err EShort
      else sloop_map fds (N.to_nat sz) r (repeat None (length fds)) >>= finish
  | Err EType =>
      rd_arrhdr b >>= fun h =>
      let '(sz, _, r) := h in
      if lacks r sz then Err EShort
      else sloop_arr fds (N.to_nat sz) 0 r (repeat None (length fds)) >>= finish
  | Err e => Err e
  | Unm k => Unm k
  end.

Section Body.
Variable call : N -> bytes -> res (value * bytes).
Variable zero : schema -> value.

Fixpoint dec_s (s : schema) (b : bytes) {struct s} : res (value * bytes) :=
  match s with
  | SUint mx =>
      rd_uint64 b >>= fun p => if fst p <=? mx then Ok (VUint (fst p), snd p) else Err EOverflow
  | SInt bits =>
      rd_int64 b >>= fun p => if int_ok bits (fst p) then Ok (VInt (fst p), snd p) else Err ERange
  | SBool => rd_bool b >>= fun p => Ok (VBool (fst p), snd p)
  | SBytes bd =>
      rd_bin true b >>= fun p =>
      match fst p with
      | None => Ok (VNil, snd p)
      | Some x => if within bd (len x) then Ok (VBytes x, snd p) else Err EOverflow
      end
  | SString bd =>
      rd_str b >>= fun p => if within bd (len (fst p)) then Ok (VBytes (fst p), snd p) else Err EOverflow
  | SFixBytes n => rd_exact n b >>= fun p => Ok (VBytes (fst p), snd p)
  | SArray n e =>
      rd_arrhdr b >>= fun h =>
      let '(sz, _, r) := h in
      if n <? sz then Err EArray
      else if lacks r sz then Err EShort
      else dec_list (dec_s e) (N.to_nat sz) r >>= fun q =>
           Ok (VList (fst q ++ repeat (zero e) (N.to_nat (n - sz))), snd q)
  | SSlice bd e =>
      rd_arrhdr b >>= fun h =>
      let '(sz, isnil, r) := h in
      if negb (within bd sz) then Err EOverflow
      else if isnil then Ok (VNil, r)
      else if lacks r sz then Err EShort
      else dec_list (dec_s e) (N.to_nat sz) r >>= fun q => Ok (VList (fst q), snd q)
  | SMap bd ks vs =>
      rd_maphdr b >>= fun h =>
      let '(sz, isnil, r) := h in
      if negb (within bd sz) then Err EOverflow
      else if isnil then Ok (VNil, r)
      else if lacks r sz then Err EShort
      else dec_map (dec_s ks) (dec_s vs) (N.to_nat sz) r [] >>= fun q => Ok (VMap (fst q), snd q)
  | SPtr e =>
      match b with
      | 192 :: t => Ok (VNil, t)
      | _ => dec_s e b >>= fun p => Ok (VSome (fst p), snd p)
      end
  | SRef id => call id b >>= fun p => Ok (VRef (fst p), snd p)
  | SStruct fs =>
      struct_dec zero (map (fun x : fhdr * schema => let (h, fsch) := x in (h, fsch, dec_s fsch)) fs) b
  end.
End Body.

(* one generated UnmarshalMsgWithState: AllowableDepth check, decrement, body *)
Fixpoint dec (d : nat) (id : N) (b : bytes) {struct d} : res (value * bytes) :=
  match d with
  | O => Err EDepth
  | S d' => match lookup id with
            | None => Err ESchema
            | Some s => dec_s (dec d') zero_val s b
            end
  end.

(* protocol.Decode into a fresh object of root type [id] with AllowableDepth [d] *)
Definition decode (d : nat) (id : N) (b : bytes) : res (value * bytes) :=
  dec d id b >>= fun p => Ok (VRef (fst p), snd p).

(* static sanity of a schema: struct field names strictly increasing, declaration indices a
   permutation prefix; checked on the generated table *)
Fixpoint names_sorted (fs : list (fhdr * schema)) : bool :=
  match fs with
  | [] => true
  | (h, _) :: fs' => forallb (fun g => lex_lt (f_name h) (f_name (fst g))) fs' && names_sorted fs'
  end.

Fixpoint schema_ok (s : schema) : bool :=
  match s with
  | SArray _ e | SSlice _ e | SPtr e => schema_ok e
  | SMap _ k v => schema_ok k && schema_ok v
  | SStruct fs =>
      names_sorted fs && (len fs <? 65536)
      && forallb (fun g => (len (f_name (fst g)) <? 32) && bytes_ok (f_name (fst g))) fs
      && (fix go (fs : list (fhdr * schema)) : bool :=
            match fs with [] => true | (_, fsch) :: fs' => schema_ok fsch && go fs' end) fs
  | SRef id => match lookup id with Some _ => true | None => false end
  | _ => true
  end.

Definition env_ok : bool := forallb schema_ok env.

End Codec.
