(* C17 model, second layer: the node store of /repo/crypto/merkletrie (cache.go + the id-level
   bookkeeping of node.go / trie.go).

   Layer 1 (one Add/Delete = one cache transaction): nodes live in a heap id -> node, children are
   referred to by id.  [hfind]/[hadd]/[hremove] are node.find/add/remove again, now with
   cache.getNode (recorded in [o_reads]), cache.allocateNewNode / refurbishNode ([o_alloc]: ids
   are handed out sequentially from nextNodeID, in the order of the Go code) and
   cache.deleteNode / refurbishNode ([o_del]).
   Layer 2 (pages): [p_mem] = pageToNIDsPtr (the in-memory view, possibly partial), [p_disk] = the
   committer's pages, both as functions id -> node; the page of an id is id / nodesPerPage.
     getNode     = memory, else loadPage (merge the stored page into memory)
     commit      = deferred page load; optional re-allocation of nodes to fresh ids (the renaming
                   [rho] and the new nextNodeID are inputs: ANY renaming that passes [rho_ok]);
                   every page holding a created / re-allocated node, a deleted node or a parent
                   whose child pointer changed is rewritten from its in-memory view
     evict       = drops the in-memory view of any set of pages (the LRU choice is an input),
                   with the repaired rule for the partially filled tail page ([p_evict true]) or
                   without it ([p_evict false], the code before fixes/C17.patch)
     reload      = MakeTrie from the stored root page (deferred load of the partially filled tail page)
   NOT modelled: page (de)serialisation, the LRU order and cachedNodeCount (any eviction choice is
   allowed), the cached digests in node.hash (hashing is a function of the logical trie).
   No proofs in this file. *)
From Coq Require Import List NArith Bool.
From Verif.model Require Import MerkleTrie.
Import ListNotations.
Open Scope N_scope.

Inductive snode : Type :=
| SLeaf (h : key)
| SNode (cs : list (N * N)).          (* (hashIndex, child id) *)

Definition heap := N -> option snode.
Definition hempty : heap := fun _ => None.
Definition upd (h : heap) (x : N) (n : snode) : heap := fun y => if y =? x then Some n else h y.

(* ---------- layer 1 ---------- *)
Record ost := { o_h : heap; o_next : N; o_dels : list N; o_reads : list N }.

Definition o_alloc (st : ost) (n : snode) : ost * N :=
  ({| o_h := upd (o_h st) (o_next st) n; o_next := o_next st + 1;
      o_dels := o_dels st; o_reads := o_reads st |}, o_next st).
Definition o_del (st : ost) (x : N) : ost :=
  {| o_h := o_h st; o_next := o_next st; o_dels := x :: o_dels st; o_reads := o_reads st |}.
Definition o_mark (st : ost) (x : N) : ost :=
  {| o_h := o_h st; o_next := o_next st; o_dels := o_dels st; o_reads := x :: o_reads st |}.

Definition hhas (b : N) (ics : list (N * N)) : bool := existsb (fun p => fst p =? b) ics.

(* children[indexOf(b)].id *)
Fixpoint first_ge (b : N) (ics : list (N * N)) : option N :=
  match ics with
  | [] => None
  | (i, c) :: l => if i <? b then first_ge b l else Some c
  end.

(* children[indexOf(b)].id = nc *)
Fixpoint hset_ge (b nc : N) (ics : list (N * N)) : list (N * N) :=
  match ics with
  | [] => []
  | (i, c) :: l => if i <? b then (i, c) :: hset_ge b nc l else (i, nc) :: l
  end.

(* children without the entry at indexOf(b) *)
Fixpoint hdrop_ge (b : N) (ics : list (N * N)) : list (N * N) :=
  match ics with
  | [] => []
  | (i, c) :: l => if i <? b then (i, c) :: hdrop_ge b l else l
  end.

Fixpoint hinsert (b x : N) (ics : list (N * N)) : list (N * N) :=
  match ics with
  | [] => [(b, x)]
  | (i, c) :: l => if b <? i then (b, x) :: (i, c) :: l else (i, c) :: hinsert b x l
  end.

(* node.find from node [id] (already fetched by the caller) *)
Fixpoint hfind (st : ost) (id : N) (d : key) {struct d} : option (bool * ost) :=
  match o_h st id with
  | None => None
  | Some (SLeaf hh) => Some (key_eqb d hh, st)
  | Some (SNode ics) =>
      match d with
      | [] => None
      | b :: d' =>
          if negb (hhas b ics) then Some (false, st)
          else match first_ge b ics with
               | None => None
               | Some cid => match o_h st cid with
                             | None => None
                             | Some _ => hfind (o_mark st cid) cid d'
                             end
               end
      end
  end.

Fixpoint hsplit (st : ost) (h d : key) : option (ost * N) :=
  match h, d with
  | a :: h', b :: d' =>
      if a =? b then
        match hsplit st h' d' with
        | Some (st1, c) => Some (o_alloc st1 (SNode [(b, c)]))
        | None => None
        end
      else
        let '(st1, c1) := o_alloc st (SLeaf h') in
        let '(st2, c2) := o_alloc st1 (SLeaf d') in
        Some (o_alloc st2 (SNode (if a <? b then [(a, c1); (b, c2)] else [(b, c2); (a, c1)])))
  | _, _ => None
  end.

(* node.add on node [id]; the caller deletes [id] *)
Fixpoint hadd (st : ost) (id : N) (d : key) {struct d} : option (ost * N) :=
  match o_h st id with
  | None => None
  | Some (SLeaf hh) => hsplit st hh d
  | Some (SNode ics) =>
      match d with
      | [] => None
      | b :: d' =>
          if negb (hhas b ics) then
            let '(st1, c) := o_alloc st (SLeaf d') in
            Some (o_alloc st1 (SNode (hinsert b c ics)))
          else match first_ge b ics with
               | None => None
               | Some cid =>
                   match o_h st cid with
                   | None => None
                   | Some _ =>
                       match hadd (o_mark st cid) cid d' with
                       | None => None
                       | Some (st1, nc) => Some (o_alloc (o_del st1 cid) (SNode (hset_ge b nc ics)))
                       end
                   end
               end
      end
  end.

(* end of node.remove: the id was already taken by refurbishNode; a single leaf child is merged *)
Definition hfinish (st : ost) (ics : list (N * N)) : option (ost * N) :=
  match ics with
  | [(i, c)] =>
      match o_h st c with
      | None => None
      | Some (SLeaf hh) => Some (o_alloc (o_del (o_mark st c) c) (SLeaf (i :: hh)))
      | Some (SNode _) => Some (o_alloc (o_mark st c) (SNode ics))
      end
  | _ => Some (o_alloc st (SNode ics))
  end.

Fixpoint hremove (st : ost) (id : N) (k : key) {struct k} : option (ost * N) :=
  match o_h st id with
  | Some (SNode ics) =>
      match k with
      | [] => None
      | b :: k' =>
          match first_ge b ics with
          | None => None
          | Some cid =>
              match o_h st cid with
              | None => None
              | Some (SLeaf _) => hfinish (o_del (o_mark st cid) cid) (hdrop_ge b ics)
              | Some (SNode _) =>
                  match hremove (o_mark st cid) cid k' with
                  | None => None
                  | Some (st1, nc) => hfinish (o_del st1 cid) (hset_ge b nc ics)
                  end
              end
          end
      end
  | _ => None
  end.

(* the tree a heap holds below [id] (fuel = remaining element length + 1) *)
Fixpoint unfold (h : heap) (fuel : nat) (id : N) {struct fuel} : option trie :=
  match fuel with
  | O => None
  | S f =>
      match h id with
      | None => None
      | Some (SLeaf k) => Some (Leaf k)
      | Some (SNode ics) =>
          match (fix go (l : list (N * N)) : option (list (N * trie)) :=
                   match l with
                   | [] => Some []
                   | (i, c) :: l' =>
                       match unfold h f c, go l' with
                       | Some t, Some r => Some ((i, t) :: r)
                       | _, _ => None
                       end
                   end) ics with
          | Some cs => Some (Node cs)
          | None => None
          end
      end
  end.

(* ---------- layer 2 ---------- *)
Definition base_id : N := 16736.           (* storedNodeIdentifierBase = 0x4160 *)

Record pstore := {
  p_mem : heap;                 (* pageToNIDsPtr *)
  p_disk : heap;                (* committer pages (node pages) *)
  p_root : N;                   (* 0 = storedNodeIdentifierNull *)
  p_next : N;                   (* nextNodeID *)
  p_elen : nat;
  p_created : list N;           (* pendingCreatedNID *)
  p_delpages : list N;          (* pendingDeletionPages *)
  p_deferred : N;               (* deferedPageLoad, 0 = none *)
  p_modified : bool;
  p_dhas : bool;                (* a root page was stored *)
  p_droot : N; p_dnext : N; p_delen : nat     (* the stored root page *)
}.

Definition p_init : pstore :=
  {| p_mem := hempty; p_disk := hempty; p_root := 0; p_next := base_id; p_elen := 0;
     p_created := []; p_delpages := []; p_deferred := 0; p_modified := false;
     p_dhas := false; p_droot := 0; p_dnext := base_id; p_delen := 0 |}.

Section Paged.
  Variable npp : N.              (* MemoryConfig.NodesCountPerPage *)

  Definition page (x : N) : N := x / npp.
  Definition memb (x : N) (l : list N) : bool := existsb (N.eqb x) l.

  Definition rd (s : pstore) : heap :=
    fun x => match p_mem s x with Some n => Some n | None => p_disk s x end.

  (* loadPage: the stored nodes of the page are merged into the in-memory view *)
  Definition merge_page (mem disk : heap) (P : N) : heap :=
    fun y => if page y =? P then match disk y with Some n => Some n | None => mem y end else mem y.

  (* getNode x for every x read by the transaction, oldest first; nodes created by the
     transaction itself (ids >= next0) are in memory *)
  Fixpoint replay_loads (next0 : N) (disk : heap) (reads : list N) (mem : heap) (deferred : N)
    : heap * N :=
    match reads with
    | [] => (mem, deferred)
    | x :: l =>
        if (next0 <=? x) || (match mem x with Some _ => true | None => false end)
        then replay_loads next0 disk l mem deferred
        else replay_loads next0 disk l (merge_page mem disk (page x))
                          (if deferred =? page x then 0 else deferred)
    end.

  Fixpoint range (n : nat) (a : N) : list N :=
    match n with O => [] | S n' => a :: range n' (a + 1) end.

  Definition add_set (x : N) (l : list N) : list N := if memb x l then l else x :: l.

  (* commitTransaction: created nodes become pending; deleted nodes leave the in-memory view;
     a deleted node that was never flushed is simply forgotten, otherwise its page must be rewritten *)
  Definition finish_tx (s : pstore) (st : ost) (newroot : N) (elen : nat) : pstore :=
    let next0 := p_next s in
    let '(mem1, def1) := replay_loads next0 (p_disk s) (rev (o_reads st)) (p_mem s) (p_deferred s) in
    let news := range (N.to_nat (o_next st - next0)) next0 in
    let dels := o_dels st in
    let mem2 : heap := fun x => if memb x dels then None
                                else if (next0 <=? x) && (x <? o_next st) then o_h st x else mem1 x in
    let created1 := news ++ p_created s in
    let delpages := fold_left (fun acc x => if memb x created1 then acc else add_set (page x) acc)
                              dels (p_delpages s) in
    {| p_mem := mem2; p_disk := p_disk s; p_root := newroot; p_next := o_next st; p_elen := elen;
       p_created := filter (fun x => negb (memb x dels)) created1;
       p_delpages := delpages; p_deferred := def1; p_modified := true;
       p_dhas := p_dhas s; p_droot := p_droot s; p_dnext := p_dnext s; p_delen := p_delen s |}.

  Definition start_tx (s : pstore) : ost :=
    {| o_h := rd s; o_next := p_next s; o_dels := []; o_reads := [] |}.

  (* a failed getNode ("page is missing" / "loaded page is missing a node") or a Go panic *)
  Inductive pres : Type := PBool (b : bool) | PErr | PFail | POk | PRoot | PBadOracle.

  (* Trie.Add *)
  Definition p_add (s : pstore) (d : key) : pstore * pres :=
    if p_root s =? 0 then
      let '(st, r) := o_alloc (start_tx s) (SLeaf d) in
      (finish_tx s st r (length d), PBool true)
    else if negb (Nat.eqb (length d) (p_elen s)) then (s, PErr)
    else
      let st0 := o_mark (start_tx s) (p_root s) in
      match o_h st0 (p_root s) with
      | None => (s, PFail)
      | Some _ =>
          match hfind st0 (p_root s) d with
          | None => (s, PFail)
          | Some (true, st1) =>
              (* no transaction: only the page loads of the lookup remain *)
              let '(mem1, def1) := replay_loads (p_next s) (p_disk s) (rev (o_reads st1)) (p_mem s) (p_deferred s) in
              ({| p_mem := mem1; p_disk := p_disk s; p_root := p_root s; p_next := p_next s; p_elen := p_elen s;
                  p_created := p_created s; p_delpages := p_delpages s; p_deferred := def1;
                  p_modified := p_modified s; p_dhas := p_dhas s; p_droot := p_droot s;
                  p_dnext := p_dnext s; p_delen := p_delen s |}, PBool false)
          | Some (false, st1) =>
              match hadd st1 (p_root s) d with
              | None => (s, PFail)
              | Some (st2, r) => (finish_tx s (o_del st2 (p_root s)) r (p_elen s), PBool true)
              end
          end
      end.

  (* Trie.Delete *)
  Definition p_delete (s : pstore) (d : key) : pstore * pres :=
    if p_root s =? 0 then (s, PBool false)
    else if negb (Nat.eqb (length d) (p_elen s)) then (s, PErr)
    else
      let st0 := o_mark (start_tx s) (p_root s) in
      match o_h st0 (p_root s) with
      | None => (s, PFail)
      | Some rn =>
          match hfind st0 (p_root s) d with
          | None => (s, PFail)
          | Some (false, st1) =>
              let '(mem1, def1) := replay_loads (p_next s) (p_disk s) (rev (o_reads st1)) (p_mem s) (p_deferred s) in
              ({| p_mem := mem1; p_disk := p_disk s; p_root := p_root s; p_next := p_next s; p_elen := p_elen s;
                  p_created := p_created s; p_delpages := p_delpages s; p_deferred := def1;
                  p_modified := p_modified s; p_dhas := p_dhas s; p_droot := p_droot s;
                  p_dnext := p_dnext s; p_delen := p_delen s |}, PBool false)
          | Some (true, st1) =>
              match rn with
              | SLeaf _ => (finish_tx s (o_del st1 (p_root s)) 0 0%nat, PBool true)
              | SNode _ =>
                  match hremove st1 (p_root s) d with
                  | None => (s, PFail)
                  | Some (st2, r) => (finish_tx s (o_del st2 (p_root s)) r (p_elen s), PBool true)
                  end
              end
          end
      end.

  (* ---- commit ---- *)
  Definition rho_fwd (rho : list (N * N)) (x : N) : N :=
    match List.find (fun p => fst p =? x) rho with Some p => snd p | None => x end.
  Definition rho_bwd (rho : list (N * N)) (y : N) : option N :=
    match List.find (fun p => snd p =? y) rho with Some p => Some (fst p) | None => None end.
  Definition ren_node (rho : list (N * N)) (n : snode) : snode :=
    match n with
    | SLeaf h => SLeaf h
    | SNode cs => SNode (map (fun p => (fst p, rho_fwd rho (snd p))) cs)
    end.
  Definition points_into (dom : list N) (n : snode) : bool :=
    match n with SLeaf _ => false | SNode cs => existsb (fun p => memb (snd p) dom) cs end.

  Definition round_up (x : N) : N := ((x + (npp - 1)) / npp) * npp.

  Fixpoint nodupb (l : list N) : bool :=
    match l with [] => true | x :: l' => negb (memb x l') && nodupb l' end.

  Definition all_ids (s : pstore) : list N := range (N.to_nat (p_next s - base_id)) base_id.

  Definition commit_parents (s : pstore) (rho : list (N * N)) : list N :=
    filter (fun x => match p_mem s x with Some n => points_into (map fst rho) n | None => false end) (all_ids s).

  (* the pages rewritten by the commit: those of created, re-allocated (old and new id) and
     deleted nodes and of the nodes whose child pointers change *)
  Definition commit_dirty (s : pstore) (rho : list (N * N)) : list N :=
    map page (p_created s ++ map fst rho ++ map snd rho ++ commit_parents s rho) ++ p_delpages s.

  (* what the model demands of a re-allocation: it moves in-memory nodes to distinct fresh ids
     between the rounded-up nextNodeID and the new nextNodeID, and no stored node that stays
     (on a page that is not rewritten and not in memory) points to a moved node *)
  Definition rho_ok (s : pstore) (rho : list (N * N)) (next' : N) : bool :=
    (round_up (p_next s) <=? next') &&
    nodupb (map fst rho) && nodupb (map snd rho) &&
    forallb (fun p => match p_mem s (fst p) with Some _ => true | None => false end) rho &&
    forallb (fun p => (round_up (p_next s) <=? snd p) && (snd p <? next')) rho &&
    forallb (fun x => match p_mem s x, p_disk s x with
                      | None, Some n => memb (page x) (commit_dirty s rho) || negb (points_into (map fst rho) n)
                      | _, _ => true
                      end) (all_ids s).

  (* calculateHash of every pending node fetches all its children (getNode): their pages are loaded *)
  Definition load_children (disk : heap) (mem : heap) (x : N) : heap :=
    match mem x with
    | Some (SNode cs) =>
        fold_left (fun m p => match m (snd p) with Some _ => m | None => merge_page m disk (page (snd p)) end) cs mem
    | _ => mem
    end.

  Definition p_commit (s : pstore) (rho : list (N * N)) (next' : N) : pstore * pres :=
    (* "if we have a pending page load, do that now" *)
    let memd := if p_deferred s =? 0 then p_mem s else merge_page (p_mem s) (p_disk s) (p_deferred s) in
    let mem0 := fold_left (load_children (p_disk s)) (p_created s) memd in
    let s0 := {| p_mem := mem0; p_disk := p_disk s; p_root := p_root s; p_next := p_next s; p_elen := p_elen s;
                 p_created := p_created s; p_delpages := p_delpages s; p_deferred := 0;
                 p_modified := p_modified s; p_dhas := p_dhas s; p_droot := p_droot s;
                 p_dnext := p_dnext s; p_delen := p_delen s |} in
    if negb (rho_ok s0 rho next') then (s, PBadOracle) else
    let dom := map fst rho in
    let ran := map snd rho in
    let mem1 : heap := fun y =>
      match rho_bwd rho y with
      | Some x => option_map (ren_node rho) (mem0 x)
      | None => if memb y dom then None else option_map (ren_node rho) (mem0 y)
      end in
    let dirty := commit_dirty s0 rho in
    let disk1 : heap := fun y => if memb (page y) dirty then mem1 y else p_disk s y in
    let root1 := rho_fwd rho (p_root s) in
    ({| p_mem := mem1; p_disk := disk1; p_root := root1; p_next := next'; p_elen := p_elen s;
        p_created := []; p_delpages := []; p_deferred := 0; p_modified := false;
        p_dhas := true; p_droot := root1; p_dnext := next'; p_delen := p_elen s |}, POk).

  (* getNode x outside a transaction *)
  Definition p_get (s : pstore) (x : N) : pstore :=
    match p_mem s x with
    | Some _ => s
    | None =>
        {| p_mem := merge_page (p_mem s) (p_disk s) (page x); p_disk := p_disk s; p_root := p_root s;
           p_next := p_next s; p_elen := p_elen s; p_created := p_created s; p_delpages := p_delpages s;
           p_deferred := if p_deferred s =? page x then 0 else p_deferred s;
           p_modified := p_modified s; p_dhas := p_dhas s; p_droot := p_droot s;
           p_dnext := p_dnext s; p_delen := p_delen s |}
    end.

  (* ---- evict: [fixed] = with the rule added by fixes/C17.patch ---- *)
  Definition p_evict (fixed : bool) (s : pstore) (dropped : list N) : pstore :=
    let tail := page (p_next s) in
    let has_mem := existsb (fun x => (page x =? tail) && match p_mem s x with Some _ => true | None => false end)
                           (all_ids s) in
    let def := if fixed && (0 <? p_next s mod npp) && memb tail dropped && has_mem then tail else p_deferred s in
    {| p_mem := fun y => if memb (page y) dropped then None else p_mem s y;
       p_disk := p_disk s; p_root := p_root s; p_next := p_next s; p_elen := p_elen s;
       p_created := p_created s; p_delpages := p_delpages s; p_deferred := def;
       p_modified := p_modified s; p_dhas := p_dhas s; p_droot := p_droot s;
       p_dnext := p_dnext s; p_delen := p_delen s |}.

  (* ---- MakeTrie(committer, cfg) ---- *)
  Definition p_reload (s : pstore) : pstore :=
    if p_dhas s then
      {| p_mem := hempty; p_disk := p_disk s; p_root := p_droot s; p_next := p_dnext s; p_elen := p_delen s;
         p_created := []; p_delpages := [];
         p_deferred := if negb (p_dnext s =? base_id) && (0 <? p_dnext s mod npp) then page (p_dnext s) else 0;
         p_modified := false; p_dhas := true; p_droot := p_droot s; p_dnext := p_dnext s; p_delen := p_delen s |}
    else
      {| p_mem := hempty; p_disk := p_disk s; p_root := 0; p_next := base_id; p_elen := 0;
         p_created := []; p_delpages := []; p_deferred := 0; p_modified := false;
         p_dhas := false; p_droot := 0; p_dnext := base_id; p_delen := 0 |}.

  (* ---- the operations of the Trie, with the choices of the implementation as inputs ---- *)
  Inductive pop : Type :=
  | PAdd (k : key)
  | PDel (k : key)
  | PCommit (rho : list (N * N)) (next' : N)
  | PEvict (commit : bool) (rho : list (N * N)) (next' : N) (dropped : list N)
  | PReload
  | PRootHash (rho : list (N * N)) (next' : N).

  Definition pstep (fixed : bool) (s : pstore) (o : pop) : pstore * pres :=
    match o with
    | PAdd k => p_add s k
    | PDel k => p_delete s k
    | PCommit rho n' => p_commit s rho n'
    | PEvict true rho n' dropped =>
        if p_modified s then
          match p_commit s rho n' with
          | (s1, POk) => (p_evict fixed s1 dropped, POk)
          | (s1, r) => (s1, r)
          end
        else (p_evict fixed s dropped, POk)
    | PEvict false _ _ dropped => if p_modified s then (s, PErr) else (p_evict fixed s dropped, POk)
    | PReload => (p_reload s, POk)
    | PRootHash rho n' =>
        if p_root s =? 0 then (s, PRoot)
        else if p_modified s then
          match p_commit s rho n' with
          | (s1, POk) => (p_get s1 (p_root s1), PRoot)
          | (s1, r) => (s1, r)
          end
        else (p_get s (p_root s), PRoot)
    end.

  Fixpoint prun (fixed : bool) (s : pstore) (ops : list pop) : pstore * list pres :=
    match ops with
    | [] => (s, [])
    | o :: ops' => let '(s1, r) := pstep fixed s o in
                   let '(s2, rs) := prun fixed s1 ops' in (s2, r :: rs)
    end.

  (* the logical tries held by the store: live (memory over disk) and committed (disk alone) *)
  Definition live_trie (s : pstore) : option (option trie) :=
    if p_root s =? 0 then Some None
    else match unfold (rd s) (S (p_elen s)) (p_root s) with Some t => Some (Some t) | None => None end.
  Definition committed_trie (s : pstore) : option (option trie) :=
    if negb (p_dhas s) || (p_droot s =? 0) then Some None
    else match unfold (p_disk s) (S (p_delen s)) (p_droot s) with Some t => Some (Some t) | None => None end.
End Paged.
