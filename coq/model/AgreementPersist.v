(* Agreement model -- part 6: persistence.go.  [persist] is the projection of the model state onto
   what encode writes (exported, codec-tagged fields of player / rootRouter and of everything below
   them; round routers older than the player's round are dropped by encode) and what decode gives
   back ([restore] is the identity on that projection: decode re-creates the unexported parts as
   zero values, makeRootRouter + lazy update() re-create the listener wrappers).
   Dropped by the round trip:
     - roundRouters with round < p.Round                                   (encode)
     - proposalSeeker.lowestIncludingLate / hasLowestIncludingLate         (unexported)
     - message.messageHandle of the Pending tails                          (unexported => nil)
     - player.lowestCredentialArrivals, dynamicFilterTimeout, vote.validatedAt,
       proposal.receivedAt/validatedAt/ve                                  (not in the model)
   No proofs. *)
From Coq Require Import NArith List Bool String.
Import ListNotations.
From Verif.model Require Import AgreementTypes AgreementVotes AgreementProposals AgreementPlayer.
Open Scope N_scope.

Definition persist_seeker (s : seeker) : seeker :=
  mkSeeker (sk_lowest s) (sk_filled s) (sk_frozen s) zero_vote false.
Definition persist_pt (t : ptracker) : ptracker :=
  mkPT (pt_dup t) (persist_seeker (pt_freezer t)) (pt_staging t) (pc_one t) (pc_froze t) (pc_soft t) (pc_cert t).
Definition persist_pn (pn : periodNode) : periodNode :=
  mkPN (persist_pt (pn_pt pn)) (pn_vp pn) (pn_steps pn).
Definition persist_rn (rn : roundNode) : roundNode :=
  mkRN (rn_store rn) (rn_fresh rn) (map (fun kv => (fst kv, persist_pn (snd kv))) (rn_periods rn)).
Definition persist_router (pl : player) (rt : router) : router :=
  map (fun kv => (fst kv, persist_rn (snd kv))) (filter (fun kv => p_rnd pl <=? fst kv) rt).
Definition persist_meta (m : mmeta) : mmeta :=
  mkMeta (mm_err m) (mm_cancelled m) (mm_proto_err m) true (mm_task m).
Definition persist_player (pl : player) : player :=
  set_pending pl
    (map (fun kv => (fst kv, match snd kv with Some (v, m) => Some (v, persist_meta m) | None => None end))
         (p_pending pl))
    (p_pnext pl).

(* decode (encode st) *)
Definition persist (st : state) : state :=
  mkState (persist_player (s_pl st)) (persist_router (s_pl st) (s_rt st)).
Definition restore (st : state) : state := st.

(* crypto tasks in flight die with the process: a voteVerified for a proposal-vote whose TaskIndex
   refers to a Pending entry made before the crash is never delivered after the restart *)
Definition stale_task (st : state) (e : ext_event) : bool :=
  match e with
  | EvMsg m =>
      match me_in m with
      | InVote x => me_verified m && (vt_step x =? s_propose) && ahas N.eqb (mm_task (me_meta m)) (p_pending (s_pl st))
      | _ => false
      end
  | _ => false
  end.
Definition live_events (st : state) (es : list ext_event) : list ext_event :=
  filter (fun e => negb (stale_task st e)) es.
