(* C18 / C19 / C21: decoding of the harness cases (one block per line, see
   harness/go/ledger/eval/zz_verif_c18_test.go), replay through the model, and the
   executable oracles [spec_ok_*] evaluated on the IMPLEMENTATION's observations only.
   No proofs in this file (soundness of the oracles: proofs/EvalSpecProofs.v). *)
From Coq Require Import NArith ZArith List Bool String.
From Verif.lib Require Import Term.
From Verif.model Require Import Overflow EvalCow EvalApply EvalGroup EvalSpec.
Import ListNotations.
Open Scope N_scope.

(* ------------------------------------------------------------------ observations *)
Record snap := mkSnap {
  s_table : table;
  s_mods : list N;
  s_txids : list (N * N);              (* in Intra order *)
  s_leases : list ((N * N) * N);       (* sorted by key *)
  s_txncount : N;
  s_fees : N;
  s_payset : N;
  s_intra_ok : bool;                   (* Txids[..].Intra is the insertion position *)
  s_aview : list ((N * N) * (option aparams * option holding));   (* non-empty GetAssetParams / GetAssetHolding over U x A *)
  s_creators : list (N * N);           (* (asset, creator) for every asset of A that GetCreator finds *)
  s_txbytes : N;                       (* eval.blockTxBytes: not computed by the model (encoded sizes), judged by the oracle only *)
  s_appobs : list (list N);            (* application rows, see [appobs_of] *)
  s_corrupt : bool                     (* eval.corruptedState *)
}.

Fixpoint table_eqb (a b : table) : bool :=
  match a, b with
  | [], [] => true
  | (k, x) :: r, (k', x') :: r' => (k =? k') && acct_eqb x x' && table_eqb r r'
  | _, _ => false
  end.

Fixpoint nlist_eqb (a b : list N) : bool :=
  match a, b with
  | [], [] => true
  | x :: r, y :: r' => (x =? y) && nlist_eqb r r'
  | _, _ => false
  end.

Fixpoint plist_eqb (a b : list (N * N)) : bool :=
  match a, b with
  | [], [] => true
  | x :: r, y :: r' => pair_eqb x y && plist_eqb r r'
  | _, _ => false
  end.

Fixpoint llist_eqb (a b : list ((N * N) * N)) : bool :=
  match a, b with
  | [], [] => true
  | (k, v) :: r, (k', v') :: r' => pair_eqb k k' && (v =? v') && llist_eqb r r'
  | _, _ => false
  end.

Definition ap_eqb (x y : aparams) : bool :=
  (ap_total x =? ap_total y) && Bool.eqb (ap_dfrozen x) (ap_dfrozen y) && (ap_manager x =? ap_manager y) &&
  (ap_reserve x =? ap_reserve y) && (ap_freeze x =? ap_freeze y) && (ap_clawback x =? ap_clawback y) &&
  (ap_extra x =? ap_extra y).
Definition h_eqb (x y : holding) : bool := (h_amount x =? h_amount y) && Bool.eqb (h_frozen x) (h_frozen y).
Definition opt_eqb {A} (eqb : A -> A -> bool) (x y : option A) : bool :=
  match x, y with Some a, Some b => eqb a b | None, None => true | _, _ => false end.
Fixpoint aview_eqb (a b : list ((N * N) * (option aparams * option holding))) : bool :=
  match a, b with
  | [], [] => true
  | (k, (p, h)) :: r, (k', (p', h')) :: r' => pair_eqb k k' && opt_eqb ap_eqb p p' && opt_eqb h_eqb h h' && aview_eqb r r'
  | _, _ => false
  end.

Fixpoint rows_eqb (a b : list (list N)) : bool :=
  match a, b with
  | [], [] => true
  | x :: r, y :: r' => nlist_eqb x y && rows_eqb r r'
  | _, _ => false
  end.

Definition snap_eqb (a b : snap) : bool :=
  table_eqb (s_table a) (s_table b) && nlist_eqb (s_mods a) (s_mods b) &&
  plist_eqb (s_txids a) (s_txids b) && llist_eqb (s_leases a) (s_leases b) &&
  (s_txncount a =? s_txncount b) && (s_fees a =? s_fees b) && (s_payset a =? s_payset b) &&
  Bool.eqb (s_intra_ok a) (s_intra_ok b) && aview_eqb (s_aview a) (s_aview b) &&
  plist_eqb (s_creators a) (s_creators b) && rows_eqb (s_appobs a) (s_appobs b) &&
  Bool.eqb (s_corrupt a) (s_corrupt b).

(* insertion sort of the lease map by key (the harness sorts the Go map the same way) *)
Definition lease_lt (a b : (N * N) * N) : bool :=
  (fst (fst a) <? fst (fst b)) || ((fst (fst a) =? fst (fst b)) && (snd (fst a) <? snd (fst b))).
Fixpoint lease_insert (x : (N * N) * N) (l : list ((N * N) * N)) : list ((N * N) * N) :=
  match l with
  | [] => [x]
  | y :: r => if lease_lt x y then x :: y :: r else y :: lease_insert x r
  end.
Definition lease_sort (l : list ((N * N) * N)) : list ((N * N) * N) := fold_right lease_insert [] l.

(* the model's evaluator seen the way the harness sees the real one *)
Definition aview_of (U A : list N) (c : cow) : list ((N * N) * (option aparams * option holding)) :=
  filter (fun e => match snd e with (None, None) => false | _ => true end)
         (flat_map (fun a => map (fun i => ((a, i), (get_params c a i, get_holding c a i))) A) U).
Definition creators_of (A : list N) (c : cow) : list (N * N) :=
  flat_map (fun i => match get_creator c i with Some a => [(i, a)] | None => [] end) A.

(* application rows, in a fixed order, for the applications [APPS] (ascending) and box names 1..4:
     [3; app; creator]                                   getCreator
     [1; addr; app; gsu; gsb; lsu; lsb; pages; sponsor; ForeignBoxReads; FamilyBoxAccess]  GetAppParams
     [2; addr; app; su; sb]                              GetAppLocalState (its schema)
     [4; addr; app; global; nu; nb]                      allocated + getStorageCounts
     [5; app; name; size]                                GetBox *)
Definition b2n (b : bool) : N := if b then 1 else 0.
Definition appobs_of (U APPS : list N) (c : cow) : list (list N) :=
  flat_map (fun i =>
    (match get_app_creator c i with Some cr => [[3; i; cr]] | None => [] end) ++
    flat_map (fun a =>
      (match get_appparams c a i with
       | Some p => [[1; a; i; fst (app_gs p); snd (app_gs p); fst (app_ls p); snd (app_ls p); app_pages p; app_sponsor p;
                     b2n (app_fbr p); b2n (app_fba p)]]
       | None => [] end) ++
      (match get_applocal c a i with Some sch => [[2; a; i; fst sch; snd sch]] | None => [] end)) U ++
    flat_map (fun a =>
      flat_map (fun g => if allocated c a i g
                         then let cn := layers_counts (c_top c :: c_parents c) (c_base c) a i g in [[4; a; i; b2n g; fst cn; snd cn]]
                         else []) [true; false]) U ++
    flat_map (fun name => match get_box c i name with Some sz => [[5; i; name; sz]] | None => [] end) [1; 2; 3; 4]) APPS.

(* the account table: the fixed universe, then every application account that is not all-zero *)
Definition table_of (U APPS : list N) (c : cow) : table :=
  map (fun a => (a, lookup c a)) U ++
  filter (fun e => negb (acct_is_zero (snd e))) (map (fun i => (app_addr i, lookup c (app_addr i))) APPS).

Record ids := mkIds { id_U : list N; id_A : list N; id_APPS : list N }.

Definition snap_of (I : ids) (ev : evalst) : snap :=
  let c := ev_cow ev in
  mkSnap (table_of (id_U I) (id_APPS I) c) (modified c) (l_txids (c_top c))
         (lease_sort (l_leases (c_top c))) (l_txncount (c_top c)) (l_fees (c_top c))
         (N.of_nat (List.length (ev_payset ev))) true (aview_of (id_U I ++ map app_addr (id_APPS I)) (id_A I) c) (creators_of (id_A I) c) 0
         (appobs_of (id_U I) (id_APPS I) c) (ev_corrupt ev).

(* ------------------------------------------------------------------ decoding *)
Definition opt_bind {A B} (o : option A) (f : A -> option B) : option B :=
  match o with Some a => f a | None => None end.
Notation "x <-? o ;; k" := (opt_bind o (fun x => k)) (at level 61, o at next level, right associativity).

Definition w64 (n : N) : bool := n <? 2 ^ 64.

Definition dec_status (n : N) : option status :=
  match n with 0 => Some Offline | 1 => Some Online | 2 => Some NotPart | _ => None end.

Definition dec_acct (t : term) : option acct :=
  l <-? as_N_list t ;;
  match l with
  | [st; algos; rbase; rewarded; auth; elig; su; sb; xp; ap; al; asp; ast; bx; bb; lp; hb; vpk; spk; sppk; vf; vl; vkd] =>
    s <-? dec_status st ;;
    if forallb w64 l then
      Some (mkAcct s algos rbase rewarded auth (negb (elig =? 0)) su sb xp ap al asp ast bx bb lp hb vpk spk sppk vf vl vkd)
    else None
  | _ => None
  end.

Definition dec_entry (t : term) : option (N * acct) :=
  match t with
  | TL [k; a] => k' <-? as_N k ;; a' <-? dec_acct a ;; Some (k', a')
  | _ => None
  end.

Definition dec_table (t : term) : option table :=
  match t with TL l => map_opt dec_entry l | _ => None end.

Definition dec_params (t : term) : option params :=
  l <-? as_N_list t ;;
  match l with
  | [unit; minbal; minfee; unf; maxg; leases; pay; goon; coh; np; spc; mmb; ma; afp; afo; bf; bb; se; su; sb; lb; me; ca; mac; mao; mkl; mbs; ppg] =>
    if forallb w64 l then
      Some (mkParams unit minbal minfee (negb (unf =? 0)) maxg (negb (leases =? 0)) (negb (pay =? 0)) goon
                     (negb (coh =? 0)) (negb (np =? 0)) (negb (spc =? 0)) mmb ma afp afo bf bb se su sb lb me (negb (ca =? 0))
                     mac mao mkl mbs (negb (ppg =? 0)))
    else None
  | _ => None
  end.

Definition dec_sbody (t : term) : option sbody :=
  match t with
  | TL (TS k :: args) =>
    a <-? map_opt as_N args ;;
    if negb (forallb w64 a) then None else
    if String.eqb k "pay" then
      match a with [rcv; amt; cl] => Some (SPay rcv amt cl) | _ => None end
    else if String.eqb k "acfg" then
      match a with [asset; tot; df; mg; rs; fz; cl; ex] => Some (SAcfg asset (mkAP tot (negb (df =? 0)) mg rs fz cl ex)) | _ => None end
    else if String.eqb k "axfer" then
      match a with [asset; amt; asnd; rcv; cl] => Some (SAxfer asset amt asnd rcv cl) | _ => None end
    else if String.eqb k "afrz" then
      match a with [asset; acct; fr] => Some (SAfrz asset acct (negb (fr =? 0))) | _ => None end
    else None
  | _ => None
  end.

Definition dec_inner (t : term) : option (N * sbody) :=
  match t with
  | TL [fee; b] => f <-? as_N fee ;; b' <-? dec_sbody b ;; if w64 f then Some (f, b') else None
  | _ => None
  end.

Definition dec_appop (t : term) : option appop :=
  match t with
  | TL [TS k; TL g] => if String.eqb k "in" then (g' <-? map_opt dec_inner g ;; Some (OInner g')) else None
  | TL (TS k :: args) =>
    a <-? map_opt as_N args ;;
    if negb (forallb w64 a) then None else
    if String.eqb k "bc" then match a with [n; nl; sz] => Some (OBoxCreate n nl sz) | _ => None end
    else if String.eqb k "bd" then match a with [n; nl] => Some (OBoxDel n nl) | _ => None end
    else if String.eqb k "br" then match a with [n; nl; sz] => Some (OBoxResize n nl sz) | _ => None end
    else if String.eqb k "gp" then match a with [key; ib] => Some (OGPut key (negb (ib =? 0))) | _ => None end
    else if String.eqb k "gd" then match a with [key] => Some (OGDel key) | _ => None end
    else if String.eqb k "lp" then match a with [acct; key; ib] => Some (OLPut acct key (negb (ib =? 0))) | _ => None end
    else if String.eqb k "ld" then match a with [acct; key] => Some (OLDel acct key) | _ => None end
    else if String.eqb k "ps" then match a with [field; v] => Some (OParamSet field (negb (v =? 0))) | _ => None end
    else if String.eqb k "fail" then match a with [] => Some OFail | _ => None end
    else None
  | _ => None
  end.

Definition dec_body (t : term) : option body :=
  match t with
  | TL [TS k; app; oc; gsu; gsb; lsu; lsb; pages; acc; TL ops] =>
    if negb (String.eqb k "appl") then None else
    l <-? map_opt as_N [app; oc; gsu; gsb; lsu; lsb; pages; acc] ;;
    ops' <-? map_opt dec_appop ops ;;
    if negb (forallb w64 l) then None else
    match l with
    | [app; oc; gsu; gsb; lsu; lsb; pages; acc] =>
      Some (BApp (mkCall app oc (gsu, gsb) (lsu, lsb) pages ops' (negb (acc =? 0))))
    | _ => None
    end
  | TL (TS k :: args) =>
    a <-? map_opt as_N args ;;
    if negb (forallb w64 a) then None else
    if String.eqb k "pay" then
      match a with [rcv; amt; cl] => Some (BPay rcv amt cl) | _ => None end
    else if String.eqb k "keyreg" then
      match a with [vpk; spk; sppk; vf; vl; vkd; np] => Some (BKeyreg vpk spk sppk vf vl vkd (negb (np =? 0))) | _ => None end
    else if String.eqb k "acfg" then
      match a with [asset; tot; df; mg; rs; fz; cl; ex] => Some (BAcfg asset (mkAP tot (negb (df =? 0)) mg rs fz cl ex)) | _ => None end
    else if String.eqb k "axfer" then
      match a with [asset; amt; asnd; rcv; cl] => Some (BAxfer asset amt asnd rcv cl) | _ => None end
    else if String.eqb k "afrz" then
      match a with [asset; acct; fr] => Some (BAfrz asset acct (negb (fr =? 0))) | _ => None end
    else if String.eqb k "other" then Some BOther
    else None
  | _ => None
  end.

Definition dec_txn (t : term) : option txn :=
  match t with
  | TL [snd_; fee; fv; lv; lease; genok; wf; auth; grp; txid; ff; rk; bd] =>
    l <-? map_opt as_N [snd_; fee; fv; lv; lease; genok; wf; auth; grp; txid; ff; rk] ;;
    b <-? dec_body bd ;;
    if negb (forallb w64 l) then None else
    match l with
    | [snd_; fee; fv; lv; lease; genok; wf; auth; grp; txid; ff; rk] =>
      Some (mkTxn snd_ fee fv lv lease (negb (genok =? 0)) (negb (wf =? 0)) auth grp txid ff rk b)
    | _ => None
    end
  | _ => None
  end.

Definition dec_pairs (t : term) : option (list (N * N)) :=
  match t with
  | TL l => map_opt (fun e => match e with
                              | TL [a; b] => a' <-? as_N a ;; b' <-? as_N b ;; Some (a', b')
                              | _ => None end) l
  | _ => None
  end.

(* txids arrive as (id lastvalid intra) sorted by intra; intra should be the position *)
Fixpoint dec_txids_from (i : N) (l : list term) : option (list (N * N) * bool) :=
  match l with
  | [] => Some ([], true)
  | TL [a; b; c] :: r =>
    a' <-? as_N a ;; b' <-? as_N b ;; c' <-? as_N c ;;
    rest <-? dec_txids_from (i + 1) r ;;
    Some ((a', b') :: fst rest, (c' =? i) && snd rest)
  | _ => None
  end.

Definition dec_leases (t : term) : option (list ((N * N) * N)) :=
  match t with
  | TL l => map_opt (fun e => match e with
                              | TL [a; b; c] => a' <-? as_N a ;; b' <-? as_N b ;; c' <-? as_N c ;; Some ((a', b'), c')
                              | _ => None end) l
  | _ => None
  end.

(* params: 0 or (total dfrozen manager reserve freeze clawback extra); holding: 0 or (amount frozen) *)
Definition dec_oparams (t : term) : option (option aparams) :=
  match t with
  | TZ 0%Z => Some None
  | TL _ => l <-? as_N_list t ;;
            match l with
            | [tot; df; mg; rs; fz; cl; ex] => if forallb w64 l then Some (Some (mkAP tot (negb (df =? 0)) mg rs fz cl ex)) else None
            | _ => None
            end
  | _ => None
  end.
Definition dec_oholding (t : term) : option (option holding) :=
  match t with
  | TZ 0%Z => Some None
  | TL _ => l <-? as_N_list t ;;
            match l with
            | [amt; fr] => if w64 amt then Some (Some (mkH amt (negb (fr =? 0)))) else None
            | _ => None
            end
  | _ => None
  end.
(* (addr asset params holding) *)
Definition dec_bassets (t : term) : option (list ((N * N) * (option aparams * option holding))) :=
  match t with
  | TL l => map_opt (fun e => match e with
                              | TL [a; i; p; h] => a' <-? as_N a ;; i' <-? as_N i ;; p' <-? dec_oparams p ;; h' <-? dec_oholding h ;;
                                                   Some ((a', i'), (p', h'))
                              | _ => None end) l
  | _ => None
  end.

Definition dec_aview := dec_bassets.
Definition dec_rows (t : term) : option (list (list N)) :=
  match t with TL l => map_opt as_N_list l | _ => None end.

Definition dec_snap (t : term) : option snap :=
  match t with
  | TL [tb; mods; TL txids; leases; tc; fees; ps; av; crs; tbytes; arows; cor] =>
    tb' <-? dec_table tb ;; mods' <-? as_N_list mods ;; tx' <-? dec_txids_from 0 txids ;;
    ls' <-? dec_leases leases ;; tc' <-? as_N tc ;; fees' <-? as_N fees ;; ps' <-? as_N ps ;;
    av' <-? dec_aview av ;; crs' <-? dec_pairs crs ;; tbytes' <-? as_N tbytes ;; arows' <-? dec_rows arows ;;
    cor' <-? as_N cor ;;
    Some (mkSnap tb' mods' (fst tx') ls' tc' fees' ps' (snd tx') av' crs' tbytes' arows' (negb (cor' =? 0)))
  | _ => None
  end.

(* the fault injected by the harness: none; a panic in the ledger's CheckDup while transaction i
   of the loop is evaluated (reported only when it fired); the parent cow's Txids (1) or sdeltas
   (2) map set to nil, which makes commitToParent panic when it first writes to it *)
Inductive inject := INone | ILoop (i : nat) | ISab (which : N).
Record gobs := mkGobs { g_txns : list txn; g_lsigfee : N; g_code : N; g_snap : snap; g_inject : inject }.

Definition dec_group (t : term) : option gobs :=
  match t with
  | TL [TL txs; lf; code; sn; inj] =>
    txs' <-? map_opt dec_txn txs ;; lf' <-? as_N lf ;; code' <-? as_N code ;; sn' <-? dec_snap sn ;;
    inj' <-? (match inj with
              | TZ 0%Z => Some INone
              | TL [TS k; n] => n' <-? as_N n ;;
                                if String.eqb k "loop" then Some (ILoop (N.to_nat n'))
                                else if String.eqb k "sab" then Some (ISab n') else None
              | _ => None
              end) ;;
    Some (mkGobs txs' lf' code' sn' inj')
  | _ => None
  end.

(* rows of the ledger's application state: kinds 1, 2, 5 as in [appobs_of], and
   [6; addr; app; global; key; isbytes] for every stored key *)
Definition set_bapp (l : list ((N * N) * (option appparams * option (N * N)))) (k : N * N)
           (f : option appparams * option (N * N) -> option appparams * option (N * N)) :=
  pupsert k (f (match pfind k l with Some v => v | None => (None, None) end)) l.

Fixpoint base_of_rows (rows : list (list N)) (b : base) : base :=
  match rows with
  | [] => b
  | row :: r =>
    let b1 :=
      match row with
      | [1; a; i; gsu; gsb; lsu; lsb; pages; sp; fbr; fba] =>
        mkBase (b_accts b) (b_txids b) (b_counter b) (b_assets b)
               (set_bapp (b_apps b) (a, i) (fun v => (Some (mkApp (gsu, gsb) (lsu, lsb) pages sp (negb (fbr =? 0)) (negb (fba =? 0))), snd v)))
               (b_store b) (b_boxes b)
      | [2; a; i; su; sb] =>
        mkBase (b_accts b) (b_txids b) (b_counter b) (b_assets b)
               (set_bapp (b_apps b) (a, i) (fun v => (fst v, Some (su, sb)))) (b_store b) (b_boxes b)
      | [5; i; name; sz] =>
        mkBase (b_accts b) (b_txids b) (b_counter b) (b_assets b) (b_apps b) (b_store b) (pupsert (i, name) sz (b_boxes b))
      | [6; a; i; g; key; ib] =>
        let k := skey a i (negb (g =? 0)) in
        mkBase (b_accts b) (b_txids b) (b_counter b) (b_assets b) (b_apps b)
               (pupsert k (aupsert key (negb (ib =? 0)) (match pfind k (b_store b) with Some kv => kv | None => [] end)) (b_store b))
               (b_boxes b)
      | _ => b
      end in
    base_of_rows r b1
  end.

Record blockcase := mkCase {
  k_P : params; k_rnd : N; k_prevlvl : N; k_lvl : N; k_ru : N; k_sink : N; k_pool : N; k_sps : N; k_counter : N;
  k_base : table; k_basetx : list N; k_bassets : list ((N * N) * (option aparams * option holding)); k_aids : list N;
  k_brows : list (list N); k_appids : list N; k_nU : N; k_frows : list (list N);
  k_start : snap; k_groups : list gobs;
  k_expired : list N; k_absent : list N; k_proposer : N; k_payout : N; k_endcode : N; k_final : table;
  k_faview : list ((N * N) * (option aparams * option holding)); k_fcreators : list (N * N)
}.

Definition dec_case (t : term) : option blockcase :=
  match t with
  | TL [TS tag; ps; hd; bs; btx; bas; aids; brows; appids; st; TL gs; TL [ex; ab; prop; pay; ec; fin; fav; fcr; frows]] =>
    if negb (String.eqb tag "blk") then None else
    P <-? dec_params ps ;;
    h <-? as_N_list hd ;;
    b <-? dec_table bs ;; btx' <-? as_N_list btx ;; bas' <-? dec_bassets bas ;; aids' <-? as_N_list aids ;;
    brows' <-? dec_rows brows ;; appids' <-? as_N_list appids ;; frows' <-? dec_rows frows ;;
    st' <-? dec_snap st ;;
    gs' <-? map_opt dec_group gs ;;
    ex' <-? as_N_list ex ;; ab' <-? as_N_list ab ;; prop' <-? as_N prop ;; pay' <-? as_N pay ;;
    ec' <-? as_N ec ;; fin' <-? dec_table fin ;; fav' <-? dec_aview fav ;; fcr' <-? dec_pairs fcr ;;
    match h with
    | [rnd; prevlvl; lvl; ru; sink; pool; sps; ctr; nU] =>
      if forallb w64 h && w64 pay' then
        Some (mkCase P rnd prevlvl lvl ru sink pool sps ctr b btx' bas' aids' brows' appids' nU frows' st' gs' ex' ab' prop' pay' ec' fin' fav' fcr')
      else None
    | _ => None
    end
  | _ => None
  end.

(* ------------------------------------------------------------------ replay through the model *)
Definition env_of (k : blockcase) (validate generate : bool) : env :=
  mkEnv (k_P k) (k_rnd k) (k_lvl k) (k_sink k) (k_pool k) (k_sps k) validate generate.

(* the fixed universe = the first [k_nU] entries of the previous round's table (application
   accounts follow) *)
Definition universe (k : blockcase) : list N := firstn (N.to_nat (k_nU k)) (map fst (k_base k)).
Definition ids_of (k : blockcase) : ids := mkIds (universe k) (k_aids k) (k_appids k).
Definition base_of (k : blockcase) : base :=
  base_of_rows (k_brows k) (mkBase (k_base k) (k_basetx k) (k_counter k) (k_bassets k) [] [] []).

(* generate+validate evaluator fed with every group; returns "all observations agree" *)
(* where the injected fault makes the real code panic *)
Definition ppoint_of (E : env) (ev : evalst) (g : gobs) : option ppoint :=
  match g_inject g with
  | INone => None
  | ILoop i => Some (PLoop i)
  | ISab w =>
    if w =? 1 then Some (PCommit 1)     (* Txids: first write after MergeAccounts *)
    else match g_txns g with
         | [] => None
         | _ => match group_body E (g_txns g) (g_lsigfee g) (child (ev_cow ev)) with
                | (c1, Ok _) => match l_store (c_top c1) with [] => None | _ => Some (PCommit 5) end
                | _ => None
                end
         end
  end.

Definition step_group (E : env) (ev : evalst) (g : gobs) : evalst * res unit :=
  transaction_group_p E ev (g_txns g) (g_lsigfee g) (ppoint_of E ev g).

Fixpoint replay_groups (E : env) (I : ids) (ev : evalst) (gs : list gobs) : bool * evalst :=
  match gs with
  | [] => (true, ev)
  | g :: r =>
    let '(ev1, res) := step_group E ev g in
    let code := match res with Ok _ => 0 | Err e => e end in
    if (code =? g_code g) && snap_eqb (snap_of I ev1) (g_snap g)
    then replay_groups E I ev1 r
    else (false, ev1)
  end.

Definition accepted (gs : list gobs) : list (list txn * N) :=
  map (fun g => (g_txns g, g_lsigfee g)) (filter (fun g => g_code g =? 0) gs).

Definition model_agrees (k : blockcase) : bool :=
  let U := universe k in
  let b := base_of k in
  match start_block (env_of k true true) b (k_prevlvl k) (k_ru k) with
  | Err _ => false
  | Ok ev0 =>
    snap_eqb (snap_of (ids_of k) ev0) (k_start k) &&
    fst (replay_groups (env_of k true true) (ids_of k) ev0 (k_groups k)) &&
    if ev_corrupt (snd (replay_groups (env_of k true true) (ids_of k) ev0 (k_groups k)))
    then (* GenerateBlock refuses; nothing is committed *)
      (k_endcode k =? E_CORRUPT) && table_eqb (k_final k) (k_base k)
    else
    (* the committed block: eval.Eval in validate mode over the accepted groups *)
    match eval_block (env_of k true false) b (k_prevlvl k) (k_ru k) (accepted (k_groups k))
                     (k_expired k) (k_absent k) (k_proposer k) (k_payout k) with
    | Ok ev => table_eqb (table_of U (k_appids k) (ev_cow ev)) (k_final k) && (k_endcode k =? 0) &&
               rows_eqb (filter (fun r => negb (match r with 4 :: _ => true | _ => false end)) (appobs_of U (k_appids k) (ev_cow ev))) (k_frows k) &&
               aview_eqb (aview_of (U ++ map app_addr (k_appids k)) (k_aids k) (ev_cow ev)) (k_faview k) &&
               plist_eqb (creators_of (k_aids k) (ev_cow ev)) (k_fcreators k)
    | Err _ => negb (k_endcode k =? 0)
    end
  end.

(* prevTotals.RewardUnits() as the sum over the enumerated ledger *)
Definition table_reward_units (P : params) (t : table) : N :=
  fold_right (fun e acc => match a_status (snd e) with NotPart => acc | _ => a_algos (snd e) / p_unit P + acc end) 0 t.

(* ------------------------------------------------------------------ C18 oracle *)
(* conservation along the implementation's own observations: previous round's table at the
   previous level = table after StartEvaluator at the new level = ... after every
   TransactionGroup call (accepted or not) ... = committed table *)
Fixpoint conserved_groups (P : params) (lvl T : N) (gs : list gobs) : bool :=
  match gs with
  | [] => true
  | g :: r => (total P lvl (s_table (g_snap g)) =? T) && conserved_groups P lvl T r
  end.

Definition spec_ok_c18 (k : blockcase) : bool :=
  let T := total (k_P k) (k_prevlvl k) (k_base k) in
  (total (k_P k) (k_lvl k) (s_table (k_start k)) =? T) &&
  conserved_groups (k_P k) (k_lvl k) T (k_groups k) &&
  ((negb (k_endcode k =? 0)) || (total (k_P k) (k_lvl k) (k_final k) =? T)).

Definition moves_money (g : gobs) : bool :=
  (g_code g =? 0) && existsb (fun tx => negb (t_fee tx =? 0)) (g_txns g).

Definition nontrivial_c18 (k : blockcase) : bool := existsb moves_money (k_groups k).

(* ------------------------------------------------------------------ C19 oracle *)
Definition fees_of (sink : N) (g : list txn) : N :=
  fold_left (fun acc tx => if t_sender tx =? sink then acc else (acc + t_fee tx) mod 2 ^ 64) g 0.

(* the lease map after an accepted group: every old entry kept unless overwritten, every
   non-zero lease of the group present with its LastValid (the last writer wins) *)
Definition last_lease (g : list txn) (key : N * N) : option N :=
  fold_left (fun acc tx => if negb (t_lease tx =? 0) && pair_eqb (t_sender tx, t_lease tx) key then Some (t_lv tx) else acc) g None.

Definition leases_ok (old new : list ((N * N) * N)) (g : list txn) : bool :=
  forallb (fun e => match last_lease g (fst e) with
                    | Some lv => snd e =? lv
                    | None => match pfind (fst e) old with Some v => snd e =? v | None => false end
                    end) new &&
  forallb (fun e => match pfind (fst e) new with Some _ => true | None => false end) old &&
  forallb (fun tx => (t_lease tx =? 0) || match pfind (t_sender tx, t_lease tx) new with Some _ => true | None => false end) g.

(* inner transactions a group can have executed: all of them, except those of ClearState
   programs, which may have been dropped with a failing program (bounds for the oracle) *)
Definition op_inner (op : appop) : list (N * sbody) := match op with OInner g => g | _ => [] end.
Definition call_inner (tx : txn) : list (N * sbody) :=
  match t_body tx with BApp c => flat_map op_inner (ac_script c) | _ => [] end.
Definition is_clear (tx : txn) : bool := match t_body tx with BApp c => ac_oc c =? 3 | _ => false end.
Definition inner_count (sure : bool) (g : list txn) : N :=
  fold_left (fun acc tx => if sure && is_clear tx then acc else acc + N.of_nat (List.length (call_inner tx))) g 0.
Definition inner_fees (sure : bool) (g : list txn) : N :=
  fold_left (fun acc tx => if sure && is_clear tx then acc
                           else fold_left (fun a e => a + fst e) (call_inner tx) acc) g 0.

(* one TransactionGroup call, judged on the observations before / after only *)
Definition group_step_ok (sink : N) (before : snap) (g : gobs) : bool :=
  let after := g_snap g in
  if s_corrupt before then
    (* a corrupted evaluator refuses and changes nothing *)
    (g_code g =? E_CORRUPT) && snap_eqb after before && (s_txbytes after =? s_txbytes before)
  else if g_code g =? 0 then
    let n := N.of_nat (List.length (g_txns g)) in
    negb (s_corrupt after) &&
    s_intra_ok after &&
    (s_payset after =? s_payset before + n) &&
    (s_txncount before + n + inner_count true (g_txns g) <=? s_txncount after) &&
    (s_txncount after <=? s_txncount before + n + inner_count false (g_txns g)) &&
    plist_eqb (s_txids after) (s_txids before ++ map (fun tx => (t_txid tx, t_lv tx)) (g_txns g)) &&
    (s_fees before + fees_of sink (g_txns g) + inner_fees true (g_txns g) <=? s_fees after) &&
    (s_fees after <=? s_fees before + fees_of sink (g_txns g) + inner_fees false (g_txns g)) &&
    leases_ok (s_leases before) (s_leases after) (g_txns g) &&
    (s_txbytes before <? s_txbytes after)
  else if s_corrupt after then true     (* reported failed and marked corrupted: unusable from here on *)
  else (* reported failed, still usable: nothing may have changed *)
    snap_eqb after before && (s_txbytes after =? s_txbytes before).

Fixpoint groups_ok (sink : N) (before : snap) (gs : list gobs) : bool :=
  match gs with
  | [] => true
  | g :: r => group_step_ok sink before g && groups_ok sink (g_snap g) r
  end.

Definition last_snap (k : blockcase) : snap := last (map g_snap (k_groups k)) (k_start k).

(* ... and a corrupted evaluator produces no block *)
Definition spec_ok_c19 (k : blockcase) : bool :=
  groups_ok (k_sink k) (k_start k) (k_groups k) &&
  (negb (s_corrupt (last_snap k)) || (k_endcode k =? E_CORRUPT)).

(* a rejected group counts when the model says the child cow had been written to before the
   failure (so there was something to roll back) *)
Fixpoint dirty_rejects (E : env) (ev : evalst) (gs : list gobs) : N :=
  match gs with
  | [] => 0
  | g :: r =>
    let '(ev1, res) := step_group E ev g in
    let d := match res with
             | Ok _ => 0
             | Err _ =>
               match g_txns g with
               | [] => 0
               | _ => let '(c1, _) := group_body E (g_txns g) (g_lsigfee g) (child (ev_cow ev)) in
                      match l_accts (c_top c1) with [] => 0 | _ => 1 end
               end
             end in
    d + dirty_rejects E ev1 r
  end.

Definition nontrivial_c19 (k : blockcase) : bool :=
  let b := base_of k in
  match start_block (env_of k true true) b (k_prevlvl k) (k_ru k) with
  | Err _ => false
  | Ok ev0 => 0 <? dirty_rejects (env_of k true true) ev0 (k_groups k)
  end.

(* ------------------------------------------------------------------ C21 oracle *)
(* after every accepted group: every account whose record changed, other than the fee sink,
   the rewards pool and the state proof sender, is all-zero or holds (with pending rewards)
   at least its requirement *)
Definition changed_ok (P : params) (lvl sink pool sps : N) (before after : table) : bool :=
  forallb (fun e =>
    let x := match afind (fst e) before with Some y => y | None => acct0 end in
    acct_eqb x (snd e) || (fst e =? sink) || (fst e =? pool) || (fst e =? sps) || acct_is_zero (snd e) ||
    (spec_min_balance P (snd e) <=? bwp P lvl (snd e))) after.

Fixpoint minbal_groups_ok (k : blockcase) (before : table) (gs : list gobs) : bool :=
  match gs with
  | [] => true
  | g :: r =>
    (negb (g_code g =? 0) ||
     changed_ok (k_P k) (k_lvl k) (k_sink k) (k_pool k) (k_sps k) before (s_table (g_snap g))) &&
    minbal_groups_ok k (s_table (g_snap g)) r
  end.

Definition spec_ok_c21 (k : blockcase) : bool := minbal_groups_ok k (s_table (k_start k)) (k_groups k).

Definition nontrivial_c21 (k : blockcase) : bool :=
  existsb (fun g => (g_code g =? E_MINBAL) || (g_code g =? 0)) (k_groups k).

(* ------------------------------------------------------------------ entry points *)
(* which components of two snapshots differ (diagnostics only) *)
Definition snap_diff (a b : snap) : term :=
  TL [tb (table_eqb (s_table a) (s_table b)); tb (nlist_eqb (s_mods a) (s_mods b));
      tb (plist_eqb (s_txids a) (s_txids b)); tb (llist_eqb (s_leases a) (s_leases b));
      tb (s_txncount a =? s_txncount b); tb (s_fees a =? s_fees b); tb (s_payset a =? s_payset b);
      tb (aview_eqb (s_aview a) (s_aview b)); tb (plist_eqb (s_creators a) (s_creators b));
      tb (rows_eqb (s_appobs a) (s_appobs b)); tb (Bool.eqb (s_corrupt a) (s_corrupt b));
      TL (map (fun r => TL (map tn r)) (s_appobs a));
      TL (map (fun e => let x := snd e in
                        TL [tn (fst e); tn (a_algos x); tn (a_rbase x); tn (a_rewarded x); tn (a_auth x); tb (a_elig x);
                            tn (a_schema_u x); tn (a_schema_b x); tn (a_extrapages x); tn (a_appparams x); tn (a_applocals x);
                            tn (a_assetparams x); tn (a_assets x); tn (a_boxes x); tn (a_boxbytes x); tn (a_lastprop x); tn (a_lasthb x);
                            tn (a_votepk x); tn (a_selpk x); tn (a_sppk x); tn (a_votefirst x); tn (a_votelast x); tn (a_votekd x)])
                  (filter (fun e => negb (existsb (fun e' => (fst e =? fst e') && acct_eqb (snd e) (snd e')) (s_table b))) (s_table a)));
      TL (map tn (s_mods a)); tn (s_txncount a); tn (s_fees a)].

Definition model_obs (k : blockcase) : term :=
  (* on disagreement: the per-group codes of the model and, for the first group whose
     snapshot differs, which components differ plus the model's version of some of them *)
  let b := base_of k in
  match start_block (env_of k true true) b (k_prevlvl k) (k_ru k) with
  | Err e => TL [TS "start_err"; tn e]
  | Ok ev0 =>
    let fix go (ev : evalst) (gs : list gobs) : list term :=
        match gs with
        | [] => []
        | g :: r => let '(ev1, res) := step_group (env_of k true true) ev g in
                    tn (match res with Ok _ => 0 | Err e => e end) :: go ev1 r
        end in
    let fix first_bad (n : N) (ev : evalst) (gs : list gobs) : term :=
        match gs with
        | [] => TS "none"
        | g :: r => let '(ev1, res) := step_group (env_of k true true) ev g in
                    if snap_eqb (snap_of (ids_of k) ev1) (g_snap g) then first_bad (n + 1) ev1 r
                    else TL [tn n; snap_diff (snap_of (ids_of k) ev1) (g_snap g)]
        end in
    TL [TS "codes"; TL (go ev0 (k_groups k));
        (if snap_eqb (snap_of (ids_of k) ev0) (k_start k) then TS "start_ok" else TL [TS "start"; snap_diff (snap_of (ids_of k) ev0) (k_start k)]);
        first_bad 0 ev0 (k_groups k);
        (* the committed block (validate mode): result code or the entries of the final table that differ *)
        match eval_block (env_of k true false) b (k_prevlvl k) (k_ru k) (accepted (k_groups k))
                         (k_expired k) (k_absent k) (k_proposer k) (k_payout k) with
        | Err e => TL [TS "final_err"; tn e]
        | Ok ev =>
          TL [TS "final";
              TL (map (fun e => let x := snd e in
                        TL [tn (fst e); tn (match a_status x with Offline => 0 | Online => 1 | NotPart => 2 end);
                            tn (a_algos x); tn (a_rbase x); tn (a_rewarded x); tn (a_auth x); tb (a_elig x);
                            tn (a_schema_u x); tn (a_schema_b x); tn (a_extrapages x); tn (a_appparams x); tn (a_applocals x);
                            tn (a_assetparams x); tn (a_assets x); tn (a_boxes x); tn (a_boxbytes x); tn (a_lastprop x); tn (a_lasthb x);
                            tn (a_votepk x); tn (a_selpk x); tn (a_sppk x); tn (a_votefirst x); tn (a_votelast x); tn (a_votekd x)])
                  (filter (fun e => negb (existsb (fun e' => (fst e =? fst e') && acct_eqb (snd e) (snd e')) (k_final k)))
                          (table_of (universe k) (k_appids k) (ev_cow ev))));
              TL (map (fun e => tn (fst e)) (table_of (universe k) (k_appids k) (ev_cow ev)));
              TL (map (fun e => tn (fst e)) (k_final k));
              tb (table_eqb (table_of (universe k) (k_appids k) (ev_cow ev)) (k_final k));
              tb (aview_eqb (aview_of (universe k ++ map app_addr (k_appids k)) (k_aids k) (ev_cow ev)) (k_faview k));
              tb (plist_eqb (creators_of (k_aids k) (ev_cow ev)) (k_fcreators k));
              tb (rows_eqb (filter (fun r => negb (match r with 4 :: _ => true | _ => false end)) (appobs_of (universe k) (k_appids k) (ev_cow ev))) (k_frows k))]
        end]
  end.

(* the reward units handed to StartEvaluator are those of the enumerated ledger (AccountTotals
   is C12's subject; a mismatch breaks the correspondence here, and as soon as the rewards level
   rises it breaks conservation: the pool pays for units no account holds -- spec_ok_c18) *)
Definition ru_ok (k : blockcase) : bool := k_ru k =? table_reward_units (k_P k) (k_base k).

Definition check_with (spec nontriv : blockcase -> bool) (t : term) : term :=
  match dec_case t with
  | None => v_parse
  | Some k =>
    verdict (spec k) (model_agrees k && ru_ok k) (nontriv k) (model_obs k)
  end.

Definition check_c18 : term -> term := check_with spec_ok_c18 nontrivial_c18.
Definition check_c19 : term -> term := check_with spec_ok_c19 nontrivial_c19.
Definition check_c21 : term -> term := check_with spec_ok_c21 nontrivial_c21.
