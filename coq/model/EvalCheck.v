(* C18 / C19 / C21: decoding of the harness cases (one block per line, see
   harness/go/ledger/eval/zz_verif_c18_test.go), replay through the model, and the
   executable oracles [spec_ok_*] evaluated on the IMPLEMENTATION's observations only.
   No proofs in this file (soundness of the oracles: proofs/EvalSpecProofs.v). *)
From Coq Require Import NArith ZArith List Bool String.
From Verif.lib Require Import Term.
From Verif.model Require Import Overflow EvalCow EvalApply EvalGroup EvalSpec.
Import ListNotations.
Open Scope N_scope.

(* ------------------------------------------------------------------ observations *)
Record snap := mkSnap {
  s_table : table;
  s_mods : list N;
  s_txids : list (N * N);              (* in Intra order *)
  s_leases : list ((N * N) * N);       (* sorted by key *)
  s_txncount : N;
  s_fees : N;
  s_payset : N;
  s_intra_ok : bool;                   (* Txids[..].Intra is the insertion position *)
  s_aview : list ((N * N) * (option aparams * option holding));   (* non-empty GetAssetParams / GetAssetHolding over U x A *)
  s_creators : list (N * N);           (* (asset, creator) for every asset of A that GetCreator finds *)
  s_txbytes : N                        (* eval.blockTxBytes: not computed by the model (encoded sizes), judged by the oracle only *)
}.

Fixpoint table_eqb (a b : table) : bool :=
  match a, b with
  | [], [] => true
  | (k, x) :: r, (k', x') :: r' => (k =? k') && acct_eqb x x' && table_eqb r r'
  | _, _ => false
  end.

Fixpoint nlist_eqb (a b : list N) : bool :=
  match a, b with
  | [], [] => true
  | x :: r, y :: r' => (x =? y) && nlist_eqb r r'
  | _, _ => false
  end.

Fixpoint plist_eqb (a b : list (N * N)) : bool :=
  match a, b with
  | [], [] => true
  | x :: r, y :: r' => pair_eqb x y && plist_eqb r r'
  | _, _ => false
  end.

Fixpoint llist_eqb (a b : list ((N * N) * N)) : bool :=
  match a, b with
  | [], [] => true
  | (k, v) :: r, (k', v') :: r' => pair_eqb k k' && (v =? v') && llist_eqb r r'
  | _, _ => false
  end.

Definition ap_eqb (x y : aparams) : bool :=
  (ap_total x =? ap_total y) && Bool.eqb (ap_dfrozen x) (ap_dfrozen y) && (ap_manager x =? ap_manager y) &&
  (ap_reserve x =? ap_reserve y) && (ap_freeze x =? ap_freeze y) && (ap_clawback x =? ap_clawback y) &&
  (ap_extra x =? ap_extra y).
Definition h_eqb (x y : holding) : bool := (h_amount x =? h_amount y) && Bool.eqb (h_frozen x) (h_frozen y).
Definition opt_eqb {A} (eqb : A -> A -> bool) (x y : option A) : bool :=
  match x, y with Some a, Some b => eqb a b | None, None => true | _, _ => false end.
Fixpoint aview_eqb (a b : list ((N * N) * (option aparams * option holding))) : bool :=
  match a, b with
  | [], [] => true
  | (k, (p, h)) :: r, (k', (p', h')) :: r' => pair_eqb k k' && opt_eqb ap_eqb p p' && opt_eqb h_eqb h h' && aview_eqb r r'
  | _, _ => false
  end.

Definition snap_eqb (a b : snap) : bool :=
  table_eqb (s_table a) (s_table b) && nlist_eqb (s_mods a) (s_mods b) &&
  plist_eqb (s_txids a) (s_txids b) && llist_eqb (s_leases a) (s_leases b) &&
  (s_txncount a =? s_txncount b) && (s_fees a =? s_fees b) && (s_payset a =? s_payset b) &&
  Bool.eqb (s_intra_ok a) (s_intra_ok b) && aview_eqb (s_aview a) (s_aview b) &&
  plist_eqb (s_creators a) (s_creators b).

(* insertion sort of the lease map by key (the harness sorts the Go map the same way) *)
Definition lease_lt (a b : (N * N) * N) : bool :=
  (fst (fst a) <? fst (fst b)) || ((fst (fst a) =? fst (fst b)) && (snd (fst a) <? snd (fst b))).
Fixpoint lease_insert (x : (N * N) * N) (l : list ((N * N) * N)) : list ((N * N) * N) :=
  match l with
  | [] => [x]
  | y :: r => if lease_lt x y then x :: y :: r else y :: lease_insert x r
  end.
Definition lease_sort (l : list ((N * N) * N)) : list ((N * N) * N) := fold_right lease_insert [] l.

(* the model's evaluator seen the way the harness sees the real one *)
Definition aview_of (U A : list N) (c : cow) : list ((N * N) * (option aparams * option holding)) :=
  filter (fun e => match snd e with (None, None) => false | _ => true end)
         (flat_map (fun a => map (fun i => ((a, i), (get_params c a i, get_holding c a i))) A) U).
Definition creators_of (A : list N) (c : cow) : list (N * N) :=
  flat_map (fun i => match get_creator c i with Some a => [(i, a)] | None => [] end) A.

Definition snap_of (U A : list N) (ev : evalst) : snap :=
  let c := ev_cow ev in
  mkSnap (map (fun a => (a, lookup c a)) U) (modified c) (l_txids (c_top c))
         (lease_sort (l_leases (c_top c))) (l_txncount (c_top c)) (l_fees (c_top c))
         (N.of_nat (List.length (ev_payset ev))) true (aview_of U A c) (creators_of A c) 0.

(* ------------------------------------------------------------------ decoding *)
Definition opt_bind {A B} (o : option A) (f : A -> option B) : option B :=
  match o with Some a => f a | None => None end.
Notation "x <-? o ;; k" := (opt_bind o (fun x => k)) (at level 61, o at next level, right associativity).

Definition w64 (n : N) : bool := n <? 2 ^ 64.

Definition dec_status (n : N) : option status :=
  match n with 0 => Some Offline | 1 => Some Online | 2 => Some NotPart | _ => None end.

Definition dec_acct (t : term) : option acct :=
  l <-? as_N_list t ;;
  match l with
  | [st; algos; rbase; rewarded; auth; elig; su; sb; xp; ap; al; asp; ast; bx; bb; lp; hb; vpk; spk; sppk; vf; vl; vkd] =>
    s <-? dec_status st ;;
    if forallb w64 l then
      Some (mkAcct s algos rbase rewarded auth (negb (elig =? 0)) su sb xp ap al asp ast bx bb lp hb vpk spk sppk vf vl vkd)
    else None
  | _ => None
  end.

Definition dec_entry (t : term) : option (N * acct) :=
  match t with
  | TL [k; a] => k' <-? as_N k ;; a' <-? dec_acct a ;; Some (k', a')
  | _ => None
  end.

Definition dec_table (t : term) : option table :=
  match t with TL l => map_opt dec_entry l | _ => None end.

Definition dec_params (t : term) : option params :=
  l <-? as_N_list t ;;
  match l with
  | [unit; minbal; minfee; unf; maxg; leases; pay; goon; coh; np; spc; mmb; ma; afp; afo; bf; bb; se; su; sb; lb; me; ca] =>
    if forallb w64 l then
      Some (mkParams unit minbal minfee (negb (unf =? 0)) maxg (negb (leases =? 0)) (negb (pay =? 0)) goon
                     (negb (coh =? 0)) (negb (np =? 0)) (negb (spc =? 0)) mmb ma afp afo bf bb se su sb lb me (negb (ca =? 0)))
    else None
  | _ => None
  end.

Definition dec_body (t : term) : option body :=
  match t with
  | TL (TS k :: args) =>
    a <-? map_opt as_N args ;;
    if negb (forallb w64 a) then None else
    if String.eqb k "pay" then
      match a with [rcv; amt; cl] => Some (BPay rcv amt cl) | _ => None end
    else if String.eqb k "keyreg" then
      match a with [vpk; spk; sppk; vf; vl; vkd; np] => Some (BKeyreg vpk spk sppk vf vl vkd (negb (np =? 0))) | _ => None end
    else if String.eqb k "acfg" then
      match a with [asset; tot; df; mg; rs; fz; cl; ex] => Some (BAcfg asset (mkAP tot (negb (df =? 0)) mg rs fz cl ex)) | _ => None end
    else if String.eqb k "axfer" then
      match a with [asset; amt; asnd; rcv; cl] => Some (BAxfer asset amt asnd rcv cl) | _ => None end
    else if String.eqb k "afrz" then
      match a with [asset; acct; fr] => Some (BAfrz asset acct (negb (fr =? 0))) | _ => None end
    else if String.eqb k "other" then Some BOther
    else None
  | _ => None
  end.

Definition dec_txn (t : term) : option txn :=
  match t with
  | TL [snd_; fee; fv; lv; lease; genok; wf; auth; grp; txid; ff; rk; bd] =>
    l <-? map_opt as_N [snd_; fee; fv; lv; lease; genok; wf; auth; grp; txid; ff; rk] ;;
    b <-? dec_body bd ;;
    if negb (forallb w64 l) then None else
    match l with
    | [snd_; fee; fv; lv; lease; genok; wf; auth; grp; txid; ff; rk] =>
      Some (mkTxn snd_ fee fv lv lease (negb (genok =? 0)) (negb (wf =? 0)) auth grp txid ff rk b)
    | _ => None
    end
  | _ => None
  end.

Definition dec_pairs (t : term) : option (list (N * N)) :=
  match t with
  | TL l => map_opt (fun e => match e with
                              | TL [a; b] => a' <-? as_N a ;; b' <-? as_N b ;; Some (a', b')
                              | _ => None end) l
  | _ => None
  end.

(* txids arrive as (id lastvalid intra) sorted by intra; intra should be the position *)
Fixpoint dec_txids_from (i : N) (l : list term) : option (list (N * N) * bool) :=
  match l with
  | [] => Some ([], true)
  | TL [a; b; c] :: r =>
    a' <-? as_N a ;; b' <-? as_N b ;; c' <-? as_N c ;;
    rest <-? dec_txids_from (i + 1) r ;;
    Some ((a', b') :: fst rest, (c' =? i) && snd rest)
  | _ => None
  end.

Definition dec_leases (t : term) : option (list ((N * N) * N)) :=
  match t with
  | TL l => map_opt (fun e => match e with
                              | TL [a; b; c] => a' <-? as_N a ;; b' <-? as_N b ;; c' <-? as_N c ;; Some ((a', b'), c')
                              | _ => None end) l
  | _ => None
  end.

(* params: 0 or (total dfrozen manager reserve freeze clawback extra); holding: 0 or (amount frozen) *)
Definition dec_oparams (t : term) : option (option aparams) :=
  match t with
  | TZ 0%Z => Some None
  | TL _ => l <-? as_N_list t ;;
            match l with
            | [tot; df; mg; rs; fz; cl; ex] => if forallb w64 l then Some (Some (mkAP tot (negb (df =? 0)) mg rs fz cl ex)) else None
            | _ => None
            end
  | _ => None
  end.
Definition dec_oholding (t : term) : option (option holding) :=
  match t with
  | TZ 0%Z => Some None
  | TL _ => l <-? as_N_list t ;;
            match l with
            | [amt; fr] => if w64 amt then Some (Some (mkH amt (negb (fr =? 0)))) else None
            | _ => None
            end
  | _ => None
  end.
(* (addr asset params holding) *)
Definition dec_bassets (t : term) : option (list ((N * N) * (option aparams * option holding))) :=
  match t with
  | TL l => map_opt (fun e => match e with
                              | TL [a; i; p; h] => a' <-? as_N a ;; i' <-? as_N i ;; p' <-? dec_oparams p ;; h' <-? dec_oholding h ;;
                                                   Some ((a', i'), (p', h'))
                              | _ => None end) l
  | _ => None
  end.

Definition dec_aview := dec_bassets.

Definition dec_snap (t : term) : option snap :=
  match t with
  | TL [tb; mods; TL txids; leases; tc; fees; ps; av; crs; tbytes] =>
    tb' <-? dec_table tb ;; mods' <-? as_N_list mods ;; tx' <-? dec_txids_from 0 txids ;;
    ls' <-? dec_leases leases ;; tc' <-? as_N tc ;; fees' <-? as_N fees ;; ps' <-? as_N ps ;;
    av' <-? dec_aview av ;; crs' <-? dec_pairs crs ;; tbytes' <-? as_N tbytes ;;
    Some (mkSnap tb' mods' (fst tx') ls' tc' fees' ps' (snd tx') av' crs' tbytes')
  | _ => None
  end.

Record gobs := mkGobs { g_txns : list txn; g_lsigfee : N; g_code : N; g_snap : snap }.

Definition dec_group (t : term) : option gobs :=
  match t with
  | TL [TL txs; lf; code; sn] =>
    txs' <-? map_opt dec_txn txs ;; lf' <-? as_N lf ;; code' <-? as_N code ;; sn' <-? dec_snap sn ;;
    Some (mkGobs txs' lf' code' sn')
  | _ => None
  end.

Record blockcase := mkCase {
  k_P : params; k_rnd : N; k_prevlvl : N; k_lvl : N; k_ru : N; k_sink : N; k_pool : N; k_sps : N; k_counter : N;
  k_base : table; k_basetx : list N; k_bassets : list ((N * N) * (option aparams * option holding)); k_aids : list N;
  k_start : snap; k_groups : list gobs;
  k_expired : list N; k_absent : list N; k_proposer : N; k_payout : N; k_endcode : N; k_final : table;
  k_faview : list ((N * N) * (option aparams * option holding)); k_fcreators : list (N * N)
}.

Definition dec_case (t : term) : option blockcase :=
  match t with
  | TL [TS tag; ps; hd; bs; btx; bas; aids; st; TL gs; TL [ex; ab; prop; pay; ec; fin; fav; fcr]] =>
    if negb (String.eqb tag "blk") then None else
    P <-? dec_params ps ;;
    h <-? as_N_list hd ;;
    b <-? dec_table bs ;; btx' <-? as_N_list btx ;; bas' <-? dec_bassets bas ;; aids' <-? as_N_list aids ;;
    st' <-? dec_snap st ;;
    gs' <-? map_opt dec_group gs ;;
    ex' <-? as_N_list ex ;; ab' <-? as_N_list ab ;; prop' <-? as_N prop ;; pay' <-? as_N pay ;;
    ec' <-? as_N ec ;; fin' <-? dec_table fin ;; fav' <-? dec_aview fav ;; fcr' <-? dec_pairs fcr ;;
    match h with
    | [rnd; prevlvl; lvl; ru; sink; pool; sps; ctr] =>
      if forallb w64 h && w64 pay' then
        Some (mkCase P rnd prevlvl lvl ru sink pool sps ctr b btx' bas' aids' st' gs' ex' ab' prop' pay' ec' fin' fav' fcr')
      else None
    | _ => None
    end
  | _ => None
  end.

(* ------------------------------------------------------------------ replay through the model *)
Definition env_of (k : blockcase) (validate generate : bool) : env :=
  mkEnv (k_P k) (k_rnd k) (k_lvl k) (k_sink k) (k_pool k) (k_sps k) validate generate.

Definition universe (k : blockcase) : list N := map fst (k_base k).

(* generate+validate evaluator fed with every group; returns "all observations agree" *)
Fixpoint replay_groups (E : env) (U A : list N) (ev : evalst) (gs : list gobs) : bool * evalst :=
  match gs with
  | [] => (true, ev)
  | g :: r =>
    let '(ev1, res) := transaction_group E ev (g_txns g) (g_lsigfee g) in
    let code := match res with Ok _ => 0 | Err e => e end in
    if (code =? g_code g) && snap_eqb (snap_of U A ev1) (g_snap g)
    then replay_groups E U A ev1 r
    else (false, ev1)
  end.

Definition accepted (gs : list gobs) : list (list txn * N) :=
  map (fun g => (g_txns g, g_lsigfee g)) (filter (fun g => g_code g =? 0) gs).

Definition model_agrees (k : blockcase) : bool :=
  let U := universe k in
  let b := mkBase (k_base k) (k_basetx k) (k_counter k) (k_bassets k) in
  match start_block (env_of k true true) b (k_prevlvl k) (k_ru k) with
  | Err _ => false
  | Ok ev0 =>
    snap_eqb (snap_of U (k_aids k) ev0) (k_start k) &&
    fst (replay_groups (env_of k true true) U (k_aids k) ev0 (k_groups k)) &&
    (* the committed block: eval.Eval in validate mode over the accepted groups *)
    match eval_block (env_of k true false) b (k_prevlvl k) (k_ru k) (accepted (k_groups k))
                     (k_expired k) (k_absent k) (k_proposer k) (k_payout k) with
    | Ok ev => table_eqb (map (fun a => (a, lookup (ev_cow ev) a)) U) (k_final k) && (k_endcode k =? 0) &&
               aview_eqb (aview_of U (k_aids k) (ev_cow ev)) (k_faview k) &&
               plist_eqb (creators_of (k_aids k) (ev_cow ev)) (k_fcreators k)
    | Err _ => negb (k_endcode k =? 0)
    end
  end.

(* prevTotals.RewardUnits() as the sum over the enumerated ledger *)
Definition table_reward_units (P : params) (t : table) : N :=
  fold_right (fun e acc => match a_status (snd e) with NotPart => acc | _ => a_algos (snd e) / p_unit P + acc end) 0 t.

(* ------------------------------------------------------------------ C18 oracle *)
(* conservation along the implementation's own observations: previous round's table at the
   previous level = table after StartEvaluator at the new level = ... after every
   TransactionGroup call (accepted or not) ... = committed table *)
Fixpoint conserved_groups (P : params) (lvl T : N) (gs : list gobs) : bool :=
  match gs with
  | [] => true
  | g :: r => (total P lvl (s_table (g_snap g)) =? T) && conserved_groups P lvl T r
  end.

Definition spec_ok_c18 (k : blockcase) : bool :=
  let T := total (k_P k) (k_prevlvl k) (k_base k) in
  (total (k_P k) (k_lvl k) (s_table (k_start k)) =? T) &&
  conserved_groups (k_P k) (k_lvl k) T (k_groups k) &&
  ((negb (k_endcode k =? 0)) || (total (k_P k) (k_lvl k) (k_final k) =? T)).

Definition moves_money (g : gobs) : bool :=
  (g_code g =? 0) && existsb (fun tx => negb (t_fee tx =? 0)) (g_txns g).

Definition nontrivial_c18 (k : blockcase) : bool := existsb moves_money (k_groups k).

(* ------------------------------------------------------------------ C19 oracle *)
Definition fees_of (sink : N) (g : list txn) : N :=
  fold_left (fun acc tx => if t_sender tx =? sink then acc else (acc + t_fee tx) mod 2 ^ 64) g 0.

(* the lease map after an accepted group: every old entry kept unless overwritten, every
   non-zero lease of the group present with its LastValid (the last writer wins) *)
Definition last_lease (g : list txn) (key : N * N) : option N :=
  fold_left (fun acc tx => if negb (t_lease tx =? 0) && pair_eqb (t_sender tx, t_lease tx) key then Some (t_lv tx) else acc) g None.

Definition leases_ok (old new : list ((N * N) * N)) (g : list txn) : bool :=
  forallb (fun e => match last_lease g (fst e) with
                    | Some lv => snd e =? lv
                    | None => match pfind (fst e) old with Some v => snd e =? v | None => false end
                    end) new &&
  forallb (fun e => match pfind (fst e) new with Some _ => true | None => false end) old &&
  forallb (fun tx => (t_lease tx =? 0) || match pfind (t_sender tx, t_lease tx) new with Some _ => true | None => false end) g.

(* one TransactionGroup call, judged on the observations before / after only *)
Definition group_step_ok (sink : N) (before : snap) (g : gobs) : bool :=
  let after := g_snap g in
  if g_code g =? 0 then
    let n := N.of_nat (List.length (g_txns g)) in
    s_intra_ok after &&
    (s_payset after =? s_payset before + n) &&
    (s_txncount after =? s_txncount before + n) &&
    plist_eqb (s_txids after) (s_txids before ++ map (fun tx => (t_txid tx, t_lv tx)) (g_txns g)) &&
    (s_fees after =? (s_fees before + fees_of sink (g_txns g)) mod 2 ^ 64) &&
    leases_ok (s_leases before) (s_leases after) (g_txns g) &&
    (s_txbytes before <? s_txbytes after)
  else snap_eqb after before && (s_txbytes after =? s_txbytes before).

Fixpoint groups_ok (sink : N) (before : snap) (gs : list gobs) : bool :=
  match gs with
  | [] => true
  | g :: r => group_step_ok sink before g && groups_ok sink (g_snap g) r
  end.

Definition spec_ok_c19 (k : blockcase) : bool := groups_ok (k_sink k) (k_start k) (k_groups k).

(* a rejected group counts when the model says the child cow had been written to before the
   failure (so there was something to roll back) *)
Fixpoint dirty_rejects (E : env) (ev : evalst) (gs : list gobs) : N :=
  match gs with
  | [] => 0
  | g :: r =>
    let '(ev1, res) := transaction_group E ev (g_txns g) (g_lsigfee g) in
    let d := match res with
             | Ok _ => 0
             | Err _ =>
               match g_txns g with
               | [] => 0
               | _ => let '(c1, _) := group_body E (g_txns g) (g_lsigfee g) (child (ev_cow ev)) in
                      match l_accts (c_top c1) with [] => 0 | _ => 1 end
               end
             end in
    d + dirty_rejects E ev1 r
  end.

Definition nontrivial_c19 (k : blockcase) : bool :=
  let b := mkBase (k_base k) (k_basetx k) (k_counter k) (k_bassets k) in
  match start_block (env_of k true true) b (k_prevlvl k) (k_ru k) with
  | Err _ => false
  | Ok ev0 => 0 <? dirty_rejects (env_of k true true) ev0 (k_groups k)
  end.

(* ------------------------------------------------------------------ C21 oracle *)
(* after every accepted group: every account whose record changed, other than the fee sink,
   the rewards pool and the state proof sender, is all-zero or holds (with pending rewards)
   at least its requirement *)
Fixpoint changed_ok (P : params) (lvl sink pool sps : N) (before after : table) : bool :=
  match before, after with
  | [], [] => true
  | (a, x) :: r, (a', x') :: r' =>
    (a =? a') &&
    (acct_eqb x x' || (a =? sink) || (a =? pool) || (a =? sps) || acct_is_zero x' ||
     (spec_min_balance P x' <=? bwp P lvl x')) &&
    changed_ok P lvl sink pool sps r r'
  | _, _ => false
  end.

Fixpoint minbal_groups_ok (k : blockcase) (before : table) (gs : list gobs) : bool :=
  match gs with
  | [] => true
  | g :: r =>
    (negb (g_code g =? 0) ||
     changed_ok (k_P k) (k_lvl k) (k_sink k) (k_pool k) (k_sps k) before (s_table (g_snap g))) &&
    minbal_groups_ok k (s_table (g_snap g)) r
  end.

Definition spec_ok_c21 (k : blockcase) : bool := minbal_groups_ok k (s_table (k_start k)) (k_groups k).

Definition nontrivial_c21 (k : blockcase) : bool :=
  existsb (fun g => (g_code g =? E_MINBAL) || (g_code g =? 0)) (k_groups k).

(* ------------------------------------------------------------------ entry points *)
Definition model_obs (k : blockcase) : term :=
  (* on disagreement: the model's view after StartEvaluator and the per-group codes *)
  let b := mkBase (k_base k) (k_basetx k) (k_counter k) (k_bassets k) in
  match start_block (env_of k true true) b (k_prevlvl k) (k_ru k) with
  | Err e => TL [TS "start_err"; tn e]
  | Ok ev0 =>
    let fix go (ev : evalst) (gs : list gobs) : list term :=
        match gs with
        | [] => []
        | g :: r => let '(ev1, res) := transaction_group (env_of k true true) ev (g_txns g) (g_lsigfee g) in
                    tn (match res with Ok _ => 0 | Err e => e end) :: go ev1 r
        end in
    TL [TS "codes"; TL (go ev0 (k_groups k))]
  end.

(* the reward units handed to StartEvaluator are those of the enumerated ledger *)
Definition ru_ok (k : blockcase) : bool := k_ru k =? table_reward_units (k_P k) (k_base k).

Definition check_with (spec nontriv : blockcase -> bool) (t : term) : term :=
  match dec_case t with
  | None => v_parse
  | Some k =>
    if negb (ru_ok k) then v_parse else
    verdict (spec k) (model_agrees k) (nontriv k) (model_obs k)
  end.

Definition check_c18 : term -> term := check_with spec_ok_c18 nontrivial_c18.
Definition check_c19 : term -> term := check_with spec_ok_c19 nontrivial_c19.
Definition check_c21 : term -> term := check_with spec_ok_c21 nontrivial_c21.
