(* C17: what it means for the store of model/MerkleTrieStore.v to represent the logical tries of
   model/MerkleTrie.v (statement-level definitions only; no proofs).

   [repr h t id fp]   in heap h the node id unfolds to the trie t and occupies exactly the ids fp
   [Inv npp s fp]     the cache bookkeeping invariant for the live footprint fp
   [Abs npp s m]      the store s represents the logical state m: memory-over-pages unfolds from
                      the live root to m's live trie, THE STORED PAGES ALONE unfold from the stored
                      root to m's committed trie (so every node reachable from the committed root
                      is in the committed pages), same element lengths and modified flag *)
From Coq Require Import List NArith Bool.
From Verif.model Require Import MerkleTrie MerkleTrieStore.
Import ListNotations.
Open Scope N_scope.

Inductive repr (h : heap) : trie -> N -> list N -> Prop :=
| repr_leaf id k : h id = Some (SLeaf k) -> repr h (Leaf k) id [id]
| repr_node id cs ics fp : h id = Some (SNode ics) -> reprs h cs ics fp -> repr h (Node cs) id (id :: fp)
with reprs (h : heap) : list (N * trie) -> list (N * N) -> list N -> Prop :=
| reprs_nil : reprs h [] [] []
| reprs_cons i c cid cs ics fpc fp :
    repr h c cid fpc -> reprs h cs ics fp -> reprs h ((i, c) :: cs) ((i, cid) :: ics) (fpc ++ fp).

Definition erase_op (o : pop) : op :=
  match o with
  | PAdd k => OAdd k
  | PDel k => ODel k
  | PCommit _ _ => OCommit
  | PEvict f _ _ _ => OEvict f
  | PReload => OReload
  | PRootHash _ _ => ORoot
  end.

(* results: the store never fails (PFail) where the logical trie does not panic *)
Definition res_rel (r : pres) (l : res) : Prop :=
  match r, l with
  | PBool b, RBool b' => b = b'
  | PErr, RErr => True
  | POk, ROk => True
  | PRoot, RRoot _ => True
  | _, _ => False
  end.

Section Rel.
  Variable npp : N.

  Definition dirty (s : pstore) : list N := map (page npp) (p_created s) ++ p_delpages s.

  Record Inv (s : pstore) (fp : list N) : Prop := {
    (* ids are allocated below nextNodeID *)
    iv_bnd : forall x, (p_mem s x <> None \/ p_disk s x <> None) -> base_id <= x < p_next s;
    (* a node has one content *)
    iv_coh : forall x n n', p_mem s x = Some n -> p_disk s x = Some n' -> n = n';
    (* what is in memory is stored or pending *)
    iv_new : forall x, p_mem s x <> None -> p_disk s x <> None \/ In x (p_created s);
    iv_live : forall x, In x fp -> rd s x <> None;
    (* a live node that is not in memory lies on a page that will not be rewritten, unless that
       page is scheduled for the deferred load *)
    iv_safe : forall x, In x fp -> p_mem s x = None -> In (page npp x) (dirty s) -> p_deferred s = page npp x;
    (* a page with a stored node in memory is completely in memory (as far as it is live) *)
    iv_pg : forall x y, p_mem s x <> None -> p_disk s x <> None -> In y fp -> page npp y = page npp x ->
                        p_disk s y <> None -> p_mem s y <> None;
    (* the partially filled tail page, into which the next nodes are allocated *)
    iv_tail : 0 < p_next s mod npp -> forall y, In y fp -> page npp y = page npp (p_next s) -> p_mem s y = None ->
              p_deferred s = page npp (p_next s);
    iv_clean : p_modified s = false -> p_created s = [] /\ p_delpages s = [];
    iv_base : base_id <= p_next s;
    iv_nd : NoDup fp
  }.

  Definition live_ok (s : pstore) (fp : list N) (ot : option trie) : Prop :=
    match ot with
    | None => p_root s = 0 /\ fp = []
    | Some t => p_root s <> 0 /\ repr (rd s) t (p_root s) fp
    end.

  Definition disk_ok (s : pstore) (ot : option trie) : Prop :=
    if p_dhas s then
      (forall x, p_disk s x <> None -> base_id <= x < p_dnext s) /\ base_id <= p_dnext s /\
      p_dnext s <= p_next s /\
      match ot with
      | None => p_droot s = 0
      | Some t => p_droot s <> 0 /\ exists fpd, repr (p_disk s) t (p_droot s) fpd /\ NoDup fpd
      end
    else ot = None /\ forall x, p_disk s x = None.

  Definition Abs (s : pstore) (m : mstate) : Prop :=
    exists fp, Inv s fp /\ live_ok s fp (t_root (m_cur m)) /\ disk_ok s (t_root (m_committed m)) /\
               p_elen s = t_elen (m_cur m) /\
               t_elen (m_committed m) = (if p_dhas s then p_delen s else 0%nat) /\
               p_modified s = m_modified m.
End Rel.
