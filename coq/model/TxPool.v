(* C44: data/pools/transactionPool.go as an executable model, parametric in the block evaluator.

   The evaluator is ANY function
        tgroup : cstate -> N -> list txn -> eres
   (BlockEvaluator.TransactionGroup on the evaluator's logical state [cstate] and its byte
   counter blockTxBytes), together with Round(), and a ledger [lstate] from which
   recomputeBlockEvaluator starts a fresh evaluator ([start], which may fail the way
   BlockHdr / ProcessUpgradeParams / StartEvaluator may fail).  Transactions are opaque; the
   pool looks at them only through the projections below (ID, LastValid, Type == stpf,
   Sender == StateProofSender, Fee, GetEncodedLength).

   Transcribed: MakeTransactionPool, Remember (checkPendingQueueSize incl. the state-proof
   allowance, ingest, computeFeePerByte / checkSufficientFee with uint64 wrap-around,
   addToPendingBlockEvaluator[Once] incl. the ErrNoSpace retry that starts another pending
   whole block, rememberCommit), OnNewBlock (round test, fee-threshold multiplier update,
   recomputeBlockEvaluator: replay of the pending groups in order, skipping empty groups and
   groups whose first txid is in the committed set, dropping the groups the evaluator rejects,
   rememberCommit(flush)).  Not modelled: AssembleBlock / assembly deadlines / telemetry /
   statusCache (they do not influence the pending lists), goroutine interleavings (operations
   are atomic; see checks/C44.py), the 1 s wait of ingest for OnNewBlock (no state effect).
   No proofs in this file. *)
From Coq Require Import NArith List Bool.
Import ListNotations.
Open Scope N_scope.

Definition two64 : N := 18446744073709551616.

(* result of TransactionGroup: accepted (new logical state, new blockTxBytes), ErrNoSpace,
   or any other error (class code) -- on failure the evaluator is unchanged *)
Inductive eres (cstate : Type) : Type :=
| EOk (c : cstate) (b : N)
| ENoSpace
| EErr (code : N).
Arguments EOk {cstate} c b.
Arguments ENoSpace {cstate}.
Arguments EErr {cstate} code.

(* result of starting an evaluator on top of the ledger's latest block *)
Inductive sres (cstate : Type) : Type :=
| SOk (c : cstate)
| SFailHdr        (* BlockHdr / ProcessUpgradeParams / unsupported protocol: returns before numPendingWholeBlocks = 0 *)
| SFailStart.     (* ledger.StartEvaluator failed: returns after numPendingWholeBlocks = 0 *)
Arguments SOk {cstate} c.
Arguments SFailHdr {cstate}.
Arguments SFailStart {cstate}.

(* error classes (the tags of pools.ClassifyTxPoolError) *)
Definition C_cap : N := 1.          (* ErrPendingQueueReachedMaxCap *)
Definition C_noeval : N := 2.       (* ErrNoPendingBlockEvaluator *)
Definition C_fee : N := 3.          (* ErrTxPoolFeeError / group fee too low *)
Definition C_dead : N := 4.         (* TxnDeadError, Early = false *)
Definition C_nospace : N := 5.      (* ErrNoSpace even in an empty block *)

Section Pool.
  Context {cstate lstate txn txid : Type}.
  Variable txid_eqb : txid -> txid -> bool.
  Variable tgroup : cstate -> N -> list txn -> eres cstate.
  Variable cround : cstate -> N.
  Variable start : lstate -> sres cstate.
  Variable tid : txn -> txid.
  Variable tlast : txn -> N.        (* Txn.LastValid *)
  Variable tstpf : txn -> bool.     (* Txn.Type == protocol.StateProofTx *)
  Variable tspsnd : txn -> bool.    (* Txn.Sender == transactions.StateProofSender *)
  Variable tfee : txn -> N.         (* Txn.Fee.Raw *)
  Variable tenc : txn -> N.         (* GetEncodedLength() *)
  Variable maxsize : N.             (* txPoolMaxSize *)
  Variable expf : N.                (* expFeeFactor (already clamped to >= 1, see [clamp_expf]) *)

  Definition group := list txn.

  Record pool : Type := mkPool {
    p_pending : list group;          (* pendingTxGroups *)
    p_ids : list txid;               (* key set of pendingTxids *)
    p_eval : option (cstate * N);    (* pendingBlockEvaluator: logical state, blockTxBytes *)
    p_npwb : N;                      (* numPendingWholeBlocks *)
    p_ftm : N;                       (* feeThresholdMultiplier *)
    p_fpb : N;                       (* feePerByte (atomic copy, observable only) *)
    p_over : bool;                   (* stateproofOverflowed *)
    p_ledger : lstate                (* what pool.ledger currently answers *)
  }.

  Definition set_over (p : pool) (v : bool) : pool :=
    mkPool (p_pending p) (p_ids p) (p_eval p) (p_npwb p) (p_ftm p) (p_fpb p) v (p_ledger p).
  Definition set_fpb (p : pool) (v : N) : pool :=
    mkPool (p_pending p) (p_ids p) (p_eval p) (p_npwb p) (p_ftm p) v (p_over p) (p_ledger p).
  Definition set_ftm (p : pool) (v : N) : pool :=
    mkPool (p_pending p) (p_ids p) (p_eval p) (p_npwb p) v (p_fpb p) (p_over p) (p_ledger p).
  Definition set_eval (p : pool) (e : option (cstate * N)) (n : N) : pool :=
    mkPool (p_pending p) (p_ids p) e n (p_ftm p) (p_fpb p) (p_over p) (p_ledger p).
  Definition set_ledger (p : pool) (l : lstate) : pool :=
    mkPool (p_pending p) (p_ids p) (p_eval p) (p_npwb p) (p_ftm p) (p_fpb p) (p_over p) l.

  (* map insert on the key set *)
  Definition ins_id (l : list txid) (id : txid) : list txid :=
    if existsb (txid_eqb id) l then l else l ++ [id].
  Definition ins_group (l : list txid) (g : group) : list txid := fold_left ins_id (map tid g) l.
  Definition ids_of (gs : list group) : list txid := fold_left ins_group gs [].

  Definition txcount (gs : list group) : N := N.of_nat (length (concat gs)).
  Definition is_sp_single (g : group) : bool :=
    match g with [t] => tstpf t | _ => false end.
  Definition spcount (gs : list group) : N := N.of_nat (length (filter is_sp_single gs)).

  (* ---- checkPendingQueueSize ---- *)
  Definition check_size (p : pool) (g : group) : pool * bool :=
    let size := N.of_nat (length (p_ids p)) in
    let cnt := N.of_nat (length g) in
    if maxsize <? size + cnt then
      if is_sp_single g then
        if p_over p then (p, false) else (set_over p true, true)
      else (p, false)
    else (p, true).

  (* ---- computeFeePerByte / checkSufficientFee (uint64 arithmetic wraps) ---- *)
  Definition compute_fpb (p : pool) : N :=
    let f0 := p_ftm p in
    let f1 := if (f0 =? 0) && (1 <? p_npwb p) then 1 else f0 in
    N.iter (N.pred (p_npwb p)) (fun x => (x * expf) mod two64) f1.

  Definition fee_exempt (g : group) : bool :=
    match g with [t] => tstpf t && tspsnd t && (tfee t =? 0) | _ => false end.

  Definition check_fee (p : pool) (g : group) : pool * bool :=
    if fee_exempt g then (p, true)
    else
      let f := compute_fpb p in
      (set_fpb p f, negb (existsb (fun t => tfee t <? (f * tenc t) mod two64) g)).

  (* ---- addToPendingBlockEvaluatorOnce / addToPendingBlockEvaluator ---- *)
  Definition once (c : cstate) (b n : N) (g : group) : eres cstate :=
    if existsb (fun t => tlast t <? cround c + n) g then EErr C_dead else tgroup c b g.

  (* new (logical state, bytes, numPendingWholeBlocks) and the error class (None = nil) *)
  Definition add (c : cstate) (b n : N) (g : group) : (cstate * N * N) * option N :=
    match once c b n g with
    | EOk c' b' => ((c', b', n), None)
    | EErr e => ((c, b, n), Some e)
    | ENoSpace =>
        let n' := n + 1 in          (* numPendingWholeBlocks++ ; ResetTxnBytes() *)
        match once c 0 n' g with
        | EOk c' b' => ((c', b', n'), None)
        | EErr e => ((c, 0, n'), Some e)
        | ENoSpace => ((c, 0, n'), Some C_nospace)
        end
    end.

  (* ---- Remember = checkPendingQueueSize; ingest; rememberCommit(false) ---- *)
  Definition remember (p : pool) (g : group) : pool * option N :=
    let '(p1, ok) := check_size p g in
    if negb ok then (p1, Some C_cap) else
    match p_eval p1 with
    | None => (p1, Some C_noeval)
    | Some (c, b) =>
        let '(p2, fok) := check_fee p1 g in
        if negb fok then (p2, Some C_fee) else
        let '((c', b', n'), err) := add c b (p_npwb p2) g in
        let p3 := set_eval p2 (Some (c', b')) n' in
        match err with
        | None =>
          (mkPool (p_pending p3 ++ [g]) (ins_group (p_ids p3) g) (p_eval p3) (p_npwb p3)
                  (p_ftm p3) (p_fpb p3) (p_over p3) (p_ledger p3), None)
        | Some e => (p3, Some e)
        end
    end.

  (* ---- recomputeBlockEvaluator ---- *)
  Definition hd_committed (committed : list txid) (g : group) : bool :=
    match g with t :: _ => existsb (txid_eqb (tid t)) committed | [] => false end.

  (* one iteration of "Feed the transactions in order": state = evaluator, npwb, remembered *)
  Definition feed (committed : list txid) (st : cstate * N * N * list group) (g : group)
    : cstate * N * N * list group :=
    let '(c, b, n, rem) := st in
    match g with
    | [] => st
    | _ =>
      if hd_committed committed g then st
      else
        let '((c', b', n'), err) := add c b n g in
        match err with None => (c', b', n', rem ++ [g]) | Some _ => (c', b', n', rem) end
    end.

  Definition recompute (p : pool) (committed : list txid) : pool :=
    match start (p_ledger p) with
    | SFailHdr => set_eval p None (p_npwb p)
    | SFailStart => set_eval p None 0
    | SOk c0 =>
        let '(c, b, n, rem) := fold_left (feed committed) (p_pending p) (c0, 0, 0, []) in
        (* rememberCommit(true) *)
        mkPool rem (ids_of rem) (Some (c, b)) n (p_ftm p) (p_fpb p) false (p_ledger p)
    end.

  (* ---- OnNewBlock ---- *)
  Definition next_ftm (p : pool) : N :=
    if p_npwb p =? 0 then p_ftm p / expf
    else if p_npwb p =? 1 then p_ftm p
    else if p_ftm p =? 0 then 1 else (p_ftm p * expf) mod two64.

  Definition on_new_block (p : pool) (bround : N) (committed : list txid) : pool :=
    let go := match p_eval p with None => true | Some (c, _) => cround c <=? bround end in
    if go then recompute (set_ftm p (next_ftm p)) committed else p.

  (* ---- MakeTransactionPool ---- *)
  Definition make (l : lstate) : pool :=
    recompute (mkPool [] [] None 0 0 0 false l) [].

  (* ---- operations; the system state carries two ghost fields used by the theorems only ---- *)
  Inductive op : Type :=
  | ORemember (g : group)
  | OLedger (l : lstate) (ids : list txid)        (* the ledger appended a block holding [ids] *)
  | OOnNewBlock (bround : N) (committed : list txid).

  Record sys : Type := mkSys {
    s_pool : pool;
    s_base : lstate;              (* ghost: ledger state the current evaluator was started on *)
    s_basecount : N;              (* ghost: number of pending txns right after the last flush *)
    s_committed : list txid       (* ghost: every txid committed so far *)
  }.

  Definition sys_after_recompute (s : sys) (p' : pool) : sys :=
    match p_eval p' with
    | Some _ => mkSys p' (p_ledger p') (txcount (p_pending p')) (s_committed s)
    | None => mkSys p' (s_base s) (s_basecount s) (s_committed s)
    end.

  Definition step (s : sys) (o : op) : sys * option N :=
    match o with
    | ORemember g =>
        let '(p', code) := remember (s_pool s) g in
        (mkSys p' (s_base s) (s_basecount s) (s_committed s), code)
    | OLedger l ids =>
        (mkSys (set_ledger (s_pool s) l) (s_base s) (s_basecount s) (s_committed s ++ ids), None)
    | OOnNewBlock r committed =>
        let p := s_pool s in
        let go := match p_eval p with None => true | Some (c, _) => cround c <=? r end in
        if go then (sys_after_recompute s (on_new_block p r committed), None) else (s, None)
    end.

  Definition init (l : lstate) (committed0 : list txid) : sys :=
    sys_after_recompute (mkSys (mkPool [] [] None 0 0 0 false l) l 0 committed0) (make l).

  Definition run (s : sys) (ops : list op) : sys := fold_left (fun s o => fst (step s o)) ops s.

  (* ---- the replay the property speaks about: feed the groups, in order, to a fresh
     evaluator the way the pool itself adds them; every one must be accepted ---- *)
  Fixpoint replay (c : cstate) (b n : N) (gs : list group) : option (cstate * N * N) :=
    match gs with
    | [] => Some (c, b, n)
    | g :: r =>
        let '((c', b', n'), err) := add c b n g in
        match err with None => replay c' b' n' r | Some _ => None end
    end.

  (* logical application (ignores how the groups are split into blocks) *)
  Definition capply (c : cstate) (g : group) : option cstate :=
    match tgroup c 0 g with EOk c' _ => Some c' | _ => None end.
  Fixpoint capply_all (c : cstate) (gs : list group) : option cstate :=
    match gs with
    | [] => Some c
    | g :: r => match capply c g with Some c' => capply_all c' r | None => None end
    end.
End Pool.

(* cfg.TxPoolExponentialIncreaseFactor < 1 is raised to 1 by MakeTransactionPool *)
Definition clamp_expf (f : N) : N := if f <? 1 then 1 else f.
