(* C36, persistence layer: the property as a declarative checker over the validity bits observed
   on the real PersistedParticipation / participation database, and the executable [check] of
   the line protocol (dispatches the crypto-level `seq` cases to OneTimeSigSpec.check).
   No proofs here.

   Case (harness/go/data/account/zz_verif_c36p_test.go):
     (pp FV LV K KD D LO HI OBS0 STEP...)
        FillDBWithParticipationKeys(fv, lv, K); KD = KeyDilution of the participation afterwards
        (K, or 0 when the harness zeroes the column and the field: proto default D is then used);
        D = proto.DefaultKeyDilution passed to every DeleteOldKeys; rounds LO..HI are probed under
        the effective dilution KE = eff_kd KD D.
     OBS  = MEM DISK   (two terms: shape + probe codes of part.Voting, and of the Voting of a
                        fresh RestoreParticipation(store))
     STEP = (del R DBOK REP MEM DISK) | (restart MEM DISK)
        DBOK = 0: the harness makes the UPDATE fail; REP = what the returned channel delivered
        (1 nil error, 0 error, 9 panic)
     (ovl FV LV FIRST LAST RES)   OverlapsInterval; RES 0/1, 9 = panic *)
From Coq Require Import NArith ZArith List Bool String.
From Verif.lib Require Import Term.
From Verif.model Require Import OneTimeSig OneTimeSigSpec PartPersist.
Import ListNotations.
Open Scope N_scope.

(* ---- the property per probed round ------------------------------------------------------ *)
(* hs: rounds of the deletions that REPORTED SUCCESS so far; ha: rounds of all deletions
   requested so far.  vm / vd: a vote signature for round q verifies when made from memory /
   from what a restart would load; pm / pd: the same before the operation. *)
Definition fwd_r (KE : N) (hs : list N) (q : N) : bool :=
  existsb (fun r => (q <? r) && (r / KE + 1 <? W)) hs.
Definition must_r (fv lv : N) (ha : list N) (q : N) : bool :=
  (fv <=? q) && (q <=? lv) && forallb (fun r => r <=? q) ha.
Definition round_spec (fv lv : N) (keyed : bool) (KE : N) (hs ha : list N) (q : N)
           (pm pd vm vd : bool) : bool :=
  (if fwd_r KE hs q then negb vm && negb vd else true) &&
  (if keyed && must_r fv lv ha q then vm && vd else true) &&
  implb (vm || vd) (pm || pd).

Fixpoint spec_rounds (f : N -> bool -> bool -> bool -> bool -> bool) (qs pm pd cm cd : list N)
  : option bool :=
  match qs, pm, pd, cm, cd with
  | [], [], [], [], [] => Some true
  | q :: qs', a :: pm', b :: pd', c :: cm', d :: cd' =>
      match spec_rounds f qs' pm' pd' cm' cd' with
      | Some ok => Some ((c <? 3) && (d <? 3) && f q (a =? 1) (b =? 1) (c =? 1) (d =? 1) && ok)
      | None => None
      end
  | _, _, _, _, _ => None
  end.

Definition codes_eqb (a b : list N) : bool := list_eqb N.eqb a b.

(* what the operation itself promises about the two observations:
   restart: memory = what was on disk; reported success: disk = memory; otherwise disk unchanged *)
Definition op_spec (o : pop) (rep : N) (pd cm cd : list N) : bool :=
  match o with
  | PRestart => codes_eqb cm pd && codes_eqb cd pd
  | PDel _ _ _ => if rep =? 1 then codes_eqb cd cm else codes_eqb cd pd
  end.

(* ---- model observation ------------------------------------------------------------------ *)
Definition rounds (lo hi : N) : list N := seqN lo (N.to_nat (hi + 1 - lo)).
Definition pobs_mem (p : pstate) (ids : list ident) : term := obs (mem p) ids.
Definition pobs_disk (p : pstate) (ids : list ident) : term := obs (restored p) ids.
Definition rep_code (r : report) : N :=
  match r with ROk => 1 | RErr => 0 | RPanic => 9 | RNone => 2 end.

(* ---- parsing ---------------------------------------------------------------------------- *)
Definition pparse_step (D : N) (t : term) : option (pop * N * term * term) :=
  match t with
  | TL [TS "del"; r; dbok; rep; tm; td] =>
      match as_N r, as_bool dbok, as_N rep with
      | Some r, Some dbok, Some rep => if lt64 r then Some (PDel r D dbok, rep, tm, td) else None
      | _, _, _ => None
      end
  | TL [TS "restart"; tm; td] => Some (PRestart, 2, tm, td)
  | _ => None
  end.

(* result: (spec ok, corr, nontrivial, model observations) *)
Fixpoint pwalk (fv lv : N) (keyed : bool) (KE : N) (qs : list N) (ids : list ident)
         (p : pstate) (hs ha : list N) (pm pd : list N) (prevm prevd : term)
         (steps : list (pop * N * term * term)) : option (bool * bool * bool * list term) :=
  match steps with
  | [] => Some (true, true, false, [])
  | (o, rep, tm, td) :: rest =>
      let '(p', mrep) := pstep p o in
      let hs' := match o with PDel r _ _ => if rep =? 1 then r :: hs else hs | PRestart => hs end in
      let ha' := match o with PDel r _ _ => r :: ha | PRestart => ha end in
      let mm := pobs_mem p' ids in
      let md := pobs_disk p' ids in
      match parse_obs tm, parse_obs td with
      | Some cm, Some cd =>
          match spec_rounds (round_spec fv lv keyed KE hs' ha') qs pm pd cm cd,
                pwalk fv lv keyed KE qs ids p' hs' ha' cm cd mm md rest with
          | Some ok, Some (ok2, corr2, nt2, ms) =>
              Some (ok && op_spec o rep pd cm cd && ok2,
                    term_eqb tm mm && term_eqb td md && (rep =? rep_code mrep) && corr2,
                    negb (term_eqb mm prevm && term_eqb md prevd) || nt2,
                    TL [mm; md] :: ms)
          | _, _ => None
          end
      | _, _ => None
      end
  end.

Definition check_pp (t : term) : term :=
  match t with
  | TL (TS "pp" :: tfv :: tlv :: tk :: tkd :: td :: tlo :: thi :: om0 :: od0 :: tsteps) =>
      match as_N tfv, as_N tlv, as_N tk, as_N tkd, as_N td, as_N tlo, as_N thi with
      | Some fv, Some lv, Some K, Some kd, Some D, Some lo, Some hi =>
          let KE := eff_kd kd D in
          if negb (lt64 fv && lt64 lv && lt64 K && lt64 kd && lt64 D && lt64 lo && lt64 hi
                   && (fv <=? lv) && (lo <=? hi) && (hi - lo <? 1000)
                   && negb (K =? 0) && negb (KE =? 0)) then v_parse else
          match map_opt (pparse_step D) tsteps, parse_obs om0, parse_obs od0 with
          | Some steps, Some cm0, Some cd0 =>
              let qs := rounds lo hi in
              let ids := map (fun q => id_of_round q KE) qs in
              let s := fill_secrets fv lv K in
              let p0 := mkP s kd s kd in
              let mm0 := pobs_mem p0 ids in
              let md0 := pobs_disk p0 ids in
              let keyed := KE =? K in
              let ones := map (fun _ => 1) qs in
              match spec_rounds (round_spec fv lv keyed KE [] []) qs ones ones cm0 cd0,
                    pwalk fv lv keyed KE qs ids p0 [] [] cm0 cd0 mm0 md0 steps with
              | Some ok0, Some (ok, corr, nt, ms) =>
                  verdict (ok0 && codes_eqb cd0 cm0 && ok)
                          (term_eqb om0 mm0 && term_eqb od0 md0 && corr) nt
                          (TL (TL [mm0; md0] :: ms))
              | _, _ => v_parse
              end
          | _, _, _ => v_parse
          end
      | _, _, _, _, _, _, _ => v_parse
      end
  | _ => v_parse
  end.

(* OverlapsInterval: the partkey is valid at some round of [first,last] *)
Definition ovl_spec (fv lv first last : N) : N :=
  if last <? first then 9 else if N.max fv first <=? N.min lv last then 1 else 0.
Definition ovl_code (r : option bool) : N :=
  match r with None => 9 | Some true => 1 | Some false => 0 end.

Definition check_ovl (t : term) : term :=
  match t with
  | TL [TS "ovl"; tfv; tlv; tf; tl; tres] =>
      match as_N tfv, as_N tlv, as_N tf, as_N tl, as_N tres with
      | Some fv, Some lv, Some f, Some l, Some res =>
          if negb (lt64 fv && lt64 lv && lt64 f && lt64 l && (fv <=? lv)) then v_parse else
          let m := ovl_code (overlaps fv lv f l) in
          verdict (res =? ovl_spec fv lv f l) (res =? m) (res =? 1) (tn m)
      | _, _, _, _, _ => v_parse
      end
  | _ => v_parse
  end.

Definition check (t : term) : term :=
  match t with
  | TL (TS "pp" :: _) => check_pp t
  | TL (TS "ovl" :: _) => check_ovl t
  | _ => check_seq t
  end.
