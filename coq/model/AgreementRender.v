(* Agreement model -- part 5: wire format shared with harness/go/agreement/zz_verif_sm_test.go.
   Canonical rendering of actions and states as [term]s (Go maps are printed with sorted keys on
   both sides) and the parser of parameters / event scripts.  No proofs.

   WIRE FORMAT
     value   = (id rnd oper oprop)                 bottom = (0 0 0 0)
     vote    = (snd rnd per step value w cred)     (events; rendered votes omit w cred)
     eqvote  = (snd rnd per step w cred value0 value1)
     bundle  = (rnd per step value (vote ...) (eqvote ...))                        (events)
     rbundle = (rnd per step value (snd ...) ((snd value0 value1) ...))           (rendered)
     meta    = (err cancelled protoerr hnil task)
     event   = (msg verified (vote V) meta tail) | (msg verified (bundle B) meta ())
             | (msg verified (payload value) meta ()) | (timeout fast entropy bad)
             | (rint r) | (ckpt r p s err)            tail = () | (value meta)
     params  = (soft cert next late redo down filter0 filter deadline0 deadline extra frlambda dyn crlag)
   Actions and state digests: see [r_action], [r_state]. *)
From Coq Require Import NArith ZArith List Bool String.
Import ListNotations.
From Verif.lib Require Import Term.
From Verif.model Require Import AgreementTypes AgreementVotes AgreementProposals AgreementPlayer.
Open Scope N_scope.

(* ---------- sorting helpers ---------- *)
Definition sort_n {A} (key : A -> N) (l : list A) : list A :=
  sort_by (fun a b => key a <? key b) l.
Definition value_ltb (a b : value) : bool :=
  if v_id a <? v_id b then true else if v_id b <? v_id a then false
  else if v_rnd a <? v_rnd b then true else if v_rnd b <? v_rnd a then false
  else if v_oper a <? v_oper b then true else if v_oper b <? v_oper a then false
  else v_oprop a <? v_oprop b.
Definition sort_v {A} (key : A -> value) (l : list A) : list A :=
  sort_by (fun a b => value_ltb (key a) (key b)) l.
Definition vote_ltb (a b : vote) : bool :=
  if vt_snd a <? vt_snd b then true else if vt_snd b <? vt_snd a then false
  else if vt_step a <? vt_step b then true else if vt_step b <? vt_step a then false
  else value_ltb (vt_val a) (vt_val b).

(* ---------- rendering ---------- *)
Definition sym (s : string) : term := TS s.
Definition r_value (v : value) : term := TL [tn (v_id v); tn (v_rnd v); tn (v_oper v); tn (v_oprop v)].
Definition r_vote (v : vote) : term :=
  TL [tn (vt_snd v); tn (vt_rnd v); tn (vt_per v); tn (vt_step v); r_value (vt_val v)].
Definition r_ovote (o : option vote) : term := match o with Some v => r_vote v | None => TL [] end.
Definition r_bundle (b : ubundle) : term :=
  TL [tn (ub_rnd b); tn (ub_per b); tn (ub_step b); r_value (ub_val b);
      TL (map (fun v => tn (vt_snd v)) (ub_votes b));
      TL (map (fun e => TL [tn (eq_snd e); r_value (eq_v0 e); r_value (eq_v1 e)]) (ub_eqs b))].

Definition r_action (a : action) : term :=
  match a with
  | AIgnore => TL [sym "ignore"]
  | ADisconnect => TL [sym "disconnect"]
  | ARelayVote v => TL [sym "relayV"; r_vote v]
  | ARelayBundle b => TL [sym "relayB"; r_bundle b]
  | ABroadcastBundle b => TL [sym "bcastB"; r_bundle b]
  | ARelayCompound pl v => TL [sym "relayC"; r_value pl; r_ovote v]
  | ABroadcastCompound pl v => TL [sym "bcastC"; r_value pl; r_ovote v]
  | ABroadcastVotes vs => TL [sym "bcastVs"; TL (map r_vote (sort_by vote_ltb vs))]
  | AVerifyVote v r p task => TL [sym "verV"; r_vote v; tn r; tn p; tn task]
  | AVerifyPayload pl r p pinned => TL [sym "verP"; r_value pl; tn r; tn p; tb pinned]
  | AVerifyBundle b r p s =>
      TL [sym "verB"; tn (ub_rnd b); tn (ub_per b); tn (ub_step b); r_value (ub_val b); tn r; tn p; tn s]
  | AEnsure pl c => TL [sym "ensure"; r_value pl; tn (v_rnd pl); r_bundle c]
  | AStageDigest c => TL [sym "stage"; r_bundle c]
  | ARezero r => TL [sym "rezero"; tn r]
  | AAttest r p s v => TL [sym "attest"; tn r; tn p; tn s; r_value v]
  | AAssemble r p => TL [sym "assemble"; tn r; tn p]
  | ARepropose r p v => TL [sym "repropose"; tn r; tn p; r_value v]
  | ACheckpoint r p s err => TL [sym "ckpt"; tn r; tn p; tn s; tb err]
  end.
Definition r_actions (l : list action) : term := TL (map r_action l).

Definition r_meta (m : mmeta) : term :=
  TL [tb (mm_err m); tb (mm_cancelled m); tb (mm_proto_err m); tb (mm_hnil m); tn (mm_task m)].
Definition r_tail (t : option (value * mmeta)) : term :=
  match t with None => TL [] | Some (v, m) => TL [r_value v; r_meta m] end.

Definition r_player (pl : player) : term :=
  TL [tn (p_rnd pl); tn (p_per pl); tn (p_step pl); tn (p_last pl); tn (p_dl pl); tn (p_dlt pl);
      tb (p_nap pl); tn (p_frd pl);
      TL (map (fun kv => TL [tn (fst kv); r_tail (snd kv)]) (sort_n fst (p_pending pl)));
      tn (p_pnext pl)].

Definition r_vtracker (t : vtracker) : term :=
  TL [TL (map (fun kv => TL [tn (fst kv); r_value (vt_val (snd kv))]) (sort_n fst (vt_voters t)));
      TL (map (fun kv => TL [r_value (fst kv); tn (c_count (snd kv));
                             TL (map (fun sv => tn (fst sv)) (sort_n fst (c_votes (snd kv))))])
              (sort_v fst (vt_counts t)));
      TL (map (fun kv => TL [tn (fst kv); tn (eq_w (snd kv)); r_value (eq_v0 (snd kv)); r_value (eq_v1 (snd kv))])
              (sort_n fst (vt_equiv t)));
      tn (vt_eqcount t); tn (vc_step t); tb (vc_stepok t); tb (vc_emitted t)].

Definition r_thresh (o : option thresh) : term :=
  match o with
  | None => TL []
  | Some th => TL [tn (match th_t th with TSoft => 1 | TCert => 2 | TNext => 3 end);
                   tn (th_rnd th); tn (th_per th); tn (th_step th); r_value (th_val th); r_bundle (th_b th)]
  end.

Definition r_ptracker (t : ptracker) : term :=
  let fz := pt_freezer t in
  TL [TL (map tn (sort_n (fun x => x) (pt_dup t)));
      (if sk_filled fz then r_vote (sk_lowest fz) else TL []); tb (sk_filled fz); tb (sk_frozen fz);
      (if sk_haslate fz then r_vote (sk_late fz) else TL []); tb (sk_haslate fz);
      r_value (pt_staging t); tb (pc_one t); tb (pc_froze t); tb (pc_soft t); tb (pc_cert t)].

Definition r_store (st : pstore) : term :=
  TL [TL (map (fun kv => TL [tn (fst kv); r_value (snd kv)]) (sort_n fst (ps_relevant st)));
      r_value (ps_pinned st);
      TL (map (fun kv => TL [r_value (fst kv); tb (as_filled (snd kv)); tb (as_assembled (snd kv));
                             TL (map (fun v => TL [tn (vt_snd v); tn (vt_per v)]) (as_auth (snd kv)))])
              (sort_v fst (ps_asm st)))].

Definition r_period (kv : N * periodNode) : term :=
  let pn := snd kv in
  TL [tn (fst kv); r_ptracker (pn_pt pn);
      TL [tb (vp_bottom (pn_vp pn)); r_value (vp_val (pn_vp pn))];
      TL (map (fun sv => TL [tn (fst sv); r_vtracker (snd sv)]) (sort_n fst (pn_steps pn)))].
Definition r_round (kv : N * roundNode) : term :=
  let rn := snd kv in
  TL [tn (fst kv); r_store (rn_store rn); r_thresh (rn_fresh rn);
      TL (map r_period (sort_n fst (rn_periods rn)))].
Definition r_router (rt : router) : term := TL (map r_round (sort_n fst rt)).
Definition r_state (st : state) : term := TL [r_player (s_pl st); r_router (s_rt st)].

(* Go panic messages are classified by the harness into the same classes *)
Definition prefix_eqb (p s : string) : bool := String.eqb p (substring 0 (String.length p) s).
Definition panic_class (tag : string) : string :=
  if String.eqb tag "nil_router" then "nil_router"
  else if String.eqb tag "voteTracker_two_values" then "two_values"
  else if String.eqb tag "voteTracker_too_many_equivocators" then "equivocators"
  else if String.eqb tag "proposalStore_too_many_assemblers" then "assemblers"
  else if String.eqb tag "voteAggregator_bad_round" then "bad_round"
  else if prefix_eqb "voteTracker_pre" tag || prefix_eqb "proposalTracker_pre" tag || prefix_eqb "proposalManager_pre" tag then "contract"
  else if prefix_eqb "voteTracker_post" tag || prefix_eqb "proposalTracker_post" tag then "contract"
  else if prefix_eqb "makeBundle" tag then "makeBundle"
  else if prefix_eqb "genBundle" tag then "index"
  else if String.eqb tag "player_bad_cast" then "cast"
  else if String.eqb tag "player_div_zero" then "div"
  else "other".

Definition r_outcome (o : outcome) : term :=
  match o with
  | Finished => TL [sym "ok"]
  | Panicked t => TL [sym "panic"; sym (panic_class t)]
  | Exhausted => TL [sym "fuel"]
  end.

(* ---------- parsing ---------- *)
Definition obind {A B} (x : option A) (f : A -> option B) : option B :=
  match x with Some a => f a | None => None end.
Notation "'olet' x <- e ; k" := (obind e (fun x => k)) (at level 200, x pattern, e at level 100, k at level 200, right associativity).

Definition p_value (t : term) : option value :=
  match t with
  | TL [a; b; c; d] =>
      olet a <- as_N a; olet b <- as_N b; olet c <- as_N c; olet d <- as_N d; Some (mkV a b c d)
  | _ => None
  end.
Definition p_vote (t : term) : option vote :=
  match t with
  | TL [s; r; p; st; v; w; c] =>
      olet s <- as_N s; olet r <- as_N r; olet p <- as_N p; olet st <- as_N st; olet v <- p_value v;
      olet w <- as_N w; olet c <- as_N c; Some (mkVote s r p st v w c)
  | _ => None
  end.
Definition p_eqvote (t : term) : option eqvote :=
  match t with
  | TL [s; r; p; st; w; c; v0; v1] =>
      olet s <- as_N s; olet r <- as_N r; olet p <- as_N p; olet st <- as_N st;
      olet w <- as_N w; olet c <- as_N c; olet v0 <- p_value v0; olet v1 <- p_value v1;
      Some (mkEqv s r p st w c v0 v1)
  | _ => None
  end.
Definition p_bundle (t : term) : option ubundle :=
  match t with
  | TL [r; p; st; v; TL vs; TL es] =>
      olet r <- as_N r; olet p <- as_N p; olet st <- as_N st; olet v <- p_value v;
      olet vs <- map_opt p_vote vs; olet es <- map_opt p_eqvote es; Some (mkUB r p st v vs es)
  | _ => None
  end.
Definition p_meta (t : term) : option mmeta :=
  match t with
  | TL [a; b; c; d; e] =>
      olet a <- as_bool a; olet b <- as_bool b; olet c <- as_bool c; olet d <- as_bool d; olet e <- as_N e;
      Some (mkMeta a b c d e)
  | _ => None
  end.
Definition p_tail (t : term) : option (option (value * mmeta)) :=
  match t with
  | TL [] => Some None
  | TL [v; m] => olet v <- p_value v; olet m <- p_meta m; Some (Some (v, m))
  | _ => None
  end.
Definition p_input (t : term) : option minput :=
  match t with
  | TL [TS "vote"; v] => olet v <- p_vote v; Some (InVote v)
  | TL [TS "bundle"; b] => olet b <- p_bundle b; Some (InBundle b)
  | TL [TS "payload"; v] => olet v <- p_value v; Some (InPayload v)
  | _ => None
  end.
Definition p_event (t : term) : option ext_event :=
  match t with
  | TL [TS "msg"; ver; inp; meta; tail] =>
      olet ver <- as_bool ver; olet inp <- p_input inp; olet meta <- p_meta meta; olet tail <- p_tail tail;
      Some (EvMsg (mkME ver inp meta tail))
  | TL [TS "timeout"; f; en; bad] =>
      olet f <- as_bool f; olet en <- as_N en; olet bad <- as_bool bad; Some (EvTimeout f en bad)
  | TL [TS "rint"; r] => olet r <- as_N r; Some (EvRoundInterruption r)
  | TL [TS "ckpt"; r; p; s; err] =>
      olet r <- as_N r; olet p <- as_N p; olet s <- as_N s; olet err <- as_bool err; Some (EvCheckpoint r p s err)
  | _ => None
  end.
Definition p_params (t : term) : option params :=
  match t with
  | TL [a; b; c; d; e; f; g; h; i; j; k; l; m; n] =>
      olet a <- as_N a; olet b <- as_N b; olet c <- as_N c; olet d <- as_N d; olet e <- as_N e;
      olet f <- as_N f; olet g <- as_N g; olet h <- as_N h; olet i <- as_N i; olet j <- as_N j;
      olet k <- as_N k; olet l <- as_N l; olet m <- as_bool m; olet n <- as_N n;
      Some (mkParams a b c d e f g h i j k l m n)
  | _ => None
  end.
