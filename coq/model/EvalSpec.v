(* C18 / C21: the properties in closed form over unbounded N -- what the oracles of
   EvalCheck.v evaluate on the implementation's observations and what the theorems of
   props/C18.v, C21.v are stated with.  Independent of the transcribed code (no use of
   with_rewards / min_balance / the checked-arithmetic helpers).  No proofs in this file. *)
From Coq Require Import NArith List Bool.
From Verif.model Require Import EvalCow.
Import ListNotations.
Open Scope N_scope.

(* ------------------------------------------------------------------ the property, closed form *)
(* balance with pending rewards at level [lvl], over unbounded N *)
Definition bwp (P : params) (lvl : N) (x : acct) : N :=
  match a_status x with
  | NotPart => a_algos x
  | _ => a_algos x + (a_algos x / p_unit P) * (lvl - a_rbase x)
  end.

Definition table := list (N * acct).

Definition total (P : params) (lvl : N) (t : table) : N :=
  fold_right (fun e acc => bwp P lvl (snd e) + acc) 0 t.

(* the same sum over a cow seen through lookup, for a universe [U] of addresses *)
Fixpoint sumf (f : N -> N) (U : list N) : N :=
  match U with [] => 0 | a :: r => f a + sumf f r end.

Definition tot_at (P : params) (lvl : N) (U : list N) (c : cow) : N :=
  sumf (fun a => bwp P lvl (lookup c a)) U.

(* balances are uint64 and no account's rewards base is ahead of the level *)
Definition wf_cow (lvl : N) (c : cow) : Prop :=
  forall a, a_algos (lookup c a) < 2 ^ 64 /\ a_rbase (lookup c a) <= lvl.

(* the ledger before a block, as the bottom of a fresh overlay *)
Definition base_cow (b : base) : cow := mkCow layer0 [] b.

(* prevTotals.RewardUnits() over the enumerated ledger: units of Online + Offline accounts *)
Definition part_units (P : params) (x : acct) : N :=
  match a_status x with NotPart => 0 | _ => a_algos x / p_unit P end.
Definition units_of (P : params) (U : list N) (c : cow) : N :=
  sumf (fun a => part_units P (lookup c a)) U.

(* minimum balance requirement, closed form: the sum of the per-resource costs, capped at
   the largest uint64 (the schema part is capped the same way on its own, as is its entry
   count) *)
Definition cap (n : N) : N := N.min n (2 ^ 64 - 1).

Definition spec_schema_cost (P : params) (nu nb : N) : N :=
  cap (cap (p_schemaentry P * cap (nu + nb)) + p_schemauint P * nu + p_schemabytes P * nb).

Definition spec_min_balance (P : params) (x : acct) : N :=
  cap (p_minbal P + p_minbal P * a_assets x + p_appflatparams P * a_appparams x +
       p_appflatoptin P * a_applocals x + spec_schema_cost P (a_schema_u x) (a_schema_b x) +
       p_appflatparams P * a_extrapages x + p_boxflat P * a_boxes x + p_boxbyte P * a_boxbytes x).
