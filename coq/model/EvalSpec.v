(* C18 / C21: the properties in closed form over unbounded N -- what the oracles of
   EvalCheck.v evaluate on the implementation's observations and what the theorems of
   props/C18.v, C21.v are stated with.  Independent of the transcribed code (no use of
   with_rewards / min_balance / the checked-arithmetic helpers).  No proofs in this file. *)
From Coq Require Import NArith List Bool.
From Verif.model Require Import EvalCow.
Import ListNotations.
Open Scope N_scope.

(* ------------------------------------------------------------------ the property, closed form *)
(* balance with pending rewards at level [lvl], over unbounded N *)
Definition bwp (P : params) (lvl : N) (x : acct) : N :=
  match a_status x with
  | NotPart => a_algos x
  | _ => a_algos x + (a_algos x / p_unit P) * (lvl - a_rbase x)
  end.

Definition table := list (N * acct).

Definition total (P : params) (lvl : N) (t : table) : N :=
  fold_right (fun e acc => bwp P lvl (snd e) + acc) 0 t.

(* minimum balance requirement, closed form (saturation only at the very end) *)
Definition spec_min_balance (P : params) (x : acct) : N :=
  N.min (2 ^ 64 - 1)
        (p_minbal P + p_minbal P * a_assets x + p_appflatparams P * a_appparams x +
         p_appflatoptin P * a_applocals x +
         N.min (2 ^ 64 - 1)
               (N.min (2 ^ 64 - 1) (p_schemaentry P * N.min (2 ^ 64 - 1) (a_schema_u x + a_schema_b x)) +
                p_schemauint P * a_schema_u x + p_schemabytes P * a_schema_b x) +
         p_appflatparams P * a_extrapages x + p_boxflat P * a_boxes x + p_boxbyte P * a_boxbytes x).

