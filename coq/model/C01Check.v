(* C01 layer 2 = runtime refinement checking.  [check] decodes ONE global trace recorded from N real
   agreement state machines (harness/go/agreement/zz_verif_c01_test.go), in the vocabulary of
   model/AbstractBA.v, and runs the executable rule checker of model/ConcreteBA.v on it with the
   stake-weight instance of the quorum predicate:

     corr    := first_bad = None          the run of the real machines IS a reachable trace of the abstract
                                          protocol (otherwise the detail names the index, the event and the
                                          clause of the rule that failed)
     spec_ok := no two ensure actions of the round carry different values
                /\ every ensured value has a cert quorum in the trace (period of its certificate)
                /\ conflicting_certs = false
                evaluated only when the committee weights of the case satisfy the quorum-intersection
                hypotheses ([qi_b], decided by enumerating the splits of the honest set; sound by
                proofs/C01CheckProofs.v); a case whose Byzantine weight is over the bound is out of the
                property's scope (a fork there is legitimate) and is reported as trivial
     nontrivial := some node committed and some period was entered.

   Case: (c01 (Tsoft Tcert Tnext Tlate Tredo Tdown) (honest ids) (byz ids) ((p s (w per id)) ...)
              (events, oldest first) ((node val certperiod) ...) info)
   events: (v snd p s val)   val 0 = bottom
           (e node p k val)  k: 0 next-type quorum of p-1 for val, 1 soft quorum of p, 2 cert quorum of p,
                             9 no threshold found by the harness (decoded as a soft quorum for the value
                             id 0, which no vote carries: never justified)
   No proofs in this file. *)
From Coq Require Import List Arith NArith ZArith Bool String.
From Verif.lib Require Import Term.
From Verif.model Require Import AbstractBA ConcreteBA.
Import ListNotations.
Open Scope N_scope.

Local Notation vote := (AbstractBA.vote N N).
Local Notation event := (AbstractBA.event N N).

Definition memN (n : N) (l : list N) : bool := existsb (N.eqb n) l.

(* thresholds per step: soft 1, cert 2, late 253, redo 254, down 255, every other step is a next step *)
Definition step_threshold (ths : list N) (s : nat) : N :=
  if Nat.eqb s 1 then nth 0 ths 0
  else if Nat.eqb s 2 then nth 1 ths 0
  else if Nat.eqb s 253 then nth 3 ths 0
  else if Nat.eqb s 254 then nth 4 ths 0
  else if Nat.eqb s 255 then nth 5 ths 0
  else nth 2 ths 0.

Definition wtable := list (nat * nat * list (N * N)).

Definition find_ps (tbl : wtable) (p s : nat) : list (N * N) :=
  match find (fun e => Nat.eqb (fst (fst e)) p && Nat.eqb (snd (fst e)) s) tbl with
  | Some e => snd e
  | None => []
  end.

Definition lookupN (n : N) (l : list (N * N)) : N :=
  match find (fun kv => N.eqb (fst kv) n) l with Some kv => snd kv | None => 0 end.

(* weight of node n in the committee of (p, s); nodes outside the universe weigh nothing *)
Definition weight_of (univ : list N) (tbl : wtable) (p s : nat) (n : N) : N :=
  if memN n univ then lookupN n (find_ps tbl p s) else 0.

(* ---------- quorum intersection, decided ---------- *)
Fixpoint splits (l : list N) : list (list N * list N) :=
  match l with
  | [] => [([], [])]
  | x :: r => flat_map (fun ab => [(x :: fst ab, snd ab); (fst ab, x :: snd ab)]) (splits r)
  end.

(* no two disjoint-on-the-honest-side sets reach threshold t1 under w1 and t2 under w2 *)
Definition inter_ok (honest byz : list N) (w1 w2 : N -> N) (t1 t2 : N) : bool :=
  forallb (fun ab => negb (N.leb t1 (sumw w1 (fst ab) + sumw w1 byz) &&
                           N.leb t2 (sumw w2 (snd ab) + sumw w2 byz)))
          (splits honest).

Fixpoint nodup_b (l : list N) : bool :=
  match l with
  | [] => true
  | x :: r => negb (memN x r) && nodup_b r
  end.

Definition qi_b (ths honest byz : list N) (tbl : wtable) : bool :=
  let univ := honest ++ byz in
  let w := weight_of univ tbl in
  nodup_b univ &&
  forallb (fun t => N.ltb 0 t) [nth 0 ths 0; nth 1 ths 0; nth 2 ths 0; nth 3 ths 0; nth 4 ths 0; nth 5 ths 0] &&
  (* QI_same *)
  forallb (fun e => let p := fst (fst e) in let s := snd (fst e) in
                    inter_ok honest byz (w p s) (w p s) (step_threshold ths s) (step_threshold ths s)) tbl &&
  (* QI_cross: cert committee of p against every next-type committee of p' >= p *)
  forallb (fun ec => let p := fst (fst ec) in
     negb (Nat.eqb (snd (fst ec)) 2) ||
     forallb (fun en => let p' := fst (fst en) in let s := snd (fst en) in
        negb (Nat.leb p p' && Nat.leb 3 s) ||
        inter_ok honest byz (w p 2%nat) (w p' s) (step_threshold ths 2) (step_threshold ths s)) tbl) tbl.

(* ---------- decoding ---------- *)
Definition as_nat (t : term) : option nat := option_map N.to_nat (as_N t).

Definition dec_val (n : N) : option N := if n =? 0 then None else Some n.

Definition dec_event (t : term) : option event :=
  match t with
  | TL [TS "v"; a; b; c; d] =>
      match as_N a, as_nat b, as_nat c, as_N d with
      | Some snd, Some p, Some s, Some v => Some (Vote N N (mkVote N N snd p s (dec_val v)))
      | _, _, _, _ => None
      end
  | TL [TS "e"; a; b; c; d] =>
      match as_N a, as_nat b, as_N c, as_N d with
      | Some n, Some p, Some k, Some v =>
          if k =? 0 then Some (Enter N N n p (ViaNext N (dec_val v)))
          else if k =? 1 then Some (Enter N N n p (ViaSoft N v))
          else if k =? 2 then Some (Enter N N n p (ViaCert N v))
          else Some (Enter N N n p (ViaSoft N 0))
      | _, _, _, _ => None
      end
  | _ => None
  end.

Definition dec_wrow (ids : list N) (t : term) : option (nat * nat * list (N * N)) :=
  match t with
  | TL [a; b; c] =>
      match as_nat a, as_nat b, as_N_list c with
      | Some p, Some s, Some ws =>
          if Nat.eqb (List.length ws) (List.length ids) then Some (p, s, combine ids ws) else None
      | _, _, _ => None
      end
  | _ => None
  end.

Definition dec_ensure (t : term) : option (N * N * nat) :=
  match t with
  | TL [a; b; c] =>
      match as_N a, as_N b, as_nat c with
      | Some n, Some v, Some p => Some (n, v, p)
      | _, _, _ => None
      end
  | _ => None
  end.

(* ---------- the monitor ---------- *)
Section Monitor.
Variable ths honest byz : list N.
Variable tbl : wtable.

Definition honest_b (n : N) : bool := memN n honest.
Definition qdec := qdec_weights (weight_of (honest ++ byz) tbl) (step_threshold ths).

Definition periods_of (t : list event) : list nat :=
  nodup Nat.eq_dec (map (fun e => match e with
                                  | Vote _ _ v => per N N v
                                  | Enter _ _ _ q _ => q
                                  end) t).

(* which clause of ok_b fails for event e after prefix t *)
Definition why_bad (t : list event) (e : event) : string :=
  match e with
  | Vote _ _ v =>
      if negb (Nat.eqb (per N N v) (cur_b (sender N N v) t)) then "vote_not_in_current_period"
      else if negb (once_b t v) then "second_value_in_one_step"
      else match stp N N v with
           | 1%nat => "soft_vote_unjustified"
           | 2%nat => if match val N N v with
                         | Some x => has_q_b qdec t (per N N v) 1 (Some x)
                         | None => false
                         end
                      then "cert_vote_after_next_type_vote" else "cert_vote_without_soft_quorum"
           | _ => if forallb (fun e' => match e' with
                                        | Vote _ _ v' =>
                                            if N.eqb (sender N N v') (sender N N v) && Nat.eqb (per N N v') (per N N v)
                                               && Nat.eqb (stp N N v') 2
                                            then match val N N v' with
                                                 | Some y => opt_eqb (val N N v) (Some y)
                                                 | None => true
                                                 end
                                            else true
                                        | Enter _ _ _ _ _ => true
                                        end) t
                  then "next_vote_value_unjustified" else "next_vote_differs_from_own_cert_vote"
           end
  | Enter _ _ h q w =>
      if negb (Nat.ltb (cur_b h t) q) then "period_not_increasing" else "period_entry_without_quorum"
  end.

Definition t_opt (x : option N) : term := match x with Some v => tn v | None => TZ 0 end.

Definition t_event (e : event) : term :=
  match e with
  | Vote _ _ v => TL [TS "v"; tn (sender N N v); tn (N.of_nat (per N N v)); tn (N.of_nat (stp N N v)); t_opt (val N N v)]
  | Enter _ _ h q w =>
      match w with
      | ViaNext _ x => TL [TS "e"; tn h; tn (N.of_nat q); TZ 0; t_opt x]
      | ViaSoft _ y => TL [TS "e"; tn h; tn (N.of_nat q); TZ 1; tn y]
      | ViaCert _ y => TL [TS "e"; tn h; tn (N.of_nat q); TZ 2; tn y]
      end
  end.

(* the cert-quorum values of the trace, computed from the values that were actually cert-voted *)
Definition cert_vals_at (t : list event) (p : nat) : list N :=
  let cands := nodup N.eq_dec
     (flat_map (fun e => match e with
                         | Vote _ _ v => if Nat.eqb (per N N v) p && Nat.eqb (stp N N v) 2
                                         then match val N N v with Some y => [y] | None => [] end else []
                         | Enter _ _ _ _ _ => []
                         end) t) in
  filter (fun y => has_q_b qdec t p 2 (Some y)) cands.

Definition cert_vals (t : list event) : list N := flat_map (cert_vals_at t) (periods_of t).

Definition all_same (l : list N) : bool :=
  match l with
  | [] => true
  | x :: r => forallb (N.eqb x) r
  end.

(* executable safety monitor (same meaning as ConcreteBA.conflicting_certs = false, without its
   quadratic enumeration of value pairs: proofs/C01CheckProofs.v certs_agree_b_sound) *)
Definition certs_agree_b (t : list event) : bool := all_same (cert_vals t).

Fixpoint ensures_agree (l : list (N * N * nat)) : bool :=
  match l with
  | [] => true
  | x :: r => forallb (fun y => N.eqb (snd (fst x)) (snd (fst y))) r && ensures_agree r
  end.

(* trace is newest first *)
Definition monitor (t : list event) (ens : list (N * N * nat)) : term :=
  let bad := first_bad honest_b qdec t in
  let corr := match bad with None => true | Some _ => false end in
  let qi := qi_b ths honest byz tbl in
  let certs_ok := certs_agree_b t in
  let ens_ok := ensures_agree ens &&
                forallb (fun x => has_q_b qdec t (snd x) 2 (Some (snd (fst x)))) ens in
  let spec_ok := negb qi || (certs_ok && ens_ok) in
  let entered := existsb (fun e => match e with Enter _ _ _ _ _ => true | _ => false end) t in
  let nontrivial := qi && negb (Nat.eqb (List.length ens) 0) && entered in
  let detail :=
    match bad with
    | Some i =>
        let pre := skipn (List.length t - i) t in
        match nth_error t (List.length t - 1 - i) with
        | Some e => TL [TS "rule_broken"; tn (N.of_nat i); TS (why_bad pre e); t_event e;
                        TL [TS "all_cert_quorums_agree"; tb certs_ok]; TL [TS "ensures_agree_and_certified"; tb ens_ok]]
        | None => TL [TS "rule_broken"; tn (N.of_nat i)]
        end
    | None =>
        if spec_ok then TL [TS "ok"; tb qi]
        else TL [TS "unsafe"; tb certs_ok; tb ens_ok]
    end in
  if negb qi then TL [TZ 0; TS "out_of_scope_byzantine_weight_over_bound"; tb corr; tb certs_ok; tb ens_ok]
  else verdict spec_ok corr nontrivial detail.

End Monitor.

Definition check (c : term) : term :=
  match c with
  | TL [TS "c01"; tths; thon; tbyz; TL twt; TL tev; TL tens; _] =>
      match as_N_list tths, as_N_list thon, as_N_list tbyz with
      | Some ths, Some hon, Some byz =>
          match map_opt (dec_wrow (hon ++ byz)) twt, map_opt dec_event tev, map_opt dec_ensure tens with
          | Some tbl, Some evs, Some ens =>
              if Nat.eqb (List.length ths) 6 then monitor ths hon byz tbl (rev evs) ens else v_parse
          | _, _, _ => v_parse
          end
      | _, _, _ => v_parse
      end
  | _ => v_parse
  end.
