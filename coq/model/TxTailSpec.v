(* C11: the property as a declarative function of the block history, and the executable
   checker run on the implementation's observations.  No proofs in this file. *)
From Coq Require Import NArith ZArith List Bool String.
From Verif.lib Require Import Term.
From Verif.model Require Import TxTail.
Import ListNotations.
Open Scope N_scope.

(* ---------- what checkDup must answer, read off the blocks alone ---------- *)
(* some transaction of block r satisfies f *)
Definition in_block (blocks : list (N * list tx)) (f : N -> tx -> bool) (r : N) : bool :=
  match lookup r blocks with Some txs => existsb (f r) txs | None => false end.
Definition committed_some (blocks : list (N * list tx)) (latest : N) (f : N -> tx -> bool) : bool :=
  existsb (in_block blocks f) (nrange 1 latest).

(* a committed transaction holds lease k at round cur (legacy protocols without
   FixTransactionLeases only look at blocks from the probe's FirstValid on) *)
Definition holds_lease (p : proto) (k : lkey) (cur fv : N) (r : N) (x : tx) : bool :=
  lkey_eqb (t_key x) k && (cur <=? t_lv x) && (p_fix p || (fv <=? r)).
Definition same_tx (lv id : N) (_ : N) (x : tx) : bool := (t_lv x =? lv) && (t_id x =? id).

Definition spec_dup (blocks : list (N * list tx)) (latest : N) (p : proto) (cur fv lv id : N) (k : lkey) : dupres :=
  if p_sup p && negb (snd k =? 0) && committed_some blocks latest (holds_lease p k cur fv) then DupLease
  else if committed_some blocks latest (same_tx lv id) then DupTx
  else DupNone.

(* the probes the property speaks about: evaluation of the next block, transaction not expired *)
Definition probe_in_domain (s : sys) (cur lv : N) : bool := (cur =? s_latest s + 1) && (cur <=? lv).

(* ---------- canonical dump of the in-memory state (correspondence only) ---------- *)
Fixpoint ins_n (x : N) (l : list N) : list N :=
  match l with
  | [] => [x]
  | y :: t => if x <? y then x :: l else if x =? y then l else y :: ins_n x t
  end.
Definition sort_n (l : list N) : list N := fold_right ins_n [] l.

Definition lkey_ltb (a b : lkey) : bool := (fst a <? fst b) || ((fst a =? fst b) && (snd a <? snd b)).
Fixpoint ins_k (x : lkey) (l : list lkey) : list lkey :=
  match l with
  | [] => [x]
  | y :: t => if lkey_ltb x y then x :: l else if lkey_eqb x y then l else y :: ins_k x t
  end.
Definition sort_k (l : list lkey) : list lkey := fold_right ins_k [] l.

Definition dump_leases (m : list (lkey * N)) : term :=
  TL (map (fun k => TL [tn (fst k); tn (snd k);
                        tn (match klookup k m with Some e => e | None => 0 end)])
          (sort_k (map fst m))).
Definition dump_tail (t : tail) : list term :=
  [ tn (lwm t);
    TL (map (fun r => TL [tn r; match lookup r (recent t) with
                                 | Some rl => dump_leases (rl_leases rl) | None => TL [] end])
            (sort_n (map fst (recent t))));
    TL (map (fun v => TL [tn v; TL (map tn (sort_n (map snd (filter (fun e => fst e =? v) (lastValid t)))))])
            (sort_n (map fst (lastValid t))));
    tn (N.of_nat (List.length (pending t)));
    tn (lowestHdr t);
    TL (map tn (sort_n (map fst (hdrs t)))) ].

(* ---------- case decoding ---------- *)
Definition as_tx (t : term) : option tx :=
  match t with
  | TL [TZ a; TZ b; TZ c; TZ d; TZ e] =>
      if ((a <? 0) || (b <? 0) || (c <? 0) || (d <? 0) || (e <? 0))%Z then None
      else Some (mkTx (Z.to_N a) (Z.to_N b) (Z.to_N c) (Z.to_N d) (Z.to_N e))
  | _ => None
  end.

(* running state of the checker *)
Record cst := mkCst {
  c_fix : sys;          (* model of the repaired loader *)
  c_orig : sys;         (* model of the original loader (single-row skip) *)
  c_valid : bool;       (* the history so far is inside the discipline (judged on c_fix) *)
  c_spec : bool;        (* spec_dup agreed with every in-domain observation *)
  c_corr : bool;        (* repaired model = implementation so far *)
  c_corr_orig : bool;   (* original model = implementation so far *)
  c_nontriv : N;        (* in-domain probes answered "duplicate" *)
  c_stop : bool;        (* a restart failed: the rest of the history is not interpreted *)
  c_bad : bool;         (* unparsable operation *)
  c_first : term        (* first difference: (op index, model observation) *)
}.

Definition note (c : cst) (idx : N) (ok : bool) (obs : term) : term :=
  if c_corr c && negb ok then TL [tn idx; obs] else c_first c.

Definition do_step (p : proto) (c : cst) (idx : N) (o : op) (obs : option Z) : cst :=
  let '(s1, r1) := step p (c_fix c) o in
  let '(s2, r2) := step_orig p (c_orig c) o in
  let good := match obs with None => true | Some z => (Z.of_N (outcome_code r1) =? z)%Z end in
  let good2 := match obs with None => true | Some z => (Z.of_N (outcome_code r2) =? z)%Z end in
  let failed := match r1 with OK => false | _ => true end in
  mkCst s1 s2
        (c_valid c && op_ok p (c_fix c) o && negb failed)
        (c_spec c) (c_corr c && good) (c_corr_orig c && good2) (c_nontriv c)
        (match o, r1 with ORestart _, OK => false | ORestart _, _ => true | _, _ => false end)
        (c_bad c) (note c idx good (tn (outcome_code r1))).

Definition do_op (p : proto) (c : cst) (idx : N) (t : term) : cst :=
  if c_stop c || c_bad c then c else
  let bad := mkCst (c_fix c) (c_orig c) (c_valid c) (c_spec c) (c_corr c) (c_corr_orig c)
                   (c_nontriv c) (c_stop c) true (c_first c) in
  match t with
  | TL [TS "b"; TL txs] =>
      match map_opt as_tx txs with Some l => do_step p c idx (OBlock l) None | None => bad end
  | TL [TS "u"; TZ r] => if (r <? 0)%Z then bad else do_step p c idx (OCommitted (Z.to_N r)) None
  | TL [TS "k"; TZ off; TZ obs] =>
      if (off <? 0)%Z then bad else do_step p c idx (OCommit (Z.to_N off)) (Some obs)
  | TL [TS "r"; TZ keep; TZ obs] =>
      if (keep <? 0)%Z then bad else do_step p c idx (ORestart (Z.to_N keep)) (Some obs)
  | TL [TS "q"; TZ cur; TZ fv; TZ lv; TZ id; TZ snd_; TZ lease; TZ obs] =>
      if ((cur <? 0) || (fv <? 0) || (lv <? 0) || (id <? 0) || (snd_ <? 0) || (lease <? 0))%Z then bad else
      let cur := Z.to_N cur in let fv := Z.to_N fv in let lv := Z.to_N lv in
      let id := Z.to_N id in let k := (Z.to_N snd_, Z.to_N lease) in
      let m1 := dupres_code (checkDup (s_tail (c_fix c)) p cur fv lv id k) in
      let m2 := dupres_code (checkDup (s_tail (c_orig c)) p cur fv lv id k) in
      let dom := c_valid c && probe_in_domain (c_fix c) cur lv in
      let want := dupres_code (spec_dup (s_blocks (c_fix c)) (s_latest (c_fix c)) p cur fv lv id k) in
      let good := (Z.of_N m1 =? obs)%Z in
      mkCst (c_fix c) (c_orig c) (c_valid c)
            (c_spec c && (negb dom || (Z.of_N want =? obs)%Z))
            (c_corr c && good) (c_corr_orig c && (Z.of_N m2 =? obs)%Z)
            (if dom && negb (want =? 0) then c_nontriv c + 1 else c_nontriv c)
            false false (note c idx good (tn m1))
  | TL (TS "d" :: obs) =>
      let m1 := dump_tail (s_tail (c_fix c)) in
      let good := term_eqb (TL obs) (TL m1) in
      mkCst (c_fix c) (c_orig c) (c_valid c) (c_spec c)
            (c_corr c && good) (c_corr_orig c && term_eqb (TL obs) (TL (dump_tail (s_tail (c_orig c)))))
            (c_nontriv c) false false (note c idx good (TL m1))
  | _ => bad
  end.

Fixpoint do_ops (p : proto) (c : cst) (idx : N) (l : list term) : cst :=
  match l with [] => c | t :: l' => do_ops p (do_op p c idx t) (idx + 1) l' end.

Definition cst0 : cst := mkCst sys0 sys0 true true true true 0 false false (TL []).

(* a spec failure has the signature of the recorded single-row reload defect iff the original
   loader reproduces EVERY observation of the case while the repaired one does not *)
Definition check_txtail (pr : term) (ops : list term) : term :=
  match pr with
  | TL [TZ l; TZ d; TZ sup; TZ fx] =>
      if ((l <? 0) || (d <? 0))%Z then v_parse else
      let p := mkProto (Z.to_N l) (Z.to_N d) (sup =? 1)%Z (fx =? 1)%Z in
      let c := do_ops p cst0 0 ops in
      if c_bad c then v_parse
      else if negb (c_spec c) then
        (if c_corr_orig c && negb (c_corr c) then v_known "single_row_tail_reload" (c_first c)
         else v_viol (c_first c))
      else verdict true (c_corr c) (c_valid c && (0 <? c_nontriv c)) (c_first c)
  | _ => v_parse
  end.

(* ---------- evaluator side: scripts on roundCowState ---------- *)
Record kst := mkKst {
  k_stack : list cow;            (* innermost child first, root last *)
  k_vis : list (list tx);        (* per level: the transactions added there (committed children included) *)
  k_spec : bool; k_corr : bool; k_nt : N; k_bad : bool; k_first : term
}.

Definition as_dup (z : Z) : option dupres :=
  match z with 0%Z => Some DupNone | 1%Z => Some DupTx | 2%Z => Some DupLease | _ => None end.

(* declarative reading of a probe against the transactions visible from the top of the stack:
   a visible txid must be rejected by the evaluator; with no visible txid and no visible holder of
   the lease the ledger's answer passes through; a single visible holder decides by its expiry *)
Definition cow_spec (sup : bool) (hdr : N) (vis : list tx) (id : N) (k : lkey) (base obs : Z) : bool * bool :=
  let idvis := existsb (fun x => t_id x =? id) vis in
  let holders := filter (fun x => lkey_eqb (t_key x) k && negb (t_lease x =? 0)) vis in
  if idvis then (((obs =? 4) || (obs =? 5))%Z, true)
  else if negb sup || (snd k =? 0) then ((obs =? base)%Z, false)
  else match holders with
       | [] => ((obs =? base)%Z, false)
       | [h] => if hdr <=? t_lv h then ((obs =? 5)%Z, true) else ((obs =? base)%Z, false)
       | _ => (true, false)
       end.

Definition k_note (c : kst) (idx : N) (ok : bool) (obs : term) : term :=
  if k_corr c && negb ok then TL [tn idx; obs] else k_first c.

Inductive cop := KChild | KAdd (x : tx) | KCommit | KDiscard | KProbe (id : N) (k : lkey) (base obs : Z)
               | KDump (ids leases : term) | KBad.
Definition as_cop (t : term) : cop :=
  match t with
  | TL [TS "c"] => KChild
  | TL [TS "a"; TZ id; TZ lv; TZ snd_; TZ lease] => KAdd (mkTx (Z.to_N id) 0 (Z.to_N lv) (Z.to_N snd_) (Z.to_N lease))
  | TL [TS "m"] => KCommit
  | TL [TS "x"] => KDiscard
  | TL [TS "q"; TZ id; TZ snd_; TZ lease; TZ base; TZ obs] => KProbe (Z.to_N id) (Z.to_N snd_, Z.to_N lease) base obs
  | TL [TS "d"; ids; leases] => KDump ids leases
  | _ => KBad
  end.

Definition cow_op (p : proto) (hdr : N) (c : kst) (idx : N) (t : term) : kst :=
  if k_bad c then c else
  let bad := mkKst (k_stack c) (k_vis c) (k_spec c) (k_corr c) (k_nt c) true (k_first c) in
  let keep st vs := mkKst st vs (k_spec c) (k_corr c) (k_nt c) false (k_first c) in
  match as_cop t with
  | KChild => keep (cow0 :: k_stack c) ([] :: k_vis c)
  | KAdd x =>
      match k_stack c, k_vis c with
      | top :: st, v :: vs => keep (cow_addTx top x :: st) ((x :: v) :: vs)
      | _, _ => bad
      end
  | KCommit =>
      match k_stack c, k_vis c with
      | ch :: par :: st, v1 :: v2 :: vs => keep (cow_commitToParent ch par :: st) ((v1 ++ v2) :: vs)
      | _, _ => bad
      end
  | KDiscard =>
      match k_stack c, k_vis c with
      | _ :: par :: st, _ :: v2 :: vs => keep (par :: st) (v2 :: vs)
      | _, _ => bad
      end
  | KProbe id k base obs =>
      match as_dup base with
      | None => bad
      | Some b =>
          let m := dupres_code (cow_check (k_stack c) p hdr id k b) in
          let '(sp, nt) := cow_spec (p_sup p) hdr (List.concat (k_vis c)) id k base obs in
          let good := (Z.of_N m =? obs)%Z in
          mkKst (k_stack c) (k_vis c) (k_spec c && sp) (k_corr c && good)
                (if nt then k_nt c + 1 else k_nt c) false (k_note c idx good (tn m))
      end
  | KDump ids leases =>
      let root := last (k_stack c) cow0 in
      let m := TL [TL (map tn (rev (c_ids root))); dump_leases (c_leases root)] in
      let good := term_eqb (TL [ids; leases]) m in
      mkKst (k_stack c) (k_vis c) (k_spec c) (k_corr c && good) (k_nt c) false (k_note c idx good m)
  | KBad => bad
  end.

Fixpoint cow_ops (p : proto) (hdr : N) (c : kst) (idx : N) (l : list term) : kst :=
  match l with [] => c | t :: l' => cow_ops p hdr (cow_op p hdr c idx t) (idx + 1) l' end.

Definition check_cow (pr : term) (ops : list term) : term :=
  match pr with
  | TL [TZ hdr; TZ sup] =>
      if (hdr <? 0)%Z then v_parse else
      let p := mkProto 0 0 (sup =? 1)%Z true in
      let c := cow_ops p (Z.to_N hdr) (mkKst [cow0] [[]] true true 0 false (TL [])) 0 ops in
      if k_bad c then v_parse else verdict (k_spec c) (k_corr c) (0 <? k_nt c) (k_first c)
  | _ => v_parse
  end.

Definition check (t : term) : term :=
  match t with
  | TL [TS "c11"; pr; TL ops] => check_txtail pr ops
  | TL [TS "cow"; pr; TL ops] => check_cow pr ops
  | _ => v_parse
  end.
