(* C25 model: data/bookkeeping/block.go  RewardsState.NextRewardsState, transcribed branch
   by branch.  uint64 arithmetic is explicit: the overflow-checked helpers are the C45
   transcriptions [oadd 64] / [osub 64] (model/Overflow.v); the round addition wraps
   [mod 2^64]; the unguarded Go division [newRate / RewardsRateRefreshInterval] is a run-time
   panic when the interval is 0 ([None]).  The consensus parameters the function reads are a
   record ([rparams]); every theorem is for ALL parameter values.  No proofs in this file. *)
From Coq Require Import NArith List Bool.
From Verif.model Require Import Overflow.
Import ListNotations.
Open Scope N_scope.

(* RewardsState: RewardsLevel, RewardsRate, RewardsResidue, RewardsRecalculationRound
   (FeeSink / RewardsPool are copied unchanged by [res = s]; the harness observes that) *)
Record rstate : Type := mkR { r_level : N; r_rate : N; r_residue : N; r_recalc : N }.

(* the fields of config.ConsensusParams read by NextRewardsState *)
Record rparams : Type := mkRP {
  p_minbal : N;          (* MinBalance *)
  p_interval : N;        (* RewardsRateRefreshInterval *)
  p_pending : bool;      (* PendingResidueRewards *)
  p_fix : bool           (* RewardsCalculationFix *)
}.

(* if nextRound == res.RewardsRecalculationRound { ... } *)
Definition refresh (s : rstate) (nextRound : N) (p : rparams) (pool : N) : option rstate :=
  if nextRound =? r_recalc s then
    let maxSpentOver :=
      if p_pending p then
        let '(m, overflowed) := oadd 64 (p_minbal p) (r_residue s) in
        if overflowed then pool else m
      else p_minbal p in
    let '(nr, overflowed) := osub 64 pool maxSpentOver in
    let newRate := if overflowed then 0 else nr in
    if p_interval p =? 0 then None               (* integer divide by zero: Go panics *)
    else Some (mkR (r_level s) (newRate / p_interval p) (r_residue s)
                   ((nextRound + p_interval p) mod 2 ^ 64))
  else Some s.

Definition next_rewards_state (s : rstate) (nextRound : N) (p : rparams) (pool units : N)
  : option rstate :=
  match refresh s nextRound p pool with
  | None => None
  | Some res =>
      if units =? 0 then Some res
      else
        let rewardsRate := if p_fix p then r_rate res else r_rate s in
        let '(rewardsWithResidue, o1) := oadd 64 rewardsRate (r_residue res) in
        let '(nextRewardLevel, o2) := oadd 64 (r_level res) (rewardsWithResidue / units) in
        let nextResidue := rewardsWithResidue mod units in
        if o1 || o2 then Some res                (* ot.Overflowed: keep the old level *)
        else Some (mkR nextRewardLevel (r_rate res) nextResidue (r_recalc res))
  end.

(* one input of a history: the per-round arguments of NextRewardsState *)
Record rinput : Type := mkRI { i_params : rparams; i_pool : N; i_units : N }.

(* a chain of rounds r, r+1, ...; None when some round panics *)
Fixpoint rewards_run (s : rstate) (r : N) (ins : list rinput) : option (list rstate) :=
  match ins with
  | [] => Some []
  | i :: rest =>
      match next_rewards_state s r (i_params i) (i_pool i) (i_units i) with
      | None => None
      | Some s' => match rewards_run s' (r + 1) rest with
                   | None => None
                   | Some l => Some (s' :: l)
                   end
      end
  end.
