(* Evaluator core model, part 2: Move and the transaction appliers.
   Transcribes ledger/eval/eval.go (roundCowState.Move, autoHeartbeat, takeFee,
   BlockEvaluator.applyTransaction), ledger/apply/apply.go (Rekey), ledger/apply/payment.go
   (Payment incl. CloseRemainderTo) and ledger/apply/keyreg.go (Keyreg).
   Programs run against the overlay in a state+error monad [M]: an error keeps the state
   reached so far (the Go code has already written to the child cow at that point).
   ledger/apply/asset.go (AssetConfig, AssetTransfer with takeOut / putIn, AssetFreeze) over
   ledger/eval/cow_creatables.go and assetcow.go are transcribed as well.
   Application calls: ledger/apply/application.go (create, opt-in, close-out, clear state,
   delete), ledger/eval/appcow.go (StatefulEval with its child cow, Allocate/DeallocateApp,
   setKey/delKey with the schema counters), ledger/eval/applications.go (NewBox / DelBox,
   Perform for inner transactions).  The program itself is over-approximated: ANY finite script
   of [appop]s followed by approve / reject (the AVM is C31-C35).  NOT modelled: inner
   application calls (depth > 1), UpdateApplication, inner Rekey / keyreg, the AVM's fee-credit
   test of inner groups and its resource-availability rules (the harness keeps inside them),
   key / value length limits, state proofs and heartbeats.  No proofs in this file. *)
From Coq Require Import NArith List Bool.
From Verif.model Require Import Overflow EvalCow.
Import ListNotations.
Open Scope N_scope.

(* ------------------------------------------------------------------ monad *)
Definition M (A : Type) : Type := cow -> cow * res A.
Definition ret {A} (a : A) : M A := fun c => (c, Ok a).
Definition fail {A} (e : N) : M A := fun c => (c, Err e).
Definition bind {A B} (m : M A) (k : A -> M B) : M B :=
  fun c => match m c with
           | (c1, Ok a) => k a c1
           | (c1, Err e) => (c1, Err e)
           end.
Definition lift {A} (r : res A) : M A := fun c => (c, r).
Definition m_lookup (a : N) : M acct := fun c => (c, Ok (lookup c a)).
Definition m_put (a : N) (x : acct) : M unit := fun c => (put c a x, Ok tt).
Definition m_addfee (fee : N) : M unit := fun c => (addfee c fee, Ok tt).
Definition m_addtx (txid lv sender lease : N) : M unit := fun c => (addtx c txid lv sender lease, Ok tt).
Definition m_modified : M (list N) := fun c => (c, Ok (modified c)).
Definition m_checkdup (P : params) (rnd txid sender lease : N) : M unit :=
  fun c => match checkdup P rnd c txid sender lease with
           | Some e => (c, Err e)
           | None => (c, Ok tt)
           end.

Definition m_get_params (a i : N) : M (option aparams) := fun c => (c, Ok (get_params c a i)).
Definition m_get_holding (a i : N) : M (option holding) := fun c => (c, Ok (get_holding c a i)).
Definition m_put_params (a i : N) (p : aparams) : M unit := fun c => (put_params_delta c a i (DSome p), Ok tt).
Definition m_put_holding (a i : N) (h : holding) : M unit := fun c => (put_holding_delta c a i (DSome h), Ok tt).
(* DeleteAssetParams / DeleteAssetHolding: "not found in deltas" unless this cow has the account *)
Definition m_del_params (a i : N) : M unit :=
  fun c => if in_mods c a then (put_params_delta c a i DDel, Ok tt) else (c, Err E_APPLY).
Definition m_del_holding (a i : N) : M unit :=
  fun c => if in_mods c a then (put_holding_delta c a i DDel, Ok tt) else (c, Err E_APPLY).
Definition m_set_creatable (i : N) (v : option N) : M unit := fun c => (set_creatable c i v, Ok tt).
Definition m_get_creator (i : N) : M (option N) := fun c => (c, Ok (get_creator c i)).
Definition m_counter : M N := fun c => (c, Ok (counter c)).
Definition m_get_appparams (a i : N) : M (option appparams) := fun c => (c, Ok (get_appparams c a i)).
Definition m_get_applocal (a i : N) : M (option (N * N)) := fun c => (c, Ok (get_applocal c a i)).
Definition m_put_appparams (a i : N) (p : appparams) : M unit := fun c => (put_appparams_delta c a i (DSome p), Ok tt).
Definition m_put_applocal (a i : N) (s : N * N) : M unit := fun c => (put_applocal_delta c a i (DSome s), Ok tt).
Definition m_del_appparams (a i : N) : M unit :=
  fun c => if in_mods c a then (put_appparams_delta c a i DDel, Ok tt) else (c, Err E_APPLY).
Definition m_del_applocal (a i : N) : M unit :=
  fun c => if in_mods c a then (put_applocal_delta c a i DDel, Ok tt) else (c, Err E_APPLY).
Definition m_set_app_creatable (i : N) (v : option N) : M unit := fun c => (set_app_creatable c i v, Ok tt).
Definition m_get_app_creator (i : N) : M (option N) := fun c => (c, Ok (get_app_creator c i)).
Definition m_allocated (a i : N) (g : bool) : M bool := fun c => (c, Ok (allocated c a i g)).
Definition m_getkey (a i : N) (g : bool) (key : N) : M (option (option bool)) := fun c => (c, Ok (getkey c a i g key)).
Definition m_ensure_sd (a i : N) (g : bool) (action : N) : M sdelta := fun c => (c, Ok (ensure_sd c a i g action)).
Definition m_put_sd (a i : N) (g : bool) (sd : sdelta) : M unit := fun c => (put_sd c a i g sd, Ok tt).
Definition m_get_box (app name : N) : M (option N) := fun c => (c, Ok (get_box c app name)).
Definition m_put_box (app name : N) (v : option N) : M unit := fun c => (put_box c app name v, Ok tt).
Definition m_inctxn : M unit := fun c => (inc_txncount c, Ok tt).

Notation "x <- m ;; k" := (bind m (fun x => k)) (at level 61, m at next level, right associativity).
Notation "m ;;; k" := (bind m (fun _ => k)) (at level 61, right associativity).

Definition when (b : bool) (m : M unit) : M unit := if b then m else ret tt.
Definition guard (b : bool) (e : N) : M unit := if b then ret tt else fail e.

(* ------------------------------------------------------------------ environment, transactions *)
Record env := mkEnv {
  e_P : params;
  e_rnd : N;             (* round of the block being evaluated *)
  e_lvl : N;             (* RewardsLevel of its header *)
  e_feesink : N;
  e_pool : N;
  e_spsender : N;        (* transactions.StateProofSender *)
  e_validate : bool;
  e_generate : bool
}.

(* transaction bodies an application can issue as inner transactions in this model *)
Inductive sbody :=
| SPay (rcv amt closeto : N)
| SAcfg (asset : N) (p : aparams)
| SAxfer (asset amt asender rcv closeto : N)
| SAfrz (asset acct : N) (frozen : bool).

(* what an application program can do to the ledger (the LedgerForLogic surface): a program is
   ANY finite list of these followed by approve / reject; [OFail] is any failing instruction
   (err, a failed assert, budget exhaustion, an unavailable resource).  Box names and state
   keys are identifiers, [nlen] is the length of the box name; values are not modelled (C23). *)
Inductive appop :=
| OBoxCreate (name nlen size : N)
| OBoxDel (name nlen : N)
| OBoxResize (name nlen size : N)
| OGPut (key : N) (isbytes : bool)
| OGDel (key : N)
| OLPut (acct key : N) (isbytes : bool)
| OLDel (acct key : N)
| OInner (g : list (N * sbody))          (* itxn_begin .. itxn_submit: (fee, body) from the app account *)
| OParamSet (field : N) (v : bool)       (* app_params_set: 0 ForeignBoxReads, 1 FamilyBoxAccess (appParamsSetter) *)
| OFail.

(* an application call: ApplicationID (0 = create), OnCompletion (0 NoOp, 1 OptIn, 2 CloseOut,
   3 ClearState, 5 DeleteApplication; 4 UpdateApplication is not modelled), the schemas / extra
   pages of a creation, and the program run as a script with its verdict *)
Record appcall := mkCall {
  ac_app : N; ac_oc : N; ac_gs : N * N; ac_ls : N * N; ac_pages : N;
  ac_script : list appop; ac_accept : bool
}.

Inductive body :=
| BApp (call : appcall)
| BPay (rcv amt closeto : N)
| BKeyreg (votepk selpk sppk vfirst vlast vkd : N) (nonpart : bool)
| BAcfg (asset : N) (p : aparams)
| BAxfer (asset amt asender rcv closeto : N)
| BAfrz (asset acct : N) (frozen : bool)
| BOther.

(* a signed transaction as the evaluator sees it.  [t_wf] is the verdict of
   Transaction.WellFormed, [t_genok] of the genesis id/hash part of BlockHeader.Alive,
   [t_feefactor] is SignedTxn.FeeFactor (C24), [t_authorizer] the address the signature was
   checked against, [t_grp]: 0 = zero Group, 1 = the hash of exactly this group, k>1 some
   other digest; [t_txid] identifies the transaction id. *)
Record txn := mkTxn {
  t_sender : N;
  t_fee : N;
  t_fv : N;
  t_lv : N;
  t_lease : N;
  t_genok : bool;
  t_wf : bool;
  t_authorizer : N;
  t_grp : N;
  t_txid : N;
  t_feefactor : N;
  t_rekey : N;
  t_body : body
}.

(* transactions.ApplyData: the fields the modelled appliers write *)
Record adata := mkAd { ad_srew : N; ad_rrew : N; ad_crew : N; ad_closing : N }.
Definition ad0 : adata := mkAd 0 0 0 0.

(* ------------------------------------------------------------------ Move *)
(* ot.AddA( *r, ot.SubA(new, old)) on an optional rewards pointer *)
Definition track (r : option N) (newb oldb : N) : res (option N) :=
  match r with
  | None => Ok None
  | Some r0 =>
    let '(d, o1) := osub 64 newb oldb in
    let '(s, o2) := oadd 64 r0 d in
    if o1 || o2 then Err E_APPLY else Ok (Some s)
  end.

Definition auto_heartbeat (E : env) (before after : acct) : acct :=
  if negb (status_eqb (a_status after) Online && a_elig after) then after
  else let '(twice, o) := omul 64 (a_algos before) 2 in
       if negb o && (twice <=? a_algos after)
       then set_lasthb after ((e_rnd E + p_lookback (e_P E)) mod 2 ^ 64)
       else after.

(* "Only write the change if it's meaningful (or required by old code)" *)
Definition must_write (P : params) (amt : N) (bal : acct) : bool :=
  negb (amt =? 0) || (0 <? reward_units P (a_algos bal)) || negb (p_unfunded P).

(* one side of Move (the Go code spells the two sides out one after the other): look up,
   apply pending rewards, track them, write the adjusted balance if meaningful *)
Definition move_side (E : env) (debit : bool) (a amt : N) (r : option N) : M (option N) :=
  let P := e_P E in
  bal <- m_lookup a ;;
  new <- lift (with_rewards P (e_lvl E) bal) ;;
  r' <- lift (track r (a_algos new) (a_algos bal)) ;;
  when (must_write P amt bal)
       (let '(v, o) := (if debit then osub 64 (a_algos new) amt else oadd 64 (a_algos new) amt) in
        if o then fail (if debit then E_OVERSPEND else E_APPLY)
        else m_put a (auto_heartbeat E bal (set_algos new v))) ;;;
  ret r'.

Definition move (E : env) (from to amt : N) (fr tr : option N) : M (option N * option N) :=
  fr' <- move_side E true from amt fr ;;
  tr' <- move_side E false to amt tr ;;
  ret (fr', tr').

(* roundCowState.Get(addr, withPendingRewards = true) *)
Definition get_rewarded (E : env) (a : N) : M acct :=
  x <- m_lookup a ;; lift (with_rewards (e_P E) (e_lvl E) x).

Definition opt_or (o : option N) (d : N) : N := match o with Some v => v | None => d end.

(* ------------------------------------------------------------------ takeFee, Rekey *)
Definition take_fee (E : env) (tx : txn) (ad : adata) : M adata :=
  r <- move E (t_sender tx) (e_feesink E) (t_fee tx) (Some (ad_srew ad)) None ;;
  let ad1 := mkAd (opt_or (fst r) (ad_srew ad)) (ad_rrew ad) (ad_crew ad) (ad_closing ad) in
  when (negb (t_sender tx =? e_feesink E)) (m_addfee (t_fee tx)) ;;;
  ret ad1.

Definition rekey (tx : txn) : M unit :=
  when (negb (t_rekey tx =? 0))
       (x <- m_lookup (t_sender tx) ;;
        m_put (t_sender tx) (set_auth x (if t_rekey tx =? t_sender tx then 0 else t_rekey tx))).

(* ------------------------------------------------------------------ Payment *)
Definition payment (E : env) (sender rcv amt closeto : N) (ad : adata) : M adata :=
  ad1 <- (if negb (amt =? 0) || negb (rcv =? 0) then
            r <- move E sender rcv amt (Some (ad_srew ad)) (Some (ad_rrew ad)) ;;
            ret (mkAd (opt_or (fst r) (ad_srew ad)) (opt_or (snd r) (ad_rrew ad)) (ad_crew ad) (ad_closing ad))
          else ret ad) ;;
  if closeto =? 0 then ret ad1 else
    rec <- get_rewarded E sender ;;
    let closeAmount := a_algos rec in
    r <- move E sender closeto closeAmount (Some (ad_srew ad1)) (Some (ad_crew ad1)) ;;
    let ad2 := mkAd (opt_or (fst r) (ad_srew ad1)) (ad_rrew ad1) (opt_or (snd r) (ad_crew ad1)) closeAmount in
    rec2 <- get_rewarded E sender ;;
    guard (a_algos rec2 =? 0) E_APPLY ;;;
    guard (a_assets rec2 =? 0) E_APPLY ;;;
    guard (a_assetparams rec2 =? 0) E_APPLY ;;;
    guard (a_applocals rec2 =? 0) E_APPLY ;;;
    guard (a_boxes rec2 =? 0) E_APPLY ;;;
    guard (a_boxbytes rec2 =? 0) E_APPLY ;;;
    guard (a_appparams rec2 =? 0) E_APPLY ;;;
    m_put sender acct0 ;;;
    ret ad2.

(* ------------------------------------------------------------------ Keyreg *)
Definition keyreg (E : env) (sender fee votepk selpk sppk vfirst vlast vkd : N) (nonpart : bool) : M unit :=
  let P := e_P E in
  record <- m_lookup sender ;;
  guard (negb (status_eqb (a_status record) NotPart)) E_APPLY ;;;
  let sp := if p_spcheck P then sppk else a_sppk record in
  if (votepk =? 0) || (selpk =? 0) then
    st <- (if nonpart then (if p_nonpart P then ret NotPart else fail E_APPLY) else ret Offline) ;;
    m_put sender (set_part record st (a_elig record) (a_lasthb record) votepk selpk sp 0 0 0)
  else
    guard (negb (p_coherency P) || negb (vlast <=? e_rnd E)) E_APPLY ;;;
    guard (negb (p_coherency P) || negb ((e_rnd E + 1) mod 2 ^ 64 <? vfirst)) E_APPLY ;;;
    let hb := if p_payouts P then (e_rnd E + p_lookback P) mod 2 ^ 64 else a_lasthb record in
    let elig := if (p_goonline P <=? fee) && p_payouts P then true else a_elig record in
    m_put sender (set_part record Online elig hb votepk selpk sp vfirst vlast vkd).

(* ------------------------------------------------------------------ assets *)
Definition some_or_fail {A} (o : option A) : M A := match o with Some a => ret a | None => fail E_APPLY end.

(* apply/asset.go getParams *)
Definition asset_params (i : N) : M (aparams * N) :=
  cr <- m_get_creator i ;;
  creator <- some_or_fail cr ;;
  p <- m_get_params creator i ;;
  params <- some_or_fail p ;;
  ret (params, creator).

Definition sat_inc (n : N) : N := addsat 64 n 1.
Definition sat_dec (n : N) : N := subsat 64 n 1.

Definition asset_config (E : env) (sender asset : N) (cp : aparams) (ctr : N) : M unit :=
  if asset =? 0 then
    record <- m_lookup sender ;;
    let newidx := (ctr + 1) mod 2 ^ 64 in
    present <- m_get_params sender newidx ;;
    guard (match present with Some _ => false | None => true end) E_APPLY ;;;
    guard (negb ((0 <? p_maxassets (e_P E)) && (p_maxassets (e_P E) <=? a_assets record))) E_APPLY ;;;
    m_put sender (set_asset_counts record (sat_inc (a_assetparams record)) (sat_inc (a_assets record))) ;;;
    m_put_params sender newidx cp ;;;
    m_put_holding sender newidx (mkH (ap_total cp) false) ;;;
    m_set_creatable newidx (Some sender)
  else
    pc <- asset_params asset ;;
    let '(params, creator) := pc in
    guard (negb (ap_manager params =? 0) && (sender =? ap_manager params)) E_APPLY ;;;
    if ap_is_zero cp then
      record <- m_lookup creator ;;
      guard (negb (a_assets record =? 0)) E_APPLY ;;;
      guard (negb (a_assetparams record =? 0)) E_APPLY ;;;
      h <- m_get_holding creator asset ;;
      guard ((match h with Some hh => h_amount hh | None => 0 end) =? ap_total params) E_APPLY ;;;
      m_put creator (set_asset_counts record (sat_dec (a_assetparams record)) (sat_dec (a_assets record))) ;;;
      m_set_creatable asset None ;;;
      m_del_holding creator asset ;;;
      m_del_params creator asset
    else
      m_put_params creator asset
        (mkAP (ap_total params) (ap_dfrozen params)
              (if ap_manager params =? 0 then 0 else ap_manager cp)
              (if ap_reserve params =? 0 then 0 else ap_reserve cp)
              (if ap_freeze params =? 0 then 0 else ap_freeze cp)
              (if ap_clawback params =? 0 then 0 else ap_clawback cp)
              (ap_extra params)).

Definition take_out (a asset amount : N) (bypass : bool) : M unit :=
  if amount =? 0 then ret tt else
    h <- m_get_holding a asset ;;
    hh <- some_or_fail h ;;
    guard (negb (h_frozen hh && negb bypass)) E_APPLY ;;;
    let '(v, o) := osub 64 (h_amount hh) amount in
    if o then fail E_APPLY else m_put_holding a asset (mkH v (h_frozen hh)).

Definition put_in (a asset amount : N) (bypass : bool) : M unit :=
  if amount =? 0 then ret tt else
    h <- m_get_holding a asset ;;
    hh <- some_or_fail h ;;
    guard (negb (h_frozen hh && negb bypass)) E_APPLY ;;;
    let '(v, o) := oadd 64 (h_amount hh) amount in
    if o then fail E_APPLY else m_put_holding a asset (mkH v (h_frozen hh)).

Definition asset_transfer (E : env) (sender asset amt asender rcv closeto : N) : M unit :=
  sc <- (if asender =? 0 then ret (sender, false)
         else pc <- asset_params asset ;;
              guard (negb (ap_clawback (fst pc) =? 0) && (sender =? ap_clawback (fst pc))) E_APPLY ;;;
              ret (asender, true)) ;;
  let '(source, clawback) := sc in
  when ((amt =? 0) && (rcv =? source) && negb clawback)
       (h <- m_get_holding source asset ;;
        match h with
        | Some _ => ret tt
        | None =>
          pc <- asset_params asset ;;
          record <- m_lookup source ;;
          guard (negb ((0 <? p_maxassets (e_P E)) && (p_maxassets (e_P E) <=? a_assets record))) E_APPLY ;;;
          m_put source (set_asset_counts record (a_assetparams record) (sat_inc (a_assets record))) ;;;
          m_put_holding source asset (mkH 0 (ap_dfrozen (fst pc)))
        end) ;;;
  take_out source asset amt clawback ;;;
  put_in rcv asset amt clawback ;;;
  if closeto =? 0 then ret tt else
    guard (negb clawback) E_APPLY ;;;
    record <- m_lookup source ;;
    guard (negb (a_assets record =? 0)) E_APPLY ;;;
    own <- m_get_params source asset ;;
    guard (match own with Some _ => false | None => true end) E_APPLY ;;;
    h <- m_get_holding source asset ;;
    hh <- some_or_fail h ;;
    dst <- m_get_params closeto asset ;;
    let bypass := match dst with Some _ => true | None => false end in
    take_out source asset (h_amount hh) bypass ;;;
    put_in closeto asset (h_amount hh) bypass ;;;
    h2 <- m_get_holding source asset ;;
    guard ((match h2 with Some x => h_amount x | None => 0 end) =? 0) E_APPLY ;;;
    m_put source (set_asset_counts record (a_assetparams record) (sat_dec (a_assets record))) ;;;
    m_del_holding source asset.

Definition asset_freeze (sender asset acct : N) (frozen : bool) : M unit :=
  pc <- asset_params asset ;;
  guard (negb (ap_freeze (fst pc) =? 0) && (sender =? ap_freeze (fst pc))) E_APPLY ;;;
  h <- m_get_holding acct asset ;;
  hh <- some_or_fail h ;;
  m_put_holding acct asset (mkH (h_amount hh) frozen).

(* ------------------------------------------------------------------ applications *)
(* appcow.go AllocateApp / DeallocateApp *)
Definition allocate_app (a i : N) (global : bool) (space : N * N) : M unit :=
  al <- m_allocated a i global ;;
  guard (negb al) E_APPLY ;;;
  sd <- m_ensure_sd a i global 2 ;;
  m_put_sd a i global (mkSD 2 (sd_kv sd) (sd_counts sd) space) ;;;
  when global (m_set_app_creatable i (Some a)).

Definition deallocate_app (a i : N) (global : bool) : M unit :=
  al <- m_allocated a i global ;;
  guard al E_APPLY ;;;
  m_put_sd a i global (mkSD 3 [] (0, 0) (0, 0)) ;;;
  when global (m_set_app_creatable i None).

(* appcow.go setKey / delKey (key and value length limits are not modelled) *)
Definition set_key (a i : N) (global : bool) (key : N) (isbytes : bool) : M unit :=
  al <- m_allocated a i global ;;
  guard al E_APPLY ;;;
  old <- m_getkey a i global key ;;
  oldv <- some_or_fail old ;;
  sd <- m_ensure_sd a i global 1 ;;
  let sd' := mkSD (sd_action sd) (aupsert key (Some isbytes) (sd_kv sd))
                  (update_counts (sd_counts sd) oldv (Some isbytes)) (sd_max sd) in
  m_put_sd a i global sd' ;;;
  guard (counts_ok sd') E_APPLY.

Definition del_key (a i : N) (global : bool) (key : N) : M unit :=
  al <- m_allocated a i global ;;
  guard al E_APPLY ;;;
  old <- m_getkey a i global key ;;
  oldv <- some_or_fail old ;;
  sd <- m_ensure_sd a i global 1 ;;
  m_put_sd a i global (mkSD (sd_action sd) (aupsert key None (sd_kv sd))
                            (update_counts (sd_counts sd) oldv None) (sd_max sd)).

(* applications.go NewBox / DelBox: the counters of the application account *)
Definition new_box (E : env) (app name nlen size : N) : M unit :=
  guard (nlen <=? p_maxkeylen (e_P E)) E_APPLY ;;;
  guard (negb (nlen =? 0)) E_APPLY ;;;
  guard (size <=? p_maxboxsize (e_P E)) E_APPLY ;;;
  ex <- m_get_box app name ;;
  guard (match ex with Some _ => false | None => true end) E_APPLY ;;;
  record <- m_lookup (app_addr app) ;;
  m_put (app_addr app) (set_box_counts record (addsat 64 (a_boxes record) 1)
                                       (addsat 64 (a_boxbytes record) ((nlen + size) mod 2 ^ 64))) ;;;
  m_put_box app name (Some size).

Definition del_box (app name nlen : N) : M bool :=
  ex <- m_get_box app name ;;
  match ex with
  | None => ret false
  | Some size =>
    record <- m_lookup (app_addr app) ;;
    m_put (app_addr app) (set_box_counts record (subsat 64 (a_boxes record) 1)
                                         (subsat 64 (a_boxbytes record) ((nlen + size) mod 2 ^ 64))) ;;;
    m_put_box app name None ;;;
    ret true
  end.

(* logic/box.go lengthChecks *)
Definition length_checks (E : env) (nlen size : N) : M unit :=
  guard (negb (nlen =? 0)) E_APPLY ;;;
  guard (nlen <=? p_maxkeylen (e_P E)) E_APPLY ;;;
  guard (size <=? p_maxboxsize (e_P E)) E_APPLY.

(* the non-application transaction bodies, shared by applyTransaction and Perform *)
Definition apply_sbody (E : env) (sender : N) (b : sbody) (ad : adata) (ctr : N) : M adata :=
  match b with
  | SPay rcv amt closeto => payment E sender rcv amt closeto ad
  | SAcfg asset cp => asset_config E sender asset cp ctr ;;; ret ad
  | SAxfer asset amt asender rcv closeto => asset_transfer E sender asset amt asender rcv closeto ;;; ret ad
  | SAfrz asset acct frozen => asset_freeze sender asset acct frozen ;;; ret ad
  end.

(* applications.go Perform for one inner transaction sent by the application account
   (inner Rekey is not modelled): takeFee, incTxnCount, then the body with the new Counter *)
Definition perform (E : env) (app : N) (fee : N) (b : sbody) : M unit :=
  let itx := mkTxn (app_addr app) fee 0 0 0 true true (app_addr app) 0 0 0 0 BOther in
  ad <- take_fee E itx ad0 ;;
  m_inctxn ;;;
  ctr <- m_counter ;;
  _ <- apply_sbody E (app_addr app) b ad ctr ;;
  ret tt.

Fixpoint perform_group (E : env) (app : N) (g : list (N * sbody)) : M unit :=
  match g with
  | [] => ret tt
  | (fee, b) :: r => perform E app fee b ;;; perform_group E app r
  end.

(* one instruction of the program of application [app] called by [sender] *)
Definition run_op (E : env) (app : N) (clear : bool) (op : appop) : M unit :=
  match op with
  | OBoxCreate name nlen size =>
    length_checks E nlen size ;;;
    guard (negb clear) E_APPLY ;;;     (* "boxes may not be accessed from ClearState program" *)
    ex <- m_get_box app name ;;
    match ex with
    | Some old => guard (old =? size) E_APPLY
    | None => new_box E app name nlen size
    end
  | OBoxDel name nlen =>
    length_checks E nlen 0 ;;;
    guard (negb clear) E_APPLY ;;;
    _ <- del_box app name nlen ;; ret tt
  | OBoxResize name nlen size =>
    length_checks E nlen size ;;;
    guard (negb clear) E_APPLY ;;;
    ex <- m_get_box app name ;;
    guard (match ex with Some _ => true | None => false end) E_APPLY ;;;
    _ <- del_box app name nlen ;;
    new_box E app name nlen size
  | OGPut key isbytes =>
    cr <- m_get_app_creator app ;;
    creator <- some_or_fail cr ;;
    set_key creator app true key isbytes
  | OGDel key =>
    cr <- m_get_app_creator app ;;
    creator <- some_or_fail cr ;;
    del_key creator app true key
  | OLPut acct key isbytes => set_key acct app false key isbytes
  | OLDel acct key => del_key acct app false key
  | OInner g =>
    guard (negb clear) E_APPLY ;;;     (* IsolateClearState: "clear state programs can not issue inner transactions" *)
    guard (match g with [] => false | _ => true end) E_APPLY ;;; perform_group E app g
  | OParamSet field v =>
    (* cow_creatables.go appParamsSetter: read, copy, modify, PutAppParams into the current cow *)
    cr <- m_get_app_creator app ;;
    creator <- some_or_fail cr ;;
    p <- m_get_appparams creator app ;;
    params <- some_or_fail p ;;
    guard (field <? 2) E_APPLY ;;;
    m_put_appparams creator app
      (mkApp (app_gs params) (app_ls params) (app_pages params) (app_sponsor params)
             (if field =? 0 then v else app_fbr params) (if field =? 1 then v else app_fba params))
  | OFail => fail E_APPLY
  end.

Fixpoint run_script (E : env) (app : N) (clear : bool) (script : list appop) : M unit :=
  match script with
  | [] => ret tt
  | op :: r => run_op E app clear op ;;; run_script E app clear r
  end.

(* appcow.go StatefulEval: the program runs in a child of the transaction's cow ("calf");
   only an approving program is committed; the calf is recycled in every case *)
Definition stateful_eval (E : env) (app : N) (clear : bool) (script : list appop) (accept : bool) : M bool :=
  fun c => match run_script E app clear script (child c) with
           | (c1, Err e) => (recycle c1, Err e)
           | (c1, Ok _) => if accept then (commit c1, Ok true) else (recycle c1, Ok false)
           end.

Definition schema_add (x y : N * N) : N * N := (addsat 64 (fst x) (fst y), addsat 64 (snd x) (snd y)).
Definition schema_sub (x y : N * N) : N * N := (subsat 64 (fst x) (fst y), subsat 64 (snd x) (snd y)).
Definition acct_schema (x : acct) : N * N := (a_schema_u x, a_schema_b x).
Definition with_app_counts (x : acct) (sch : N * N) (pages appparams applocals : N) : acct :=
  set_app_counts x (fst sch) (snd sch) pages appparams applocals.

(* apply/application.go createApplication *)
Definition create_application (E : env) (creator : N) (call : appcall) (ctr : N) : M N :=
  record <- m_lookup creator ;;
  guard (negb ((0 <? p_maxappscreated (e_P E)) && (p_maxappscreated (e_P E) <=? a_appparams record))) E_APPLY ;;;
  let idx := (ctr + 1) mod 2 ^ 64 in
  present <- m_get_appparams creator idx ;;
  guard (match present with Some _ => false | None => true end) E_APPLY ;;;
  m_put creator (with_app_counts record (schema_add (acct_schema record) (ac_gs call))
                                 (addsat 32 (a_extrapages record) (ac_pages call))
                                 (addsat 64 (a_appparams record) 1) (a_applocals record)) ;;;
  m_put_appparams creator idx (mkApp (ac_gs call) (ac_ls call) (ac_pages call) 0 false false) ;;;
  allocate_app creator idx true (ac_gs call) ;;;
  ret idx.

Definition optin_application (E : env) (sender app : N) (params : appparams) : M unit :=
  record <- m_lookup sender ;;
  has <- m_get_applocal sender app ;;
  guard (match has with Some _ => false | None => true end) E_APPLY ;;;
  guard (negb ((0 <? p_maxappsoptedin (e_P E)) && (p_maxappsoptedin (e_P E) <=? a_applocals record))) E_APPLY ;;;
  m_put sender (with_app_counts record (schema_add (acct_schema record) (app_ls params))
                                (a_extrapages record) (a_appparams record) (addsat 64 (a_applocals record) 1)) ;;;
  m_put_applocal sender app (app_ls params) ;;;
  allocate_app sender app false (app_ls params).

Definition closeout_application (sender app : N) : M unit :=
  record <- m_lookup sender ;;
  guard (negb (a_applocals record =? 0)) E_APPLY ;;;
  ls <- m_get_applocal sender app ;;
  schema <- some_or_fail ls ;;
  m_put sender (with_app_counts record (schema_sub (acct_schema record) schema)
                                (a_extrapages record) (a_appparams record) (subsat 64 (a_applocals record) 1)) ;;;
  m_del_applocal sender app ;;;
  deallocate_app sender app false.

Definition delete_application (E : env) (creator app : N) : M unit :=
  p <- m_get_appparams creator app ;;
  (* GetAppParams' "not found" is ignored by the Go code: zero params *)
  let params := match p with Some x => x | None => mkApp (0, 0) (0, 0) 0 0 false false end in
  record <- m_lookup creator ;;
  m_put creator (with_app_counts record (acct_schema record) (a_extrapages record)
                                 (subsat 64 (a_appparams record) 1) (a_applocals record)) ;;;
  let sponsor := if app_sponsor params =? 0 then creator else app_sponsor params in
  record2 <- m_lookup sponsor ;;
  m_put sponsor (with_app_counts record2 (schema_sub (acct_schema record2) (app_gs params))
                                 (if p_properpages (e_P E) then subsat 32 (a_extrapages record2) (app_pages params)
                                  else a_extrapages record2)
                                 (a_appparams record2) (a_applocals record2)) ;;;
  m_del_appparams creator app ;;;
  deallocate_app creator app true.

(* apply/application.go ApplicationCall (program checks of create / update are assumed to
   pass: the programs are the harness's interpreter) *)
Definition application_call (E : env) (sender : N) (call : appcall) (ctr : N) : M unit :=
  app <- (if ac_app call =? 0 then create_application E sender call ctr else ret (ac_app call)) ;;
  cr <- m_get_app_creator app ;;
  p <- (match cr with
        | None => ret None
        | Some creator => pp <- m_get_appparams creator app ;; x <- some_or_fail pp ;; ret (Some (x, creator))
        end) ;;
  guard (match p with Some _ => true | None => ac_oc call =? 3 end) E_APPLY ;;;
  if ac_oc call =? 3 then
    has <- m_get_applocal sender app ;;
    guard (match has with Some _ => true | None => false end) E_APPLY ;;;
    (* a failing or rejecting ClearStateProgram is ignored: its calf is simply dropped *)
    (match p with
     | None => ret tt
     | Some _ => fun c => match stateful_eval E app true (ac_script call) (ac_accept call) c with
                          | (c1, _) => (c1, Ok tt)
                          end
     end) ;;;
    closeout_application sender app
  else
    match p with
    | None => fail E_APPLY
    | Some (params, creator) =>
      when (ac_oc call =? 1) (optin_application E sender app params) ;;;
      approved <- stateful_eval E app false (ac_script call) (ac_accept call) ;;
      guard approved E_APPLY ;;;
      if (ac_oc call =? 0) || (ac_oc call =? 1) then ret tt
      else if ac_oc call =? 2 then closeout_application sender app
      else if ac_oc call =? 5 then delete_application E creator app
      else fail E_APPLY
    end.

(* ------------------------------------------------------------------ applyTransaction *)
(* [ctr] = cow.Counter() taken by transaction() before the call *)
Definition apply_transaction (E : env) (tx : txn) (ctr : N) : M adata :=
  ad <- take_fee E tx ad0 ;;
  rekey tx ;;;
  match t_body tx with
  | BApp call => application_call E (t_sender tx) call ctr ;;; ret ad
  | BPay rcv amt closeto => payment E (t_sender tx) rcv amt closeto ad
  | BKeyreg vpk spk sppk vf vl vkd np => keyreg E (t_sender tx) (t_fee tx) vpk spk sppk vf vl vkd np ;;; ret ad
  | BAcfg asset cp => asset_config E (t_sender tx) asset cp ctr ;;; ret ad
  | BAxfer asset amt asender rcv closeto => asset_transfer E (t_sender tx) asset amt asender rcv closeto ;;; ret ad
  | BAfrz asset acct frozen => asset_freeze (t_sender tx) asset acct frozen ;;; ret ad
  | BOther => fail E_APPLY
  end.
