(* C44: the executable checker.  A case is one whole history driven through the REAL
   TransactionPool on a real ledger:
     (c44 (P minfee minbal maxlife maxgroup maxbytes spint) (maxsize expf)
          (L round spnext ((addr bal) ...))
          (OP ...))
   OP = (ini OBS)                      observation right after MakeTransactionPool
      | (rem GROUP would OBS)          Remember; would = 1/0: an independent fresh evaluator at the
                                       latest round accepted / rejected GROUP on top of the pending
                                       groups (2 = not asked: the pool need not be in sync)
      | (blk (GROUP ...))              the ledger appended a block with these groups
      | (onb round (txid ...) OBS)     OnNewBlock(block of that round, delta with these Txids)
   GROUP = (TX ...), TX = (id kind snd rcv amt fee fv lv lease close enc ib gid)
   OBS = (res ((txid ...) ...) nsp over npwb ftm fpb sync esync replay (txid ...) (txid ...) cnt):
      error tag of the call ("ok" / "none"), PendingTxGroups as txid lists, number of pending
      singleton state-proof groups, stateproofOverflowed, numPendingWholeBlocks,
      feeThresholdMultiplier, FeePerByte(), sync: the pool's evaluator is for latest+1, esync:
      the pool MUST be in sync by the calls made so far (an OnNewBlock for a block at or above
      the round the pool was working on has been delivered since the ledger last grew; computed
      by the harness from its own calls), and the index of the first pending group that an
      independent fresh evaluator at the latest round rejects when the pending groups are
      replayed in order (-1: none; only computed when esync); then the pool's other views of
      what it holds: the keys PendingTxIDs() returns, the txids (among all transactions the
      harness ever built) that Lookup() reports as still in the pool, and PendingCount().
   spec_ok (obs_hard_ok / obs_trans_ok / overflow_class) looks ONLY at the inputs and the observations.
   No proofs in this file. *)
From Coq Require Import NArith ZArith List Bool String.
Import ListNotations.
From Verif.lib Require Import Term.
From Verif.model Require Import TxPool TxPoolEval.
Open Scope N_scope.

(* ---------- the property on one observation (independent of the model) ---------- *)
Record obs : Type := mkObs {
  o_res : option N;             (* None = nil error *)
  o_pend : list (list N);
  o_nsp : N;
  o_over : bool;
  o_npwb : N; o_ftm : N; o_fpb : N;
  o_sync : bool;                (* the implementation's evaluator is for latest+1 *)
  o_esync : bool;               (* the call sequence obliges the pool to be in sync *)
  o_replay : Z;
  o_ids : list N;               (* PendingTxIDs() *)
  o_lkp : list N;               (* txids for which Lookup() answers "in the pool" *)
  o_cnt : N                     (* PendingCount() *)
}.

Fixpoint nodupb (l : list N) : bool :=
  match l with
  | [] => true
  | x :: r => negb (existsb (N.eqb x) r) && nodupb r
  end.
Definition memb (x : N) (l : list N) : bool := existsb (N.eqb x) l.
Definition subsetb (a b : list N) : bool := forallb (fun x => memb x b) a.
Definition same_set (a b : list N) : bool := subsetb a b && subsetb b a.
Definition total (o : obs) : N := N.of_nat (List.length (List.concat (o_pend o))).

(* admitted = the operation was a Remember that returned nil; would = the oracle's answer *)
Definition obs_hard_ok (maxsize : N) (committed : list N) (admitted : bool) (would : N) (o : obs) : bool :=
  nodupb (List.concat (o_pend o))
  && (negb (o_esync o) || o_sync o)
  && (negb (o_esync o) || forallb (fun id => negb (memb id committed)) (List.concat (o_pend o)))
  && (negb (o_esync o) || (o_replay o =? -1)%Z)
  && (total o <=? maxsize + o_nsp o)
  && negb (admitted && (would =? 0))
  (* every view of "what the pool holds" shows exactly the transactions of the pending groups *)
  && same_set (o_ids o) (List.concat (o_pend o))
  && same_set (o_lkp o) (List.concat (o_pend o))
  && (o_cnt o =? total o).

(* how PendingTxGroups may change across one call (inputs: the submitted group; observations:
   the pending lists before and after).  opk: 0 = first observation, 1 = Remember, 2 = OnNewBlock *)
Fixpoint is_subseq (a b : list (list N)) : bool :=    (* a is a subsequence of b *)
  match a, b with
  | [], _ => true
  | _ :: _, [] => false
  | x :: a', y :: b' => if list_eqb N.eqb x y then is_subseq a' b' else is_subseq a b'
  end.
Definition groups_eqb (a b : list (list N)) : bool := list_eqb (list_eqb N.eqb) a b.

(* spsingle: the submitted group is one state-proof transaction (from the input descriptor) *)
Definition obs_trans_ok (maxsize : N) (opk : N) (prev : list (list N)) (gids : list N) (spsingle : bool)
           (admitted : bool) (o : obs) : bool :=
  if opk =? 1 then
    (if admitted then groups_eqb (o_pend o) (prev ++ [gids]) && ((total o <=? maxsize) || spsingle)
     else groups_eqb (o_pend o) prev)
  else if opk =? 2 then is_subseq (o_pend o) prev
  else true.

(* 0: within the configured size; 1: over by exactly one with a singleton state proof pending;
   2: over by k >= 2 (k <= pending singleton state proofs) *)
Definition overflow_class (maxsize : N) (o : obs) : N :=
  if total o <=? maxsize then 0
  else if total o =? maxsize + 1 then 1 else 2.

(* ---------- decoding ---------- *)
Definition as_tx (t : term) : option tx :=
  match as_N_list t with
  | Some [id; kind; snd_; rcv; amt; fee; fv; lv; lease; close; enc; ib; gid] =>
      Some (mkTx id kind snd_ rcv amt fee fv lv lease close enc ib gid)
  | _ => None
  end.
Definition as_group (t : term) : option (list tx) :=
  match t with TL l => map_opt as_tx l | _ => None end.
Definition as_groups (t : term) : option (list (list tx)) :=
  match t with TL l => map_opt as_group l | _ => None end.
Definition as_bal (t : term) : option (N * N) :=
  match as_N_list t with Some [a; v] => Some (a, v) | _ => None end.

Definition tag_code (s : string) : option (option N) :=
  if String.eqb s "ok" then Some None
  else if String.eqb s "none" then Some None
  else if String.eqb s "cap" then Some (Some C_cap)
  else if String.eqb s "pending_eval" then Some (Some C_noeval)
  else if String.eqb s "fee" then Some (Some C_fee)
  else if String.eqb s "txn_dead" then Some (Some C_dead)
  else if String.eqb s "no_space" then Some (Some C_nospace)
  else if String.eqb s "txn_early" then Some (Some C_early)
  else if String.eqb s "too_large" then Some (Some C_toolarge)
  else if String.eqb s "groupid" then Some (Some C_groupid)
  else if String.eqb s "txid" then Some (Some C_txid)
  else if String.eqb s "lease" then Some (Some C_lease)
  else if String.eqb s "txid_eval" then Some (Some C_txid_eval)
  else if String.eqb s "lease_eval" then Some (Some C_lease_eval)
  else if String.eqb s "not_well" then Some (Some C_notwell)
  else if String.eqb s "min_balance" then Some (Some C_minbal)
  else if String.eqb s "overspend" then Some (Some C_overspend)
  else if String.eqb s "eval" then Some (Some C_eval)
  else None.

Definition as_obs (t : term) : option obs :=
  match t with
  | TL [TS res; TL pend; nsp; over; npwb; ftm; fpb; sync; esync; TZ replay; ids; lkp; cnt] =>
      match tag_code res, map_opt as_N_list pend, as_N nsp, as_bool over, as_N npwb, as_N ftm, as_N fpb, as_bool sync, as_bool esync with
      | Some r, Some p, Some a, Some b, Some c, Some d, Some e, Some f, Some g =>
          match as_N_list ids, as_N_list lkp, as_N cnt with
          | Some i, Some l, Some n => Some (mkObs r p a b c d e f g replay i l n)
          | _, _, _ => None
          end
      | _, _, _, _, _, _, _, _, _ => None
      end
  | _ => None
  end.

(* ---------- the model's observation ---------- *)
Definition opt_term (r : option N) : term := match r with None => TZ (-1) | Some e => tn e end.
Definition model_sync (p : ppool) : bool :=
  match p_eval p with Some (c, _) => c_round c =? c_round (p_ledger p) + 1 | None => false end.
Definition model_obs (r : option N) (p : ppool) : term :=
  TL [opt_term r; TL (map (fun g => TL (map (fun t => tn (t_id t)) g)) (p_pending p));
      tb (p_over p); tn (p_npwb p); tn (p_ftm p); tn (p_fpb p); tb (model_sync p)].
Definition impl_obs (o : obs) : term :=
  TL [opt_term (o_res o); TL (map (fun g => TL (map tn g)) (o_pend o));
      tb (o_over o); tn (o_npwb o); tn (o_ftm o); tn (o_fpb o); tb (o_sync o)].

(* ---------- running a history ---------- *)
Record kst : Type := mkK {
  k_sys : option psys;      (* None: the model could not follow (a block it rejects) *)
  k_com : list N;           (* txids of all blocks so far (inputs) *)
  k_hard : bool;            (* obs_hard_ok so far *)
  k_cls : N;                (* worst overflow_class so far *)
  k_corr : bool;
  k_first : term;           (* first difference (op index, model observation) *)
  k_bad : bool;
  k_adm : N; k_rej : N; k_drop : N;     (* admitted / rejected submissions, recomputes that dropped a group *)
  k_prev : list (list N)    (* PendingTxGroups observed after the previous operation *)
}.

Definition upd (c : kst) (idx : N) (s' : option psys) (com : list N) (hard : bool) (o : obs)
           (maxsize : N) (mobs : option term) (adm rej : bool) (isonb : bool) : kst :=
  let good := match mobs with Some m => term_eqb m (impl_obs o) | None => false end in
  let npend := N.of_nat (List.length (o_pend o)) in
  mkK s' com (k_hard c && hard) (N.max (k_cls c) (overflow_class maxsize o))
      (k_corr c && good)
      (if k_hard c && negb hard then TL [tn idx; TS "spec_fails_at_this_operation"]
       else if negb (k_hard c) then k_first c
       else if k_corr c && negb good then TL [tn idx; match mobs with Some m => m | None => TS "model_lost" end] else k_first c)
      false
      (if adm then k_adm c + 1 else k_adm c) (if rej then k_rej c + 1 else k_rej c)
      (if isonb && (npend <? N.of_nat (List.length (k_prev c))) then k_drop c + 1 else k_drop c)
      (o_pend o).

Definition do_op (P : eparams) (maxsize expf : N) (c : kst) (idx : N) (t : term) : kst :=
  if k_bad c then c else
  let bad := mkK (k_sys c) (k_com c) (k_hard c) (k_cls c) (k_corr c) (k_first c) true
                 (k_adm c) (k_rej c) (k_drop c) (k_prev c) in
  match t with
  | TL [TS "ini"; ot] =>
      match as_obs ot with
      | Some o =>
          upd c idx (k_sys c) (k_com c) (obs_hard_ok maxsize (k_com c) false 2 o) o maxsize
              (match k_sys c with Some s => Some (model_obs None (s_pool s)) | None => None end)
              false false false
      | None => bad
      end
  | TL [TS "rem"; gt; wt; ot] =>
      match as_group gt, as_N wt, as_obs ot with
      | Some g, Some would, Some o =>
          let admitted := match o_res o with None => true | Some _ => false end in
          let spsingle := match g with [t] => t_kind t =? 1 | _ => false end in
          let hard := obs_hard_ok maxsize (k_com c) admitted would o
                      && obs_trans_ok maxsize 1 (k_prev c) (map t_id g) spsingle admitted o in
          match k_sys c with
          | Some s =>
              let '(s', r) := p_step P maxsize expf s (ORemember g) in
              upd c idx (Some s') (k_com c) hard o maxsize (Some (model_obs r (s_pool s'))) admitted (negb admitted) false
          | None => upd c idx None (k_com c) hard o maxsize None admitted (negb admitted) false
          end
      | _, _, _ => bad
      end
  | TL [TS "blk"; gst] =>
      match as_groups gst with
      | Some gs =>
          let com := k_com c ++ map t_id (List.concat gs) in
          match k_sys c with
          | Some s =>
              match c_step P maxsize expf s (CBlock gs) with
              | Some (s', _) =>
                  mkK (Some s') com (k_hard c) (k_cls c) (k_corr c) (k_first c) false
                      (k_adm c) (k_rej c) (k_drop c) (k_prev c)
              | None =>
                  mkK None com (k_hard c) (k_cls c) false
                      (if k_corr c then TL [tn idx; TS "model_rejects_block"] else k_first c) false
                      (k_adm c) (k_rej c) (k_drop c) (k_prev c)
              end
          | None => mkK None com (k_hard c) (k_cls c) (k_corr c) (k_first c) false
                        (k_adm c) (k_rej c) (k_drop c) (k_prev c)
          end
      | None => bad
      end
  | TL [TS "onb"; rt; idst; ot] =>
      match as_N rt, as_N_list idst, as_obs ot with
      | Some r, Some ids, Some o =>
          let hard := obs_hard_ok maxsize (k_com c) false 2 o
                      && obs_trans_ok maxsize 2 (k_prev c) [] false false o in
          match k_sys c with
          | Some s =>
              let '(s', _) := p_step P maxsize expf s (OOnNewBlock r ids) in
              upd c idx (Some s') (k_com c) hard o maxsize (Some (model_obs None (s_pool s'))) false false true
          | None => upd c idx None (k_com c) hard o maxsize None false false true
          end
      | _, _, _ => bad
      end
  | _ => bad
  end.

Fixpoint do_ops (P : eparams) (maxsize expf : N) (c : kst) (idx : N) (l : list term) : kst :=
  match l with [] => c | t :: r => do_ops P maxsize expf (do_op P maxsize expf c idx t) (idx + 1) r end.

Definition name_by_one : string := "stateproof_txn_overflows_pool_by_one".
Definition name_accum : string := "stateproof_overflow_accumulates_across_blocks".

Definition check (t : term) : term :=
  match t with
  | TL [TS "c44"; TL [TS "P"; a1; a2; a3; a4; a5; a6]; TL [ms; ef]; TL [TS "L"; rd; sp; TL bals]; TL ops] =>
      match as_N a1, as_N a2, as_N a3, as_N a4, as_N a5, as_N a6 with
      | Some minfee, Some minbal_, Some maxlife, Some maxgroup, Some maxbytes, Some spint =>
        match as_N ms, as_N ef, as_N rd, as_N sp, map_opt as_bal bals with
        | Some maxsize, Some ef, Some rd, Some sp, Some bl =>
            let P := mkEP minfee minbal_ maxlife maxgroup maxbytes spint in
            let expf := clamp_expf ef in
            let l0 := mkCst rd bl [] [] sp in
            let c0 := mkK (Some (p_init P l0)) [] true 0 true (TL []) false 0 0 0 [] in
            let c := do_ops P maxsize expf c0 0 ops in
            if k_bad c then v_parse
            else if negb (k_hard c) then v_viol (k_first c)
            else if negb (k_corr c) then v_diff (k_first c)
            else if k_cls c =? 2 then v_known name_accum (TL [])
            else if k_cls c =? 1 then v_known name_by_one (TL [])
            else if (0 <? k_adm c) && (0 <? k_rej c) && (0 <? k_drop c) then v_ok else v_triv
        | _, _, _, _, _ => v_parse
        end
      | _, _, _, _, _, _ => v_parse
      end
  | _ => v_parse
  end.
