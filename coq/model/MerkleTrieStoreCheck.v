(* C17: executable comparison of the store model (model/MerkleTrieStore.v) with the dumps of the
   real merkleTrieCache written by the harness after every operation, and dispatch between the
   two kinds of C17 cases.  No proofs.

   case = (st npp (op ...) (dump ...))      one dump per op
     op   = (a #k) | (d #k) | (c RHO next') | (e flag RHO next' (page ...)) | (r) | (h RHO next')
            RHO = ((old new) ...): the ids re-allocated by the commit the op performed (empty and
            next' = 0 when it did not commit); (page ...) = the pages Evict released
     dump = (res root next elen deferred modified (created id ...) (delpages p ...)
             (mem (id node) ...) (disk (id node) ...) (dhas droot dnext delen))
            node = #suffix (leaf) | ((hashIndex childid) ...) *)
From Coq Require Import List NArith ZArith Bool String.
From Verif.lib Require Import Term.
From Verif.model Require Import MerkleTrie MerkleTrieSpec MerkleTrieStore MerkleTrieStoreRel.
Import ListNotations.
Open Scope N_scope.

Definition as_pair (t : term) : option (N * N) :=
  match t with TL [a; b] => match as_N a, as_N b with Some x, Some y => Some (x, y) | _, _ => None end | _ => None end.

Definition as_rho (t : term) : option (list (N * N)) :=
  match t with TL l => map_opt as_pair l | _ => None end.

Definition pop_of_term (t : term) : option pop :=
  match t with
  | TL [TS "a"; TB k] => Some (PAdd k)
  | TL [TS "d"; TB k] => Some (PDel k)
  | TL [TS "c"; r; n] => match as_rho r, as_N n with Some r, Some n => Some (PCommit r n) | _, _ => None end
  | TL [TS "e"; f; r; n; d] =>
      match as_bool f, as_rho r, as_N n, as_N_list d with
      | Some f, Some r, Some n, Some d => Some (PEvict f r n d)
      | _, _, _, _ => None
      end
  | TL [TS "r"] => Some PReload
  | TL [TS "h"; r; n] => match as_rho r, as_N n with Some r, Some n => Some (PRootHash r n) | _, _ => None end
  | _ => None
  end.

Definition snode_of_term (t : term) : option snode :=
  match t with
  | TB h => Some (SLeaf h)
  | TL l => match map_opt as_pair l with Some cs => Some (SNode cs) | None => None end
  | _ => None
  end.

Definition entry_of_term (t : term) : option (N * snode) :=
  match t with
  | TL [i; n] => match as_N i, snode_of_term n with Some i, Some n => Some (i, n) | _, _ => None end
  | _ => None
  end.

Record dump := {
  d_res : term; d_root : N; d_next : N; d_elen : N; d_deferred : N; d_modified : bool;
  d_created : list N; d_delpages : list N;
  d_mem : list (N * snode); d_disk : list (N * snode);
  d_dhas : bool; d_droot : N; d_dnext : N; d_delen : N
}.

Definition dump_of_term (t : term) : option dump :=
  match t with
  | TL [res; root; next; elen; def; modi; TL (TS "created" :: cr); TL (TS "delpages" :: dp);
        TL (TS "mem" :: mem); TL (TS "disk" :: disk); TL [dhas; droot; dnext; delen]] =>
      match as_N root, as_N next, as_N elen, as_N def, as_bool modi with
      | Some root, Some next, Some elen, Some def, Some modi =>
          match map_opt as_N cr, map_opt as_N dp, map_opt entry_of_term mem, map_opt entry_of_term disk with
          | Some cr, Some dp, Some mem, Some disk =>
              match as_bool dhas, as_N droot, as_N dnext, as_N delen with
              | Some dhas, Some droot, Some dnext, Some delen =>
                  Some {| d_res := res; d_root := root; d_next := next; d_elen := elen; d_deferred := def;
                          d_modified := modi; d_created := cr; d_delpages := dp; d_mem := mem; d_disk := disk;
                          d_dhas := dhas; d_droot := droot; d_dnext := dnext; d_delen := delen |}
              | _, _, _, _ => None
              end
          | _, _, _, _ => None
          end
      | _, _, _, _, _ => None
      end
  | _ => None
  end.

Fixpoint heap_of (l : list (N * snode)) : heap :=
  match l with
  | [] => hempty
  | (i, n) :: l' => fun x => if x =? i then Some n else heap_of l' x
  end.

Definition pairs_eqb (a b : list (N * N)) : bool :=
  list_eqb (fun p q => (fst p =? fst q) && (snd p =? snd q)) a b.

Definition snode_eqb (a b : snode) : bool :=
  match a, b with
  | SLeaf x, SLeaf y => key_eqb x y
  | SNode x, SNode y => pairs_eqb x y
  | _, _ => false
  end.

Definition subsetN (a b : list N) : bool := forallb (fun x => existsb (N.eqb x) b) a.
Definition seteqN (a b : list N) : bool := subsetN a b && subsetN b a.

(* the model's function [h], restricted to the ids below [next], is exactly the dumped map *)
Definition heap_matches (h : heap) (next : N) (l : list (N * snode)) : bool :=
  forallb (fun e => match h (fst e) with Some n => snode_eqb n (snd e) | None => false end) l &&
  Nat.eqb (List.length (filter (fun x => match h x with Some _ => true | None => false end)
                               (range (N.to_nat (next - base_id)) base_id)))
          (List.length l).

Definition term_of_pres (r : pres) : term :=
  match r with
  | PBool b => tb b
  | PErr => TS "err"
  | PFail => TS "fail"
  | POk => TS "ok"
  | PRoot => TS "root"
  | PBadOracle => TS "badoracle"
  end.

Definition blind_digest (t : term) : term := match t with TB _ => TS "root" | _ => t end.

Definition state_matches (s : pstore) (r : pres) (d : dump) : bool :=
  term_eqb (blind_digest (d_res d)) (term_of_pres r) &&
  (p_root s =? d_root d) && (p_next s =? d_next d) &&
  ((p_root s =? 0) || (N.of_nat (p_elen s) =? d_elen d)) &&
  (p_deferred s =? d_deferred d) && Bool.eqb (p_modified s) (d_modified d) &&
  seteqN (p_created s) (d_created d) && seteqN (p_delpages s) (d_delpages d) &&
  heap_matches (p_mem s) (p_next s) (d_mem d) && heap_matches (p_disk s) (p_next s) (d_disk d) &&
  Bool.eqb (p_dhas s) (d_dhas d) &&
  (negb (p_dhas s) || ((p_droot s =? d_droot d) && (p_dnext s =? d_dnext d) &&
                       ((p_droot s =? 0) || (N.of_nat (p_delen s) =? d_delen d)))).

(* the property on the implementation's own dump: the stored pages alone unfold, from the
   stored root, to the canonical trie of the committed set, and memory-over-pages unfolds, from
   the live root, to the canonical trie of the current set *)
Definition dump_ok (d : dump) (cur committed : kset) : bool :=
  let disk := heap_of (d_disk d) in
  let mem := heap_of (d_mem d) in
  let live : heap := fun x => match mem x with Some n => Some n | None => disk x end in
  let lt := if d_root d =? 0 then None else unfold live (S (N.to_nat (d_elen d))) (d_root d) in
  let ct := if negb (d_dhas d) || (d_droot d =? 0) then None
            else unfold disk (S (N.to_nat (d_delen d))) (d_droot d) in
  otrie_eqb lt (canon_set cur) && otrie_eqb ct (canon_set committed).

Fixpoint walk (npp : N) (s : pstore) (ss : sstate) (ops : list pop) (ds : list dump)
  : list (bool * bool) * nat :=          (* per step: spec_ok, corr; number of interesting steps *)
  match ops, ds with
  | o :: ops', d :: ds' =>
      let '(s1, r) := pstep npp true s o in
      let '(ss1, sr) := sstep ss (erase_op o) in
      let spec1 := term_eqb (blind_digest (d_res d)) (term_of_res false sr) &&
                   dump_ok d (s_cur ss1) (s_committed ss1) in
      let corr1 := state_matches s1 r d in
      let '(l, n) := walk npp s1 ss1 ops' ds' in
      let interesting := match o with
                         | PCommit (_ :: _) _ | PRootHash (_ :: _) _ | PEvict _ (_ :: _) _ _ => 1%nat
                         | PEvict _ _ _ (_ :: _) => 1%nat
                         | PReload => 1%nat
                         | _ => 0%nat
                         end in
      ((spec1, corr1) :: l, (interesting + n)%nat)
  | _, _ => ([], 0%nat)
  end.

Definition check_store (t : term) : term :=
  match t with
  | TL [TS "st"; TZ npp; TL ops; TL dumps] =>
      match map_opt pop_of_term ops, map_opt dump_of_term dumps with
      | Some ops, Some ds =>
          if (Z.to_N npp =? 0) || negb (Nat.eqb (List.length ops) (List.length ds)) then v_parse else
          let '(l, n) := walk (Z.to_N npp) p_init s_init ops ds in
          verdict (forallb fst l) (forallb snd l) (Nat.leb 1 n)
                  (TL (map (fun p => TL [tb (fst p); tb (snd p)]) l))
      | _, _ => v_parse
      end
  | _ => v_parse
  end.

Definition check (t : term) : term :=
  match t with
  | TL (TS "st" :: _) => check_store t
  | _ => check_seq t
  end.
