(* C02: persist-before-release wrapper around ANY deterministic vote-emitting state machine
   (agreement/service.go mainLoop + demuxLoop, persistence.go asyncPersistenceLoop,
   pseudonode.go: votes wait for persistStateDone).

   [fixed = true]  models the code with the repair of /verif/fixes/C02.patch: after a restart
                   the restored state is what a re-executed attest action persists.
   [fixed = false] models the unrepaired code: the re-executed attest persists the
                   zero-valued Service.persist* fields (an empty state).
   No proofs in this file. *)
From Coq Require Import List Bool.
Import ListNotations.

Section Durable.

Variables S E V : Type.
Variable init : S.
Variable step : S -> E -> S * list V.   (* new state, votes of the attest actions emitted *)
Variable fixed : bool.

Fixpoint state_of (s : S) (evs : list E) : S :=
  match evs with [] => s | e :: evs' => state_of (fst (step s e)) evs' end.

(* all votes attested along the run from s *)
Fixpoint run_votes (s : S) (evs : list E) : list V :=
  match evs with [] => [] | e :: evs' => snd (step s e) ++ run_votes (fst (step s e)) evs' end.

(* what is written to the crash database: the event path that led to the state (ghost
   representation of the encoded router+player) and the saved attest actions' votes *)
Inductive snapshot := SnapZero | Snap (p : list E) (vs : list V).

Record dstate := {
  path : list E;                         (* ghost: events that led to the volatile state *)
  disk : option snapshot;
  queue : list (snapshot * list V);      (* FIFO of persist requests with the votes waiting on them *)
  released : list V                      (* votes that reached the network *)
}.

Definition d_init : dstate := {| path := []; disk := None; queue := []; released := [] |}.

Inductive dop :=
| Ev (e : E)          (* mainLoop handles one event; attest actions enqueue a persist request *)
| PersistOk           (* persistence loop writes the oldest request; checkpoint closes `done`; votes released *)
| PersistFail         (* the write fails: the votes of that request are dropped *)
| Crash.              (* process dies; restart = restore + decode + re-emit saved actions *)

Definition dstep (d : dstate) (o : dop) : dstate :=
  match o with
  | Ev e =>
      let '(_, vs) := step (state_of init (path d)) e in
      let p' := path d ++ [e] in
      {| path := p'; disk := disk d;
         queue := match vs with [] => queue d | _ => queue d ++ [(Snap p' vs, vs)] end;
         released := released d |}
  | PersistOk =>
      match queue d with
      | [] => d
      | (snap, vs) :: q => {| path := path d; disk := Some snap; queue := q; released := released d ++ vs |}
      end
  | PersistFail =>
      match queue d with
      | [] => d
      | _ :: q => {| path := path d; disk := disk d; queue := q; released := released d |}
      end
  | Crash =>
      match disk d with
      | Some (Snap p vs) =>
          {| path := p; disk := disk d;
             queue := [((if fixed then Snap p vs else SnapZero), vs)];
             released := released d |}
      | _ => (* no usable crash state: fresh player for the round *)
          {| path := []; disk := disk d; queue := []; released := released d |}
      end
  end.

Definition drun (ops : list dop) : dstate := fold_left dstep ops d_init.

End Durable.
