(* C32 model: the arithmetic / comparison / bitwise / byte-math / conversion opcodes of
   data/transactions/logic/eval.go, transcribed at the WORD level: uint64 values are N with
   explicit [mod 2^64] where Go wraps, math/bits primitives (Add64, Mul64, Div64, Len64, Len8)
   are given their documented meaning, math/big values are unbounded N (Z where a result can
   be negative), byte strings are big-endian lists of N (< 256).  Same case split and order of
   checks as the Go functions; [Err] where the Go function returns an error.
   No proofs in this file. *)
From Coq Require Import NArith ZArith List Bool.
Import ListNotations.
Open Scope N_scope.

Definition W : N := 2 ^ 64.

(* a stack value: Bytes != nil  <->  B *)
Inductive sv : Type := U (n : N) | B (l : list N).
(* outcome of one opcode: the values it leaves in place of its arguments (bottom first) *)
Inductive res : Type := Ok (st : list sv) | Err.

Definition b2u (b : bool) : N := if b then 1 else 0.       (* boolToSV *)

(* ---- math/bits (trusted Go standard library semantics) ---- *)
Definition add64 (x y c : N) : N * N := ((x + y + c) mod W, (x + y + c) / W).   (* sum, carryOut *)
Definition mul64 (x y : N) : N * N := ((x * y) / W, (x * y) mod W).             (* hi, lo *)
Definition div64 (hi lo y : N) : N * N := ((hi * W + lo) / y, (hi * W + lo) mod y). (* panics unless hi < y; callers guard *)
Definition len64 (x : N) : N := N.size x.
Definition len8 (x : N) : N := N.size x.
(* Go shifts on uint64 *)
Definition shl64 (x s : N) : N := (N.shiftl x s) mod W.
Definition shr64 (x s : N) : N := N.shiftr x s.
Definition sub64 (x y : N) : N := (x + W - y) mod W.       (* wrapping x - y *)

(* ---- + - / % * and wide variants ---- *)
Definition opPlus (a b : N) : res :=
  let '(sum, carry) := add64 a b 0 in
  if 0 <? carry then Err else Ok [U sum].

Definition opAddw (a b : N) : res :=
  let '(sum, carry) := add64 a b 0 in Ok [U carry; U sum].

(* uint128(hi,lo), QuoRem, Rsh(.,64).Uint64(), .Uint64()  (Uint64 = low 64 bits) *)
Definition uint128 (hi lo : N) : N := N.shiftl hi 64 + lo.
Definition big_uint64 (x : N) : N := x mod W.
Definition opDivModwImpl (hiNum loNum hiDen loDen : N) : N * N * N * N :=
  let dividend := uint128 hiNum loNum in
  let divisor := uint128 hiDen loDen in
  let quo := dividend / divisor in
  let rem := dividend mod divisor in
  (big_uint64 (N.shiftr quo 64), big_uint64 quo, big_uint64 (N.shiftr rem 64), big_uint64 rem).

Definition opDivModw (hiNum loNum hiDen loDen : N) : res :=
  if (loDen =? 0) && (hiDen =? 0) then Err
  else let '(hq, lq, hr, lr) := opDivModwImpl hiNum loNum hiDen loDen in
       Ok [U hq; U lq; U hr; U lr].

Definition opMinus (a b : N) : res :=
  if a <? b then Err else Ok [U (sub64 a b)].

Definition opDiv (a b : N) : res := if b =? 0 then Err else Ok [U (a / b)].
Definition opModulo (a b : N) : res := if b =? 0 then Err else Ok [U (a mod b)].

Definition opMul (a b : N) : res :=
  let '(high, low) := mul64 a b in
  if 0 <? high then Err else Ok [U low].

Definition opMulw (a b : N) : res :=
  let '(high, low) := mul64 a b in Ok [U high; U low].

Definition opDivw (hi lo y : N) : res :=
  if y =? 0 then Err
  else if y <=? hi then Err
  else let '(quo, _) := div64 hi lo y in Ok [U quo].

(* ---- comparisons and logic: opGt = swap;Lt  opLe = Gt;Not  opGe = Lt;Not ---- *)
Definition lt_v (a b : N) : N := b2u (a <? b).
Definition not_v (x : N) : N := b2u (x =? 0).
Definition gt_v (a b : N) : N := lt_v b a.
Definition le_v (a b : N) : N := not_v (gt_v a b).
Definition ge_v (a b : N) : N := not_v (lt_v a b).
Definition and_v (a b : N) : N := b2u (negb (a =? 0) && negb (b =? 0)).
Definition or_v (a b : N) : N := b2u (negb (a =? 0) || negb (b =? 0)).

Fixpoint bytes_equal (a b : list N) : bool :=       (* bytes.Equal *)
  match a, b with
  | [], [] => true
  | x :: a', y :: b' => (x =? y) && bytes_equal a' b'
  | _, _ => false
  end.

Definition opEq (x y : sv) : res :=
  match x, y with
  | U a, U b => Ok [U (b2u (a =? b))]
  | B a, B b => Ok [U (b2u (bytes_equal a b))]
  | _, _ => Err                                    (* cannot compare (uint64 to []byte) *)
  end.
Definition opNeq (x y : sv) : res :=
  match opEq x y with Ok [U c] => Ok [U (not_v c)] | _ => Err end.

(* ---- itob / btoi ---- *)
Fixpoint be_fixed (k : nat) (n : N) : list N :=     (* binary.BigEndian.PutUint64 for k = 8 *)
  match k with
  | O => []
  | S k' => (N.shiftr n (8 * N.of_nat k')) mod 256 :: be_fixed k' n
  end.
Definition opItob (a : N) : res := Ok [B (be_fixed 8 a)].

(* value = value << 8; value = value | (uint64(b) & 0xff) *)
Definition bytes_to_int (l : list N) : N :=
  fold_left (fun value b => N.lor (shl64 value 8) (N.land b 255)) l 0.
Definition opBtoi (l : list N) : res :=
  if 8 <? N.of_nat (length l) then Err else Ok [U (bytes_to_int l)].

(* ---- | & ^ ~ shl shr ---- *)
Definition opBitOr (a b : N) : res := Ok [U (N.lor a b)].
Definition opBitAnd (a b : N) : res := Ok [U (N.land a b)].
Definition opBitXor (a b : N) : res := Ok [U (N.lxor a b)].
Definition opBitNot (a : N) : res := Ok [U (N.lxor a (W - 1))].
Definition opShiftLeft (a s : N) : res := if 63 <? s then Err else Ok [U (shl64 a s)].
Definition opShiftRight (a s : N) : res := if 63 <? s then Err else Ok [U (shr64 a s)].

(* ---- sqrt: Crenshaw's loop, 32 iterations over (sq, rem, root) ---- *)
Definition sqrt_step (st : N * N * N) : N * N * N :=
  let '(sq, rem, root) := st in
  let root := shl64 root 1 in
  let rem := N.lor (shl64 rem 2) (shr64 sq 62) in
  let sq := shl64 sq 2 in
  if root <? rem then (sq, sub64 rem (N.lor root 1), (root + 2) mod W)
  else (sq, rem, root).
Fixpoint sqrt_loop (n : nat) (st : N * N * N) : N * N * N :=
  match n with O => st | S k => sqrt_loop k (sqrt_step st) end.
Definition opSqrt (x : N) : res :=
  let '(_, _, root) := sqrt_loop 32 (x, 0, 0) in Ok [U (shr64 root 1)].

(* ---- bitlen ---- *)
Fixpoint bitlen_bytes (l : list N) : N :=
  match l with
  | [] => 0
  | b :: t => if negb (b =? 0) then len8 b + 8 * N.of_nat (length t) else bitlen_bytes t
  end.
Definition opBitLen (x : sv) : res :=
  match x with U a => Ok [U (len64 a)] | B l => Ok [U (bitlen_bytes l)] end.

(* ---- exp / expw ---- *)
Fixpoint exp_loop (n : nat) (answer base : N) : option N :=
  match n with
  | O => Some answer
  | S k => let next := (answer * base) mod W in
           if negb (next / answer =? base) then None else exp_loop k next base
  end.
Definition opExp (base exp : N) : res :=
  if (exp =? 0) && (base =? 0) then Err
  else if base =? 0 then Ok [U 0]
  else if (exp =? 0) || (base =? 1) then Ok [U 1]
  else if 64 <=? exp then Err
  else match exp_loop (N.to_nat (exp - 1)) base base with
       | Some a => Ok [U a] | None => Err end.

Fixpoint expw_loop (n : nat) (answer base : N) : option N :=
  match n with
  | O => Some answer
  | S k => let answer := answer * base in
           if 128 <? N.size answer then None else expw_loop k answer base
  end.
Definition opExpw (base exp : N) : res :=
  let out (val : N) := Ok [U (big_uint64 (N.shiftr val 64)); U (big_uint64 val)] in
  if (exp =? 0) && (base =? 0) then Err
  else if base =? 0 then out 0
  else if (exp =? 0) || (base =? 1) then out 1
  else if 128 <=? exp then Err
  else match expw_loop (N.to_nat (exp - 1)) base base with
       | Some a => out a | None => Err end.

(* ---- byte math: big.Int.SetBytes / Bytes ---- *)
Definition maxByteMathSize : N := 64.
Definition too_long (l : list N) : bool := maxByteMathSize <? N.of_nat (length l).
Definition setbytes (l : list N) : N := fold_left (fun acc b => acc * 256 + b) l 0.
Fixpoint bytes_fuel (fuel : nat) (n : N) (acc : list N) : list N :=
  match fuel with
  | O => acc
  | S f => if n =? 0 then acc else bytes_fuel f (n / 256) (n mod 256 :: acc)
  end.
(* big.Int.Bytes: minimal big-endian, zero = empty (non-nil) slice *)
Definition bigbytes (n : N) : list N := bytes_fuel (N.to_nat (N.size n)) n [].

(* opBytesBinOp with op producing a possibly negative big.Int *)
Definition bytes_binop (op : N -> N -> Z) (a b : list N) : res :=
  if too_long b || too_long a then Err
  else let r := op (setbytes a) (setbytes b) in
       if (r <? 0)%Z then Err else Ok [B (bigbytes (Z.to_N r))].

Definition opBytesPlus := bytes_binop (fun x y => Z.of_N (x + y)).
Definition opBytesMinus := bytes_binop (fun x y => (Z.of_N x - Z.of_N y)%Z).
Definition opBytesMul := bytes_binop (fun x y => Z.of_N (x * y)).
(* checkDiv/checkMod: y.BitLen() == 0 sets the inner error (result stays 0) *)
Definition opBytesDiv (a b : list N) : res :=
  match bytes_binop (fun x y => if N.size y =? 0 then 0%Z else Z.of_N (x / y)) a b with
  | Err => Err
  | Ok r => if N.size (setbytes b) =? 0 then Err else Ok r
  end.
Definition opBytesModulo (a b : list N) : res :=
  match bytes_binop (fun x y => if N.size y =? 0 then 0%Z else Z.of_N (x mod y)) a b with
  | Err => Err
  | Ok r => if N.size (setbytes b) =? 0 then Err else Ok r
  end.
Definition opBytesSqrt (a : list N) : res :=
  if too_long a then Err else Ok [B (bigbytes (N.sqrt (setbytes a)))].

Fixpoint nonzero (l : list N) : list N :=
  match l with
  | [] => []
  | b :: t => if negb (b =? 0) then l else nonzero t
  end.
Fixpoint bytes_compare (a b : list N) : comparison :=      (* bytes.Compare *)
  match a, b with
  | [], [] => Eq
  | [], _ => Lt
  | _, [] => Gt
  | x :: a', y :: b' => match x ?= y with Eq => bytes_compare a' b' | c => c end
  end.
Definition bytes_lt_v (a b : list N) : N :=
  let rhs := nonzero b in let lhs := nonzero a in
  if (length lhs <? length rhs)%nat then 1
  else if (length rhs <? length lhs)%nat then 0
  else b2u (match bytes_compare lhs rhs with Lt => true | _ => false end).
Definition opBytesLt (a b : list N) : res :=
  if too_long b || too_long a then Err else Ok [U (bytes_lt_v a b)].
Definition opBytesGt (a b : list N) : res := opBytesLt b a.
Definition opBytesLe (a b : list N) : res :=
  match opBytesGt a b with Ok [U c] => Ok [U (not_v c)] | _ => Err end.
Definition opBytesGe (a b : list N) : res :=
  match opBytesLt a b with Ok [U c] => Ok [U (not_v c)] | _ => Err end.
Definition opBytesEq (a b : list N) : res :=
  if too_long b || too_long a then Err
  else Ok [U (b2u (bytes_equal (nonzero a) (nonzero b)))].
Definition opBytesNeq (a b : list N) : res :=
  match opBytesEq a b with Ok [U c] => Ok [U (not_v c)] | _ => Err end.

(* b| b& b^ : the shorter operand is zero-padded on the left *)
Definition zpad (smaller : list N) (size : nat) : list N :=
  repeat 0 (size - length smaller) ++ smaller.
Definition bytes_logic_prep (prev last : list N) : list N * list N :=
  if (length prev <? length last)%nat then (zpad prev (length last), last)
  else (zpad last (length prev), prev).
Fixpoint zip_with (f : N -> N -> N) (a b : list N) : list N :=
  match a, b with
  | x :: a', y :: b' => f x y :: zip_with f a' b'
  | _, _ => []
  end.
Definition bytes_logic (f : N -> N -> N) (prev last : list N) : res :=
  let '(a, b) := bytes_logic_prep prev last in Ok [B (zip_with f a b)].
Definition opBytesBitOr := bytes_logic N.lor.
Definition opBytesBitAnd := bytes_logic N.land.
Definition opBytesBitXor := bytes_logic N.lxor.
Definition opBytesBitNot (a : list N) : res := Ok [B (map (fun b => N.lxor b 255) a)].

(* ---- getbit / setbit / getbyte / setbyte ---- *)
Definition set_nth (l : list N) (i : nat) (v : N) : list N := firstn i l ++ v :: skipn (S i) l.

Definition opGetBit (target : sv) (idx : N) : res :=
  match target with
  | U t => if 63 <? idx then Err
           else let mask := shl64 1 idx in Ok [U (shr64 (N.land t mask) idx)]
  | B l => let byteIdx := idx / 8 in
           if N.of_nat (length l) <=? byteIdx then Err
           else let byteVal := nth (N.to_nat byteIdx) l 0 in
                let bitIdx := idx mod 8 in
                let mask := N.shiftr 128 bitIdx in
                Ok [U (N.shiftr (N.land byteVal mask) (7 - bitIdx))]
  end.

Definition opSetBit (target : sv) (idx bit : N) : res :=
  if 1 <? bit then Err else
  match target with
  | U t => if 63 <? idx then Err
           else let mask := shl64 1 idx in
                if bit =? 1 then Ok [U (N.lor t mask)] else Ok [U (N.ldiff t mask)]
  | B l => let byteIdx := idx / 8 in
           if N.of_nat (length l) <=? byteIdx then Err
           else let bitIdx := idx mod 8 in
                let mask := N.shiftr 128 bitIdx in
                let old := nth (N.to_nat byteIdx) l 0 in
                if bit =? 1 then Ok [B (set_nth l (N.to_nat byteIdx) (N.lor old mask))]
                else Ok [B (set_nth l (N.to_nat byteIdx) (N.ldiff old mask))]
  end.

Definition opGetByte (l : list N) (idx : N) : res :=
  if N.of_nat (length l) <=? idx then Err else Ok [U (nth (N.to_nat idx) l 0)].

Definition opSetByte (l : list N) (idx v : N) : res :=
  if 255 <? v then Err
  else if N.of_nat (length l) <=? idx then Err
  else Ok [B (set_nth l (N.to_nat idx) (v mod 256))].

(* ---- extract_uint16/32/64 ---- *)
Definition extract_carefully (x : list N) (start len : N) : option (list N) :=
  let lx := N.of_nat (length x) in
  if lx <? start then None
  else let e := (start + len) mod W in
       if e <? start then None
       else if lx <? e then None
       else Some (firstn (N.to_nat (e - start)) (skipn (N.to_nat start) x)).    (* x[start:end] *)
Definition opExtractNBytes (n : N) (l : list N) (start : N) : res :=
  match extract_carefully l start n with
  | None => Err
  | Some bs => Ok [U (bytes_to_int bs)]           (* convertBytesToInt: same loop as btoi *)
  end.

(* ---- dispatcher: arguments in stack order (bottom first) ---- *)
Inductive opc : Type :=
| OPlus | OMinus | OMul | ODiv | OMod | OAddw | OMulw | ODivw | ODivModw
| OExp | OExpw | OSqrt | OShl | OShr | OBitLen
| OLt | OGt | OLe | OGe | OAnd | OOr | OEq | ONeq | ONot
| OBitOr | OBitAnd | OBitXor | OBitNot | OItob | OBtoi
| OBPlus | OBMinus | OBMul | OBDiv | OBMod | OBSqrt
| OBLt | OBGt | OBLe | OBGe | OBEq | OBNeq
| OBOr | OBAnd | OBXor | OBNot
| OGetBit | OSetBit | OGetByte | OSetByte | OExt16 | OExt32 | OExt64.

(* None: the argument list does not have the opcode's arity / types (step() rejects it
   before the opcode function runs; the harness never generates it) *)
Definition run (o : opc) (args : list sv) : option res :=
  match o, args with
  | OPlus, [U a; U b] => Some (opPlus a b)
  | OMinus, [U a; U b] => Some (opMinus a b)
  | OMul, [U a; U b] => Some (opMul a b)
  | ODiv, [U a; U b] => Some (opDiv a b)
  | OMod, [U a; U b] => Some (opModulo a b)
  | OAddw, [U a; U b] => Some (opAddw a b)
  | OMulw, [U a; U b] => Some (opMulw a b)
  | ODivw, [U hi; U lo; U y] => Some (opDivw hi lo y)
  | ODivModw, [U a; U b; U c; U d] => Some (opDivModw a b c d)
  | OExp, [U a; U b] => Some (opExp a b)
  | OExpw, [U a; U b] => Some (opExpw a b)
  | OSqrt, [U a] => Some (opSqrt a)
  | OShl, [U a; U b] => Some (opShiftLeft a b)
  | OShr, [U a; U b] => Some (opShiftRight a b)
  | OBitLen, [x] => Some (opBitLen x)
  | OLt, [U a; U b] => Some (Ok [U (lt_v a b)])
  | OGt, [U a; U b] => Some (Ok [U (gt_v a b)])
  | OLe, [U a; U b] => Some (Ok [U (le_v a b)])
  | OGe, [U a; U b] => Some (Ok [U (ge_v a b)])
  | OAnd, [U a; U b] => Some (Ok [U (and_v a b)])
  | OOr, [U a; U b] => Some (Ok [U (or_v a b)])
  | OEq, [x; y] => Some (opEq x y)
  | ONeq, [x; y] => Some (opNeq x y)
  | ONot, [U a] => Some (Ok [U (not_v a)])
  | OBitOr, [U a; U b] => Some (opBitOr a b)
  | OBitAnd, [U a; U b] => Some (opBitAnd a b)
  | OBitXor, [U a; U b] => Some (opBitXor a b)
  | OBitNot, [U a] => Some (opBitNot a)
  | OItob, [U a] => Some (opItob a)
  | OBtoi, [B l] => Some (opBtoi l)
  | OBPlus, [B a; B b] => Some (opBytesPlus a b)
  | OBMinus, [B a; B b] => Some (opBytesMinus a b)
  | OBMul, [B a; B b] => Some (opBytesMul a b)
  | OBDiv, [B a; B b] => Some (opBytesDiv a b)
  | OBMod, [B a; B b] => Some (opBytesModulo a b)
  | OBSqrt, [B a] => Some (opBytesSqrt a)
  | OBLt, [B a; B b] => Some (opBytesLt a b)
  | OBGt, [B a; B b] => Some (opBytesGt a b)
  | OBLe, [B a; B b] => Some (opBytesLe a b)
  | OBGe, [B a; B b] => Some (opBytesGe a b)
  | OBEq, [B a; B b] => Some (opBytesEq a b)
  | OBNeq, [B a; B b] => Some (opBytesNeq a b)
  | OBOr, [B a; B b] => Some (opBytesBitOr a b)
  | OBAnd, [B a; B b] => Some (opBytesBitAnd a b)
  | OBXor, [B a; B b] => Some (opBytesBitXor a b)
  | OBNot, [B a] => Some (opBytesBitNot a)
  | OGetBit, [x; U i] => Some (opGetBit x i)
  | OSetBit, [x; U i; U b] => Some (opSetBit x i b)
  | OGetByte, [B l; U i] => Some (opGetByte l i)
  | OSetByte, [B l; U i; U v] => Some (opSetByte l i v)
  | OExt16, [B l; U s] => Some (opExtractNBytes 2 l s)
  | OExt32, [B l; U s] => Some (opExtractNBytes 4 l s)
  | OExt64, [B l; U s] => Some (opExtractNBytes 8 l s)
  | _, _ => None
  end.
