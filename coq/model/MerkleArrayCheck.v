(* C37: executable [check] for the merklearray harness.  The abstract hash of
   model/MerkleArray.v is instantiated by a finite oracle table carried in every case (the
   real hash function's values on the pre-images of the tree under test, computed by the
   harness with crypto.HashFactory directly, not through merklearray); a pre-image outside
   the table hashes to a sentinel that no real digest can equal.  The property itself is
   recomputed on the implementation's observation by [claim_true]/[path_ok], which do not
   use the model's prove/verify.  No proofs here. *)
From Coq Require Import NArith ZArith List Bool String.
From Verif.lib Require Import Term.
From Verif.model Require Import MerkleArray.
Import ListNotations.
Open Scope N_scope.

Definition bytes_eqb (a b : list N) : bool := list_eqb N.eqb a b.

Definition sentinel : digest := [256].

Fixpoint lookup (tab : list (list N * digest)) (pre : list N) : digest :=
  match tab with
  | [] => sentinel
  | (k, v) :: r => if bytes_eqb k pre then v else lookup r pre
  end.

Definition E := list N.      (* an element = its HashRep: HashID || data *)
Definition o_hleaf (tab : list (list N * digest)) (e : E) : digest := lookup tab e.
Definition o_hbottom (tab : list (list N * digest)) : digest := lookup tab [77; 66].        (* "MB" *)
Definition o_hnode (tab : list (list N * digest)) (buf : list N) : digest := lookup tab (77 :: 65 :: buf). (* "MA" *)

Definition m_build (vc : bool) (s : nat) tab (arr : list E) : tree :=
  if vc then buildVC E s (o_hleaf tab) (o_hbottom tab) (o_hnode tab) arr
  else build E s (o_hleaf tab) (o_hnode tab) arr.
Definition m_root (t : tree) : digest := rootOf t.
Definition m_prove (t : tree) (idxs : list N) := prove t idxs.
Definition m_verify (vc : bool) (s : nat) tab (root : digest) (elems : list (N * E)) (p : proof) : vres :=
  if vc then verifyVC E s (o_hleaf tab) (o_hnode tab) root elems p
  else verify E s (o_hleaf tab) (o_hnode tab) root elems p.

(* ---- term decoding ---- *)
Definition as_pair_bb (t : term) : option (list N * digest) :=
  match t with TL [TB a; TB b] => Some (a, b) | _ => None end.
Definition as_bytes_list (t : term) : option (list (list N)) :=
  match t with TL l => map_opt as_bytes l | _ => None end.
Definition as_claim_elem (t : term) : option (N * E) :=
  match t with TL [TZ p; TB e] => if (p <? 0)%Z then None else Some (Z.to_N p, e) | _ => None end.

Record env := mkEnv { e_vc : bool; e_s : nat; e_arr : list E; e_tab : list (list N * digest) }.

Definition as_env (t : term) : option env :=
  match t with
  | TL [TZ vc; TZ hs; TL arr; TL tab] =>
      match map_opt as_bytes arr, map_opt as_pair_bb tab with
      | Some arr, Some tab => Some (mkEnv (Z.eqb vc 1) (Z.to_nat hs) arr tab)
      | _, _ => None
      end
  | _ => None
  end.

(* ---- result encodings ---- *)
Definition t_digests (l : list digest) : term := TL (map TB l).
Definition t_vres (r : vres) : term :=
  TS (match r with
      | VOk => "ok" | VErrRoot => "root" | VErrPos => "pos" | VErrNonEmpty => "nonempty"
      | VErrNoHints => "nohints" | VErrHintLen => "hintlen" | VPanic => "panic"
      | VOutOfFuel => "fuel"
      end).
Definition t_pres (r : proof + perr) : term :=
  match r with
  | inl p => TL [TS "ok"; t_digests (p_path p); tn (p_depth p)]
  | inr PErrZeroCommitment => TL [TS "err"; TS "zerocommitment"]
  | inr PErrPosOutOfBound => TL [TS "err"; TS "pos"]
  | inr PErrInternal => TL [TS "err"; TS "internal"]
  end.

(* ---- independent oracle for the property ---- *)
Definition nthE (arr : list E) (p : N) : option E := nth_error arr (N.to_nat p).
Definition elem_at (arr : list E) (pe : N * E) : bool :=
  match nthE arr (fst pe) with Some e => bytes_eqb e (snd pe) | None => false end.
Definition is_member (arr : list E) (e : E) : bool := existsb (bytes_eqb e) arr.

Definition norm_hint (s : nat) (h : digest) : digest := match h with [] => zeros s | _ => h end.
Definition paths_equiv (s : nat) (a b : list digest) : bool :=
  list_eqb bytes_eqb (map (norm_hint s) a) (map (norm_hint s) b).
Definition same_posset (a b : list N) : bool := list_eqb N.eqb (dedup (sortN a)) (dedup (sortN b)).

(* shape of a tree over [m] leaves: sizes m, ceil(m/2), ..., 1 *)
Fixpoint shape (fuel : nat) (m : nat) : list nat :=
  match fuel with
  | O => [m]
  | S f => if (m <=? 1)%nat then [m] else m :: shape f (Nat.div2 (m + 1))
  end.
Definition pow2ceil (n : N) : N := if n <=? 1 then 1 else 2 ^ N.size (n - 1).

Definition check (t : term) : term :=
  match t with
  | TL [TS "build"; envt; TL lvls; TB root] =>
      match as_env envt, map_opt as_bytes_list lvls with
      | Some ev, Some lvls =>
          let tr := m_build (e_vc ev) (e_s ev) (e_tab ev) (e_arr ev) in
          let n := N.of_nat (List.length (e_arr ev)) in
          let m := if e_vc ev then N.to_nat (pow2ceil n) else List.length (e_arr ev) in
          (* property-level sanity of the observation: layer sizes and the root *)
          let spec := list_eqb Nat.eqb (map (@List.length digest) lvls)
                               (if (m =? 0)%nat then [] else shape m m) &&
                      bytes_eqb root (match lvls with [] => [] | _ => hd [] (last lvls []) end) in
          let corr := list_eqb (list_eqb bytes_eqb) (t_levels tr) lvls && bytes_eqb (m_root tr) root in
          verdict spec corr (2 <=? n) (TL [TL (map t_digests (t_levels tr)); TB (m_root tr)])
      | _, _ => v_parse
      end
  | TL [TS "prove"; envt; idxs; res] =>
      match as_env envt, as_N_list idxs with
      | Some ev, Some idxs =>
          let tr := m_build (e_vc ev) (e_s ev) (e_tab ev) (e_arr ev) in
          let m := t_pres (m_prove tr idxs) in
          let n := N.of_nat (List.length (e_arr ev)) in
          (* Prove must succeed exactly on in-range requests (and on the empty request) *)
          let want_ok := match idxs with [] => true | _ => forallb (fun i => i <? n) idxs end in
          let got_ok := match res with TL (TS "ok" :: _) => true | _ => false end in
          verdict (Bool.eqb want_ok got_ok) (term_eqb res m)
                  (got_ok && match idxs with [] => false | _ => true end) m
      | _, _ => v_parse
      end
  | TL [TS "verify"; envt;
        TL [hidxs; TB hroot; TZ hdepth; TL hpath];
        TS mut;
        TL [TZ same_hash; TZ hs'; TB croot; TL celems; TL cpath; TZ cdepth];
        TS res] =>
      match as_env envt, as_N_list hidxs, map_opt as_bytes hpath,
            map_opt as_claim_elem celems, map_opt as_bytes cpath with
      | Some ev, Some hidxs, Some hpath, Some celems, Some cpath =>
          let arr := e_arr ev in
          let n := N.of_nat (List.length arr) in
          let s' := Z.to_nat hs' in
          let sameh := Z.eqb same_hash 1 in
          let tab := if sameh then e_tab ev else [] in
          let p := mkProof cpath (Z.to_N cdepth) in
          let mres := m_verify (e_vc ev) s' tab croot celems p in
          let m := t_vres mres in
          let accepted := String.eqb res "ok" in
          (* the claim, decided on the array itself *)
          let root_ok := bytes_eqb croot hroot in
          let depth_ok := Z.eqb cdepth hdepth in
          let elems_ok := forallb (elem_at arr) celems in
          let claim_true := match celems with
                            | [] => true
                            | _ => root_ok && depth_ok && sameh && elems_ok
                            end in
          let sameset := same_posset (map fst celems) hidxs in
          let path_ok := negb sameset || paths_equiv s' cpath hpath in
          let honest := String.eqb mut "honest" in
          let spec := (if accepted then claim_true && path_ok else true) &&
                      (if honest then accepted else true) in
          let nontrivial := match celems with [] => false | _ => true end in
          if spec then verdict true (term_eqb (TS res) m) nontrivial m
          else if negb accepted then v_viol m      (* an honest proof was rejected *)
          else if negb (forallb (hint_len_ok s') cpath)
               then v_known "oversize_hint_overrides_element" m
          else if root_ok && sameh && elems_ok && sameset && negb depth_ok &&
                  list_eqb bytes_eqb cpath hpath
               then v_known "treedepth_only_mutation_accepted" m
          else if negb (e_vc ev) && root_ok && sameh && depth_ok &&
                  forallb (fun pe => is_member arr (snd pe) &&
                                     (negb (fst pe <? n) || elem_at arr pe)) celems &&
                  existsb (fun pe => negb (fst pe <? n)) celems
               then v_known "plain_position_past_end_accepted" m
          else v_viol m
      | _, _, _, _, _ => v_parse
      end
  | _ => v_parse
  end.
