(* C32: what each opcode is SPECIFIED to compute, over unbounded arithmetic (N, no machine
   words, no loops), and the executable checker applied to the implementation's observations.
   Byte strings denote big-endian naturals ([be_val]); a byte-string result is specified by
   its VALUE plus an encoding constraint (minimal, or fixed length) instead of by an encoding
   algorithm, so that this file shares no algorithm with model/AvmArith.v.  No proofs here. *)
From Coq Require Import NArith ZArith List Bool String.
From Verif.lib Require Import Term.
From Verif.model Require Import AvmArith.
Import ListNotations.
Open Scope N_scope.

(* big-endian value, positional definition (the model uses Horner folds) *)
Fixpoint be_val (l : list N) : N :=
  match l with
  | [] => 0
  | b :: t => N.shiftl b (8 * N.of_nat (List.length t)) + be_val t
  end.
Definition bytes_ok (l : list N) : bool := forallb (fun b => b <? 256) l.
Definition blen (l : list N) : N := N.of_nat (List.length l).

(* expected outcome *)
Inductive expect : Type :=
| XErr                                  (* the opcode must fail *)
| XInts (l : list N)                    (* exactly these uint64 values (bottom first) *)
| XBmin (n : N)                         (* one byte string: the minimal big-endian encoding of n *)
| XBfix (len : nat) (n : N)             (* one byte string of exactly len bytes encoding n *)
| XBytes (l : list N).                  (* exactly this byte string *)

Fixpoint list_N_eqb (a b : list N) : bool :=
  match a, b with
  | [], [] => true
  | x :: a', y :: b' => (x =? y) && list_N_eqb a' b'
  | _, _ => false
  end.

Fixpoint ints_match (st : list sv) (l : list N) : bool :=
  match st, l with
  | [], [] => true
  | U a :: st', b :: l' => (a =? b) && ints_match st' l'
  | _, _ => false
  end.

Definition meets (e : expect) (r : res) : bool :=
  match e, r with
  | XErr, Err => true
  | XInts l, Ok st => ints_match st l
  | XBmin n, Ok [B l] => (be_val l =? n) && bytes_ok l && negb (hd 1 l =? 0)
  | XBfix k n, Ok [B l] => (be_val l =? n) && bytes_ok l && (List.length l =? k)%nat
  | XBytes l', Ok [B l] => list_N_eqb l l'
  | _, _ => false
  end.

(* the same, as a proposition (meets_sat in the proofs) *)
Definition sat (e : expect) (r : res) : Prop :=
  match e with
  | XErr => r = Err
  | XInts l => r = Ok (map U l)
  | XBmin n => exists l, r = Ok [B l] /\ be_val l = n /\ Forall (fun b => b < 256) l /\ hd 1 l <> 0
  | XBfix k n => exists l, r = Ok [B l] /\ be_val l = n /\ Forall (fun b => b < 256) l /\ List.length l = k
  | XBytes l => r = Ok [B l]
  end.

(* bounded power: a^e when it is < cap, computed without ever exceeding cap * a.
   [fuel] bounds e (e < 64 resp. 128 where it is used). *)
Fixpoint pow_below (fuel : nat) (a acc cap : N) : option N :=
  match fuel with
  | O => Some acc
  | S f => if cap <=? acc * a then None else pow_below f a (acc * a) cap
  end.
(* a^e if a^e < 2^bits else None; executable for all e *)
Definition pow_capped (bits a e : N) : option N :=
  if a =? 0 then Some (if e =? 0 then 1 else 0)
  else if a =? 1 then Some 1
  else if bits <=? e then None
  else pow_below (N.to_nat e) a 1 (2 ^ bits).

Definition bitlen_val (n : N) : N := if n =? 0 then 0 else N.log2 n + 1.
Definition set_bit_val (v k : N) : N := if N.testbit v k then v else v + 2 ^ k.
Definition clear_bit_val (v k : N) : N := if N.testbit v k then v - 2 ^ k else v.
Definition bm_guard (a b : list N) (e : expect) : expect :=
  if (64 <? blen a) || (64 <? blen b) then XErr else e.
(* positional replacement, written without firstn/skipn *)
Fixpoint replace_at (l : list N) (i : N) (v : N) : list N :=
  match l with
  | [] => []
  | x :: t => if i =? 0 then v :: t else x :: replace_at t (i - 1) v
  end.
Fixpoint byte_at (l : list N) (i : N) : N :=
  match l with
  | [] => 0
  | x :: t => if i =? 0 then x else byte_at t (i - 1)
  end.
Fixpoint slice (l : list N) (start len : N) (fuel : nat) : list N :=
  match fuel with
  | O => []
  | S f => if len =? 0 then [] else byte_at l start :: slice l (start + 1) (len - 1) f
  end.
Definition ext_spec (n : N) (l : list N) (s : N) : expect :=
  if blen l <? s + n then XErr else XInts [be_val (slice l s n (N.to_nat n))].

Definition spec (o : opc) (args : list sv) : option expect :=
  match o, args with
  | OPlus, [U a; U b] => Some (if a + b <? W then XInts [a + b] else XErr)
  | OMinus, [U a; U b] => Some (if b <=? a then XInts [a - b] else XErr)
  | OMul, [U a; U b] => Some (if a * b <? W then XInts [a * b] else XErr)
  | ODiv, [U a; U b] => Some (if b =? 0 then XErr else XInts [a / b])
  | OMod, [U a; U b] => Some (if b =? 0 then XErr else XInts [a mod b])
  | OAddw, [U a; U b] => Some (XInts [(a + b) / W; (a + b) mod W])
  | OMulw, [U a; U b] => Some (XInts [(a * b) / W; (a * b) mod W])
  | ODivw, [U hi; U lo; U y] =>
      Some (if y =? 0 then XErr
            else let q := (hi * W + lo) / y in if q <? W then XInts [q] else XErr)
  | ODivModw, [U a; U b; U c; U d] =>
      let num := a * W + b in let den := c * W + d in
      Some (if den =? 0 then XErr
            else XInts [(num / den) / W; (num / den) mod W; (num mod den) / W; (num mod den) mod W])
  | OExp, [U a; U e] =>
      Some (if (a =? 0) && (e =? 0) then XErr
            else match pow_capped 64 a e with Some v => XInts [v] | None => XErr end)
  | OExpw, [U a; U e] =>
      Some (if (a =? 0) && (e =? 0) then XErr
            else match pow_capped 128 a e with Some v => XInts [v / W; v mod W] | None => XErr end)
  | OSqrt, [U a] => Some (XInts [N.sqrt a])
  | OShl, [U a; U s] => Some (if 63 <? s then XErr else XInts [(a * 2 ^ s) mod W])
  | OShr, [U a; U s] => Some (if 63 <? s then XErr else XInts [a / 2 ^ s])
  | OBitLen, [U a] => Some (XInts [bitlen_val a])
  | OBitLen, [B l] => Some (XInts [bitlen_val (be_val l)])
  | OLt, [U a; U b] => Some (XInts [b2u (a <? b)])
  | OGt, [U a; U b] => Some (XInts [b2u (b <? a)])
  | OLe, [U a; U b] => Some (XInts [b2u (a <=? b)])
  | OGe, [U a; U b] => Some (XInts [b2u (b <=? a)])
  | OAnd, [U a; U b] => Some (XInts [if a =? 0 then 0 else if b =? 0 then 0 else 1])
  | OOr, [U a; U b] => Some (XInts [if a =? 0 then (if b =? 0 then 0 else 1) else 1])
  | OEq, [U a; U b] => Some (XInts [b2u (a =? b)])
  | OEq, [B a; B b] => Some (XInts [b2u (list_N_eqb a b)])
  | OEq, [_; _] => Some XErr
  | ONeq, [U a; U b] => Some (XInts [b2u (negb (a =? b))])
  | ONeq, [B a; B b] => Some (XInts [b2u (negb (list_N_eqb a b))])
  | ONeq, [_; _] => Some XErr
  | ONot, [U a] => Some (XInts [b2u (a =? 0)])
  | OBitOr, [U a; U b] => Some (XInts [N.lor a b])
  | OBitAnd, [U a; U b] => Some (XInts [N.land a b])
  | OBitXor, [U a; U b] => Some (XInts [N.lxor a b])
  | OBitNot, [U a] => Some (XInts [W - 1 - a])
  | OItob, [U a] => Some (XBfix 8 a)
  | OBtoi, [B l] => Some (if 8 <? blen l then XErr else XInts [be_val l])
  | OBPlus, [B a; B b] => Some (bm_guard a b (XBmin (be_val a + be_val b)))
  | OBMinus, [B a; B b] =>
      Some (bm_guard a b (if be_val a <? be_val b then XErr else XBmin (be_val a - be_val b)))
  | OBMul, [B a; B b] => Some (bm_guard a b (XBmin (be_val a * be_val b)))
  | OBDiv, [B a; B b] =>
      Some (bm_guard a b (if be_val b =? 0 then XErr else XBmin (be_val a / be_val b)))
  | OBMod, [B a; B b] =>
      Some (bm_guard a b (if be_val b =? 0 then XErr else XBmin (be_val a mod be_val b)))
  | OBSqrt, [B a] => Some (if 64 <? blen a then XErr else XBmin (N.sqrt (be_val a)))
  | OBLt, [B a; B b] => Some (bm_guard a b (XInts [b2u (be_val a <? be_val b)]))
  | OBGt, [B a; B b] => Some (bm_guard a b (XInts [b2u (be_val b <? be_val a)]))
  | OBLe, [B a; B b] => Some (bm_guard a b (XInts [b2u (be_val a <=? be_val b)]))
  | OBGe, [B a; B b] => Some (bm_guard a b (XInts [b2u (be_val b <=? be_val a)]))
  | OBEq, [B a; B b] => Some (bm_guard a b (XInts [b2u (be_val a =? be_val b)]))
  | OBNeq, [B a; B b] => Some (bm_guard a b (XInts [b2u (negb (be_val a =? be_val b))]))
  | OBOr, [B a; B b] => Some (XBfix (Nat.max (List.length a) (List.length b)) (N.lor (be_val a) (be_val b)))
  | OBAnd, [B a; B b] => Some (XBfix (Nat.max (List.length a) (List.length b)) (N.land (be_val a) (be_val b)))
  | OBXor, [B a; B b] => Some (XBfix (Nat.max (List.length a) (List.length b)) (N.lxor (be_val a) (be_val b)))
  | OBNot, [B a] => Some (XBfix (List.length a) (2 ^ (8 * blen a) - 1 - be_val a))
  | OGetBit, [U t; U i] => Some (if 63 <? i then XErr else XInts [b2u (N.testbit t i)])
  | OGetBit, [B l; U i] =>
      Some (if 8 * blen l <=? i then XErr else XInts [b2u (N.testbit (be_val l) (8 * blen l - 1 - i))])
  | OSetBit, [U t; U i; U b] =>
      Some (if 1 <? b then XErr else if 63 <? i then XErr
            else XInts [if b =? 1 then set_bit_val t i else clear_bit_val t i])
  | OSetBit, [B l; U i; U b] =>
      Some (if 1 <? b then XErr else if 8 * blen l <=? i then XErr
            else let k := 8 * blen l - 1 - i in
                 XBfix (List.length l) (if b =? 1 then set_bit_val (be_val l) k else clear_bit_val (be_val l) k))
  | OGetByte, [B l; U i] => Some (if blen l <=? i then XErr else XInts [byte_at l i])
  | OSetByte, [B l; U i; U v] =>
      Some (if 255 <? v then XErr else if blen l <=? i then XErr else XBytes (replace_at l i v))
  | OExt16, [B l; U s] => Some (ext_spec 2 l s)
  | OExt32, [B l; U s] => Some (ext_spec 4 l s)
  | OExt64, [B l; U s] => Some (ext_spec 8 l s)
  | _, _ => None
  end.

(* ---- line protocol: (name version mode (args...) obs)
        obs = (ok v...) | (err) | (panic);   v = integer | #hex ---- *)
Definition op_table : list (string * opc) :=
  [("plus", OPlus); ("minus", OMinus); ("mul", OMul); ("div", ODiv); ("mod", OMod);
   ("addw", OAddw); ("mulw", OMulw); ("divw", ODivw); ("divmodw", ODivModw);
   ("exp", OExp); ("expw", OExpw); ("sqrt", OSqrt); ("shl", OShl); ("shr", OShr);
   ("bitlen", OBitLen); ("lt", OLt); ("gt", OGt); ("le", OLe); ("ge", OGe);
   ("and", OAnd); ("or", OOr); ("eq", OEq); ("neq", ONeq); ("not", ONot);
   ("bitor", OBitOr); ("bitand", OBitAnd); ("bitxor", OBitXor); ("bitnot", OBitNot);
   ("itob", OItob); ("btoi", OBtoi);
   ("bplus", OBPlus); ("bminus", OBMinus); ("bmul", OBMul); ("bdiv", OBDiv); ("bmod", OBMod);
   ("bsqrt", OBSqrt); ("blt", OBLt); ("bgt", OBGt); ("ble", OBLe); ("bge", OBGe);
   ("beq", OBEq); ("bneq", OBNeq); ("bor", OBOr); ("band", OBAnd); ("bxor", OBXor);
   ("bnot", OBNot); ("getbit", OGetBit); ("setbit", OSetBit); ("getbyte", OGetByte);
   ("setbyte", OSetByte); ("extract_uint16", OExt16); ("extract_uint32", OExt32);
   ("extract_uint64", OExt64)]%string.

Fixpoint lookup_op (s : string) (t : list (string * opc)) : option opc :=
  match t with
  | [] => None
  | (k, o) :: t' => if String.eqb k s then Some o else lookup_op s t'
  end.

Definition sv_of_term (t : term) : option sv :=
  match t with
  | TZ z => if (z <? 0)%Z then None else Some (U (Z.to_N z))
  | TB b => Some (B b)
  | _ => None
  end.
(* operands the evaluator can hold: 64-bit words; byte strings of at most maxStringSize = 4096 bytes *)
Definition wf_sv (v : sv) : bool :=
  match v with U n => n <? W | B l => bytes_ok l && (blen l <=? 4096) end.
Definition term_of_sv (v : sv) : term := match v with U n => tn n | B l => TB l end.
Definition term_of_res (r : res) : term :=
  match r with Ok st => TL (TS "ok" :: map term_of_sv st) | Err => TL [TS "err"] end.

Inductive obs : Type := ORes (r : res) | OPanic.
Definition obs_of_term (t : term) : option obs :=
  match t with
  | TL (TS s :: vs) =>
      if String.eqb s "ok" then
        match map_opt sv_of_term vs with Some st => Some (ORes (Ok st)) | None => None end
      else if String.eqb s "err" then (match vs with [] => Some (ORes Err) | _ => None end)
      else if String.eqb s "panic" then (match vs with [] => Some OPanic | _ => None end)
      else None
  | _ => None
  end.

Definition sv_eqb (x y : sv) : bool :=
  match x, y with
  | U a, U b => a =? b
  | B a, B b => list_N_eqb a b
  | _, _ => false
  end.
Definition res_eqb (x y : res) : bool :=
  match x, y with
  | Err, Err => true
  | Ok a, Ok b => list_eqb sv_eqb a b
  | _, _ => false
  end.

Definition nontrivial_arg (v : sv) : bool :=
  match v with U n => negb (n =? 0) | B l => negb (match l with [] => true | _ => false end) end.

Definition check (t : term) : term :=
  match t with
  | TL [TS name; TZ _; TS _; TL targs; tobs] =>
      match lookup_op name op_table, map_opt sv_of_term targs, obs_of_term tobs with
      | Some o, Some args, Some ob =>
          if negb (forallb wf_sv args) then v_parse else
          match run o args, spec o args with
          | Some m, Some e =>
              match ob with
              | OPanic => v_viol (term_of_res m)          (* an opcode must never panic *)
              | ORes r => verdict (meets e r) (res_eqb r m) (existsb nontrivial_arg args) (term_of_res m)
              end
          | _, _ => v_parse
          end
      | _, _, _ => v_parse
      end
  | _ => v_parse
  end.
