(* C38  State proof prover and verifier agree on the required reveals.
   Executable transcription over Z of /repo/crypto/stateproof/weights.go
   (getSubExpressions, verifyWeights, numReveals) and of the rejection sampling of
   coinGenerator.go (prepareRejectionSamplingThreshold, getNextCoin).  big.Int arithmetic
   is exact, so Z is exact.  [numReveals] is the code with /verif/fixes/C38.patch applied;
   [numReveals_unfixed] is the code before it, where [(numerator/denom).Uint64() + 1] is
   [(q mod 2^64 + 1) mod 2^64].
   LnIntApproximation (float64) is NOT modelled: lnProvenWeight is an input.
   No proofs in this file; it also holds the executable [check]. *)
From Coq Require Import ZArith List Bool String.
From Verif.lib Require Import Term.
Import ListNotations.
Open Scope Z_scope.

(* const.go *)
Definition precisionBits : Z := 16.
Definition ln2Int : Z := 45427.           (* ln2IntApproximation *)
Definition MaxReveals : Z := 640.
Definition two64 : Z := 2 ^ 64.

Inductive werr : Type :=
| ErrTooManyReveals | ErrZeroSignedWeight | ErrInsufficientSignedWeight
| ErrNegativeNumOfRevealsEquation.

Inductive wres (A : Type) : Type :=
| WOk (a : A)
| WErr (e : werr)
| WPanic.     (* signedWeight = 0 reaching getSubExpressions: shift by uint(0)-1 *)
Arguments WOk {A}. Arguments WErr {A}. Arguments WPanic {A}.

(* d := uint(bits.Len64(signedWeight)) - 1   (signedWeight >= 1: floor(log2)) *)
Definition dOf (sw : Z) : Z := Z.log2 sw.

(* getSubExpressions: y, x, w *)
Definition subY (sw : Z) : Z := let d := dOf sw in 2 ^ (2 * d) + 2 ^ (d + 2) * sw + sw * sw.
Definition subX (sw : Z) : Z := let d := dOf sw in (sw * sw - 2 ^ (2 * d)) * 3 * 2 ^ precisionBits.
Definition subW (sw : Z) : Z := dOf sw * (ln2Int - 1).

Definition verifyWeights (sw lnPW n st : Z) : wres unit :=
  if n >? MaxReveals then WErr ErrTooManyReveals
  else if sw =? 0 then WErr ErrZeroSignedWeight
  else
    let y := subY sw in let x := subX sw in let w := subW sw in
    let lhs := n * (x + w * y) in
    let rhs := (st * ln2Int + n * lnPW) * y in
    if lhs <? rhs then WErr ErrInsufficientSignedWeight else WOk tt.

Definition numerator (sw st : Z) : Z := st * ln2Int * subY sw.
Definition denom (sw lnPW : Z) : Z := subX sw + (subW sw - lnPW) * subY sw.

(* numReveals as in /verif/fixes/C38.patch (the quotient is range-checked before the
   conversion to uint64):
     quotient := numerator.Div(numerator, denom)
     if !quotient.IsUint64() || quotient.Uint64() >= MaxReveals { return 0, ErrTooManyReveals }
     return quotient.Uint64() + 1, nil *)
Definition isUint64 (z : Z) : bool := (0 <=? z) && (z <? two64).

Definition numReveals (sw lnPW st : Z) : wres Z :=
  if sw <=? 0 then WPanic
  else
    let nu := numerator sw st in
    let de := denom sw lnPW in
    if de <=? 0 then WErr ErrNegativeNumOfRevealsEquation
    else
      let q := nu / de in
      if negb (isUint64 q) || (q >=? MaxReveals) then WErr ErrTooManyReveals
      else WOk (q + 1).

(* numReveals before the fix:  res := numerator.Div(numerator, denom).Uint64() + 1;
   if res > MaxReveals { error }  -- Uint64() keeps the low 64 bits, + wraps in uint64 *)
Definition numReveals_unfixed (sw lnPW st : Z) : wres Z :=
  if sw <=? 0 then WPanic
  else
    let nu := numerator sw st in
    let de := denom sw lnPW in
    if de <=? 0 then WErr ErrNegativeNumOfRevealsEquation
    else
      let res := ((nu / de) mod two64 + 1) mod two64 in
      if res >? MaxReveals then WErr ErrTooManyReveals else WOk res.

(* coinGenerator.go *)
Definition coinThreshold (sw : Z) : Z := (two64 / sw) * sw.

(* getNextCoin over the stream of 64-bit words squeezed from the XOF (the XOF itself is
   not modelled); the Go loop does not terminate on a stream of rejected words, here the
   finite stream runs out -> None.  Returns the coin and the rest of the stream. *)
Fixpoint nextCoin (sw : Z) (stream : list Z) : option (Z * list Z) :=
  match stream with
  | [] => None
  | z :: rest => if z <? coinThreshold sw then Some (z mod sw, rest) else nextCoin sw rest
  end.

Fixpoint coins (fuel : nat) (sw : Z) (stream : list Z) : list Z :=
  match fuel with
  | O => []
  | S f => match nextCoin sw stream with
           | None => []
           | Some (c, rest) => c :: coins f sw rest
           end
  end.

(* ------------------------------------------------------------------------------------ *)
(* The property recomputed on the implementation's observation (independent of the
   functions above: the inequality exactly as written in the comment of verifyWeights,
   numReveals * (3*2^b*(sw^2 - 2^2d) + d*(T-1)*Y) >= (strengthTarget*T + numReveals*P)*Y,
   with Y = sw^2 + 2^(d+2)*sw + 2^2d and d found by search, not by log2). *)
Fixpoint find_d (fuel : nat) (d sw : Z) : Z :=
  match fuel with
  | O => d
  | S f => if 2 ^ (d + 1) <=? sw then find_d f (d + 1) sw else d
  end.
Definition spec_d (sw : Z) : Z := find_d 64 0 sw.
Definition spec_ineq (sw lnPW n st : Z) : bool :=
  let d := spec_d sw in
  let Y := sw * sw + 2 ^ (d + 2) * sw + 2 ^ (2 * d) in
  (st * 45427 + n * lnPW) * Y <=? n * (3 * 65536 * (sw * sw - 2 ^ (2 * d)) + d * 45426 * Y).

(* what the verifier must answer *)
Definition spec_verify (sw lnPW n st : Z) : bool :=
  (n <=? 640) && negb (sw =? 0) && spec_ineq sw lnPW n st.

(* result encodings: (ok v) | (err name) | (panic) *)
Definition t_err (e : werr) : term :=
  TL [TS "err"; TS (match e with
                    | ErrTooManyReveals => "toomany"
                    | ErrZeroSignedWeight => "zerosw"
                    | ErrInsufficientSignedWeight => "insufficient"
                    | ErrNegativeNumOfRevealsEquation => "negative"
                    end)].
Definition t_resZ (r : wres Z) : term :=
  match r with WOk v => TL [TS "ok"; TZ v] | WErr e => t_err e | WPanic => TL [TS "panic"] end.
Definition t_resU (r : wres unit) : term :=
  match r with WOk _ => TL [TS "ok"] | WErr e => t_err e | WPanic => TL [TS "panic"] end.

Definition in64 (z : Z) : bool := (0 <=? z) && (z <? two64).

Definition is_ok (t : term) : bool := match t with TL (TS "ok" :: _) => true | _ => false end.

Fixpoint all_lt (sw : Z) (l : list Z) : bool :=
  match l with [] => true | c :: r => (0 <=? c) && (c <? sw) && all_lt sw r end.

(* cases (harness/go/crypto/stateproof/zz_verif_c38_test.go):
   (nr sw lnPW st  obs_numReveals  (y x w))
   (vw sw lnPW n st obs_verifyWeights)
   (pv sw lnPW st obs_numReveals ((m obs_verify_m) ...))   prover/verifier agreement probe
   (coin sw (z ...) (coin ...))
*)
Definition check_pv_list (sw lnPW st : Z) (l : list term) : option (bool * bool) :=
  (* returns (spec_ok, corr) over the verifier observations of the probe *)
  fold_right (fun t acc =>
    match acc, t with
    | Some (s, c), TL [TZ m; o] =>
        let want := spec_verify sw lnPW m st in
        Some (s && Bool.eqb (is_ok o) want, c && term_eqb o (t_resU (verifyWeights sw lnPW m st)))
    | _, _ => None
    end) (Some (true, true)) l.

Definition check (t : term) : term :=
  match t with
  | TL [TS "nr"; TZ sw; TZ lnPW; TZ st; obs; TL [TZ y; TZ x; TZ w]] =>
      if negb (in64 sw && in64 lnPW && in64 st && (0 <? sw)) then v_parse else
      let m := t_resZ (numReveals sw lnPW st) in
      let sub_ok := (y =? subY sw) && (x =? subX sw) && (w =? subW sw) in
      (* property on the observation: an accepted count satisfies the verifier's
         inequality and the bound, and no count below n-1 does *)
      match obs with
      | TL [TS "ok"; TZ n] =>
          let good := spec_verify sw lnPW n st &&
                      ((n <=? 1) || negb (spec_ineq sw lnPW (n - 2) st)) in
          if good then verdict true (term_eqb obs m && sub_ok) true m
          else if two64 <=? numerator sw st / denom sw lnPW
               then v_known "numreveals_uint64_truncation" m
               else v_viol m
      | _ => verdict true (term_eqb obs m && sub_ok) false m
      end
  | TL [TS "vw"; TZ sw; TZ lnPW; TZ n; TZ st; obs] =>
      if negb (in64 sw && in64 lnPW && in64 st && in64 n) then v_parse else
      let m := t_resU (verifyWeights sw lnPW n st) in
      verdict (Bool.eqb (is_ok obs) (spec_verify sw lnPW n st)) (term_eqb obs m)
              (negb (sw =? 0) && (n <=? MaxReveals)) m
  | TL [TS "pv"; TZ sw; TZ lnPW; TZ st; obs; TL l] =>
      if negb (in64 sw && in64 lnPW && in64 st && (0 <? sw)) then v_parse else
      let mr := numReveals sw lnPW st in
      let m := t_resZ mr in
      match check_pv_list sw lnPW st l with
      | None => v_parse
      | Some (s, c) => verdict s (c && term_eqb obs m) (is_ok obs) m
      end
  | TL [TS "coin"; TZ sw; TL zs; TL cs] =>
      match map_opt as_Z zs, map_opt as_Z cs with
      | Some zs, Some cs =>
          if negb (in64 sw && (0 <? sw) && forallb in64 zs) then v_parse else
          let m := coins (List.length cs) sw zs in
          verdict (all_lt sw cs) (list_eqb Z.eqb cs m)
                  (1 <? sw)
                  (TL (List.map TZ m))
      | _, _ => v_parse
      end
  | _ => v_parse
  end.
