(* C43: model of the part of network/wsPeer.go:readLoop that decides what reaches the handlers,
   and of several peers sharing one incoming message filter.  No proofs here.

   One [frame] is one websocket message: 2 tag bytes, then the payload delivered by the
   connection's reader under an arbitrary read script (model/Slurper.v).  Payload bytes are
   abstract: a payload is identified by (content id, length); two frames carry the same bytes
   iff they agree on both.  CheckIncomingMessage hashes nonce || tag || payload; the model uses
   the injective key [tag ++ [id; length]] in place of the hash ("except through a hash
   collision").
   Per-tag limits are the table generated from the running code (gen/TagLimits.v);
   [tag_class] transcribes the switch in readLoop. *)
From Coq Require Import NArith ZArith List Bool.
From Verif.lib Require Import Term.
From Verif.model Require Import Slurper MsgFilter.
From Verif.gen Require Import TagLimits.
Import ListNotations.
Open Scope N_scope.

Definition tag := list N.
Definition tag_eqb (a b : tag) : bool := list_eqb N.eqb a b.

(* protocol.Tag.MaxMessageSize(): the generated table lists every 2-byte tag with a non-zero
   result (the translator evaluates the method on all 65536 tags); all others return 0 *)
Fixpoint assoc_tag (t : tag) (l : list (tag * N)) : option N :=
  match l with
  | [] => None
  | (k, v) :: r => if tag_eqb t k then Some v else assoc_tag t r
  end.
Definition tag_limit (t : tag) : N :=
  match assoc_tag t nonzero_limits with Some v => v | None => 0 end.

Definition tAV : tag := [65; 86].   Definition tMI : tag := [77; 73].
Definition tMS : tag := [77; 83].   Definition tNP : tag := [78; 80].
Definition tNI : tag := [78; 73].   Definition tPP : tag := [80; 80].
Definition tSP : tag := [83; 80].   Definition tTS : tag := [84; 83].
Definition tTX : tag := [84; 88].   Definition tUE : tag := [85; 69].
Definition tVB : tag := [86; 66].   Definition tVP : tag := [86; 80].

Definition in_tags (t : tag) (l : list tag) : bool := existsb (tag_eqb t) l.

(* tags whose messages readLoop queues on readBuffer (handlers) *)
Definition deliver_tags : list tag := [tTX; tAV; tPP; tNP; tSP; tUE; tVB; tNI].
(* tags consumed inside the peer (MI, TS, MS) or re-tagged after decompression (VP): never
   queued under their own tag; their handling is outside this model *)
Definition internal_tags : list tag := [tMI; tTS; tMS; tVP].
(* dedupSafeTag *)
Definition dedup_safe (t : tag) : bool := tag_eqb t tAV || tag_eqb t tTX.

Record frame := mkFrame { ftag : tag; fid : N; ftotal : N; fscript : list ev }.

Inductive pres :=
| PDelivered (len : N)       (* queued for the handlers with len payload bytes *)
| PDropped                   (* duplicate, unknown tag, or consumed inside the peer *)
| PClosed (o : outcome)      (* slurper.Read failed: readLoop returns, connection torn down *)
| PGone.                     (* the peer had already been closed *)

Record peer := mkPeer { pslurp : slurper; popen : bool }.
Definition new_peer : peer := mkPeer (make_slurper averageMessageLength maxMessageLength) true.

Definition key_of (t : tag) (id len : N) : list N := t ++ [id; len].
Definition keqb : list N -> list N -> bool := list_eqb N.eqb.

(* one iteration of readLoop for a frame whose tag has been read *)
Definition peer_step (flt : filt (D:=list N)) (p : peer) (fr : frame)
  : peer * filt (D:=list N) * pres :=
  if negb (popen p) then (p, flt, PGone) else
  let '(o, s', r') := slurp (pslurp p) (tag_limit (ftag fr)) (ftotal fr) (fscript fr) in
  match o with
  | ROk =>
      let len := size s' in
      let p' := mkPeer s' true in
      if in_tags (ftag fr) deliver_tags then
        if (0 <? len) && dedup_safe (ftag fr) then
          let '(flt', has) := check_digest keqb flt (key_of (ftag fr) (fid fr) len) true true in
          if has then (p', flt', PDropped) else (p', flt', PDelivered len)
        else (p', flt, PDelivered len)
      else (p', flt, PDropped)
  | _ => (mkPeer s' false, flt, PClosed o)
  end.

Fixpoint upd_peer (i : nat) (p : peer) (l : list peer) : list peer :=
  match l, i with
  | [], _ => []
  | _ :: xs, O => p :: xs
  | x :: xs, S i' => x :: upd_peer i' p xs
  end.

(* a schedule: which peer's readLoop processes its next frame; CheckDigest is atomic (mutex) *)
Fixpoint net_run (peers : list peer) (flt : filt (D:=list N)) (sched : list (nat * frame))
  : list pres :=
  match sched with
  | [] => []
  | (i, fr) :: rest =>
      match nth_error peers i with
      | None => PGone :: net_run peers flt rest
      | Some p =>
          let '(p', flt', res) := peer_step flt p fr in
          res :: net_run (upd_peer i p' peers) flt' rest
      end
  end.
