(* C36 model of crypto/onetimesig.go: the two-level ephemeral ("participation") signature keys.

   Secrets are SYMBOLIC KEY MATERIAL.  What the model keeps of a key is what its certificate
   binds, i.e. exactly what Verify can check about it:
     - a batch subkey  (element of Batches)  is the batch number [b] of the
       OneTimeSignatureSubkeyBatchID{pk, b} that the master key signed at generation time
       (PKSigNew).  Generate makes exactly one subkey per batch number, so the number also
       names the key (PK2).
     - an offset subkey (element of Offsets) is [mkOk signer b o]: the batch subkey whose SK
       produced its certificate PKSigNew, and the OneTimeSignatureSubkeyOffsetID{pk, b, o}
       that this certificate signs.
   The master secret (ephemeralSec) is a local of Generate and is never stored, hence not part
   of the state.  A signature is the triple of certificates it carries; Verify is the
   derivation check  master |- batch key b |- offset key (b,o) |- message.
   ed25519 itself (unforgeability; the all-zero signature does not verify) is assumed; the
   harness observes the latter on every empty signature.

   Go uint64 arithmetic is explicit: [wadd]/[wsub] wrap modulo 2^64, comparisons are on the
   wrapped values, exactly in the places where the Go code computes them.  No proofs here. *)
From Coq Require Import NArith List Bool.
Import ListNotations.
Open Scope N_scope.

Definition W : N := 18446744073709551616.          (* 2^64 *)
Definition wadd (a b : N) : N := (a + b) mod W.
Definition wsub (a b : N) : N := (a + W - b) mod W.
Definition lenN {A} (l : list A) : N := N.of_nat (length l).

(* OneTimeSignatureIdentifier *)
Record ident := mkId { ibatch : N; ioff : N }.
Definition id_ltb (a b : ident) : bool :=
  (ibatch a <? ibatch b) || ((ibatch a =? ibatch b) && (ioff a <? ioff b)).
Definition id_leb (a b : ident) : bool := negb (id_ltb b a).

Definition bkey := N.
Record okey := mkOk { ok_signer : N; ok_batch : N; ok_off : N }.

(* OneTimeSignatureSecretsPersistent.  [bnil]: Batches == nil (the code distinguishes nil from
   empty); [pk2]: OffsetsPK2/OffsetsPK2Sig = public half + master certificate of a batch key
   ([None] = the zero value). *)
Record secrets := mkS {
  fb : N; bnil : bool; batches : list bkey;
  fo : N; offs : list okey; pk2 : option N }.

Fixpoint seqN (a : N) (len : nat) : list N :=
  match len with O => [] | S l => a :: seqN (a + 1) l end.

(* GenerateOneTimeSignatureSecretsRNG: subkeys[i] certified for batch startBatch+i (wrapping) *)
Definition generate (start n : N) : secrets :=
  mkS start false (map (fun i => wadd start i) (seqN 0 (N.to_nat n))) 0 [] None.

(* DeleteBeforeFineGrained(current, numKeysPerBatch) *)
Definition delete (s : secrets) (cur : ident) (K : N) : secrets :=
  let cb := ibatch cur in
  let co := ioff cur in
  if wadd cb 1 =? fb s then
    (* advancing inside the batch that is already broken out into offset keys *)
    if fo s <? co then
      let jump := N.min (wsub co (fo s)) (lenN (offs s)) in
      mkS (fb s) (bnil s) (batches s) (wadd (fo s) jump) (skipn (N.to_nat jump) (offs s)) (pk2 s)
    else s
  else if wadd cb 1 <? fb s then s          (* "trying to forget something earlier" *)
  else
    (* 1. s.Offsets = nil *)
    let jump := wsub cb (fb s) in
    if lenN (batches s) <? jump then
      (* ran out of whole batches *)
      if bnil s then mkS (fb s) true (batches s) (fo s) [] (pk2 s)
      else mkS cb true [] (fo s) [] (pk2 s)
    else
      (* 2. drop the batches jumped over *)
      let fb1 := wadd (fb s) jump in
      match skipn (N.to_nat jump) (batches s) with
      | [] => mkS fb1 (bnil s) [] (fo s) [] (pk2 s)
      | k0 :: rest =>
          (* 3. expand Batches[0] into offset keys current.Offset .. numKeysPerBatch-1, each
                certified by Batches[0].SK for (current.Batch, off); 4. drop Batches[0] *)
          mkS (wadd fb1 1) false rest co
              (map (fun off => mkOk k0 cb off) (seqN co (N.to_nat (K - co))))
              (Some k0)
      end.

(* Snapshot + msgpack round trip (how data/account persists the keys): omitempty turns an
   empty Batches into nil; everything else is preserved. *)
Definition reload (s : secrets) : secrets :=
  mkS (fb s) (match batches s with [] => true | _ => false end) (batches s) (fo s) (offs s) (pk2 s).

Inductive op := Del (cur : ident) (K : N) | Reload.
Definition step (s : secrets) (o : op) : secrets :=
  match o with Del c K => delete s c K | Reload => reload s end.
Definition run (s : secrets) (ops : list op) : secrets := fold_left step ops s.

(* OneTimeSignature: message signed by PK; PK1Sig = certificate made by [signer] for
   (PK, ob, oo); PK2 / PK2Sig = batch key and the batch number the master certified for it.
   SigPanic = slice index out of range (shown unreachable). *)
Inductive sig :=
| SigEmpty
| SigPanic
| SigVal (m : N) (signer ob oo : N) (p2 : option N).

Definition sign (s : secrets) (id : ident) (m : N) : sig :=
  if (wadd (ibatch id) 1 =? fb s) && (fo s <=? ioff id) && (wsub (ioff id) (fo s) <? lenN (offs s)) then
    match nth_error (offs s) (N.to_nat (wsub (ioff id) (fo s))) with
    | Some k => SigVal m (ok_signer k) (ok_batch k) (ok_off k) (pk2 s)
    | None => SigPanic
    end
  else if (fb s <=? ibatch id) && (wsub (ibatch id) (fb s) <? lenN (batches s)) then
    match nth_error (batches s) (N.to_nat (wsub (ibatch id) (fb s))) with
    | Some k => SigVal m k (ibatch id) (ioff id) (Some k)   (* fresh offset key, certified now *)
    | None => SigPanic
    end
  else SigEmpty.

(* OneTimeSignatureVerifier.Verify: PK2Sig is the master's certificate of PK2 for id.Batch;
   PK1Sig verifies under PK2 and is for (id.Batch, id.Offset); Sig is on the message. *)
Definition verify (id : ident) (m : N) (sg : sig) : bool :=
  match sg with
  | SigVal m' signer ob oo (Some p) =>
      (p =? ibatch id) && (signer =? p) && (ob =? ibatch id) && (oo =? ioff id) && (m' =? m)
  | _ => false
  end.

(* ---- what an adversary holding the state can do ------------------------------------- *)

(* signatures that can be assembled from the key material of [s] (certificates are public:
   any batch key's public half/certificate may be attached; the holder of a batch key can
   certify arbitrary (b,o) for a fresh offset key) *)
Inductive can_make (s : secrets) : sig -> Prop :=
| cm_batch : forall k m b o, In k (batches s) -> can_make s (SigVal m k b o (Some k))
| cm_off : forall k m p, In k (offs s) -> can_make s (SigVal m (ok_signer k) (ok_batch k) (ok_off k) p).

(* key material from which a signature for [id] is derivable *)
Definition derivable (s : secrets) (id : ident) : Prop :=
  In (ibatch id) (batches s) \/
  exists k, In k (offs s) /\ ok_signer k = ibatch id /\ ok_batch k = ibatch id /\ ok_off k = ioff id.

Definition id_lt (a b : ident) : Prop :=
  ibatch a < ibatch b \/ (ibatch a = ibatch b /\ ioff a < ioff b).
Definition id_le (a b : ident) : Prop := ~ id_lt b a.
Definition wf_id (i : ident) : Prop := ibatch i < W /\ ioff i < W.
Definition wf_op (o : op) : Prop :=
  match o with Del c K => wf_id c /\ K < W | Reload => True end.
