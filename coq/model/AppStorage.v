(* C23 model: storage accounting of one application.
   Transcribes
     ledger/eval/applications.go   NewBox / SetBox / DelBox (TotalBoxes, TotalBoxBytes of the
                                   application account with AddSaturate / SubSaturate, kvGet/kvPut/kvDel),
     data/transactions/logic/box.go  lengthChecks, boxCreateImpl, boxResizeImpl, boxReplaceImpl,
                                   boxPutImpl, boxDelImpl, replaceCarefully (for the app's own boxes),
     ledger/eval/appcow.go         setKey / delKey / getKey, updateCounts, checkCounts,
                                   AllocateApp / DeallocateApp, SetAppGlobalSchema, the storageDelta
                                   fields counts / maxCounts,
     ledger/eval/eval.go           roundCowBase.getStorageCounts / getStorageLimits (what a new block
                                   starts from: [end_block]),
     data/transactions/logic/eval.go  opAppGlobalPut/Del, opAppLocalPut/Del (length rules, account
                                   index resolution),
     ledger/apply/application.go   ApplicationCall: opt-in before the program, close-out / delete /
                                   update (with a global schema change) after it, ClearState.
   An application program is ANY finite script of storage operations ending in approve, reject
   or error; the script runs in a child of the transaction's cow and is committed only when it
   passes; a failing transaction is discarded as a whole ([step]).  The world is the storage of
   ONE application id (boxes, global and local state of other applications live under other
   keys; app_box_* access to other applications' boxes is not modelled).  Box budget / box
   reference availability are AVM concerns (C35) and are assumed granted.
   uint64 arithmetic: AddSaturate / SubSaturate are the C45 transcriptions; the ++ / -- of
   updateCounts wrap modulo 2^64.  No proofs in this file. *)
From Coq Require Import NArith List Bool.
From Verif.lib Require Import Term.
From Verif.model Require Import Overflow AssocList.
Import ListNotations.
Open Scope N_scope.

Definition bytes := list N.
Definition bytes_eqb (a b : bytes) : bool := list_eqb N.eqb a b.
Definition blen (b : bytes) : N := N.of_nat (length b).

Inductive tval := TVu (n : N) | TVb (b : bytes).     (* basics.TealValue *)

(* consensus parameters read by the code *)
Record params := mkPar {
  maxkey : N;       (* MaxAppKeyLen *)
  maxbox : N;       (* MaxBoxSize *)
  maxval : N;       (* MaxAppBytesValueLen *)
  maxsum : N        (* MaxAppSumKeyValueLens *)
}.

(* one key/value store with the storageDelta bookkeeping: (NumUint, NumByteSlice) *)
Record storage := mkSt {
  st_kv : list (bytes * tval);
  st_counts : N * N;
  st_max : N * N
}.

(* what else the evaluator's copy-on-write layers remember and the code below reads:
   the creator (whose account holds AppParams), AppParams.SizeSponsor (0 = the creator), and
   whether the creator's own local state was deleted earlier in the block under construction *)
Record cowinfo := mkCI { ci_creator : N; ci_sponsor : N; ci_cclosed : bool }.

Record world := mkW {
  w_global : option storage;               (* Some iff the application exists *)
  w_gschema : N * N;                       (* AppParams.GlobalStateSchema *)
  w_lschema : N * N;                       (* AppParams.LocalStateSchema *)
  w_local : list (N * (storage * (N * N)));(* address -> local storage, AppLocalState.Schema *)
  w_box : list (bytes * bytes);            (* box name -> contents *)
  w_tb : N;                                (* TotalBoxes of the application account *)
  w_tbb : N;                               (* TotalBoxBytes *)
  w_cow : cowinfo
}.

(* right after the creating transaction (the approval program approves a creation) *)
Definition winit (creator : N) (gs ls : N * N) : world :=
  mkW (Some (mkSt [] (0, 0) gs)) gs ls [] [] 0 0 (mkCI creator 0 false).

Inductive res (A : Type) : Type := Ok (a : A) | Err (e : N).
Arguments Ok {A} a.
Arguments Err {A} e.

Definition SM (A : Type) : Type := world -> world * res A.
Definition ret {A} (a : A) : SM A := fun w => (w, Ok a).
Definition fail {A} (e : N) : SM A := fun w => (w, Err e).
Definition bind {A B} (m : SM A) (k : A -> SM B) : SM B :=
  fun w => match m w with
           | (w1, Ok a) => k a w1
           | (w1, Err e) => (w1, Err e)
           end.
Notation "x <- m ;; k" := (bind m (fun x => k)) (at level 61, m at next level, right associativity).
Notation "m ;;; k" := (bind m (fun _ => k)) (at level 61, right associativity).

(* result classes of a transaction *)
Definition R_REJECT : N := 1.      (* rejected by ApprovalProgram *)
Definition R_LOGIC : N := 2.       (* logic eval error *)
Definition R_APPLY : N := 3.       (* any other error of ApplicationCall *)

(* ------------------------------------------------------------------ boxes *)
Definition set_boxes (w : world) (b : list (bytes * bytes)) (tb tbb : N) : world :=
  mkW (w_global w) (w_gschema w) (w_lschema w) (w_local w) b tb tbb (w_cow w).

(* applications.go NewBox (the existence test was done by the caller as well) *)
Definition newBox (P : params) (name value : bytes) : SM unit := fun w =>
  if maxkey P <? blen name then (w, Err R_LOGIC) else
  if blen name =? 0 then (w, Err R_LOGIC) else
  if maxbox P <? blen value then (w, Err R_LOGIC) else
  if ahas bytes_eqb name (w_box w) then (w, Err R_LOGIC) else
  (set_boxes w (aset bytes_eqb name value (w_box w))
             (addsat 64 (w_tb w) 1) (addsat 64 (w_tbb w) (blen name + blen value)), Ok tt).

(* applications.go DelBox of an existing box *)
Definition delBox (name : bytes) : SM bool := fun w =>
  match aget bytes_eqb name (w_box w) with
  | None => (w, Ok false)
  | Some value =>
      (set_boxes w (adel bytes_eqb name (w_box w))
                 (subsat 64 (w_tb w) 1) (subsat 64 (w_tbb w) (blen name + blen value)), Ok true)
  end.

(* applications.go SetBox *)
Definition setBox (name value : bytes) : SM unit := fun w =>
  match aget bytes_eqb name (w_box w) with
  | None => (w, Err R_LOGIC)
  | Some old =>
      if negb (blen old =? blen value) then (w, Err R_LOGIC)
      else (set_boxes w (aset bytes_eqb name value (w_box w)) (w_tb w) (w_tbb w), Ok tt)
  end.

Definition getBox (name : bytes) : SM (option bytes) := fun w => (w, Ok (aget bytes_eqb name (w_box w))).

(* box.go lengthChecks *)
Definition lengthChecks (P : params) (name : bytes) (size : N) : SM unit :=
  if blen name =? 0 then fail R_LOGIC else
  if maxkey P <? blen name then fail R_LOGIC else
  if maxbox P <? size then fail R_LOGIC else ret tt.

Definition zeros (n : N) : bytes := repeat 0 (N.to_nat n).

(* the opcodes return what they push (box_create / box_del) *)
Definition boxCreate (P : params) (name : bytes) (size : N) : SM N :=
  lengthChecks P name size ;;;
  ob <- getBox name ;;
  match ob with
  | Some content => if negb (size =? blen content) then fail R_LOGIC else ret 0
  | None => newBox P name (zeros size) ;;; ret 1
  end.

Definition boxResize (P : params) (name : bytes) (size : N) : SM unit :=
  lengthChecks P name size ;;;
  ob <- getBox name ;;
  match ob with
  | None => fail R_LOGIC
  | Some content =>
      delBox name ;;;
      let resized := if blen content <? size
                     then content ++ zeros (size - blen content)
                     else firstn (N.to_nat size) content in
      newBox P name resized
  end.

(* replaceCarefully *)
Definition replaceCarefully (orig repl : bytes) (start : N) : option bytes :=
  if blen orig <? start then None else
  let e := start + blen repl in
  if 2 ^ 64 <=? e then None else
  if blen orig <? e then None else
  Some (firstn (N.to_nat start) orig ++ repl ++ skipn (N.to_nat e) orig).

Definition boxReplace (P : params) (name : bytes) (start : N) (data : bytes) : SM unit :=
  lengthChecks P name (addsat 64 start (blen data)) ;;;
  ob <- getBox name ;;
  match ob with
  | None => fail R_LOGIC
  | Some content =>
      match replaceCarefully content data start with
      | None => fail R_LOGIC
      | Some b => setBox name b
      end
  end.

Definition boxPut (P : params) (name data : bytes) : SM unit :=
  lengthChecks P name (blen data) ;;;
  ob <- getBox name ;;
  match ob with
  | Some content => if negb (blen content =? blen data) then fail R_LOGIC else setBox name data
  | None => newBox P name data
  end.

Definition boxDel (P : params) (name : bytes) : SM N :=
  lengthChecks P name 0 ;;;
  ob <- getBox name ;;
  match ob with
  | Some _ => delBox name ;;; ret 1
  | None => ret 0
  end.

(* ------------------------------------------------------------------ key/value storage *)
Definition inc64 (x : N) : N := (x + 1) mod W64.
Definition dec64 (x : N) : N := (x + W64 - 1) mod W64.

(* updateCounts *)
Definition updateCounts (c : N * N) (old new : option tval) : N * N :=
  let c1 := match old with
            | Some (TVb _) => (fst c, dec64 (snd c))
            | Some (TVu _) => (dec64 (fst c), snd c)
            | None => c
            end in
  match new with
  | Some (TVb _) => (fst c1, inc64 (snd c1))
  | Some (TVu _) => (inc64 (fst c1), snd c1)
  | None => c1
  end.

(* checkCounts *)
Definition checkCounts (s : storage) : bool :=
  negb (fst (st_max s) <? fst (st_counts s)) && negb (snd (st_max s) <? snd (st_counts s)).

(* the length rules of opAppGlobalPut / opAppLocalPut and setKey (identical) *)
Definition put_lengths_ok (P : params) (key : bytes) (v : tval) : bool :=
  negb (maxkey P <? blen key) &&
  match v with
  | TVb b => negb (maxval P <? blen b) && negb (maxsum P <? blen key + blen b)
  | TVu _ => true
  end.

(* setKey on an allocated storage: the new storage, and whether checkCounts passed *)
Definition st_set (s : storage) (key : bytes) (v : tval) : storage * bool :=
  let old := aget bytes_eqb key (st_kv s) in
  let s' := mkSt (aset bytes_eqb key v (st_kv s)) (updateCounts (st_counts s) old (Some v)) (st_max s) in
  (s', checkCounts s').

(* delKey *)
Definition st_del (s : storage) (key : bytes) : storage :=
  let old := aget bytes_eqb key (st_kv s) in
  mkSt (adel bytes_eqb key (st_kv s)) (updateCounts (st_counts s) old None) (st_max s).

Definition set_global (w : world) (g : option storage) : world :=
  mkW g (w_gschema w) (w_lschema w) (w_local w) (w_box w) (w_tb w) (w_tbb w) (w_cow w).
Definition set_local (w : world) (l : list (N * (storage * (N * N)))) : world :=
  mkW (w_global w) (w_gschema w) (w_lschema w) l (w_box w) (w_tb w) (w_tbb w) (w_cow w).
Definition set_cow (w : world) (c : cowinfo) : world :=
  mkW (w_global w) (w_gschema w) (w_lschema w) (w_local w) (w_box w) (w_tb w) (w_tbb w) c.
Definition set_cclosed (w : world) (b : bool) : world :=
  set_cow w (mkCI (ci_creator (w_cow w)) (ci_sponsor (w_cow w)) b).

Definition globalPut (P : params) (key : bytes) (v : tval) : SM unit := fun w =>
  if negb (put_lengths_ok P key v) then (w, Err R_LOGIC) else
  match w_global w with
  | None => (w, Err R_LOGIC)
  | Some s => let '(s', ok) := st_set s key v in
              (set_global w (Some s'), if ok then Ok tt else Err R_LOGIC)
  end.

Definition globalDel (key : bytes) : SM unit := fun w =>
  match w_global w with
  | None => (w, Err R_LOGIC)
  | Some s => (set_global w (Some (st_del s key)), Ok tt)
  end.

(* Transaction.AddressByIndex: 0 = sender, i = Accounts[i-1] *)
Definition resolve_acct (sender : N) (accts : list N) (i : N) : option N :=
  if i =? 0 then Some sender else nth_error accts (N.to_nat (i - 1)).

Definition localPut (P : params) (sender : N) (accts : list N) (i : N) (key : bytes) (v : tval) : SM unit := fun w =>
  if maxkey P <? blen key then (w, Err R_LOGIC) else
  match resolve_acct sender accts i with
  | None => (w, Err R_LOGIC)
  | Some addr =>
      match aget N.eqb addr (w_local w) with
      | None => (w, Err R_LOGIC)                        (* not opted in *)
      | Some (s, sch) =>
          if negb (put_lengths_ok P key v) then (w, Err R_LOGIC) else
          let '(s', ok) := st_set s key v in
          (set_local w (aset N.eqb addr (s', sch) (w_local w)), if ok then Ok tt else Err R_LOGIC)
      end
  end.

Definition localDel (sender : N) (accts : list N) (i : N) (key : bytes) : SM unit := fun w =>
  match resolve_acct sender accts i with
  | None => (w, Err R_LOGIC)
  | Some addr =>
      match aget N.eqb addr (w_local w) with
      | None => (w, Err R_LOGIC)
      | Some (s, sch) => (set_local w (aset N.eqb addr (st_del s key, sch) (w_local w)), Ok tt)
      end
  end.

(* ------------------------------------------------------------------ programs *)
Inductive sop :=
| SBoxCreate (name : bytes) (size : N)
| SBoxResize (name : bytes) (size : N)
| SBoxReplace (name : bytes) (start : N) (data : bytes)
| SBoxPut (name data : bytes)
| SBoxDel (name : bytes)
| SGlobalPut (key : bytes) (v : tval)
| SGlobalDel (key : bytes)
| SLocalPut (acct : N) (key : bytes) (v : tval)
| SLocalDel (acct : N) (key : bytes)
| SReject
| SErr.

Definition is_box_op (o : sop) : bool :=
  match o with
  | SBoxCreate _ _ | SBoxResize _ _ | SBoxReplace _ _ _ | SBoxPut _ _ | SBoxDel _ => true
  | _ => false
  end.

(* one opcode; the result is what the interpreter program logs (one byte) if anything *)
Definition run_sop (P : params) (clear : bool) (sender : N) (accts : list N) (o : sop) : SM (option N) :=
  if clear && is_box_op o then fail R_LOGIC      (* boxes may not be accessed from ClearState program *)
  else match o with
  | SBoxCreate n s => b <- boxCreate P n s ;; ret (Some b)
  | SBoxResize n s => boxResize P n s ;;; ret None
  | SBoxReplace n st d => boxReplace P n st d ;;; ret None
  | SBoxPut n d => boxPut P n d ;;; ret None
  | SBoxDel n => b <- boxDel P n ;; ret (Some b)
  | SGlobalPut k v => globalPut P k v ;;; ret None
  | SGlobalDel k => globalDel k ;;; ret None
  | SLocalPut i k v => localPut P sender accts i k v ;;; ret None
  | SLocalDel i k => localDel sender accts i k ;;; ret None
  | SReject => fail R_REJECT
  | SErr => fail R_LOGIC
  end.

(* the whole program: runs the script in order, approves at the end; returns the logs *)
Fixpoint run_script (P : params) (clear : bool) (sender : N) (accts : list N) (sc : list sop) : SM (list N) :=
  match sc with
  | [] => ret []
  | o :: sc' =>
      r <- run_sop P clear sender accts o ;;
      l <- run_script P clear sender accts sc' ;;
      ret (match r with Some b => b :: l | None => l end)
  end.

(* StatefulEval: the program runs in a child cow that is committed only if it passes *)
Definition statefulEval (P : params) (clear : bool) (sender : N) (accts : list N) (sc : list sop) : SM (list N) :=
  fun w => match run_script P clear sender accts sc w with
           | (w', Ok l) => (w', Ok l)
           | (_, Err e) => (w, Err e)
           end.

(* ------------------------------------------------------------------ ApplicationCall *)
Inductive oncomp := NoOp | OptIn | CloseOut | ClearState | UpdateApp (gs : N * N) | DeleteApp.

Definition schema_empty (s : N * N) : bool := (fst s =? 0) && (snd s =? 0).

(* optInApplication + AllocateApp(local) *)
Definition optIn (sender : N) : SM unit := fun w =>
  if ahas N.eqb sender (w_local w) then (w, Err R_APPLY) else
  let w1 := set_local w (aset N.eqb sender (mkSt [] (0, 0) (w_lschema w), w_lschema w) (w_local w)) in
  (* PutAppLocalState replaces a "deleted" local-state delta of this block *)
  ((if sender =? ci_creator (w_cow w) then set_cclosed w1 false else w1), Ok tt).

(* closeOutApplication + DeallocateApp(local) *)
Definition closeOut (sender : N) : SM unit := fun w =>
  if negb (ahas N.eqb sender (w_local w)) then (w, Err R_APPLY) else
  let w1 := set_local w (adel N.eqb sender (w_local w)) in
  (* DeleteAppLocalState leaves AppLocalStateDelta{Deleted: true} for (sender, app) in the block's cow *)
  ((if sender =? ci_creator (w_cow w) then set_cclosed w1 true else w1), Ok tt).

(* updateApplication: with a size change SetAppGlobalSchema, the new schema and the new size
   sponsor in AppParams; always PutAppParams(creator, ...) at the end.
   roundCowState.putAppParams copies the cached local-state delta of (creator, app) next to the
   new params (cow_creatables.go).  When that delta says "deleted" (the creator closed out of its
   own application earlier in this block) and the transaction's cow holds no account record of
   the creator -- the sender is somebody else and no size change charged the creator --
   AccountDeltas.ModifiedAccounts (ledgercore/statedelta.go) panics "account app state delta:
   addr ... not in base account"; the evaluator recovers and the transaction fails. *)
Definition updateApp (sender : N) (gs : N * N) : SM unit := fun w =>
  let ci := w_cow w in
  let creator := ci_creator ci in
  let sizeChange := negb (schema_empty gs) in
  let sponsor := if ci_sponsor ci =? 0 then creator else ci_sponsor ci in
  let creator_touched := (sender =? creator) || (sizeChange && (sponsor =? creator)) in
  let panics := ci_cclosed ci && negb creator_touched in
  if negb sizeChange then (if panics then (w, Err R_APPLY) else (w, Ok tt)) else
  match w_global w with
  | None => (w, Err R_APPLY)
  | Some s =>
      let s' := mkSt (st_kv s) (st_counts s) gs in
      if negb (checkCounts s') then (set_global w (Some s'), Err R_APPLY) else
      let w' := mkW (Some s') gs (w_lschema w) (w_local w) (w_box w) (w_tb w) (w_tbb w)
                    (mkCI creator (if sender =? creator then 0 else sender) (ci_cclosed ci)) in
      if panics then (w', Err R_APPLY) else (w', Ok tt)
  end.

Definition deleteApp : SM unit := fun w => (set_global w None, Ok tt).

Definition applicationCall (P : params) (sender : N) (accts : list N) (oc : oncomp) (sc : list sop) : SM (list N) :=
  fun w =>
  let exists_ := match w_global w with Some _ => true | None => false end in
  match oc with
  | ClearState =>
      if negb (ahas N.eqb sender (w_local w)) then (w, Err R_APPLY) else
      let '(w1, logs) :=
        if exists_ then
          match statefulEval P true sender accts sc w with
          | (w1, Ok l) => (w1, l)
          | (w1, Err _) => (w1, [])          (* failures of the clear state program are ignored *)
          end
        else (w, []) in
      (closeOut sender ;;; ret logs) w1
  | _ =>
      if negb exists_ then (w, Err R_APPLY) else
      ((match oc with OptIn => optIn sender | _ => ret tt end) ;;;
       logs <- statefulEval P false sender accts sc ;;
       (match oc with
        | CloseOut => closeOut sender
        | DeleteApp => deleteApp
        | UpdateApp gs => updateApp sender gs
        | _ => ret tt
        end) ;;;
       ret logs) w
  end.

(* ------------------------------------------------------------------ histories *)
Definition count_kv (kv : list (bytes * tval)) : N * N :=
  (N.of_nat (length (filter (fun e => match snd e with TVu _ => true | TVb _ => false end) kv)),
   N.of_nat (length (filter (fun e => match snd e with TVb _ => true | TVu _ => false end) kv))).

(* what the next block's evaluator starts from: counts recomputed from the stored key/values
   (roundCowBase.getStorageCounts), limits from the application's schemas (getStorageLimits) *)
Definition end_block (w : world) : world :=
  let exists_ := match w_global w with Some _ => true | None => false end in
  mkW (match w_global w with
       | Some s => Some (mkSt (st_kv s) (count_kv (st_kv s)) (w_gschema w))
       | None => None
       end)
      (w_gschema w) (w_lschema w)
      (map (fun e => (fst e, (mkSt (st_kv (fst (snd e))) (count_kv (st_kv (fst (snd e))))
                                   (if exists_ then w_lschema w else (0, 0)),
                              snd (snd e)))) (w_local w))
      (w_box w) (w_tb w) (w_tbb w)
      (mkCI (ci_creator (w_cow w)) (ci_sponsor (w_cow w)) false).

Inductive op :=
| OCall (sender : N) (accts : list N) (oc : oncomp) (sc : list sop)
| OEndBlock.

(* one transaction through the evaluator: discarded as a whole when it fails *)
Definition step (P : params) (w : world) (o : op) : world * res (list N) :=
  match o with
  | OCall s accts oc sc =>
      match applicationCall P s accts oc sc w with
      | (w', Ok l) => (w', Ok l)
      | (_, Err e) => (w, Err e)
      end
  | OEndBlock => (end_block w, Ok [])
  end.

Fixpoint run (P : params) (w : world) (ops : list op) : world :=
  match ops with
  | [] => w
  | o :: ops' => run P (fst (step P w o)) ops'
  end.

(* ------------------------------------------------------------------ derived views *)
Definition box_bytes (b : list (bytes * bytes)) : N :=
  asum (fun name value => blen name + blen value) b.
Definition box_count (b : list (bytes * bytes)) : N := N.of_nat (length b).

(* an upper bound on the box bytes a script can ever account for *)
Definition sop_volume (o : sop) : N :=
  match o with
  | SBoxCreate n s => blen n + s + 1
  | SBoxResize n s => blen n + s + 1
  | SBoxPut n d => blen n + blen d + 1
  | _ => 0
  end.
Definition op_volume (o : op) : N :=
  match o with
  | OCall _ _ _ sc => fold_right (fun o acc => sop_volume o + acc) 0 sc
  | OEndBlock => 0
  end.
Definition volume (ops : list op) : N := fold_right (fun o acc => op_volume o + acc) 0 ops.

(* declared schemas are uint64 with room for one more key *)
Definition schema_wf (s : N * N) : Prop := fst s < 2 ^ 64 - 1 /\ snd s < 2 ^ 64 - 1.
Definition op_wf (o : op) : Prop :=
  match o with
  | OCall _ _ (UpdateApp gs) _ => schema_wf gs
  | _ => True
  end.
