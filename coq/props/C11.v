(* C11 A committed transaction cannot be committed again while valid.

   Model (model/TxTail.v): the txTail tracker (recent rounds with their leases, the
   lastValid-indexed txids, lowWaterMark, the pending serialized rounds, block headers), the
   txtail table of the tracker DB, restart = loadFromDisk + replay of the blocks above the
   tracker DB round, and the evaluator's copy-on-write state (in-block txid / lease sets).
   A history is ANY list of operations
        OBlock txs | OEval groups | OCommitted r | OCommit offset | ORestart keep
   inside the discipline the ledger follows ([op_ok]: committedUpTo is monotone and <= latest,
   commits stay <= latest, a restart keeps at least the tracker DB round; raw blocks are alive
   and within MaxTxnLife).  [run p sys0 ops = Some s] says: ops is such a history and s is the
   state it leads to.  All theorems quantify over every history (arbitrary length, arbitrary
   validity windows, leases, interleavings of garbage collection / flushes / restarts with
   arbitrary numbers of lost blocks) and every protocol parameter set p
   (MaxTxnLife, DeeperBlockHeaderHistory, SupportTransactionLeases, FixTransactionLeases).

   loadFromDisk is the REPAIRED loader (fixes/C11.patch); the original loader
   ([run_orig]) is refuted by C11_single_row_reload_refuted. *)
From Coq Require Import NArith List Bool String.
Import ListNotations.
From Verif.lib Require Import Term.
From Verif.model Require Import TxTail TxTailSpec.
From Verif.proofs Require Import TxTailInv TxTailEval TxTailSpecProofs.
Open Scope N_scope.

(* every operation inside the discipline succeeds: no prepareCommit / DB / loadFromDisk error,
   no index panic, at any point of any history *)
Theorem C11_history_never_fails : forall p ops s o,
  run p sys0 ops = Some s -> op_ok p s o = true -> snd (step p s o) = OK.
Proof. exact history_never_fails. Qed.
Print Assumptions C11_history_never_fails.

(* MAIN: after every history, for the next block (current = latest+1) and every probe that is
   not expired, checkDup answers exactly what the block list says (spec_dup is a function of the
   blocks only: it does not see recent / lastValid / lowWaterMark / the DB) *)
Theorem C11_checkDup_exact : forall p ops s cur fv lv id k,
  run p sys0 ops = Some s -> cur = s_latest s + 1 -> cur <= lv ->
  checkDup (s_tail s) p cur fv lv id k = spec_dup (s_blocks s) (s_latest s) p cur fv lv id k.
Proof. exact checkDup_exact. Qed.
Print Assumptions C11_checkDup_exact.

(* what spec_dup (the oracle evaluated by [check] on the implementation's answers) means *)
Theorem C11_spec_dup_sound : forall p ops s cur fv lv id k, run p sys0 ops = Some s ->
  let B := s_blocks s in let d := spec_dup B (s_latest s) p cur fv lv id k in
  (d = DupLease <-> lease_blocked B p k cur fv) /\
  (d = DupTx <-> ~ lease_blocked B p k cur fv /\ tx_committed B lv id) /\
  (d = DupNone <-> ~ lease_blocked B p k cur fv /\ ~ tx_committed B lv id).
Proof. exact spec_dup_sound. Qed.
Print Assumptions C11_spec_dup_sound.

(* dup_detect: a transaction of any block still in the chain is rejected for the next block as
   long as it has not expired -- whatever was garbage collected, flushed or reloaded meanwhile *)
Theorem C11_dup_detect : forall p ops s r x,
  run p sys0 ops = Some s -> committed (s_blocks s) r x -> s_latest s + 1 <= t_lv x ->
  let d := checkDup (s_tail s) p (s_latest s + 1) (t_fv x) (t_lv x) (t_id x) (t_key x) in
  d = DupTx \/ d = DupLease.
Proof. exact dup_detect. Qed.
Print Assumptions C11_dup_detect.

(* converse: a transaction that is in no block and whose lease nobody holds is accepted *)
Theorem C11_no_false_positive : forall p ops s cur fv lv id k,
  run p sys0 ops = Some s -> cur = s_latest s + 1 -> cur <= lv ->
  ~ tx_committed (s_blocks s) lv id -> ~ lease_blocked (s_blocks s) p k cur fv ->
  checkDup (s_tail s) p cur fv lv id k = DupNone.
Proof. exact no_false_positive. Qed.
Print Assumptions C11_no_false_positive.

(* lease exclusivity: while a committed transaction's non-zero lease is active, ANY transaction
   with the same sender and lease (any id, any window) is rejected ... *)
Theorem C11_lease_exclusive : forall p ops s r x fv lv id,
  run p sys0 ops = Some s -> p_sup p = true -> p_fix p = true ->
  committed (s_blocks s) r x -> t_lease x <> 0 -> s_latest s + 1 <= t_lv x -> s_latest s + 1 <= lv ->
  checkDup (s_tail s) p (s_latest s + 1) fv lv id (t_key x) = DupLease.
Proof. exact lease_exclusive. Qed.
Print Assumptions C11_lease_exclusive.

(* ... and accepted again once every holder has expired *)
Theorem C11_lease_released : forall p ops s fv lv id k,
  run p sys0 ops = Some s -> s_latest s + 1 <= lv ->
  (forall r x, committed (s_blocks s) r x -> t_key x = k -> t_lv x <= s_latest s) ->
  ~ tx_committed (s_blocks s) lv id ->
  checkDup (s_tail s) p (s_latest s + 1) fv lv id k = DupNone.
Proof. exact lease_released. Qed.
Print Assumptions C11_lease_released.

(* gc_safe + reload_equiv: committedUpTo, a commit to the tracker DB and a restart (keeping all
   blocks) leave every answer for the next block unchanged *)
Theorem C11_gc_commit_reload_transparent : forall p ops s o s' fv lv id k,
  run p sys0 ops = Some s -> is_maintenance s o = true -> op_ok p s o = true ->
  step p s o = (s', OK) -> s_latest s + 1 <= lv ->
  checkDup (s_tail s') p (s_latest s + 1) fv lv id k = checkDup (s_tail s) p (s_latest s + 1) fv lv id k.
Proof. exact maintenance_transparent. Qed.
Print Assumptions C11_gc_commit_reload_transparent.

(* evaluator side: a txid already in the block under construction (this group or an earlier
   one) never passes roundCowState.checkDup; neither does a lease held by the block *)
Theorem C11_cow_rejects_inblock_txid : forall p c a t hdr fv lv id k,
  In id (map t_id (a ++ c)) -> cow_checkDup [cow_of c; cow_of a] t p hdr fv lv id k <> DupNone.
Proof. exact cow_rejects_inblock_txid. Qed.
Print Assumptions C11_cow_rejects_inblock_txid.

Theorem C11_cow_rejects_inblock_lease : forall p c a t hdr fv lv id y,
  p_sup p = true -> t_lease y <> 0 -> In y (a ++ c) -> hdr <= t_lv y ->
  NoDup (map t_key (leased a)) -> NoDup (map t_key (leased c)) ->
  cow_checkDup [cow_of c; cow_of a] t p hdr fv lv id (t_key y) <> DupNone.
Proof. exact cow_rejects_inblock_lease. Qed.
Print Assumptions C11_cow_rejects_inblock_lease.

(* the delta the evaluator hands to newBlock is the one the model derives from the payset *)
Theorem C11_eval_delta : forall p t hdr gs root txs,
  eval_groups t p hdr cow0 [] gs = (root, txs) ->
  c_ids root = rev (map t_id txs) /\ c_leases root = leases_of txs.
Proof. exact eval_delta. Qed.
Print Assumptions C11_eval_delta.

(* END TO END: in every history whose blocks are built by the evaluator (each candidate passes
   WellFormed, Alive and checkDup against the cow chain and the txTail as it is at that moment),
   with arbitrary garbage collection, flushes and restarts in between, no transaction occupies
   two positions of the chain ... *)
Theorem C11_no_double_commit : forall p ops s r1 r2 txs1 txs2 i1 i2 x,
  run p sys0 ops = Some s -> evaluator_built ops = true ->
  lookup r1 (s_blocks s) = Some txs1 -> lookup r2 (s_blocks s) = Some txs2 ->
  nth_error txs1 i1 = Some x -> nth_error txs2 i2 = Some x ->
  r1 = r2 /\ i1 = i2.
Proof. exact no_double_commit. Qed.
Print Assumptions C11_no_double_commit.

(* ... and a non-zero lease is never granted to a second transaction before the first holder's
   LastValid has passed *)
Theorem C11_lease_never_granted_twice : forall p ops s r1 r2 x1 x2,
  run p sys0 ops = Some s -> evaluator_built ops = true -> p_sup p = true -> p_fix p = true ->
  committed (s_blocks s) r1 x1 -> committed (s_blocks s) r2 x2 ->
  t_key x1 = t_key x2 -> t_lease x1 <> 0 ->
  (r1 < r2 -> t_lv x1 < r2) /\ (r1 = r2 -> x1 = x2).
Proof. exact lease_never_granted_twice. Qed.
Print Assumptions C11_lease_never_granted_twice.

(* the ORIGINAL loader (loop guard dbRound > baseRound) forgets the only persisted round when the
   txtail table holds exactly one row: a committed, unexpired transaction is accepted again.
   Replayed on the real code by the harness (scripted case 0); repaired by fixes/C11.patch. *)
Theorem C11_single_row_reload_refuted :
  exists ops s r x,
    run_orig p_wit sys0 ops = Some s /\ committed (s_blocks s) r x /\ s_latest s + 1 <= t_lv x /\
    checkDup (s_tail s) p_wit (s_latest s + 1) (t_fv x) (t_lv x) (t_id x) (t_key x) = DupNone.
Proof. exact single_row_reload_refuted. Qed.
Print Assumptions C11_single_row_reload_refuted.

(* ---------- non-vacuity ---------- *)
Definition p_ex : proto := mkProto 3 1 true true.
Definition a1 := mkTx 1 1 4 7 9.   (* lease 9 of sender 7, valid 1..4 *)
Definition a2 := mkTx 2 1 3 8 0.
Definition a3 := mkTx 3 2 5 7 9.   (* same lease: must wait until round 5 *)
(* blocks by the evaluator, garbage collection, two flushes, a restart that loses block 4,
   another evaluated block, a restart with exactly one persisted row is covered by the witness *)
Definition ops_ex : list op :=
  [OEval [[a1; a2]; [a1]]; OEval [[a3]; [a2]]; OCommitted 2; OCommit 1; OEval []; OEval [];
   OCommit 2; ORestart 3; OEval [[a3]]; OCommitted 4; OEval [[a3]; [a1]]; ORestart 5].

Example C11_history_is_valid :
  exists s, run p_ex sys0 ops_ex = Some s /\ evaluator_built ops_ex = true /\ s_latest s = 5 /\
    s_dbRound s = 3 /\
    map (fun b => (fst b, map t_id (snd b))) (s_blocks s) = [(5, [3]); (4, []); (3, []); (2, []); (1, [1; 2])].
Proof. eexists. split; [vm_compute; reflexivity|]. vm_compute. repeat split. Qed.

(* the repaired loader on the witness history: the transaction is found again *)
Example C11_fixed_loader_on_witness :
  exists s, run p_wit sys0 ops_wit = Some s /\
    checkDup (s_tail s) p_wit (s_latest s + 1) (t_fv x_wit) (t_lv x_wit) (t_id x_wit) (t_key x_wit) = DupLease.
Proof. eexists. split; vm_compute; reflexivity. Qed.

(* why C11_lease_exclusive needs FixTransactionLeases: the legacy window check only looks at
   blocks from the probe's FirstValid on *)
Example C11_legacy_window_misses_lease :
  exists s, run (mkProto 4 1 true false) sys0 [OBlock [mkTx 1 1 5 1 1]] = Some s /\
    checkDup (s_tail s) (mkProto 4 1 true false) 2 2 6 99 (1, 1) = DupNone /\
    checkDup (s_tail s) (mkProto 4 1 true true) 2 2 6 99 (1, 1) = DupLease.
Proof. eexists. split; [vm_compute; reflexivity|]. split; vm_compute; reflexivity. Qed.
