(* C09 Ledger recovers to a consistent prefix after a crash.
   Property theorems only: each is closed by [exact <lemma>] and followed by Print Assumptions.

   The machine (model/LedgerCrash.v) has the block DB, the tracker DB and the catchpoint tables /
   files as durable state and the block queue, the in-memory tracker, the syncer's and the
   commit goroutine's program counters as volatile state.  [run init ops] ranges over EVERY
   interleaving of AddBlock, block flushes (any batch size), Wait confirmations, commit
   scheduling (any timing), the tracker transaction, postCommit, every single durable write of
   the catchpoint post-processing and of crash recovery, block pruning, crashes at ANY of these
   points and reopens (also crashes during recovery, any number of times), and of faults the
   process survives: a tracker transaction or a block transaction that fails (error or panic
   inside it) and is rolled back, after which the node goes on ([OCommitFails], [OFlushFails]).
   Blocks, ledger
   states and the evaluator are abstract ([B], [W], [apply]), MaxAcctLookback, archival mode,
   catchpoint interval / lookback / file generation are arbitrary ([cf]). *)
From Coq Require Import List Arith Bool.
Import ListNotations.
From Verif.lib Require Import Term.
From Verif.model Require Import LedgerCrash LedgerCrashCheck.
From Verif.proofs Require Import LedgerCrashProofs LedgerCrashCpProofs LedgerCrashCheckProofs.

(* durable invariant, at every point of every execution (= at every crash point): the tracker DB
   round lies inside the stored block range (its header can be read back), at least
   MaxAcctLookback behind the last stored block, and the tracker DB holds exactly the state
   obtained by replaying the stored blocks up to that round from genesis. *)
Theorem C09_durable_inv : forall (B W : Type) (apply : B -> W -> W) (genesis : W) (cf : cfg) (ops : list (op B)),
  let d := s_d B W (run B W apply cf (init B W genesis) ops) in
  d_earliest d <= d_dbr d /\ d_dbr d <= length (d_blocks d) /\
  d_dbw d = state_at B W apply genesis (d_blocks d) (d_dbr d) /\
  (d_dbr d = 0 \/ d_dbr d + c_L cf <= length (d_blocks d)).
Proof. exact durable_inv. Qed.
Print Assumptions C09_durable_inv.

(* a round for which Wait / WaitForCommit fired is in the durable block table, and the durable
   block table is a prefix of the blocks the ledger accepted *)
Theorem C09_confirmed_durable : forall (B W : Type) (apply : B -> W -> W) (genesis : W) (cf : cfg) (ops : list (op B)) v,
  s_m B W (run B W apply cf (init B W genesis) ops) = Up B W v ->
  v_conf B W v <= length (d_blocks (s_d B W (run B W apply cf (init B W genesis) ops))) /\
  exists queued, v_added B W v = d_blocks (s_d B W (run B W apply cf (init B W genesis) ops)) ++ queued.
Proof. exact confirmed_durable. Qed.
Print Assumptions C09_confirmed_durable.

(* recover_prefix: on the disk left at ANY point of ANY execution, OpenLedger (recovery, replay
   and the commit replay issues) succeeds; the ledger then holds exactly the durable blocks
   (Latest = their number) and serves, for every round from its tracker DB round to Latest, the
   state obtained by replaying exactly that prefix from genesis. *)
Theorem C09_recover_prefix : forall (B W : Type) (apply : B -> W -> W) (genesis : W) (cf : cfg) (ops : list (op B)),
  let d := s_d B W (run B W apply cf (init B W genesis) ops) in
  let s' := open_full B W apply cf d in
  exists v, s_m B W s' = Up B W v /\
    d_blocks (s_d B W s') = d_blocks d /\
    v_latest B W v = length (d_blocks d) /\ v_added B W v = d_blocks d /\
    d_dbr d <= d_dbr (s_d B W s') /\
    forall r, d_dbr (s_d B W s') <= r <= length (d_blocks d) ->
      lookup B W (s_d B W s') v r = Some (state_at B W apply genesis (d_blocks d) r).
Proof. exact recover_prefix. Qed.
Print Assumptions C09_recover_prefix.

(* a failed (rolled-back) tracker or block transaction leaves the disk exactly as it was; since
   [OCommitFails] / [OFlushFails] are operations of [run], the three theorems above hold for every
   fault sequence mixed with crashes *)
Theorem C09_failed_tx_durable_unchanged : forall (B W : Type) (apply : B -> W -> W) (cf : cfg) (s s' : state B W),
  step B W apply cf s (OCommitFails B) = Some s' \/ step B W apply cf s (OFlushFails B) = Some s' ->
  s_d B W s' = s_d B W s.
Proof. exact failed_tx_durable_unchanged. Qed.
Print Assumptions C09_failed_tx_durable_unchanged.

(* catchpoint leftovers at every crash point: a torn data file exists only for the tracker DB
   round while writingFirstStageInfo is set, a torn / unrecorded catchpoint file only for a round
   with an unfinishedcatchpoints row, ... ([cpinv]) - i.e. recovery can find every leftover. *)
Theorem C09_cp_durable_inv : forall (B W : Type) (apply : B -> W -> W) (genesis : W) (cf : cfg),
  0 < c_CL cf -> forall ops : list (op B),
  let d := s_d B W (run B W apply cf (init B W genesis) ops) in cpinv cf (d_dbr d) (d_cp d).
Proof. exact cp_durable_inv. Qed.
Print Assumptions C09_cp_durable_inv.

(* cp_recover: after OpenLedger on the disk of any crash point writingFirstStageInfo is clear,
   every data file is complete and has its first-stage record, every catchpoint file is complete
   and recorded, and - when the node generates catchpoint files - no unfinished catchpoint
   record remains.  (For a node that only tracks labels the last clause is false: see below.) *)
Theorem C09_cp_recover : forall (B W : Type) (apply : B -> W -> W) (genesis : W) (cf : cfg),
  0 < c_CL cf -> forall ops : list (op B),
  let d := s_d B W (run B W apply cf (init B W genesis) ops) in
  let cp' := d_cp (s_d B W (open_full B W apply cf d)) in
  cp_flag cp' = false /\
  (forall x c, In (x, c) (cp_data cp') -> c = true /\ In x (cp_first cp')) /\
  (forall r c, In (r, c) (cp_files cp') -> c = true /\ In r (cp_stored cp')) /\
  (c_files cf = true -> cp_unfinished cp' = []) /\
  (c_files cf = false -> cp_data cp' = [] /\ cp_files cp' = []).
Proof. exact cp_recover. Qed.
Print Assumptions C09_cp_recover.

(* what a passing [spec_ok] says about the REAL disk and the REAL OpenLedger: the statements
   above, instantiated with the observations *)
Theorem C09_spec_ok_sound : forall c g hist prev added conf e nb bad dbr ok lat bad2 dbr2 cp2 lookups totals,
  spec_ok c g hist prev added conf e nb bad dbr ok lat bad2 dbr2 cp2 lookups totals = true ->
  bad = 0 /\ e <= dbr /\ dbr <= nb /\ (dbr = 0 \/ dbr + c_L c <= nb) /\
  prev <= nb /\ nb <= added /\ added <= List.length hist /\ conf <= nb /\
  ok = true /\ lat = nb /\ bad2 = 0 /\ dbr <= dbr2 /\ dbr2 <= lat /\
  lookups = map (fun r => lookup_row (spec_world g hist r) r (first_ids lookups)) (rounds_from dbr2 lat) /\
  totals = map (fun r => totals_row r (spec_totals g hist r)) (rounds_from dbr2 lat) /\
  cp_flag cp2 = false /\
  (forall x, In x (map fst (cp_data cp2)) -> In x (cp_first cp2)) /\
  (forall r, In r (map fst (cp_files cp2)) -> In r (cp_stored cp2)) /\
  (c_files c = true -> cp_unfinished cp2 = []) /\
  (c_files c = false -> cp_data cp2 = [] /\ cp_files cp2 = []).
Proof. exact spec_ok_sound. Qed.
Print Assumptions C09_spec_ok_sound.

(* ---------- non-vacuity / witnesses (blocks = numbers, state = their sum) ---------- *)
Definition ex_apply (b w : nat) : nat := b + w.
Definition ex_cfg : cfg := mkCfg 1 false 4 4 false.     (* lookback 1, non-archival, labels only *)

(* fresh node opened, three blocks added, two flushed, crash: the third is lost; recovery serves rounds 0..2 *)
Example C09_ex_crash_loses_queue :
  let s := run nat nat ex_apply ex_cfg (init nat nat 0) [OOpen nat; OReplay nat; OAdd nat 5; OAdd nat 7; OAdd nat 1; OFlush nat 2; OCrash nat] in
  let s' := open_full nat nat ex_apply ex_cfg (s_d nat nat s) in
  d_blocks (s_d nat nat s) = [5; 7] /\
  match s_m nat nat s' with
  | Up _ _ v => v_latest nat nat v = 2 /\ d_dbr (s_d nat nat s') = 1 /\
                lookup nat nat (s_d nat nat s') v 1 = Some 5 /\ lookup nat nat (s_d nat nat s') v 2 = Some 12
  | _ => False
  end.
Proof. vm_compute. repeat split. Qed.

(* a tracker commit fails, the node goes on, commits later, crashes: recovery still serves the prefix *)
Example C09_ex_failed_commit :
  let ops := [OOpen nat; OReplay nat; OAdd nat 5; OAdd nat 7; OAdd nat 1; OFlush nat 3; OFlushed nat; ONotify nat true 0;
              OCommitFails nat; OForget nat; OAdd nat 2; OFlush nat 1; OFlushed nat; ONotify nat true 0; OCommit nat; OCrash nat] in
  let s1 := run nat nat ex_apply ex_cfg (init nat nat 0) (firstn 9 ops) in
  let s := run nat nat ex_apply ex_cfg (init nat nat 0) ops in
  let s' := open_full nat nat ex_apply ex_cfg (s_d nat nat s) in
  d_dbr (s_d nat nat s1) = 0 /\ d_dbr (s_d nat nat s) = 3 /\
  match s_m nat nat s' with
  | Up _ _ v => v_latest nat nat v = 4 /\ lookup nat nat (s_d nat nat s') v 3 = Some 13 /\ lookup nat nat (s_d nat nat s') v 4 = Some 15
  | _ => False
  end.
Proof. vm_compute. repeat split. Qed.

Fixpoint ex_adds (n : nat) : list (op nat) := match n with 0 => [] | S k => OAdd nat 1 :: ex_adds k end.
(* labels-only node: 9 blocks, commit to round 8 (first stage), 4 more blocks, commit to round 12
   (first stage + catchpoint 12), crash after the label was written and before pruning *)
Definition ex_leak_ops : list (op nat) :=
  [OOpen nat; OReplay nat] ++ ex_adds 9 ++ [OFlush nat 9; OFlushed nat; ONotify nat true 0; OForget nat; OCommit nat; OPost nat; OMicro nat; OMicro nat; OMicro nat; ODone nat] ++
  ex_adds 4 ++ [OFlush nat 4; OFlushed nat; ONotify nat true 0; OForget nat; OCommit nat; OPost nat; OMicro nat; OMicro nat; OCrash nat].

(* On a node that tracks catchpoint labels without generating files (CatchpointTracking = 1,
   non-archival) createCatchpoint returns right after writing the label, without
   DeleteUnfinishedCatchpoint: the unfinishedcatchpoints row survives the commit AND recovery
   (it is only dropped by a later restart, once its first-stage record has been pruned).
   Harmless for C09's statement (labels are recomputed identically), recorded as an observation. *)
Theorem C09_cp_unfinished_cleared_labels_only_refuted :
  exists ops : list (op nat),
    cp_unfinished (d_cp (s_d nat nat (open_full nat nat ex_apply ex_cfg
                     (s_d nat nat (run nat nat ex_apply ex_cfg (init nat nat 0) ops))))) <> [].
Proof. exists ex_leak_ops. vm_compute. discriminate. Qed.
Print Assumptions C09_cp_unfinished_cleared_labels_only_refuted.
