(* C22 Asset supply is conserved and holder rules are enforced.
   Property theorems only.  The model (model/AssetOps.v) transcribes ledger/apply/asset.go over
   the asset part of the Balances interface as implemented by roundCowState; [step] is one
   transaction through the evaluator (the writes of a failed transaction are discarded, a
   committed one advances the transaction counter); [run] applies a whole history to the
   empty world [winit c].  Every theorem quantifies over ALL histories [ops] of create /
   reconfigure / destroy / opt-in / transfer / clawback / close-out / freeze transactions
   (successful or failing, any number of accounts and assets, any MaxAssetsPerAccount, any
   initial transaction counter); [op_wf] only says that amounts are uint64. *)
From Coq Require Import NArith List Bool String Lia.
Import ListNotations.
From Verif.lib Require Import Term.
From Verif.model Require Import AssocList AssetOps AssetOpsSpec.
From Verif.proofs Require Import AssetOpsInv AssetOpsTheorems AssetOpsSpecProofs.
Open Scope N_scope.

(* While an asset exists the holdings sum to its Total; what a destroyed asset leaves behind
   sums to 0. *)
Theorem C22_supply_invariant : forall maxassets c ops, Forall op_wf ops ->
  let w := run maxassets (winit c) ops in
  forall a, (forall p, params_of w a = Some p -> supply w a = p_total p) /\
            (creator_of w a = None -> supply w a = 0).
Proof. exact supply_invariant. Qed.
Print Assumptions C22_supply_invariant.

(* the same for histories of transaction GROUPS (evaluated in one child cow, committed only if
   every member succeeds) *)
Theorem C22_supply_invariant_groups : forall maxassets c gs, Forall (Forall op_wf) gs ->
  let w := grun maxassets (winit c) gs in
  forall a, (forall p, params_of w a = Some p -> supply w a = p_total p) /\
            (creator_of w a = None -> supply w a = 0).
Proof. exact supply_invariant_groups. Qed.
Print Assumptions C22_supply_invariant_groups.

Theorem C22_holdings_bounded : forall maxassets c ops, Forall op_wf ops ->
  let w := run maxassets (winit c) ops in
  forall x a, match params_of w a with
              | Some p => amount_of w x a <= p_total p
              | None => amount_of w x a = 0
              end.
Proof. exact holdings_bounded. Qed.
Print Assumptions C22_holdings_bounded.

(* creatable bookkeeping: the creator index and the parameters in the creator's account agree *)
Theorem C22_creatable_consistent : forall maxassets c ops, Forall op_wf ops ->
  let w := run maxassets (winit c) ops in
  forall a x, creator_of w a = Some x <-> exists p, aget pair_eqb (x, a) (w_par w) = Some p.
Proof. exact creatable_consistent. Qed.
Print Assumptions C22_creatable_consistent.

(* a failing transaction changes nothing ... *)
Theorem C22_failing_op_changes_nothing : forall maxassets w o w' e,
  step maxassets w o = (w', Err e) -> w' = w.
Proof. exact failing_op_changes_nothing. Qed.
Print Assumptions C22_failing_op_changes_nothing.

(* ... and this rests on the evaluator discarding its writes (C19): the applier itself has
   already taken 4 units out of the sender when it finds that the receiver has not opted in *)
Theorem C22_partial_writes_break_supply :
  let w := run 0 w0 pw_ops in
  exists w' e, apply_op 0 (OXfer 1 1 4 3 0 0) w = (w', Err e) /\
    params_of w' 1 = Some (mkP 10 false 1 0 0 0 0) /\ supply w' 1 = 6.
Proof. exact partial_writes_break_supply. Qed.
Print Assumptions C22_partial_writes_break_supply.

(* exact effect of a committed transfer on every holding (closed form [xfer_amounts]):
   -amount at the source, +amount at the receiver, then the whole remainder from the source to
   the close-to address; [v] is ApplyData.AssetClosingAmount *)
Theorem C22_transfer_amounts : forall maxassets c ops, Forall op_wf ops ->
  let w := run maxassets (winit c) ops in
  forall s a amt r asnd ct w' v, amt < 2 ^ 64 ->
    step maxassets w (OXfer s a amt r asnd ct) = (w', Ok v) ->
    let source := if asnd =? 0 then s else asnd in
    amt <= amount_of w source a /\
    v = xfer_closing (amt_at w) source a amt r ct /\
    forall x a', amount_of w' x a' = xfer_amounts (amt_at w) source a amt r ct (x, a').
Proof. exact transfer_amounts. Qed.
Print Assumptions C22_transfer_amounts.

(* moving somebody else's holding needs the asset's (non-zero) clawback address as sender *)
Theorem C22_clawback_authorised : forall maxassets c ops, Forall op_wf ops ->
  let w := run maxassets (winit c) ops in
  forall s a amt r asnd ct w' v, amt < 2 ^ 64 ->
    step maxassets w (OXfer s a amt r asnd ct) = (w', Ok v) -> asnd <> 0 ->
    exists p, params_of w a = Some p /\ p_clawback p = s /\ s <> 0 /\ ct = 0.
Proof. exact clawback_authorised. Qed.
Print Assumptions C22_clawback_authorised.

(* A frozen holding's amount is changed by a committed transfer only if the transfer is a
   clawback by the clawback address -- or (the strongest true statement) the holder closes out
   to the asset's creator / the creator's frozen holding receives such a close-out. *)
Theorem C22_frozen_blocks_transfer : forall maxassets c ops, Forall op_wf ops ->
  let w := run maxassets (winit c) ops in
  forall s a amt r asnd ct w' v x a' h, amt < 2 ^ 64 ->
    step maxassets w (OXfer s a amt r asnd ct) = (w', Ok v) ->
    holding_of w x a' = Some h -> h_frozen h = true ->
    amount_of w' x a' <> h_amt h ->
    (asnd <> 0 /\ a' = a /\ exists p, params_of w a = Some p /\ p_clawback p = s /\ s <> 0) \/
    (asnd = 0 /\ ct <> 0 /\ creator_of w a = Some ct /\ a' = a /\ (x = s \/ x = ct)).
Proof. exact frozen_blocks_transfer. Qed.
Print Assumptions C22_frozen_blocks_transfer.

(* The property's wording ("transfers out of a frozen holding fail unless made by the
   clawback") is false of the code as it is: asset.go deliberately lets a frozen holder close
   out to the creator.  Witness (replayed on the real code by the harness; finding signature
   c22_frozen_close_to_creator). *)
Theorem C22_frozen_blocks_transfer_refuted :
  let w := run 0 w0 fr_ops in
  Forall op_wf fr_ops /\
  frozen_of w 2 1 = true /\ amount_of w 2 1 = 4 /\
  snd (step 0 w (OXfer 2 1 1 1 0 0)) = Err E_FROZEN_SND /\
  exists w', step 0 w (OXfer 2 1 0 2 0 1) = (w', Ok 4) /\
    amount_of w' 2 1 = 0 /\ amount_of w' 1 1 = 10.
Proof. exact frozen_blocks_transfer_refuted. Qed.
Print Assumptions C22_frozen_blocks_transfer_refuted.

(* whenever units move, both ends held the asset before the transaction *)
Theorem C22_both_opted_in : forall maxassets c ops, Forall op_wf ops ->
  let w := run maxassets (winit c) ops in
  forall s a amt r asnd ct w' v, amt < 2 ^ 64 ->
    step maxassets w (OXfer s a amt r asnd ct) = (w', Ok v) ->
    let source := if asnd =? 0 then s else asnd in
    (amt <> 0 -> holding_of w source a <> None /\ holding_of w r a <> None) /\
    (ct <> 0 -> v <> 0 -> holding_of w ct a <> None).
Proof. exact both_opted_in. Qed.
Print Assumptions C22_both_opted_in.

(* an asset is destroyed only by its manager while the creator holds the whole supply (and
   then nobody else holds anything) *)
Theorem C22_destroy_requires_full_holding : forall maxassets c ops, Forall op_wf ops ->
  let w := run maxassets (winit c) ops in
  forall s a cp w' v, a <> 0 -> params_is_zero cp = true ->
    step maxassets w (OConfig s a cp) = (w', Ok v) ->
    exists cr p, creator_of w a = Some cr /\ params_of w a = Some p /\
      p_manager p = s /\ s <> 0 /\
      amount_of w cr a = p_total p /\
      (forall x, x <> cr -> amount_of w x a = 0) /\
      creator_of w' a = None /\ params_of w' a = None.
Proof. exact destroy_requires_full_holding. Qed.
Print Assumptions C22_destroy_requires_full_holding.

(* close-out: never by clawback, never the creator's own holding; the holding is removed and
   the close-to address receives the whole remainder *)
Theorem C22_close_out_rules : forall maxassets c ops, Forall op_wf ops ->
  let w := run maxassets (winit c) ops in
  forall s a amt r asnd ct w' v, amt < 2 ^ 64 ->
    step maxassets w (OXfer s a amt r asnd ct) = (w', Ok v) -> ct <> 0 ->
    asnd = 0 /\ creator_of w a <> Some s /\ holding_of w' s a = None /\
    v = xfer_closing (amt_at w) s a amt r ct /\
    (ct <> s -> amount_of w' ct a = amount_of w ct a + (if r =? ct then amt else 0) + v).
Proof. exact close_out_rules. Qed.
Print Assumptions C22_close_out_rules.

(* The executable checker [spec_step] that the check evaluates on the implementation's
   observations never reports a violation on the model: every transaction of every history
   is judged 0 (holds) or 2 (close-out to the creator across a freeze). *)
Theorem C22_model_meets_spec : forall maxassets c ops o, Forall op_wf ops -> op_wf o ->
  let w := run maxassets (winit c) ops in
  let '(w', r) := step maxassets w o in
  spec_step w o (res_ok r) (res_val r) w' <> 1.
Proof. exact model_meets_spec. Qed.
Print Assumptions C22_model_meets_spec.

Theorem C22_model_meets_spec_group : forall maxassets c gs g, Forall (Forall op_wf) gs -> Forall op_wf g ->
  let w := grun maxassets (winit c) gs in
  let '(w', r, _) := gstep maxassets w g in
  spec_group w (res_ok_l r) w' = 0.
Proof. exact model_meets_spec_group. Qed.
Print Assumptions C22_model_meets_spec_group.

(* and [supply_ok], the part of the checker for the first sentence of the property, means
   what it should on any observed world *)
Theorem C22_supply_ok_sound : forall w, supply_ok w = true ->
  forall a cr p, creator_of w a = Some cr -> aget pair_eqb (cr, a) (w_par w) = Some p ->
    supply w a = p_total p.
Proof. exact supply_ok_sound. Qed.
Print Assumptions C22_supply_ok_sound.

(* non-vacuity: a history in which all kinds of transactions commit *)
Example C22_history_nonvacuous :
  let ops := fr_ops ++ [OXfer 1 1 2 1 2 0; OXfer 2 1 0 2 0 1; OConfig 1 1 (mkP 0 false 0 0 0 0 0)] in
  Forall op_wf ops /\
  map (fun o => res_code (snd (step 0 (run 0 w0 (firstn 6 ops)) o))) [nth 6 ops OTick] = [0] /\
  w_creator (run 0 w0 ops) = [] /\ supply (run 0 w0 (firstn 6 ops)) 1 = 10.
Proof. split; [repeat constructor; cbn; lia|]. vm_compute. auto. Qed.
