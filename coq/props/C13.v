(* C13 Consensus sees the right online stake for every round.
   Property theorems only: each is closed by [exact <lemma>] and followed by Print Assumptions.

   Model (model/OnlineAccts.v): the onlineAccounts tracker — in-memory deltas and the accounts
   map, onlineRoundParamsData, the onlineaccounts history table ("latest row <= rnd") and the
   onlineroundparamstail table, the onlineAccountsCache; newBlock, commit (row writing of
   onlineAccountsNewRoundImpl per address, OnlineAccountsDelete, round-params pruning, cache
   writeFrontIfExist + prune, reference counting), reload (loadFromDisk + replay),
   lookupOnlineAccountData (deltas / cache / DB + cache fill), onlineCirculation with
   expiredOnlineCirculation, TopOnlineAccounts.
   Spec (model/OnlineAcctsSpec.v): [acct_at] — the account of an address at a round read off the
   block history alone — and exact (unbounded) arithmetic.

   Hypotheses of the schedule theorems: [genesis_ok] (distinct genesis addresses; online genesis
   accounts carry voting keys and no incentive fields — see C13_genesis_incentive_refuted),
   [blocks_ok] (a StateDelta lists an address once; uint64 typing of level / supply), [hist_u64]
   (uint64 typing of balances), RewardUnit <> 0, MaxBalLookback >= 1, and that the schedule runs
   ([orun ... = Some s]: no commit hit an error path).  Commit offsets, the voters tracker's
   lowestRound, reload points and the order of cache-filling lookups are universally quantified. *)
From Coq Require Import NArith ZArith List Bool.
Import ListNotations.
From Verif.lib Require Import Term.
From Verif.model Require Import Overflow OnlineAccts OnlineAcctsSpec.
From Verif.proofs Require Import OnlineEntries OnlineTables OnlineSpecLemmas OnlineInv OnlineCommit OnlineQueries OnlineTopSort OnlineTop OnlineWitness.
Open Scope N_scope.

(* trim_safe: OnlineAccountsDelete(forgetBefore) never changes what any round >= forgetBefore
   sees for an address ("latest row <= rnd"), for every row list and every forgetBefore. *)
Theorem C13_trim_safe : forall fb es r,
  wf_data es -> fb <= r -> view (trim_entries fb es) r = view es r.
Proof. exact trim_view. Qed.
Print Assumptions C13_trim_safe.

Theorem C13_trim_table_per_address : forall fb k (t : table),
  NoDup (keys t) -> tget k (trim_table fb t) = trim_entries fb (tget k t).
Proof. exact trim_table_get. Qed.
Print Assumptions C13_trim_table_per_address.

(* the rows onlineAccountsNewRoundImpl writes for one address over a commit range of ANY length
   make "latest row <= r" show exactly the account of every round r of the range *)
Theorem C13_rows_written_correct : forall unit es ups acc a_cur r_cur w,
  sorted_desc (acc ++ es) -> wf_data (acc ++ es) -> upd_le (acc ++ es) r_cur ->
  view (acc ++ es) r_cur = tgt a_cur -> rounds_inc ups r_cur ->
  process unit (head_data (acc ++ es)) ups acc = Some w ->
  exists new, w = new ++ acc /\
    sorted_desc (w ++ es) /\ wf_data (w ++ es) /\
    (forall e, In e new -> r_cur < fst e) /\
    (forall e, In e new -> exists a r, In (a, r) ups /\ fst e = r) /\
    (forall r, r_cur <= r -> view (w ++ es) r = tgt (acct_of ups a_cur r)).
Proof. exact process_spec. Qed.
Print Assumptions C13_rows_written_correct.

(* every schedule of new blocks, commits (any offset, any voters lowestRound), reloads and
   cache-filling lookups keeps the tracker state tied to the block history *)
Theorem C13_invariant_any_schedule : forall p G supply0 ops s,
  genesis_ok G -> op_unit p <> 0 -> 1 <= op_maxbal p -> blocks_ok (oblocks_of ops) ->
  orun p (ostate_init p G supply0) ops = Some s -> Inv G supply0 (oblocks_of ops) s.
Proof. exact orun_init_inv. Qed.
Print Assumptions C13_invariant_any_schedule.

(* online_lookup_correct: LookupAgreement after ANY schedule is either an error (round no longer /
   not yet retained) or exactly the data the history implies at that round; every round from the
   tracker DB round to the latest is served. *)
Theorem C13_online_lookup_correct : forall p G supply0 ops s rnd k s' res,
  genesis_ok G -> op_unit p <> 0 -> 1 <= op_maxbal p ->
  blocks_ok (oblocks_of ops) -> hist_u64 G (oblocks_of ops) ->
  orun p (ostate_init p G supply0) ops = Some s ->
  lookup_online p s rnd k = (s', res) ->
  (res = RErr \/ res = lift (spec_lookup p G supply0 (oblocks_of ops) (N.to_nat rnd) k)) /\
  (o_db s <= rnd -> rnd <= o_latest s -> res = lift (spec_lookup p G supply0 (oblocks_of ops) (N.to_nat rnd) k)) /\
  (res <> RErr -> rnd <= o_latest s).
Proof. exact lookup_any_schedule. Qed.
Print Assumptions C13_online_lookup_correct.

Theorem C13_lookup_schedule_independent : forall p G supply0 ops1 ops2 s1 s2 rnd k s1' s2' r1 r2,
  genesis_ok G -> op_unit p <> 0 -> 1 <= op_maxbal p ->
  oblocks_of ops1 = oblocks_of ops2 ->
  blocks_ok (oblocks_of ops1) -> hist_u64 G (oblocks_of ops1) ->
  orun p (ostate_init p G supply0) ops1 = Some s1 -> orun p (ostate_init p G supply0) ops2 = Some s2 ->
  lookup_online p s1 rnd k = (s1', r1) -> lookup_online p s2 rnd k = (s2', r2) ->
  r1 <> RErr -> r2 <> RErr -> r1 = r2.
Proof. exact lookup_schedule_independent. Qed.
Print Assumptions C13_lookup_schedule_independent.

(* circulation_correct: OnlineCirculation(rnd, voteRnd) after ANY schedule is the online money of
   rnd minus (ExcludeExpiredCirculation, rnd <> 0) the stake with pending rewards of the accounts
   that are online at rnd with registered keys ending before voteRnd; an error when the round
   is not retained or the subtraction does not fit. *)
Theorem C13_circulation_correct : forall p G supply0 ops s rnd vr,
  genesis_ok G -> op_unit p <> 0 -> 1 <= op_maxbal p -> supply0 < W ->
  blocks_ok (oblocks_of ops) -> hist_u64 G (oblocks_of ops) ->
  orun p (ostate_init p G supply0) ops = Some s ->
  forall ex, spec_expired p G supply0 (oblocks_of ops) (N.to_nat rnd) vr = Some ex ->
  circulation p s rnd vr =
  match params_at s rnd with
  | None => RErr
  | Some _ =>
      let supply := rp_supply (params_spec supply0 (oblocks_of ops) (N.to_nat rnd)) in
      if op_exclude p && negb (rnd =? 0) then
        if ex <? W then (if supply <? ex then RErr else ROk (supply - ex)) else RErr
      else ROk supply
  end.
Proof. exact circulation_any_schedule. Qed.
Print Assumptions C13_circulation_correct.

(* the wrapping uint64 computation of the agreement data is the exact value (None = the Go code
   panics), which is what [check] compares the implementation with *)
Theorem C13_oad_exact : forall unit level a,
  a_malgos a < W -> a_rbase a < W -> level < W ->
  oad_of_acct unit level a = spec_oad unit level a.
Proof. exact oad_of_acct_exact. Qed.
Print Assumptions C13_oad_exact.

(* top_n / total weight, legacy consensus versions (ExcludeExpiredCirculation off): REFUTED.  The
   weight TopOnlineAccounts reports depends on the flush schedule: stake of an account that is
   offline at rnd is subtracted when its (expired-by-voteRnd) row is still the DB state.
   Finding top_total_stale_invalid_legacy; for ExcludeExpiredCirculation = true the list and the
   weight are proved (C13_top_n_correct, C13_top_total_correct). *)
Theorem C13_top_total_legacy_refuted :
  oblocks_of w2_sched_a = oblocks_of w2_sched_b /\
  top_total_of wp_legacy w2_sched_a w2_genesis w2_supply0 2 22 2 1526 = Some 123521400000000 /\
  top_total_of wp_legacy w2_sched_b w2_genesis w2_supply0 2 22 2 1526 = Some 126300000000000 /\
  spec_top_total wp_legacy w2_genesis w2_supply0 (oblocks_of w2_sched_a) 2 22 1526 = Some (Some 126300000000000).
Proof. exact legacy_top_total_refuted. Qed.
Print Assumptions C13_top_total_legacy_refuted.

(* without the "no incentive fields in the genesis allocation" clause of [genesis_ok] the lookup
   theorem is false: finding genesis_incentive_fields_dropped *)
Theorem C13_genesis_incentive_refuted :
  snd (lookup_online wp_cur (ostate_init wp_cur w1_genesis 3000000000000) 0 1)
    = ROk (mkOAD 3000000000000 1 0 100000 100 false 0 0) /\
  spec_lookup wp_cur w1_genesis 3000000000000 [] 0 1
    = Some (mkOAD 3000000000000 1 0 100000 100 true 0 0).
Proof. exact genesis_incentive_refuted. Qed.
Print Assumptions C13_genesis_incentive_refuted.

(* top_n_correct: for EVERY schedule and EVERY batch size >= 1 of the candidate loop (the Go code
   uses 1024), the list TopOnlineAccounts returns for a retained round is the n first — by
   normalized balance descending, ties by address descending — of the accounts the block history
   says are online at rnd with keys valid in voteRnd.  The loop stops fetching DB rows as soon as
   it holds n + |accounts modified in memory| valid candidates: at most |modified| of them can be
   removed by the deltas, the n that remain precede every row not fetched yet ([prefix_enough]).
   The list does not depend on ExcludeExpiredCirculation; the legacy exception concerns only the
   WEIGHT (C13_top_total_legacy_refuted = finding top_total_stale_invalid_legacy).
   [hist_norm]: balances are uint64 and RewardsBase + RewardUnit < 2^64 (NormalizedOnlineBalance
   does not overflow); [online_pos]: online accounts have a non-zero normalized balance (the SQL
   query filters normalizedonlinebalance > 0; the minimum balance guarantees it). *)
Theorem C13_top_n_correct : forall p G supply0 batch ops s rnd vr n level top tot,
  genesis_ok G -> op_unit p <> 0 -> 1 <= op_maxbal p -> (1 <= batch)%nat ->
  blocks_ok (oblocks_of ops) -> hist_norm p G (oblocks_of ops) -> online_pos p G (oblocks_of ops) ->
  orun p (ostate_init p G supply0) ops = Some s ->
  params_at s rnd <> None ->
  top_online_b batch p s rnd vr n level = ROk (top, tot) ->
  spec_top p G (oblocks_of ops) (N.to_nat rnd) vr n = Some top.
Proof. exact top_n_any_schedule. Qed.
Print Assumptions C13_top_n_correct.

Theorem C13_top_n_schedule_independent :
  forall p G supply0 b1 b2 ops1 ops2 s1 s2 rnd vr n l1 l2 top1 tot1 top2 tot2,
  genesis_ok G -> op_unit p <> 0 -> 1 <= op_maxbal p -> (1 <= b1)%nat -> (1 <= b2)%nat ->
  oblocks_of ops1 = oblocks_of ops2 ->
  blocks_ok (oblocks_of ops1) -> hist_norm p G (oblocks_of ops1) -> online_pos p G (oblocks_of ops1) ->
  orun p (ostate_init p G supply0) ops1 = Some s1 -> orun p (ostate_init p G supply0) ops2 = Some s2 ->
  params_at s1 rnd <> None -> params_at s2 rnd <> None ->
  top_online_b b1 p s1 rnd vr n l1 = ROk (top1, tot1) -> top_online_b b2 p s2 rnd vr n l2 = ROk (top2, tot2) ->
  top1 = top2.
Proof. exact top_n_schedule_independent. Qed.
Print Assumptions C13_top_n_schedule_independent.

(* the crux lemma on its own: a fetched prefix of the DB order holding n + |modified| valid
   candidates (or the whole table) gives the same n first as the whole table *)
Theorem C13_fetched_prefix_enough : forall D md n m vr,
  sortedT D -> NoDup (addrs D) -> NoDup (keys md) -> md_ok md ->
  ((length D <= m)%nat \/ (n + length md <= length (filter (validb vr) (firstn m D)))%nat) ->
  firstn n (top_sort (vals (apply_md md (mk (filter (validb vr) (firstn m D)))))) =
  firstn n (top_sort (vals (apply_md md (mk (filter (validb vr) D))))).
Proof. exact prefix_enough. Qed.
Print Assumptions C13_fetched_prefix_enough.

(* the weight next to the list, ExcludeExpiredCirculation = true, after ANY schedule *)
Theorem C13_top_total_correct : forall p G supply0 batch ops s rnd vr n level top tot ex,
  genesis_ok G -> op_unit p <> 0 -> 1 <= op_maxbal p ->
  blocks_ok (oblocks_of ops) -> hist_u64 G (oblocks_of ops) -> supply0 < W ->
  orun p (ostate_init p G supply0) ops = Some s ->
  op_exclude p = true -> params_at s rnd <> None ->
  spec_expired p G supply0 (oblocks_of ops) (N.to_nat rnd) vr = Some ex ->
  top_online_b batch p s rnd vr n level = ROk (top, tot) ->
  spec_top_total p G supply0 (oblocks_of ops) (N.to_nat rnd) vr level = Some (Some tot).
Proof. exact top_total_any_schedule. Qed.
Print Assumptions C13_top_total_correct.

(* anti-vacuity for the top-N theorems: the example history meets [hist_norm] / [online_pos], and
   with batch size 1 (several loop iterations) the answers are those of batch size 1024 *)
Example C13_top_nonvacuous :
  (hist_norm wp4 ex_genesis ex_blocks /\ online_pos wp4 ex_genesis ex_blocks) /\
  (ex_top 1 = ex_top 1024 /\
   ex_top 1 = Some (ROk ([mkOAcc 2 8000048000 6 8000000000 6 900 10], 10000120000),
                    ROk ([mkOAcc 3 2000004000 2 2000000000 1 50 9], 2000004000))).
Proof. exact (conj ex_top_hyps ex_top_values). Qed.

(* anti-vacuity: a concrete schedule meets every hypothesis: accounts go online / offline, keys
   expire, rewards accrue, commits trim the history (MaxBalLookback 4), a reload, cache fills *)
Example C13_nonvacuous :
  genesis_ok ex_genesis /\ blocks_ok ex_blocks /\ hist_u64 ex_genesis ex_blocks /\
  op_unit wp4 <> 0 /\ 1 <= op_maxbal wp4 /\
  oblocks_of ex_sched = ex_blocks /\
  ex_obs = Some (6, 7,
                 ROk (mkOAD 5000030000 7 0 3 100 false 0 0),
                 ROk (mkOAD 8000112000 10 6 900 100 false 0 0),
                 RErr,
                 ROk 2000004000,
                 ROk 10000120000).
Proof. exact ex_history_full. Qed.
