(* C24 Fees and proposer payouts stay within their limits.
   Property theorems only (each closed by [exact <lemma>], followed by Print Assumptions).
   Models: model/Fees.v (transcription of SummarizeFees / CheckGroupFees / proposerPayout /
   validateForPayouts / performPayout; the overflow helpers are the C45 ones, imported);
   closed forms and the oracle run on implementation observations: model/FeesSpec.v.
   All statements are for ALL uint64 inputs and ALL values of the consensus parameters read
   (MinTxnFee, PerByteTxnSurcharge, LogicSigMaxSize, Payouts.Percent incl. misconfigured > 100). *)
From Coq Require Import NArith ZArith List Bool String.
Import ListNotations.
From Verif.lib Require Import Term.
From Verif.model Require Import Overflow Fees FeesSpec.
From Verif.proofs Require Import FeesProofs.
Open Scope N_scope.

(* CheckGroupFees accepts exactly when the fees paid cover ceil(minFee * usage / 10^6) and
   that requirement is representable; otherwise it names the requirement or reports overflow *)
Theorem C24_group_fee_ok_iff : forall paid usage minFee,
  minFee < 2 ^ 64 -> usage < 2 ^ 64 ->
  (check_group_fees paid usage minFee = GFOk <->
   fee_required minFee usage < 2 ^ 64 /\ fee_required minFee usage <= paid).
Proof. exact check_group_fees_iff. Qed.
Print Assumptions C24_group_fee_ok_iff.

Theorem C24_group_fee_outcomes : forall paid usage minFee,
  minFee < 2 ^ 64 -> usage < 2 ^ 64 ->
  match check_group_fees paid usage minFee with
  | GFOk => fee_required minFee usage < 2 ^ 64 /\ fee_required minFee usage <= paid
  | GFOverflow => 2 ^ 64 <= fee_required minFee usage
  | GFTooLow n => n = fee_required minFee usage /\ n < 2 ^ 64 /\ paid < n
  end.
Proof. exact check_group_fees_spec. Qed.
Print Assumptions C24_group_fee_outcomes.

(* fee_required is the ceiling: the least k with k * 10^6 >= minFee * usage *)
Theorem C24_fee_required_is_ceiling : forall minFee usage,
  minFee * usage <= fee_required minFee usage * 1000000 /\
  forall k, minFee * usage <= k * 1000000 -> fee_required minFee usage <= k.
Proof. exact fee_required_ceiling. Qed.
Print Assumptions C24_fee_required_is_ceiling.

(* the whole group check of TransactionGroup (SummarizeFees then CheckGroupFees), for groups
   of any length: usage and paid are the saturated sums, and the group is accepted iff the
   saturated fees cover the requirement for the saturated usage *)
Theorem C24_group_accepted_iff : forall minFee perByte lsigMax g,
  minFee < 2 ^ 64 -> perByte < 2 ^ 64 -> Forall gtx_bounded g ->
  int63 (sum_lsig g - Z.of_nat (List.length g) * lsigMax) ->
  let '(usage, paid, r) := group_fee_check minFee perByte lsigMax g in
  usage = spec_usage perByte lsigMax g /\ paid = spec_paid g /\
  (r = GFOk <-> fee_required minFee usage < 2 ^ 64 /\ fee_required minFee usage <= paid).
Proof. exact group_fee_check_spec. Qed.
Print Assumptions C24_group_accepted_iff.

(* SignedTxn.FeeFactor is the saturated closed form (what "usage" sums) *)
Theorem C24_fee_factor_closed_form :
  forall k perByte noteLen maxNote hbd sing sigc prog basic args maxArg,
  perByte < 2 ^ 64 -> sigc < 2 ^ 64 ->
  int63 (noteLen - maxNote) -> int63 (prog - basic) -> int63 (args - maxArg) ->
  signed_fee_factor sigc
    (txn_fee_factor k perByte noteLen maxNote hbd sing
       (app_contribution perByte prog basic args maxArg)) =
  spec_fee_factor k perByte noteLen maxNote hbd sing sigc prog basic args maxArg.
Proof. exact fee_factor_spec. Qed.
Print Assumptions C24_fee_factor_closed_form.

(* proposerPayout in closed form *)
Theorem C24_proposer_payout_closed_form : forall pct fees bonus sink smin,
  pct < 2 ^ 64 -> fees < 2 ^ 64 -> bonus < 2 ^ 64 -> sink < 2 ^ 64 -> smin < 2 ^ 64 ->
  proposer_payout pct fees bonus sink smin =
    if 100 <? pct then PPPanic
    else if 2 ^ 64 <=? fees * pct / 100 + bonus then PPErrBonus
    else PPOk (N.min (fees * pct / 100 + bonus) (sink - smin)).
Proof. exact proposer_payout_spec. Qed.
Print Assumptions C24_proposer_payout_closed_form.

(* payout_bound: an accepted block pays at most the configured share of the collected fees
   plus the bonus, and at most what the sink holds above its minimum balance; the header's
   FeesCollected is what the evaluator collected *)
Theorem C24_payout_bound : forall i, pi_bounded i -> pi_enabled i = true ->
  validate_for_payouts i = VPOk ->
  pi_hdr_fees i = pi_state_fees i /\
  pi_payout i <= N.min (pi_hdr_fees i * pi_pct i / 100 + pi_bonus i) (pi_sink i - pi_sink_min i).
Proof. exact payout_bound. Qed.
Print Assumptions C24_payout_bound.

(* ... and a block claiming more is rejected *)
Theorem C24_payout_overclaim_rejected : forall i, pi_bounded i -> pi_enabled i = true ->
  N.min (pi_hdr_fees i * pi_pct i / 100 + pi_bonus i) (pi_sink i - pi_sink_min i) < pi_payout i ->
  validate_for_payouts i <> VPOk.
Proof. exact payout_overclaim_rejected. Qed.
Print Assumptions C24_payout_overclaim_rejected.

(* with Percent <= 100 and fees*pct/100 + bonus representable the rejection is the
   "wants .., .. is allowed" error carrying exactly the bound *)
Theorem C24_payout_overclaim_error : forall i, pi_bounded i -> pi_enabled i = true ->
  pi_hdr_fees i = pi_state_fees i -> pi_pct i <= 100 ->
  payout_cap (pi_pct i) (pi_hdr_fees i) (pi_bonus i) < 2 ^ 64 ->
  limit_of i < pi_payout i ->
  validate_for_payouts i = VPTooMuch (limit_of i).
Proof. exact payout_overclaim_error. Qed.
Print Assumptions C24_payout_overclaim_error.

(* exact acceptance condition of validateForPayouts (payouts enabled / disabled) *)
Theorem C24_validate_accepts_iff : forall i, pi_bounded i -> pi_enabled i = true ->
  (validate_for_payouts i = VPOk <->
   pi_hdr_fees i = pi_state_fees i /\
   pi_pct i <= 100 /\
   payout_cap (pi_pct i) (pi_hdr_fees i) (pi_bonus i) < 2 ^ 64 /\
   pi_payout i <= limit_of i /\
   (pi_generate i = true \/
    (pi_prop_zero i = false /\ (pi_payout i = 0 \/ pi_prop_closed i = false)))).
Proof. exact validate_enabled_iff. Qed.
Print Assumptions C24_validate_accepts_iff.

Theorem C24_disabled_pays_nothing : forall i, pi_enabled i = false ->
  (validate_for_payouts i = VPOk <->
   pi_hdr_fees i = 0 /\ pi_prop_zero i = true /\ pi_payout i = 0).
Proof. exact validate_disabled_iff. Qed.
Print Assumptions C24_disabled_pays_nothing.

(* sink_stays_above_min: after an accepted payout is performed the sink holds exactly its
   (rewards-updated) balance minus the payout, which is at or above its minimum balance; the
   transfer cannot fail for lack of funds; a sink below its minimum pays nothing *)
Theorem C24_sink_stays_above_min : forall i sinkUp propUp,
  pi_bounded i -> pi_enabled i = true -> validate_for_payouts i = VPOk ->
  pi_sink i <= sinkUp -> sinkUp < 2 ^ 64 ->
  perform_payout (pi_prop_zero i) (pi_payout i) (Some sinkUp) propUp <> PFOverspend /\
  (forall s' p', perform_payout (pi_prop_zero i) (pi_payout i) (Some sinkUp) propUp = PFMoved s' p' ->
     s' = sinkUp - pi_payout i /\ pi_payout i <= sinkUp /\
     (pi_sink_min i <= pi_sink i -> pi_sink_min i <= s') /\
     (pi_sink i < pi_sink_min i -> False)).
Proof. exact sink_stays_above_min. Qed.
Print Assumptions C24_sink_stays_above_min.

(* pending rewards (WithUpdatedRewards inside Move) can only raise the sink's balance *)
Theorem C24_rewards_only_add : forall unit st algos base level x,
  algos < 2 ^ 64 -> base < 2 ^ 64 -> level < 2 ^ 64 ->
  with_rewards unit st algos base level = Some x -> algos <= x /\ x < 2 ^ 64.
Proof. exact with_rewards_ge. Qed.
Print Assumptions C24_rewards_only_add.

(* the executable oracle evaluated on implementation observations says what the property
   says, and the model satisfies it on every input *)
Theorem C24_oracle_sound : forall i pf, spec_payout_ok i true pf = true ->
  if pi_enabled i then
    pi_hdr_fees i = pi_state_fees i /\
    pi_payout i <= pi_hdr_fees i * pi_pct i / 100 + pi_bonus i /\
    pi_payout i <= pi_sink i - pi_sink_min i /\
    pf <> POOverspend /\
    (forall s' p', pf = POMoved s' p' ->
       pi_sink i <= s' + pi_payout i /\ (pi_sink_min i <= pi_sink i -> pi_sink_min i <= s'))
  else pi_payout i = 0 /\ pi_hdr_fees i = 0.
Proof. exact spec_payout_ok_sound. Qed.
Print Assumptions C24_oracle_sound.

Theorem C24_model_meets_oracle : forall i sinkUp propUp,
  pi_bounded i -> pi_sink i <= sinkUp -> sinkUp < 2 ^ 64 ->
  spec_payout_ok i
    (match validate_for_payouts i with VPOk => true | _ => false end)
    (pf_of (perform_payout (pi_prop_zero i) (pi_payout i) (Some sinkUp) propUp)) = true.
Proof. exact model_meets_payout_oracle. Qed.
Print Assumptions C24_model_meets_oracle.

Theorem C24_group_oracle_sound : forall paid usage minFee,
  spec_accepts paid usage minFee = true <->
  fee_required minFee usage < 2 ^ 64 /\ fee_required minFee usage <= paid.
Proof. exact spec_accepts_iff. Qed.
Print Assumptions C24_group_oracle_sound.

(* anti-vacuity: concrete inputs meet the hypotheses and exercise every outcome *)
Example C24_nonvacuous :
  (* 3 transactions, one with a 24-byte oversize note at 100 micro per byte: usage 3.0024,
     requirement ceil(1000 * 3.0024) = 3003 *)
  group_fee_check 1000 100 1000 [(1002400, 3002, 0%Z); (1000000, 0, 0%Z); (1000000, 0, 0%Z)]
    = (3002400, 3002, GFTooLow 3003) /\
  group_fee_check 1000 100 1000 [(1002400, 3003, 0%Z); (1000000, 0, 0%Z); (1000000, 0, 0%Z)]
    = (3002400, 3003, GFOk) /\
  check_group_fees (2 ^ 64 - 1) (2 ^ 64 - 1) (2 ^ 64 - 1) = GFOverflow /\
  (* 50% of 3003 fees + bonus 10; sink 100000+1200 above minimum 100000 *)
  proposer_payout 50 3003 10 101200 100000 = PPOk 1200 /\
  proposer_payout 50 3003 10 200000 100000 = PPOk 1511 /\
  validate_for_payouts (mkPI true 50 3003 3003 10 200000 100000 1511 false false false) = VPOk /\
  validate_for_payouts (mkPI true 50 3003 3003 10 200000 100000 1512 false false false) = VPTooMuch 1511 /\
  perform_payout false 1511 (Some 200000) (Some 5) = PFMoved 198489 1516 /\
  pi_bounded (mkPI true 50 3003 3003 10 200000 100000 1511 false false false).
Proof. vm_compute. repeat split; reflexivity. Qed.
