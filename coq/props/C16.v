(* C16 Catchpoint catchup reproduces the source state and rejects tampering.
   Property theorems only: each is closed by [exact <lemma>] and followed by Print Assumptions.

   Objects (no proofs in those files):
     model/CatchpointFile.v       the catchpoint file as a list of decoded sections (header, state-proof
                                  contexts, balances / KV / online chunks; records with ExpectingMoreEntries),
                                  the writer's chunking [write_file], and the accessor [restore]:
                                  ProcessStagingBalances per section (header once, version, the
                                  expectingSpecificAccount / resource-counter checks, the staging writers with
                                  their unique / primary keys, one hash per completed account, resource, KV),
                                  BuildMerkleTrie (a duplicate hash is an error), VerifyCatchpoint (label
                                  recomputed from staged trie root, totals, digests and the trusted block),
                                  finishBalances ([world_of]).  [restore true] is the accessor with
                                  fixes/C16.patch, [restore false] the accessor as it was.
     model/CatchpointFileCheck.v  the executable [check]
   for EVERY section list, hash function, decoder and leaf builder.

   Result: the accessor as it was accepted tampered files ([C16_tamper_rejected_refuted]: account
   data replaced / an account added, same label -- confirmed on the real code, repaired by
   fixes/C16.patch).  For the repaired accessor [C16_accepted_binds_state]: whatever is accepted
   under the producer's label stages the producer's accounts, resources and totals, and its boxes up
   to the key‖value ambiguity of C15 (recorded finding; c16_kv_boundary_shift_accepted) -- "except
   through a hash collision" being the explicit premises [label_binds] .. [leaf_RK].
   restore (write world) = world: [C16_restore_write_file] -- for EVERY well-formed world and EVERY
   chunking [write_file] produces (accounts-per-chunk and resources-per-chunk budgets >= 1, accounts whose
   resources span several chunks through records with ExpectingMoreEntries, the chunk that is filled
   exactly, KV / online chunks), by induction over the chunk list: the concatenated records form a
   "good stream" (never ends inside an account), the accessor's state is carried across sections, the
   hashes are a permutation of the unchunked ones.  [C16_tamper_evidence_write_file] combines it with
   [C16_accepted_binds_state].  The model's writer itself is compared with the real writer (chunk
   boundaries, flags) on every generated file. *)
From Coq Require Import List NArith ZArith Bool.
Import ListNotations.
From Verif.model Require Import MerkleTrie MerkleTrieSpec CatchpointHash CatchpointFile CatchpointFileCheck.
From Verif.proofs Require Import CatchpointFileProofs CatchpointFileRefute CatchpointFileWrite CatchpointFileChunks.
Open Scope N_scope.

(* invariant of the repaired accessor after ANY section list: addresses are staged once; every
   staged account row has its own data hashed, unless it is the account the stream is inside of;
   every pending hash is the account hash of a completed record, or the hash of a staged resource
   or KV row; every record's address has a row; every staged resource and KV row is hashed *)
Theorem C16_accessor_invariant :
  forall (tot_of : bytes -> counts) (flags_of : bytes -> bool * bool * bool * bool)
         (leafA : bytes -> bytes -> bytes) (leafR : bytes -> N -> bytes -> bytes) (leafK : bytes -> bytes -> bytes)
         (f : list section) (a : astate),
  process_all true tot_of flags_of leafA leafR leafK f a_init = Some a ->
  NoDup (map fst (a_accts a)) /\
  (forall ad e, In (ad, e) (a_accts a) -> In (leafA ad e) (a_hashes a) \/ a_expect a = Some (ad, e)) /\
  (forall x, In x (a_hashes a) ->
     (exists r, In r (all_recs f) /\ b_more r = false /\ x = leafA (b_addr r) (b_enc r)) \/
     (exists ad c e, In (ad, c, e) (a_res a) /\ x = leafR ad c e) \/
     (exists k v, In (k, v) (a_kvs a) /\ x = leafK k v)) /\
  (forall r, In r (all_recs f) -> exists e, In (b_addr r, e) (a_accts a)) /\
  (forall ad c e, In (ad, c, e) (a_res a) -> In (leafR ad c e) (a_hashes a)) /\
  (forall k v, In (k, v) (a_kvs a) -> In (leafK k v) (a_hashes a)).
Proof. exact (accessor_invariant (fun x => x)). Qed.
Print Assumptions C16_accessor_invariant.

(* TAMPER EVIDENCE (repaired accessor): any file accepted under the label of the producer's file
   stages the same totals, the same accounts with the same data, the same resources, and boxes
   with the same key‖value concatenations *)
Theorem C16_accepted_binds_state :
  forall (H : bytes -> bytes) (tot_of : bytes -> counts) (flags_of : bytes -> bool * bool * bool * bool)
         (leafA : bytes -> bytes -> bytes) (leafR : bytes -> N -> bytes -> bytes) (leafK : bytes -> bytes -> bytes),
  (* equal labels have equal components (C15_label_inj + rendering), short of a hash collision *)
  (forall a1 t1 a2 t2 d, a_blkround a1 = a_blkround a2 -> staged_label H a1 t1 d = staged_label H a2 t2 d ->
     root_hash H (t_root t1) = root_hash H (t_root t2) /\ a_totals a1 = a_totals a2) ->
  (* equal roots hold equal hash sets (Merkle hashing over the canonical trie of C17) *)
  (forall hs1 hs2 t1 t2, build_trie hs1 t_empty = Some t1 -> build_trie hs2 t_empty = Some t2 ->
     root_hash H (t_root t1) = root_hash H (t_root t2) -> forall x, In x hs1 <-> In x hs2) ->
  (* C15: account / resource leaves injective, kinds separated, KV leaves equal => key‖value equal *)
  (forall a1 e1 a2 e2, leafA a1 e1 = leafA a2 e2 -> a1 = a2 /\ e1 = e2) ->
  (forall a1 c1 e1 a2 c2 e2, leafR a1 c1 e1 = leafR a2 c2 e2 -> a1 = a2 /\ c1 = c2 /\ e1 = e2) ->
  (forall k1 v1 k2 v2, leafK k1 v1 = leafK k2 v2 -> k1 ++ v1 = k2 ++ v2) ->
  (forall a e a' c e', leafA a e <> leafR a' c e') ->
  (forall a e k v, leafA a e <> leafK k v) ->
  (forall a c e k v, leafR a c e <> leafK k v) ->
  forall (f0 f : list section) (label : bytes) (rnd : N) (digest : bytes) (w0 : world) (t0 : tstate) (w : world) (t : tstate),
  restore true H tot_of flags_of leafA leafR leafK f0 label rnd digest = Accepted (w0, t0) ->
  restore true H tot_of flags_of leafA leafR leafK f label rnd digest = Accepted (w, t) ->
  exists a0 a,
    process_all true tot_of flags_of leafA leafR leafK f0 a_init = Some a0 /\
    process_all true tot_of flags_of leafA leafR leafK f a_init = Some a /\
    w0 = world_of a0 /\ w = world_of a /\
    (producer_faithful leafA a0 ->
     a_totals a = a_totals a0 /\
     (forall ad e, In (ad, e) (a_accts a) <-> In (ad, e) (a_accts a0)) /\
     (forall ad c e, In (ad, c, e) (a_res a) <-> In (ad, c, e) (a_res a0)) /\
     (forall k v, In (k, v) (a_kvs a) -> exists k' v', In (k', v') (a_kvs a0) /\ k ++ v = k' ++ v') /\
     (forall k v, In (k, v) (a_kvs a0) -> exists k' v', In (k', v') (a_kvs a) /\ k ++ v = k' ++ v')).
Proof. exact accepted_binds_state. Qed.
Print Assumptions C16_accepted_binds_state.

(* RESTORE, both accessors: for every well-formed world -- distinct addresses, distinct creatable
   indexes per account, Total* counters matching the resources, distinct KV keys / online rows --
   whose entries have pairwise different leaves of one length (no C15 collision), for every file
   version V6..V8 and EVERY account / resource budget >= 1, the accessor accepts the writer's file
   under the producer's label (root of the canonical trie of the leaf set, C14 / C17) and adopts
   EXACTLY that world: accounts, resources, boxes, online tables, totals *)
Theorem C16_restore_write_file :
  forall (fixed : bool) (H : bytes -> bytes) (tot_of : bytes -> counts) (flags_of : bytes -> bool * bool * bool * bool)
         (leafA : bytes -> bytes -> bytes) (leafR : bytes -> N -> bytes -> bytes) (leafK : bytes -> bytes -> bytes)
         (n : nat) (ver : N) (B R : nat) (balr blkr : N) (digest : bytes) (w : world),
  (129 <=? ver) && (ver <=? 131) = true -> (1 <= B)%nat -> (1 <= R)%nat ->
  wf_world tot_of flags_of w ->
  (ver = 131 \/ (w_oa w = [] /\ w_orp w = [])) ->
  NoDup (flat_hashes leafA leafR leafK w) ->
  (forall h, In h (flat_hashes leafA leafR leafK w) -> length h = n /\ bytes_ok h) ->
  exists t, restore fixed H tot_of flags_of leafA leafR leafK (write_file ver B R balr blkr w)
                    (producer_label H leafA leafR leafK ver blkr digest w) blkr digest = Accepted (w, t).
Proof. exact restore_write_file. Qed.
Print Assumptions C16_restore_write_file.

(* what the writer's chunking guarantees the accessor: whatever the budgets, the records of the
   balances chunks, concatenated, are per account a chain of records with the account's data, all
   but the last with ExpectingMoreEntries, partitioning its resources in order (in particular the
   stream never ends inside an account), and no chunk is empty *)
Theorem C16_writer_chunks_well_formed :
  forall (B R : nat), (1 <= R)%nat -> forall fuel (l : list acct) cur nacc nres,
  (length l + total_res l < fuel)%nat -> (nres < R)%nat ->
  exists s, concat (chunk_accounts fuel B R l cur nacc nres) = rev cur ++ s /\ good_stream l s /\
            Forall (fun c => c <> []) (chunk_accounts fuel B R l cur nacc nres).
Proof. exact chunk_accounts_stream. Qed.
Print Assumptions C16_writer_chunks_well_formed.

(* TAMPER EVIDENCE against the writer's own file, whatever its chunking (repaired accessor) *)
Theorem C16_tamper_evidence_write_file :
  forall (H : bytes -> bytes) (tot_of : bytes -> counts) (flags_of : bytes -> bool * bool * bool * bool)
         (leafA : bytes -> bytes -> bytes) (leafR : bytes -> N -> bytes -> bytes) (leafK : bytes -> bytes -> bytes),
  (forall a1 t1 a2 t2 d, a_blkround a1 = a_blkround a2 -> staged_label H a1 t1 d = staged_label H a2 t2 d ->
     root_hash H (t_root t1) = root_hash H (t_root t2) /\ a_totals a1 = a_totals a2) ->
  (forall hs1 hs2 t1 t2, build_trie hs1 t_empty = Some t1 -> build_trie hs2 t_empty = Some t2 ->
     root_hash H (t_root t1) = root_hash H (t_root t2) -> forall x, In x hs1 <-> In x hs2) ->
  (forall a1 e1 a2 e2, leafA a1 e1 = leafA a2 e2 -> a1 = a2 /\ e1 = e2) ->
  (forall a1 c1 e1 a2 c2 e2, leafR a1 c1 e1 = leafR a2 c2 e2 -> a1 = a2 /\ c1 = c2 /\ e1 = e2) ->
  (forall k1 v1 k2 v2, leafK k1 v1 = leafK k2 v2 -> k1 ++ v1 = k2 ++ v2) ->
  (forall a e a' c e', leafA a e <> leafR a' c e') ->
  (forall a e k v, leafA a e <> leafK k v) ->
  (forall a c e k v, leafR a c e <> leafK k v) ->
  forall (n : nat) (ver : N) (B R : nat) (balr blkr : N) (digest : bytes) (w : world) (f : list section) (w' : world) (t' : tstate),
  (129 <=? ver) && (ver <=? 131) = true -> (1 <= B)%nat -> (1 <= R)%nat ->
  wf_world tot_of flags_of w -> (ver = 131 \/ (w_oa w = [] /\ w_orp w = [])) ->
  NoDup (flat_hashes leafA leafR leafK w) ->
  (forall h, In h (flat_hashes leafA leafR leafK w) -> length h = n /\ bytes_ok h) ->
  restore true H tot_of flags_of leafA leafR leafK f (producer_label H leafA leafR leafK ver blkr digest w) blkr digest
    = Accepted (w', t') ->
  exists a, process_all true tot_of flags_of leafA leafR leafK f a_init = Some a /\ w' = world_of a /\
    a_totals a = w_totals w /\
    (forall ad e, In (ad, e) (a_accts a) <-> In (ad, e) (rows_of (w_accts w))) /\
    (forall ad c e, In (ad, c, e) (a_res a) <-> In (ad, c, e) (res_of (w_accts w))) /\
    (forall k v, In (k, v) (a_kvs a) -> exists k' v', In (k', v') (w_kvs w) /\ k ++ v = k' ++ v') /\
    (forall k v, In (k, v) (w_kvs w) -> exists k' v', In (k', v') (a_kvs a) /\ k ++ v = k' ++ v').
Proof. exact tamper_evidence_write_file. Qed.
Print Assumptions C16_tamper_evidence_write_file.

(* the accessor AS IT WAS: a tampered file is accepted under the producer's label and restores
   other account data, with the very same trie (injective builders, H = identity: no collision,
   no KV ambiguity) *)
Theorem C16_tamper_rejected_refuted :
  exists (f0 f : list section) (label digest : bytes) (rnd : N) (w0 w : world) t0 t,
    f <> f0 /\
    restore false xH xtot xflags xleafA xleafR xleafK f0 label rnd digest = Accepted (w0, t0) /\
    restore false xH xtot xflags xleafA xleafR xleafK f label rnd digest = Accepted (w, t) /\
    w_kvs w = w_kvs w0 /\ w_accts w <> w_accts w0 /\ t_root t = t_root t0.
Proof. exact tamper_rejected_refuted. Qed.
Print Assumptions C16_tamper_rejected_refuted.

(* both witnesses (account data replaced through a partial record in front; account added through a
   dangling partial record) are accepted by the old accessor and refused by the repaired one, which
   still accepts the honest file *)
Theorem C16_fix_rejects_witnesses :
  (exists t, restore false xH xtot xflags xleafA xleafR xleafK x_prefix x_label 8 [77] =
             Accepted (mkWorld [([1], [99; 0], []); ([2], [7; 2], [(10, [4]); (11, [6])])] [([9], [8])] [] [] [128] [42], t)) /\
  (exists t, restore false xH xtot xflags xleafA xleafR xleafK x_dangling x_label 8 [77] =
             Accepted (mkWorld [([1], [5; 0], []); ([2], [7; 2], [(10, [4]); (11, [6])]); ([3], [50; 0], [])]
                               [([9], [8])] [] [] [128] [42], t)) /\
  (exists t, restore true xH xtot xflags xleafA xleafR xleafK x_file x_label 8 [77] = Accepted (x_world, t)) /\
  restore true xH xtot xflags xleafA xleafR xleafK x_prefix x_label 8 [77] = Rejected StProcess /\
  restore true xH xtot xflags xleafA xleafR xleafK x_dangling x_label 8 [77] = Rejected StTrie.
Proof. exact x_fix_rejects_witnesses. Qed.
Print Assumptions C16_fix_rejects_witnesses.

(* ---------- examples ---------- *)
(* the writer splits the account with two resources over two chunks (budget 1) and the accessor
   restores exactly the producer's state from it *)
Example C16_ex_file :
  write_file 130 512 1 6 8 x_world =
    [SHdr 130 6 8 [42]; SSp [128] 1;
     SBal [mkRec [1] [5; 0] false []; mkRec [2] [7; 2] true [(10, [4])]] [] [] [];
     SBal [mkRec [2] [7; 2] false [(11, [6])]] [] [] [];
     SBal [] [([9], [8])] [] []].
Proof. exact x_file_shape. Qed.

Example C16_ex_honest_restores :
  exists t, restore false xH xtot xflags xleafA xleafR xleafK (write_file 130 512 1 6 8 x_world) x_label 8 [77] = Accepted (x_world, t).
Proof. exact x_honest. Qed.

(* ordinary tampering is refused: other balance, other box value, dropped chunk, duplicated record *)
Example C16_ex_plain_tampering_rejected :
  restore false xH xtot xflags xleafA xleafR xleafK
    [SHdr 130 6 8 [42]; SSp [128] 1;
     SBal [mkRec [1] [99; 0] false []; mkRec [2] [7; 2] true [(10, [4])]] [] [] [];
     SBal [mkRec [2] [7; 2] false [(11, [6])]] [] [] []; SBal [] [([9], [8])] [] []] x_label 8 [77] = Rejected StVerify /\
  restore false xH xtot xflags xleafA xleafR xleafK
    [SHdr 130 6 8 [42]; SSp [128] 1;
     SBal [mkRec [1] [5; 0] false []; mkRec [2] [7; 2] true [(10, [4])]] [] [] [];
     SBal [mkRec [2] [7; 2] false [(11, [6])]] [] [] []; SBal [] [([9], [7])] [] []] x_label 8 [77] = Rejected StVerify /\
  restore false xH xtot xflags xleafA xleafR xleafK
    [SHdr 130 6 8 [42]; SSp [128] 1;
     SBal [mkRec [1] [5; 0] false []; mkRec [2] [7; 2] true [(10, [4])]] [] [] [];
     SBal [] [([9], [8])] [] []] x_label 8 [77] = Rejected StVerify /\
  restore false xH xtot xflags xleafA xleafR xleafK
    [SHdr 130 6 8 [42]; SSp [128] 1;
     SBal [mkRec [1] [5; 0] false []; mkRec [1] [5; 0] false []; mkRec [2] [7; 2] true [(10, [4])]] [] [] [];
     SBal [mkRec [2] [7; 2] false [(11, [6])]] [] [] []; SBal [] [([9], [8])] [] []] x_label 8 [77] = Rejected StTrie.
Proof. exact x_plain_rejected. Qed.
