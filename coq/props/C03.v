(* C03 Every committed block carries a certificate that authenticates it.
   Property theorems only (exact <lemma>, Print Assumptions).  The model is the shared executable
   transcription of the agreement state machine (model/Agreement*.v; [run] = repeated
   rootRouter.submitTop); the statements quantify over ALL parameters, start rounds and event
   sequences (any number of senders, values, rounds, periods, steps; duplicates, equivocation,
   reordering, stale and pipelined messages, timeouts are all just events).

   Premise [trace_ok]: every payloadVerified event without error carries a payload whose block round
   is the player's current round -- the cryptoVerifier validates a payload for the round of the
   request (proposal.validate: "proposed entry from wrong round"); without it the round clause
   (certificate round = block round) is not a property of the state machine alone.
   Signature / VRF validity of the packed votes is by construction: the state machine only ever
   sees verified votes ("delivered as verified"), which is exactly what the theorem says the
   certificate is made of. *)
From Coq Require Import NArith List Bool String.
Import ListNotations.
From Verif.model Require Import AgreementTypes AgreementVotes AgreementProposals AgreementPlayer.
From Verif.lib Require Import Term.
From Verif.model Require Import AgreementRender AgreementCheck.
From Verif.proofs Require Import AgreementLemmas AgreementVoteProofs AgreementTreeProofs AgreementC03Proofs AgreementSpecOkProofs.
Open Scope N_scope.

(* every ensureAction, along every event sequence, carries a cert bundle for its payload made of
   delivered votes of distinct senders (or equivocation pairs) reaching the cert threshold *)
Theorem C03_ensure_cert_is_cert_bundle : forall pm r0 es,
  trace_ok pm (init pm r0) es ->
  forall i acts st' pl c,
    nth_error (fst (run pm (init pm r0) es)) i = Some (acts, st') -> In (AEnsure pl c) acts ->
    let Dl := delivered (firstn (S i) es) in
    ub_step c = s_cert /\ ub_val c = pl /\ ub_rnd c = v_rnd pl /\
    NoDup (map vt_snd (ub_votes c) ++ map eq_snd (ub_eqs c)) /\
    (forall x, In x (ub_votes c) -> In x Dl /\ key_of x = (ub_rnd c, ub_per c, s_cert) /\ vt_val x = pl) /\
    (forall e, In e (ub_eqs c) -> eq_ok Dl e /\ ekey_of e = (ub_rnd c, ub_per c, s_cert)) /\
    pm_cert pm <= bundle_weight c.
Proof. exact ensure_cert_is_cert_bundle_proof. Qed.
Print Assumptions C03_ensure_cert_is_cert_bundle.

(* genBundle: every threshold event a voteTracker emits (any step) is backed by a valid bundle, and
   the tracker invariant (voters / counts / equivocators consistent, all from delivered votes) is
   kept by every accepted vote *)
Theorem C03_threshold_events_carry_valid_bundles : forall pm D kk t x,
  TInv D kk t -> In x D -> key_of x = kk ->
  wp (vt_checked_accept pm t x)
     (fun r => TInv D kk (fst r) /\ forall th, snd r = Some th -> good_thresh pm D th /\ th_rnd th = vt_rnd x).
Proof. exact vt_checked_accept_spec. Qed.
Print Assumptions C03_threshold_events_carry_valid_bundles.

(* the invariant behind the theorem holds after every submitTop: all vote trackers of the router tree
   hold only delivered votes, the freshest bundle of every round is valid, assembled payloads belong
   to their round, and every ensureAction of the step is justified *)
Theorem C03_step_invariant : forall pm D st e,
  RInv pm D (s_rt st) -> (forall x, In x (ev_delivered e) -> In x D) -> ev_payload_ok (s_pl st) e ->
  wp (step pm st e) (fun '(st', acts) => RInv pm D (s_rt st') /\ acts_ok pm D acts).
Proof. exact step_spec. Qed.
Print Assumptions C03_step_invariant.

(* soundness of the executable oracle used on the implementation's observations (spec_ok of check_c03):
   if the observed ensureAction (as rendered on the wire) satisfies the property w.r.t. the delivered
   votes dv, [ensure_ok] answers true -- so a [false] answer (verdict code 3) is a real violation.
   [cred_consistent]: a sender has one credential weight per (round, period, step). *)
Theorem C03_spec_ok_sound : forall pm dv premise pl c,
  cred_consistent dv ->
  good_bundle pm dv c -> ub_step c = s_cert -> ub_val c = pl -> ub_rnd c = v_rnd pl ->
  ensure_ok pm dv premise (r_action (AEnsure pl c)) = true.
Proof. exact spec_ok_c03_sound_proof. Qed.
Print Assumptions C03_spec_ok_sound.

(* ---------- non-vacuity: a concrete run satisfies the premise and commits a block ---------- *)
Definition ex_pm := mkParams 2 2 2 2 2 2 3000 4000 4000 17000 2000 300000 true 8.
Definition ex_v := mkV 1 5 0 1.
Definition ex_m := mkMeta false false false false 0.
Definition ex_vote (s st : N) := EvMsg (mkME true (InVote (mkVote s 5 0 st ex_v 1 (s * 7))) ex_m None).
Definition ex_script :=
  [ex_vote 1 0; EvMsg (mkME true (InPayload ex_v) ex_m None); ex_vote 1 1; ex_vote 2 1; ex_vote 1 2; ex_vote 2 2].

Example C03_nonvacuous :
  trace_ok ex_pm (init ex_pm 5) ex_script /\
  exists acts st' c, nth_error (fst (run ex_pm (init ex_pm 5) ex_script)) 5 = Some (acts, st') /\
                     In (AEnsure ex_v c) acts /\ List.length (ub_votes c) = 2%nat.
Proof.
  split.
  - vm_compute. repeat split; auto.
  - vm_compute. eexists; eexists; eexists. split; [reflexivity|]. split; [right; left; reflexivity | reflexivity].
Qed.
