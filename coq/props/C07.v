(* C07 Persisted consensus state restores exactly.
   Property theorems only.  [persist] (model/AgreementPersist.v) is the projection of the model state
   that persistence.go encode/decode keeps; [restore] is the identity on it. *)
From Coq Require Import NArith List Bool String.
Import ListNotations.
From Verif.model Require Import AgreementTypes AgreementVotes AgreementProposals AgreementPlayer AgreementPersist AgreementCheck.
From Verif.proofs Require Import AgreementC03Proofs AgreementC07Proofs AgreementC07Rel AgreementC07Main.
Open Scope N_scope.

(* first sentence of the property: round, period, step, deadlines, the pending table, and for every
   round >= the player's round the proposal store, freshest bundle, vote trackers, next-threshold
   caches and proposal trackers are read back unchanged (for every state, reachable or not).
   Exactly three things are lost: routers of older rounds, the unexported late-credential fields of
   the proposal seeker, the message handles of Pending tails. *)
Theorem C07_persist_keeps_tracking : forall st,
  let st' := restore (persist st) in
  p_rnd (s_pl st') = p_rnd (s_pl st) /\ p_per (s_pl st') = p_per (s_pl st) /\ p_step (s_pl st') = p_step (s_pl st) /\
  p_last (s_pl st') = p_last (s_pl st) /\ p_dl (s_pl st') = p_dl (s_pl st) /\ p_dlt (s_pl st') = p_dlt (s_pl st) /\
  p_nap (s_pl st') = p_nap (s_pl st) /\ p_frd (s_pl st') = p_frd (s_pl st) /\ p_pnext (s_pl st') = p_pnext (s_pl st) /\
  map fst (p_pending (s_pl st')) = map fst (p_pending (s_pl st)) /\
  (forall r, r < p_rnd (s_pl st) -> aget N.eqb r (s_rt st') = None) /\
  (forall r rn, p_rnd (s_pl st) <= r -> aget N.eqb r (s_rt st) = Some rn ->
     exists rn', aget N.eqb r (s_rt st') = Some rn' /\ rn_store rn' = rn_store rn /\ rn_fresh rn' = rn_fresh rn /\
       map fst (rn_periods rn') = map fst (rn_periods rn) /\
       forall p pn, aget N.eqb p (rn_periods rn) = Some pn ->
         exists pn', aget N.eqb p (rn_periods rn') = Some pn' /\ pn_tracking_eq pn' pn).
Proof. exact persist_keeps_tracking_proof. Qed.
Print Assumptions C07_persist_keeps_tracking.

(* second sentence ("subsequent behaviour is identical") is FALSE of the faithful model for
   DynamicFilterTimeout protocols (v39+): two witnesses, both replayed on the Go code by the harness
   (finding signatures c07_late_credential_tracking_not_persisted, c07_old_round_router_dropped) *)
Theorem C07_restore_late_credential_refuted :
  exists pm r0 es st e,
    state_after pm (init pm r0) es = Some st /\ p_pending (s_pl st) = [] /\
    actions_of (step pm st e) = Some [AIgnore] /\
    exists v, actions_of (step pm (restore (persist st)) e) = Some [ARelayVote v].
Proof. exact restore_late_credential_refuted_proof. Qed.
Print Assumptions C07_restore_late_credential_refuted.

Theorem C07_restore_old_round_router_refuted :
  exists pm r0 es st e,
    state_after pm (init pm r0) es = Some st /\ p_pending (s_pl st) = [] /\
    actions_of (step pm st e) = Some [AIgnore] /\
    exists v r p t, actions_of (step pm (restore (persist st)) e) = Some [AVerifyVote v r p t].
Proof. exact restore_old_round_router_refuted_proof. Qed.
Print Assumptions C07_restore_old_round_router_refuted.

(* second sentence, for protocols WITHOUT DynamicFilterTimeout (where the refutations above do not
   apply): from every state sigma reachable from a fresh round (any parameters, any event history
   es0) whose Pending tails carry no network handle, and for EVERY continuation es:

   STRICT theorem -- if no VERIFIED proposal-vote inside the late-credential window of a round older
   than the player's round is delivered after the restart ([trace_wf true]; such votes only feed the
   credential-arrival statistics), the run from restore (persist sigma) and the run from sigma are in
   lockstep: same number of steps, same way of ending (finished / panic / out of fuel), and at every
   step the same action list, the same player and the same state on everything persistence keeps
   ([rt_rel]: for all rounds >= the player's round the same proposal store, freshest bundle, vote
   trackers, next-threshold caches, proposal trackers up to the late-credential fields).

   PARTIAL theorem -- without that restriction ([trace_wf false]) the same equalities hold at every
   step at which both runs are defined; exactly what is missing: panic equivalence when such a late
   old-round vote is delivered (the restored node re-created that round's router empty; missing is the
   proof that the proposalTracker contract post-condition cannot fire on it / on the original's).
   The harness forks compare panics on the real code (no difference observed).

   Environment premises ([trace_ok], [trace_wf]): payloadVerified events carry payloads of the player's
   round; verified bundles carry votes of the bundle's round; round interruptions go forward; rounds
   stay below 2^64 - 14 (no uint64 wrap). *)
Theorem C07_restore_persist_id_on_observables_strict : forall pm r0 es0 sigma es,
  pm_dynfilter pm = false ->
  trace_ok pm (init pm r0) es0 -> state_after pm (init pm r0) es0 = Some sigma ->
  pending_nil (s_pl sigma) -> trace_wf true pm sigma es ->
  let ro := run pm sigma es in
  let rr := run pm (restore (persist sigma)) es in
  List.length (fst ro) = List.length (fst rr) /\ same_outcome (snd ro) (snd rr) /\
  forall i a b, nth_error (fst ro) i = Some a -> nth_error (fst rr) i = Some b ->
    fst a = fst b /\ s_pl (snd a) = s_pl (snd b) /\
    rt_rel (p_rnd (s_pl (snd a))) (s_rt (snd a)) (s_rt (snd b)).
Proof. exact restore_persist_id_on_observables_strict_proof. Qed.
Print Assumptions C07_restore_persist_id_on_observables_strict.

Theorem C07_restore_persist_id_on_observables_partial : forall pm r0 es0 sigma es,
  pm_dynfilter pm = false ->
  trace_ok pm (init pm r0) es0 -> state_after pm (init pm r0) es0 = Some sigma ->
  pending_nil (s_pl sigma) -> trace_wf false pm sigma es ->
  forall i a b,
    nth_error (fst (run pm sigma es)) i = Some a ->
    nth_error (fst (run pm (restore (persist sigma)) es)) i = Some b ->
    fst a = fst b /\ s_pl (snd a) = s_pl (snd b) /\
    rt_rel (p_rnd (s_pl (snd a))) (s_rt (snd a)) (s_rt (snd b)).
Proof. exact restore_persist_id_on_observables_partial_proof. Qed.
Print Assumptions C07_restore_persist_id_on_observables_partial.

(* non-vacuity: a reachable state with a non-trivial router (proposal-vote seen, frozen seeker, soft
   vote cast = the persistent action), a continuation that commits the block: all premises (of the
   strict theorem, hence of the partial one) hold and both runs are defined for all 6 steps *)
Definition nv_pm := mkParams 2 2 2 2 2 2 3000 4000 4000 17000 2000 300000 false 8.
Definition nv_v := mkV 1 5 0 1.
Definition nv_m := mkMeta false false false false 0.
Definition nv_vote (s st : N) := EvMsg (mkME true (InVote (mkVote s 5 0 st nv_v 1 (s * 7))) nv_m None).
Definition nv_es0 := [nv_vote 1 0; EvTimeout false 0 false].
Definition nv_es := [EvMsg (mkME true (InPayload nv_v) nv_m None); nv_vote 1 1; nv_vote 2 1; nv_vote 1 2; nv_vote 2 2; EvTimeout false 7 false].
Example C07_nonvacuous :
  exists sigma, state_after nv_pm (init nv_pm 5) nv_es0 = Some sigma /\
    pm_dynfilter nv_pm = false /\ trace_ok nv_pm (init nv_pm 5) nv_es0 /\ pending_nil (s_pl sigma) /\
    trace_wf true nv_pm sigma nv_es /\ trace_wf false nv_pm sigma nv_es /\
    List.length (fst (run nv_pm sigma nv_es)) = 6%nat /\
    List.length (fst (run nv_pm (restore (persist sigma)) nv_es)) = 6%nat /\
    sigma <> restore (persist sigma).
Proof.
  destruct (state_after nv_pm (init nv_pm 5) nv_es0) as [sigma|] eqn:E; [|vm_compute in E; discriminate].
  exists sigma. split; [reflexivity|]. vm_compute in E. inversion E; subst sigma; clear E.
  split; [reflexivity|]. split; [vm_compute; repeat split; auto|].
  split; [intros k v m H; vm_compute in H; contradiction|].
  split; [vm_compute; repeat split; auto; try discriminate|].
  split; [vm_compute; repeat split; auto; try discriminate|].
  split; [vm_compute; reflexivity|]. split; [vm_compute; reflexivity|].
  vm_compute. intro C. discriminate.
Qed.
