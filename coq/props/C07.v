(* C07 Persisted consensus state restores exactly.
   Property theorems only.  [persist] (model/AgreementPersist.v) is the projection of the model state
   that persistence.go encode/decode keeps; [restore] is the identity on it. *)
From Coq Require Import NArith List Bool String.
Import ListNotations.
From Verif.model Require Import AgreementTypes AgreementVotes AgreementProposals AgreementPlayer AgreementPersist AgreementCheck.
From Verif.proofs Require Import AgreementC07Proofs.
Open Scope N_scope.

(* first sentence of the property: round, period, step, deadlines, the pending table, and for every
   round >= the player's round the proposal store, freshest bundle, vote trackers, next-threshold
   caches and proposal trackers are read back unchanged (for every state, reachable or not).
   Exactly three things are lost: routers of older rounds, the unexported late-credential fields of
   the proposal seeker, the message handles of Pending tails. *)
Theorem C07_persist_keeps_tracking : forall st,
  let st' := restore (persist st) in
  p_rnd (s_pl st') = p_rnd (s_pl st) /\ p_per (s_pl st') = p_per (s_pl st) /\ p_step (s_pl st') = p_step (s_pl st) /\
  p_last (s_pl st') = p_last (s_pl st) /\ p_dl (s_pl st') = p_dl (s_pl st) /\ p_dlt (s_pl st') = p_dlt (s_pl st) /\
  p_nap (s_pl st') = p_nap (s_pl st) /\ p_frd (s_pl st') = p_frd (s_pl st) /\ p_pnext (s_pl st') = p_pnext (s_pl st) /\
  map fst (p_pending (s_pl st')) = map fst (p_pending (s_pl st)) /\
  (forall r, r < p_rnd (s_pl st) -> aget N.eqb r (s_rt st') = None) /\
  (forall r rn, p_rnd (s_pl st) <= r -> aget N.eqb r (s_rt st) = Some rn ->
     exists rn', aget N.eqb r (s_rt st') = Some rn' /\ rn_store rn' = rn_store rn /\ rn_fresh rn' = rn_fresh rn /\
       map fst (rn_periods rn') = map fst (rn_periods rn) /\
       forall p pn, aget N.eqb p (rn_periods rn) = Some pn ->
         exists pn', aget N.eqb p (rn_periods rn') = Some pn' /\ pn_tracking_eq pn' pn).
Proof. exact persist_keeps_tracking_proof. Qed.
Print Assumptions C07_persist_keeps_tracking.

(* second sentence ("subsequent behaviour is identical") is FALSE of the faithful model for
   DynamicFilterTimeout protocols (v39+): two witnesses, both replayed on the Go code by the harness
   (finding signatures c07_late_credential_tracking_not_persisted, c07_old_round_router_dropped) *)
Theorem C07_restore_late_credential_refuted :
  exists pm r0 es st e,
    state_after pm (init pm r0) es = Some st /\ p_pending (s_pl st) = [] /\
    actions_of (step pm st e) = Some [AIgnore] /\
    exists v, actions_of (step pm (restore (persist st)) e) = Some [ARelayVote v].
Proof. exact restore_late_credential_refuted_proof. Qed.
Print Assumptions C07_restore_late_credential_refuted.

Theorem C07_restore_old_round_router_refuted :
  exists pm r0 es st e,
    state_after pm (init pm r0) es = Some st /\ p_pending (s_pl st) = [] /\
    actions_of (step pm st e) = Some [AIgnore] /\
    exists v r p t, actions_of (step pm (restore (persist st)) e) = Some [AVerifyVote v r p t].
Proof. exact restore_old_round_router_refuted_proof. Qed.
Print Assumptions C07_restore_old_round_router_refuted.
