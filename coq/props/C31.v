(* C31  AVM evaluation is total and bounded for every program.

   The frame (GetOpSpec, step, the eval loop, cost / budget accounting, the stack-depth and
   byte-length checks) is modelled by hand (coq/model/AvmFrame.v); the ~200 op functions are an
   abstract family [opf] constrained only by the stated contracts; the dispatch / cost tables are
   regenerated from the running code on every check (coq/gen/AvmTables.v).

   Theorems, for EVERY table, byte string, version, mode, state and op family:
   * eval_terminates, steps_bounded      -- the loop ends within the budget
   * cost_never_exceeds_budget           -- remaining budget never negative
   * stack_bounded(_reach)               -- |stack| <= maxStackDepth after every instruction
   * bytes_bounded(_reach)               -- every byte string <= maxStringSize
   * result_trichotomy                   -- accept | reject | error
   * step_panic_only_after_exit_op(_gen) -- the frame's own indexing cannot panic (table obligation)
   * tables_costs_ok                     -- every op has minimum cost >= 1; cost indices in range
   PARTIAL ("without an internal crash"): Go-level panics inside op functions (index out of
   range, nil map ...) are runtime behaviour the model cannot exhibit; that half is decided only
   by the fuzz search of the harness (panicError must never be observed). *)
From Coq Require Import List NArith ZArith Bool Arith.
From Verif.model Require Import AvmTypes AvmFrame AvmTable.
From Verif.gen Require Import AvmTables.
From Verif.proofs Require Import AvmFrameProofs AvmTableProofs AvmC31Proofs.
Import ListNotations.

Section Statements.
  Variable tbl : N -> N -> opspec * list opspec.
  Variable max_depth : nat.
  Variable max_bytes : N.
  Variable W : Type.
  Variable bmax : Z.
  Variable isolate : bool.
  Variable opf : opspec -> list N -> state W -> outcome W.
  Variable v mode : N.
  Variable prog : list N.
  Variable grant : W -> Z.

  Notation stepf := (step tbl max_depth max_bytes W bmax isolate opf v mode prog).
  Notation loop := (eval_loop tbl max_depth max_bytes W bmax isolate opf).
  Notation rem := (remaining W bmax isolate).
  Notation budget_contract := (op_budget_ok W bmax isolate opf prog grant).
  Notation effect_contract := (op_effect_ok max_bytes W opf prog).
  Notation reaches := (reach tbl max_depth max_bytes W bmax isolate opf v mode prog).
  Notation potential := (mu W bmax isolate grant).

  Theorem eval_terminates : forall fuel st,
      budget_contract -> (0 <= rem st)%Z -> (0 <= grant (st_w W st))%Z ->
      (potential st < Z.of_nat fuel)%Z ->
      fst (loop fuel v mode prog st) <> VOutOfFuel.
  Proof. exact (AvmFrameProofs.eval_terminates tbl max_depth max_bytes W bmax isolate opf v mode prog grant). Qed.

  Theorem steps_bounded : forall st st',
      budget_contract -> (0 <= rem st)%Z -> (0 <= grant (st_w W st))%Z -> reaches st st' ->
      (st_cost W st' - st_cost W st <= potential st - potential st')%Z /\ (0 <= potential st')%Z.
  Proof. exact (AvmFrameProofs.steps_bounded tbl max_depth max_bytes W bmax isolate opf v mode prog grant). Qed.

  Theorem every_instruction_costs : forall st st',
      budget_contract -> (0 <= rem st)%Z -> stepf st = Ok st' ->
      (0 <= rem st')%Z /\ (potential st' <= potential st - 1)%Z /\ (st_cost W st + 1 <= st_cost W st')%Z /\
      (0 <= grant (st_w W st'))%Z.
  Proof. exact (AvmFrameProofs.step_progress tbl max_depth max_bytes W bmax isolate opf v mode prog grant). Qed.

  Theorem cost_never_exceeds_budget : forall st st',
      budget_contract -> (0 <= rem st)%Z -> reaches st st' ->
      (0 <= rem st')%Z /\ (st_cost W st <= st_cost W st')%Z.
  Proof. exact (AvmFrameProofs.cost_never_exceeds_budget tbl max_depth max_bytes W bmax isolate opf v mode prog grant). Qed.

  Theorem stack_bounded : forall st st', stepf st = Ok st' -> length (st_stack W st') <= max_depth.
  Proof. exact (AvmFrameProofs.stack_bounded tbl max_depth max_bytes W bmax isolate opf v mode prog). Qed.

  Theorem stack_bounded_reach : forall st st',
      length (st_stack W st) <= max_depth -> reaches st st' -> length (st_stack W st') <= max_depth.
  Proof. exact (AvmFrameProofs.stack_bounded_reach tbl max_depth max_bytes W bmax isolate opf v mode prog). Qed.

  Theorem bytes_bounded : forall st st',
      effect_contract -> Forall (sv_ok max_bytes) (st_stack W st) -> stepf st = Ok st' ->
      Forall (sv_ok max_bytes) (st_stack W st').
  Proof. exact (AvmFrameProofs.bytes_bounded tbl max_depth max_bytes W bmax isolate opf v mode prog). Qed.

  Theorem bytes_bounded_reach : forall st st',
      effect_contract -> Forall (sv_ok max_bytes) (st_stack W st) -> reaches st st' ->
      Forall (sv_ok max_bytes) (st_stack W st').
  Proof. exact (AvmFrameProofs.bytes_bounded_reach tbl max_depth max_bytes W bmax isolate opf v mode prog). Qed.

  Theorem result_trichotomy : forall fuel st,
      budget_contract -> (0 <= rem st)%Z -> (0 <= grant (st_w W st))%Z -> (potential st < Z.of_nat fuel)%Z ->
      let r := fst (loop fuel v mode prog st) in
      r = VAccept \/ r = VReject \/ exists e, r = VError e.
  Proof. exact (AvmFrameProofs.result_trichotomy tbl max_depth max_bytes W bmax isolate opf v mode prog grant). Qed.

  Theorem final_state_reachable : forall fuel st, reaches st (snd (loop fuel v mode prog st)).
  Proof. exact (AvmFrameProofs.eval_loop_reach tbl max_depth max_bytes W bmax isolate opf v mode prog). Qed.

  Theorem step_panic_only_after_exit_op : forall st,
      cost_safe (get_op_spec tbl v prog (st_pc W st)) = true ->
      st_pc W st < length prog ->
      stepf st = Err EPanic ->
      os_trusted (get_op_spec tbl v prog (st_pc W st)) = false /\
      always_exits (get_op_spec tbl v prog (st_pc W st)) = true.
  Proof. exact (AvmC31Proofs.step_panic_only_after_exit_op tbl max_depth max_bytes W bmax isolate opf v mode prog). Qed.
End Statements.

Print Assumptions eval_terminates.
Print Assumptions steps_bounded.
Print Assumptions every_instruction_costs.
Print Assumptions cost_never_exceeds_budget.
Print Assumptions stack_bounded.
Print Assumptions stack_bounded_reach.
Print Assumptions bytes_bounded.
Print Assumptions bytes_bounded_reach.
Print Assumptions result_trichotomy.
Print Assumptions final_state_reachable.
Print Assumptions step_panic_only_after_exit_op.

(* regenerated tables *)
Theorem tables_costs_ok : costs_ok = true.
Proof. exact costs_ok_true. Qed.
Print Assumptions tables_costs_ok.

Theorem every_op_min_cost_ge_1 : forall v prog pc,
    os_hasop (get_op_spec gen_tbl v prog pc) = true ->
    min_cost_ok (get_op_spec gen_tbl v prog pc) = true /\ cost_safe (get_op_spec gen_tbl v prog pc) = true.
Proof. exact gen_min_cost. Qed.
Print Assumptions every_op_min_cost_ge_1.

Theorem step_panic_only_after_exit_op_gen :
  forall (W : Type) bmax isolate (opf : opspec -> list N -> state W -> outcome W) v mode prog (st : state W),
    st_pc W st < length prog ->
    step gen_tbl max_depth_nat max_string_size W bmax isolate opf v mode prog st = Err EPanic ->
    os_trusted (get_op_spec gen_tbl v prog (st_pc W st)) = false /\
    always_exits (get_op_spec gen_tbl v prog (st_pc W st)) = true.
Proof. exact gen_step_panic_only_after_exit_op. Qed.
Print Assumptions step_panic_only_after_exit_op_gen.

(* non-vacuity: the contracts are satisfiable and a program runs to the end on the regenerated tables *)
Example budget_contract_satisfiable : forall lsv mb v bmax isolate prog,
    op_budget_ok unit bmax isolate (ref_opf lsv mb v) prog (fun _ => 0%Z).
Proof. exact ref_opf_budget_ok. Qed.

Example effect_contract_satisfiable : forall lsv mb v prog, op_effect_ok mb unit (ref_opf lsv mb v) prog.
Proof. exact ref_opf_effect_ok. Qed.

Example program_runs_within_budget :
  eval_loop gen_tbl max_depth_nat max_string_size unit 700 false (ref_opf 14 max_string_size 4) 701 4 ModeApp ex31_prog (ex31_st 1 0)
  = (VError EFinalStack, ex31_st 8 2).
Proof. exact ex31_eval. Qed.
