(* C36 Participation keys are forward secure.
   Property theorems only: each is closed by [exact <lemma>] and followed by Print Assumptions.
   Objects (model/OneTimeSig.v): [generate start n] = GenerateOneTimeSignatureSecrets,
   [delete s cur K] = DeleteBeforeFineGrained(cur, K), [reload] = persist + load,
   [reach start n ops] = the state after ANY list of operations, [sign]/[verify] = Sign /
   OneTimeSignatureVerifier.Verify on symbolic key material, [derivable s id] = the state holds
   key material from which a signature accepted for [id] can be assembled.  All numbers are
   arbitrary uint64 values (W = 2^64); every key dilution K, also a different one per call. *)
From Coq Require Import NArith ZArith List Bool String Lia.
Import ListNotations.
From Verif.lib Require Import Term.
From Verif.model Require Import OneTimeSig OneTimeSigSpec.
From Verif.proofs Require Import OneTimeSigProofs OneTimeSigSpecProofs.
Open Scope N_scope.

(* [derivable] means what it should: some signature assembled from held keys (batch keys can
   certify fresh offset keys for any (b,o); certificates are public) is accepted by Verify.
   Holds for every state whatsoever. *)
Theorem C36_derivable_is_forgeability : forall s id m,
  derivable s id <-> exists sg, can_make s sg /\ verify id m sg = true.
Proof. exact derivable_can_make. Qed.
Print Assumptions C36_derivable_is_forgeability.

(* Forward security.  After DeleteBeforeFineGrained(cur, K) -- reached through any history,
   and followed by any further operations -- no key material for any identifier
   lexicographically below cur remains.  Premise [ibatch cur + 1 < W]: see _refuted below. *)
Theorem C36_forward_secure : forall start n ops cur K ops' id,
  start < W -> start + n <= W -> Forall wf_op ops -> wf_id cur ->
  ibatch cur + 1 < W -> id_lt id cur ->
  ~ derivable (run (delete (reach start n ops) cur K) ops') id.
Proof. exact forward_secure. Qed.
Print Assumptions C36_forward_secure.

(* ... hence Sign returns the empty signature for it, for every message *)
Theorem C36_forward_secure_sign : forall start n ops cur K ops' id m,
  start < W -> start + n <= W -> Forall wf_op ops -> wf_id cur -> Forall wf_op ops' ->
  ibatch cur + 1 < W -> id_lt id cur -> wf_id id ->
  sign (run (delete (reach start n ops) cur K) ops') id m = SigEmpty.
Proof. exact forward_secure_sign. Qed.
Print Assumptions C36_forward_secure_sign.

(* The unrestricted statement is FALSE of the code as it is: for cur.Batch = 2^64-1 the
   test `current.Batch+1 == s.FirstBatch` / `< s.FirstBatch` wraps and nothing is deleted
   (finding c36_batch_wrap; replayed on the real code by the harness group "wrapcur"). *)
Theorem C36_forward_secure_refuted :
  exists start n cur K id m,
    start < W /\ start + n <= W /\ wf_id cur /\ wf_id id /\ K < W /\ id_lt id cur /\
    verify id m (sign (delete (generate start n) cur K) id m) = true.
Proof. exact forward_secure_refuted. Qed.
Print Assumptions C36_forward_secure_refuted.

(* Still signs.  Every identifier of the generated range [start,start+n) x [0,K) that is at
   or above every deletion point of the history still gets a signature that verifies. *)
Theorem C36_still_signs : forall start n ops id m,
  start < W -> start + n <= W -> Forall wf_op ops -> wf_id id ->
  Forall (op_keeps id) ops -> start <= ibatch id -> ibatch id < start + n ->
  verify id m (sign (reach start n ops) id m) = true.
Proof. exact still_signs. Qed.
Print Assumptions C36_still_signs.

(* Monotone.  No operation ever adds derivable identifiers -- for EVERY state, not only
   reachable ones (the offset keys created by an expansion are certified by a batch key that
   was held, for that key's own batch). *)
Theorem C36_monotone : forall ops s id, derivable (run s ops) id -> derivable s id.
Proof. exact run_monotone. Qed.
Print Assumptions C36_monotone.

(* Sign never indexes out of range and uses held key material only (every state). *)
Theorem C36_sign_total : forall s id m,
  sign s id m <> SigPanic /\ (sign s id m = SigEmpty \/ can_make s (sign s id m)).
Proof. exact sign_total. Qed.
Print Assumptions C36_sign_total.

(* The executable per-probe checker used on the implementation's observations
   (OneTimeSigSpec.probe_spec) is the Prop-level property ... *)
Theorem C36_spec_ok_sound : forall start n h id vprev v,
  probe_spec start n h id vprev v = true <->
  (fwd_P h id -> v = false) /\ (must_P start n h id -> v = true) /\ (v = true -> vprev = true).
Proof. exact probe_spec_sound. Qed.
Print Assumptions C36_spec_ok_sound.

(* ... and the model satisfies it after every operation of every history, for every probed
   identifier; its probe codes are 1 (valid and bound to id/message) or 0 (empty signature). *)
Theorem C36_model_meets_spec : forall start n ops o id,
  start < W -> start + n <= W -> Forall wf_op (ops ++ [o]) -> wf_id id ->
  probe_spec start n (dels (ops ++ [o])) id
             (valid (reach start n ops) id) (valid (reach start n (ops ++ [o])) id) = true
  /\ probe (reach start n (ops ++ [o])) id = (if valid (reach start n (ops ++ [o])) id then 1 else 0).
Proof. exact model_meets_spec_full. Qed.
Print Assumptions C36_model_meets_spec.

Theorem C36_model_meets_spec_init : forall start n id,
  start < W -> start + n <= W -> wf_id id ->
  probe_spec start n [] id true (valid (generate start n) id) = true.
Proof. exact model_meets_spec_init. Qed.
Print Assumptions C36_model_meets_spec_init.

(* ---- non-vacuity: concrete histories meeting the premises, where keys really existed ---- *)
Example C36_ex_history_wf :
  Forall wf_op [Del (mkId 3 1) 2; Reload] /\ wf_id (mkId 4 1) /\ ibatch (mkId 4 1) + 1 < W /\
  id_lt (mkId 4 0) (mkId 4 1) /\ id_lt (mkId 3 1) (mkId 4 1) /\
  Forall (op_keeps (mkId 4 1)) [Del (mkId 3 1) 2; Reload; Del (mkId 4 1) 2].
Proof.
  unfold wf_id, id_lt, W. cbn.
  repeat split; repeat constructor; unfold id_le, id_lt, wf_id, W; cbn; lia.
Qed.

Example C36_ex_forward :
  let s := reach 3 2 [Del (mkId 3 1) 2; Reload] in
  let s' := delete s (mkId 4 1) 2 in
  (* held before the deletion ... *)
  valid s (mkId 3 1) = true /\ valid s (mkId 4 0) = true /\ valid s (mkId 4 1) = true /\
  (* ... gone below the deletion point, kept at and above it *)
  valid s' (mkId 3 1) = false /\ valid s' (mkId 4 0) = false /\ valid s' (mkId 4 1) = true /\
  sign s' (mkId 4 0) 5 = SigEmpty /\ shape s' = [5; 0; 0; 1; 1].
Proof. vm_compute. repeat split; reflexivity. Qed.

Example C36_ex_checker_discriminates :
  (* the checker rejects a surviving key below a deletion point, a lost key at/above it, and a
     key that reappears *)
  probe_spec 3 2 [(mkId 4 1, 2)] (mkId 4 0) true true = false /\
  probe_spec 3 2 [(mkId 4 1, 2)] (mkId 4 1) true false = false /\
  probe_spec 3 2 [(mkId 4 1, 2)] (mkId 6 0) false true = false /\
  probe_spec 3 2 [(mkId 4 1, 2)] (mkId 4 0) true false = true /\
  probe_known [(mkId (W - 1) 1, 1)] (mkId 1 0) true = true /\
  probe_known [(mkId (W - 1) 1, 1); (mkId 2 0, 1)] (mkId 1 0) true = false.
Proof. vm_compute. repeat split; reflexivity. Qed.
