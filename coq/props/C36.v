(* C36 Participation keys are forward secure.
   Property theorems only: each is closed by [exact <lemma>] and followed by Print Assumptions.
   Objects (model/OneTimeSig.v): [generate start n] = GenerateOneTimeSignatureSecrets,
   [delete s cur K] = DeleteBeforeFineGrained(cur, K), [reload] = persist + load,
   [reach start n ops] = the state after ANY list of operations, [sign]/[verify] = Sign /
   OneTimeSignatureVerifier.Verify on symbolic key material, [derivable s id] = the state holds
   key material from which a signature accepted for [id] can be assembled.  All numbers are
   arbitrary uint64 values (W = 2^64); every key dilution K, also a different one per call. *)
From Coq Require Import NArith ZArith List Bool String Lia.
Import ListNotations.
From Verif.lib Require Import Term.
From Verif.model Require Import OneTimeSig OneTimeSigSpec PartPersist PartPersistSpec.
From Verif.proofs Require Import OneTimeSigProofs OneTimeSigSpecProofs PartPersistProofs PartPersistSpecProofs.
Open Scope N_scope.

(* [derivable] means what it should: some signature assembled from held keys (batch keys can
   certify fresh offset keys for any (b,o); certificates are public) is accepted by Verify.
   Holds for every state whatsoever. *)
Theorem C36_derivable_is_forgeability : forall s id m,
  derivable s id <-> exists sg, can_make s sg /\ verify id m sg = true.
Proof. exact derivable_can_make. Qed.
Print Assumptions C36_derivable_is_forgeability.

(* Forward security.  After DeleteBeforeFineGrained(cur, K) -- reached through any history,
   and followed by any further operations -- no key material for any identifier
   lexicographically below cur remains.  Premise [ibatch cur + 1 < W]: see _refuted below. *)
Theorem C36_forward_secure : forall start n ops cur K ops' id,
  start < W -> start + n <= W -> Forall wf_op ops -> wf_id cur ->
  ibatch cur + 1 < W -> id_lt id cur ->
  ~ derivable (run (delete (reach start n ops) cur K) ops') id.
Proof. exact forward_secure. Qed.
Print Assumptions C36_forward_secure.

(* ... hence Sign returns the empty signature for it, for every message *)
Theorem C36_forward_secure_sign : forall start n ops cur K ops' id m,
  start < W -> start + n <= W -> Forall wf_op ops -> wf_id cur -> Forall wf_op ops' ->
  ibatch cur + 1 < W -> id_lt id cur -> wf_id id ->
  sign (run (delete (reach start n ops) cur K) ops') id m = SigEmpty.
Proof. exact forward_secure_sign. Qed.
Print Assumptions C36_forward_secure_sign.

(* The unrestricted statement is FALSE of the code as it is: for cur.Batch = 2^64-1 the
   test `current.Batch+1 == s.FirstBatch` / `< s.FirstBatch` wraps and nothing is deleted
   (finding c36_batch_wrap; replayed on the real code by the harness group "wrapcur"). *)
Theorem C36_forward_secure_refuted :
  exists start n cur K id m,
    start < W /\ start + n <= W /\ wf_id cur /\ wf_id id /\ K < W /\ id_lt id cur /\
    verify id m (sign (delete (generate start n) cur K) id m) = true.
Proof. exact forward_secure_refuted. Qed.
Print Assumptions C36_forward_secure_refuted.

(* Still signs.  Every identifier of the generated range [start,start+n) x [0,K) that is at
   or above every deletion point of the history still gets a signature that verifies. *)
Theorem C36_still_signs : forall start n ops id m,
  start < W -> start + n <= W -> Forall wf_op ops -> wf_id id ->
  Forall (op_keeps id) ops -> start <= ibatch id -> ibatch id < start + n ->
  verify id m (sign (reach start n ops) id m) = true.
Proof. exact still_signs. Qed.
Print Assumptions C36_still_signs.

(* Monotone.  No operation ever adds derivable identifiers -- for EVERY state, not only
   reachable ones (the offset keys created by an expansion are certified by a batch key that
   was held, for that key's own batch). *)
Theorem C36_monotone : forall ops s id, derivable (run s ops) id -> derivable s id.
Proof. exact run_monotone. Qed.
Print Assumptions C36_monotone.

(* Sign never indexes out of range and uses held key material only (every state). *)
Theorem C36_sign_total : forall s id m,
  sign s id m <> SigPanic /\ (sign s id m = SigEmpty \/ can_make s (sign s id m)).
Proof. exact sign_total. Qed.
Print Assumptions C36_sign_total.

(* The executable per-probe checker used on the implementation's observations
   (OneTimeSigSpec.probe_spec) is the Prop-level property ... *)
Theorem C36_spec_ok_sound : forall start n h id vprev v,
  probe_spec start n h id vprev v = true <->
  (fwd_P h id -> v = false) /\ (must_P start n h id -> v = true) /\ (v = true -> vprev = true).
Proof. exact probe_spec_sound. Qed.
Print Assumptions C36_spec_ok_sound.

(* ... and the model satisfies it after every operation of every history, for every probed
   identifier; its probe codes are 1 (valid and bound to id/message) or 0 (empty signature). *)
Theorem C36_model_meets_spec : forall start n ops o id,
  start < W -> start + n <= W -> Forall wf_op (ops ++ [o]) -> wf_id id ->
  probe_spec start n (dels (ops ++ [o])) id
             (valid (reach start n ops) id) (valid (reach start n (ops ++ [o])) id) = true
  /\ probe (reach start n (ops ++ [o])) id = (if valid (reach start n (ops ++ [o])) id then 1 else 0).
Proof. exact model_meets_spec_full. Qed.
Print Assumptions C36_model_meets_spec.

Theorem C36_model_meets_spec_init : forall start n id,
  start < W -> start + n <= W -> wf_id id ->
  probe_spec start n [] id true (valid (generate start n) id) = true.
Proof. exact model_meets_spec_init. Qed.
Print Assumptions C36_model_meets_spec_init.

(* ---- non-vacuity: concrete histories meeting the premises, where keys really existed ---- *)
Example C36_ex_history_wf :
  Forall wf_op [Del (mkId 3 1) 2; Reload] /\ wf_id (mkId 4 1) /\ ibatch (mkId 4 1) + 1 < W /\
  id_lt (mkId 4 0) (mkId 4 1) /\ id_lt (mkId 3 1) (mkId 4 1) /\
  Forall (op_keeps (mkId 4 1)) [Del (mkId 3 1) 2; Reload; Del (mkId 4 1) 2].
Proof.
  unfold wf_id, id_lt, W. cbn.
  repeat split; repeat constructor; unfold id_le, id_lt, wf_id, W; cbn; lia.
Qed.

Example C36_ex_forward :
  let s := reach 3 2 [Del (mkId 3 1) 2; Reload] in
  let s' := delete s (mkId 4 1) 2 in
  (* held before the deletion ... *)
  valid s (mkId 3 1) = true /\ valid s (mkId 4 0) = true /\ valid s (mkId 4 1) = true /\
  (* ... gone below the deletion point, kept at and above it *)
  valid s' (mkId 3 1) = false /\ valid s' (mkId 4 0) = false /\ valid s' (mkId 4 1) = true /\
  sign s' (mkId 4 0) 5 = SigEmpty /\ shape s' = [5; 0; 0; 1; 1].
Proof. vm_compute. repeat split; reflexivity. Qed.

Example C36_ex_checker_discriminates :
  (* the checker rejects a surviving key below a deletion point, a lost key at/above it, and a
     key that reappears *)
  probe_spec 3 2 [(mkId 4 1, 2)] (mkId 4 0) true true = false /\
  probe_spec 3 2 [(mkId 4 1, 2)] (mkId 4 1) true false = false /\
  probe_spec 3 2 [(mkId 4 1, 2)] (mkId 6 0) false true = false /\
  probe_spec 3 2 [(mkId 4 1, 2)] (mkId 4 0) true false = true /\
  probe_known [(mkId (W - 1) 1, 1)] (mkId 1 0) true = true /\
  probe_known [(mkId (W - 1) 1, 1); (mkId 2 0, 1)] (mkId 1 0) true = false.
Proof. vm_compute. repeat split; reflexivity. Qed.

(* ======================================================================================== *)
(* Persistence layer: data/account/participation.go (model/PartPersist.v).
   State = (mem, disk): part.Voting and the `voting` blob of the participation database (+ the
   key dilution in both).  [pstep p (PDel r D dbok)] = DeleteOldKeys(r, proto) waited for on the
   returned channel (delete in memory at OneTimeIDForRound(r,K), snapshot, encode, UPDATE; dbok =
   does the database write succeed; the report is the channel's value), [PRestart] = process
   restart = RestoreParticipation, [restored p] = what a restart would load now, [prun] = any
   list of operations.  [pInv] holds after FillDBWithParticipationKeys and is preserved. *)

Theorem C36P_fill_establishes_inv : forall fv lv K maxp p,
  fill fv lv K maxp = FillOk p -> lv + 1 < W -> K < W -> pInv p /\ disk p = mem p.
Proof. exact fill_establishes_inv. Qed.
Print Assumptions C36P_fill_establishes_inv.

Theorem C36P_inv_preserved : forall ops p, pInv p -> Forall wf_pop ops -> pInv (prun p ops).
Proof. exact prun_pInv. Qed.
Print Assumptions C36P_inv_preserved.

(* Forward security of the PERSISTED keys.  Once DeleteOldKeys(r) has reported success -- after
   any history, and whatever follows (more deletions, failed writes, restarts) -- neither the
   memory state, nor the database blob, nor what a restart loads holds key material for any
   round r' < r, and Sign returns the empty signature for it.  Premise [r / K + 1 < W]: the
   key-level finding c36_batch_wrap (only K = 1, r = 2^64-1). *)
Theorem C36P_persisted_forward_secure : forall p r D dbok p1 ops' r' m,
  pInv p -> r < W -> D < W -> Forall wf_pop ops' ->
  pstep p (PDel r D dbok) = (p1, ROk) ->
  r / eff_kd (mkd p) D + 1 < W -> r' < r ->
  let id := id_of_round r' (eff_kd (mkd p) D) in
  let p' := prun p1 ops' in
  ~ derivable (mem p') id /\ ~ derivable (disk p') id /\ ~ derivable (restored p') id /\
  sign (mem p') id m = SigEmpty /\ sign (restored p') id m = SigEmpty.
Proof. exact persisted_forward_secure. Qed.
Print Assumptions C36P_persisted_forward_secure.

(* success is reported only for a deletion whose result is what the database now holds *)
Theorem C36P_report_ok_means_persisted : forall p o p1, pstep p o = (p1, ROk) ->
  exists r D, o = PDel r D true /\ eff_kd (mkd p) D <> 0 /\ disk p1 = mem p1.
Proof. exact report_ok. Qed.
Print Assumptions C36P_report_ok_means_persisted.

(* Availability across restarts.  While the database writes succeed, a node that restarts
   anywhere, any number of times, signs EXACTLY what the node that never restarts signs (every
   identifier, every message) -- and so would a node restarted at the end. *)
Theorem C36P_restart_transparent : forall p ops id m,
  pInv p -> disk p = mem p -> all_dbok ops ->
  sign (mem (prun p ops)) id m = sign (mem (prun p (no_restarts ops))) id m /\
  sign (restored (prun p ops)) id m = sign (mem (prun p (no_restarts ops))) id m.
Proof. exact restart_transparent. Qed.
Print Assumptions C36P_restart_transparent.

(* Still signs.  Whatever mix of deletions (also with failed writes) and restarts: every round
   of [fv,lv] at or above every requested deletion round gets a valid signature, from memory and
   from a restart. *)
Theorem C36P_still_signs : forall fv lv K kd ops r' m,
  K <> 0 -> K < W -> kd < W -> fv <= lv -> lv + 1 < W -> Forall wf_pop ops ->
  Forall (uses_kd kd K) ops ->
  fv <= r' -> r' <= lv -> (forall r, In r (del_rounds ops) -> r <= r') ->
  let s := fill_secrets fv lv K in
  let p := prun (mkP s kd s kd) ops in
  let id := id_of_round r' K in
  verify id m (sign (mem p) id m) = true /\ verify id m (sign (restored p) id m) = true.
Proof. exact persisted_still_signs. Qed.
Print Assumptions C36P_still_signs.

(* no operation of the layer creates key material (every state) *)
Theorem C36P_monotone : forall p o id,
  (derivable (mem (fst (pstep p o))) id \/ derivable (restored (fst (pstep p o))) id) ->
  derivable (mem p) id \/ derivable (restored p) id.
Proof. exact pstep_monotone. Qed.
Print Assumptions C36P_monotone.

(* basics.OneTimeIDForRound is strictly monotone (hence injective) for every dilution: "round
   below the deletion round" is exactly "identifier below the deletion point" *)
Theorem C36P_round_id_monotone : forall r1 r2 K, K <> 0 ->
  (id_lt (id_of_round r1 K) (id_of_round r2 K) <-> r1 < r2).
Proof. exact id_of_round_lt_iff. Qed.
Print Assumptions C36P_round_id_monotone.

Theorem C36P_round_id_wf : forall r K, K <> 0 -> r < W -> K < W ->
  wf_id (id_of_round r K) /\ ioff (id_of_round r K) < K.
Proof. exact id_of_round_wf. Qed.
Print Assumptions C36P_round_id_wf.

(* OverlapsInterval answers "valid at some round of [first,last]" *)
Theorem C36P_overlaps_spec : forall fv lv first last,
  (overlaps fv lv first last = None <-> last < first) /\
  (first <= last -> fv <= lv ->
   (overlaps fv lv first last = Some true <-> exists r, first <= r <= last /\ fv <= r <= lv)).
Proof. exact overlaps_spec. Qed.
Print Assumptions C36P_overlaps_spec.

(* the per-round checker applied to the implementation's observations is the property ... *)
Theorem C36P_spec_ok_sound : forall fv lv keyed KE hs ha q pm pd vm vd,
  round_spec fv lv keyed KE hs ha q pm pd vm vd = true <->
  (fwd_rP KE hs q -> vm = false /\ vd = false) /\
  (keyed = true -> must_rP fv lv ha q -> vm = true /\ vd = true) /\
  (vm = true \/ vd = true -> pm = true \/ pd = true).
Proof. exact round_spec_sound. Qed.
Print Assumptions C36P_spec_ok_sound.

(* ... and the model satisfies it after every operation of every history, for every round *)
Theorem C36P_model_meets_spec : forall fv lv K kd D ops o q,
  K <> 0 -> K < W -> kd < W -> D < W -> eff_kd kd D <> 0 -> fv <= lv -> lv + 1 < W ->
  Forall wf_pop (ops ++ [o]) -> Forall (uses_kd kd (eff_kd kd D)) (ops ++ [o]) -> q < W ->
  let KE := eff_kd kd D in
  let s := fill_secrets fv lv K in
  let p0 := mkP s kd s kd in
  let p := prun p0 ops in
  let p' := prun p0 (ops ++ [o]) in
  let id := id_of_round q KE in
  round_spec fv lv (KE =? K) KE (succ_rounds (ops ++ [o])) (del_rounds (ops ++ [o])) q
             (valid (mem p) id) (valid (restored p) id)
             (valid (mem p') id) (valid (restored p') id) = true
  /\ probe (mem p') id = (if valid (mem p') id then 1 else 0)
  /\ probe (restored p') id = (if valid (restored p') id then 1 else 0).
Proof. exact pp_model_meets_spec. Qed.
Print Assumptions C36P_model_meets_spec.

(* ---- non-vacuity: a concrete node history.  fv=2, lv=7, K=3 (batches 0..2).  Advance to round
   4 (batch 1 expanded), then to round 5 = an OFFSET-ONLY advance inside batch 1, then restart. *)
Example C36P_ex_history :
  let s := fill_secrets 2 7 3 in
  let p0 := mkP s 3 s 3 in
  let p1 := prun p0 [PDel 4 9 true] in
  let p2 := prun p0 [PDel 4 9 true; PDel 5 9 true] in
  let p3 := prun p0 [PDel 4 9 true; PDel 5 9 true; PRestart] in
  let v p r := valid (mem p) (id_of_round r 3) in
  let vd p r := valid (restored p) (id_of_round r 3) in
  fill 2 7 3 0 = FillOk p0 /\ pstep p1 (PDel 5 9 true) = (p2, ROk) /\
  (* round 4 was signable from memory and from the database before the second deletion ... *)
  v p1 4 = true /\ vd p1 4 = true /\
  (* ... and is gone from both afterwards, also after the restart; rounds 5..7 remain *)
  v p2 4 = false /\ vd p2 4 = false /\ v p3 4 = false /\ v p3 3 = false /\
  v p3 5 = true /\ v p3 7 = true /\ vd p2 5 = true /\
  (* the two deletions differ only in FirstOffset / len(Offsets) *)
  shape (mem p1) = [2; 0; 1; 1; 2] /\ shape (mem p2) = [2; 0; 1; 2; 1] /\
  (* a failed write: memory advanced, database not, and the report says so *)
  snd (pstep p1 (PDel 5 9 false)) = RErr /\
  vd (fst (pstep p1 (PDel 5 9 false))) 4 = true /\ v (fst (pstep p1 (PDel 5 9 false))) 4 = false.
Proof. vm_compute. repeat split; reflexivity. Qed.

Example C36P_ex_checker_discriminates :
  (* a round below a reported deletion that still verifies from the database only (skipped
     write) is rejected; so is a lost round at/above the deletion point, and a reappearing one *)
  round_spec 2 7 true 3 [5] [5] 4 true true false true = false /\
  round_spec 2 7 true 3 [5] [5] 4 true true false false = true /\
  round_spec 2 7 true 3 [5] [5] 6 true true true false = false /\
  round_spec 2 7 true 3 [] [5] 4 false false true false = false /\
  (* an unreported (failed) deletion does not bind the database *)
  round_spec 2 7 true 3 [] [5] 4 true true false true = true.
Proof. vm_compute. repeat split; reflexivity. Qed.
