(* C23 Application storage accounting matches stored state.
   Property theorems only.  The model (model/AppStorage.v) transcribes the box functions of
   ledger/eval/applications.go and data/transactions/logic/box.go, the key/value store with
   updateCounts / checkCounts of ledger/eval/appcow.go and the storage-relevant steps of
   ledger/apply/application.go, for one application.  A program is ANY finite script of storage
   operations (create / resize / replace / put / delete boxes, put / delete global and local
   keys, reject, err); [step] is one application call through the evaluator (NoOp, OptIn,
   CloseOut, ClearState, Update with a new global schema, Delete) or a block boundary; [run]
   applies a whole history to the state right after the creation of the application.
   Every theorem quantifies over ALL histories, all schemas and all consensus parameters
   (MaxAppKeyLen, MaxBoxSize, MaxAppBytesValueLen, MaxAppSumKeyValueLens).
   Hypotheses: schemas are uint64 with room for one more key ([schema_wf]); the total number
   of box bytes ever requested by the history stays below 2^64 ([volume] -- each operation
   requests at most MaxAppKeyLen + MaxBoxSize + 1 = 32833, so this needs more than 5*10^14
   box operations; the minimum balance requirement makes it unreachable). *)
From Coq Require Import NArith List Bool String Lia.
Import ListNotations.
From Verif.lib Require Import Term.
From Verif.model Require Import AssocList AppStorage AppStorageSpec.
From Verif.proofs Require Import AppStorageInv AppStorageTheorems.
Open Scope N_scope.

(* TotalBoxes = number of boxes, TotalBoxBytes = sum of len(name) + len(value) *)
Theorem C23_box_accounting : forall P cr gs ls ops,
  schema_wf gs -> schema_wf ls -> Forall op_wf ops -> volume ops < 2 ^ 64 ->
  let w := run P (winit cr gs ls) ops in
  w_tb w = box_count (w_box w) /\ w_tbb w = box_bytes (w_box w).
Proof. exact box_accounting. Qed.
Print Assumptions C23_box_accounting.

(* ... with AddSaturate / SubSaturate never saturating: both counters stay below the volume
   requested so far, which is below 2^64 *)
Theorem C23_box_counters_never_saturate : forall P cr gs ls ops,
  schema_wf gs -> schema_wf ls -> Forall op_wf ops -> volume ops < 2 ^ 64 ->
  let w := run P (winit cr gs ls) ops in
  w_tb w <= volume ops /\ w_tbb w <= volume ops.
Proof. exact box_counters_bounded. Qed.
Print Assumptions C23_box_counters_never_saturate.

(* the global state never holds more integers / byte strings than GlobalStateSchema allows *)
Theorem C23_global_schema_bound : forall P cr gs ls ops,
  schema_wf gs -> schema_wf ls -> Forall op_wf ops -> volume ops < 2 ^ 64 ->
  let w := run P (winit cr gs ls) ops in
  forall s, w_global w = Some s ->
    fst (count_kv (st_kv s)) <= fst (w_gschema w) /\ snd (count_kv (st_kv s)) <= snd (w_gschema w).
Proof. exact global_schema_bound. Qed.
Print Assumptions C23_global_schema_bound.

(* every opted-in account's local state stays within the schema recorded at opt-in *)
Theorem C23_local_schema_bound : forall P cr gs ls ops,
  schema_wf gs -> schema_wf ls -> Forall op_wf ops -> volume ops < 2 ^ 64 ->
  let w := run P (winit cr gs ls) ops in
  forall a s sch, aget N.eqb a (w_local w) = Some (s, sch) ->
    fst (count_kv (st_kv s)) <= fst sch /\ snd (count_kv (st_kv s)) <= snd sch.
Proof. exact local_schema_bound. Qed.
Print Assumptions C23_local_schema_bound.

(* the bookkeeping behind it: the incremental counters of updateCounts (with their wrapping
   ++ / --) always equal the real counts, and the limits used by checkCounts are the declared
   schemas *)
Theorem C23_counts_exact : forall P cr gs ls ops,
  schema_wf gs -> schema_wf ls -> Forall op_wf ops -> volume ops < 2 ^ 64 ->
  let w := run P (winit cr gs ls) ops in
  (forall s, w_global w = Some s -> st_counts s = count_kv (st_kv s) /\ st_max s = w_gschema w) /\
  (forall a s sch, aget N.eqb a (w_local w) = Some (s, sch) ->
     st_counts s = count_kv (st_kv s) /\ sch = w_lschema w /\ (w_global w <> None -> st_max s = sch)).
Proof. exact counts_exact. Qed.
Print Assumptions C23_counts_exact.

(* a failing call leaves all accounting unchanged ... *)
Theorem C23_failing_call_changes_nothing : forall P w o w' e,
  step P w o = (w', Err e) -> w' = w.
Proof. exact failing_call_changes_nothing. Qed.
Print Assumptions C23_failing_call_changes_nothing.

(* ... because the program runs in a child that is discarded: setKey itself writes before it
   checks (two integers in a store declared for one), and [step] returns the old state *)
Theorem C23_put_writes_before_check :
  let w := winit 1 (1, 0) (0, 0) in
  exists w' s, run_script P0 false 1 [] [SGlobalPut [1] (TVu 7); SGlobalPut [2] (TVu 8)] w = (w', Err R_LOGIC) /\
    w_global w' = Some s /\ count_kv (st_kv s) = (2, 0) /\ w_gschema w' = (1, 0) /\
    fst (step P0 w (OCall 1 [] NoOp [SGlobalPut [1] (TVu 7); SGlobalPut [2] (TVu 8)])) = w.
Proof. exact put_writes_before_check. Qed.
Print Assumptions C23_put_writes_before_check.

(* Observation (not a clause of the property; found by the correspondence run and transcribed
   faithfully): once the creator has closed out of its own application, an UpdateApplication
   sent by another account in the SAME block fails with a recovered panic of
   AccountDeltas.ModifiedAccounts, and succeeds one block later or when sent by the creator. *)
Theorem C23_update_after_creator_closeout :
  let w := run P0 (winit 1 (1, 1) (1, 1)) [OCall 1 [] OptIn []; OEndBlock; OCall 1 [] CloseOut []] in
  snd (step P0 w (OCall 2 [] (UpdateApp (0, 0)) [])) = Err R_APPLY /\
  snd (step P0 (end_block w) (OCall 2 [] (UpdateApp (0, 0)) [])) = Ok [] /\
  snd (step P0 w (OCall 1 [] (UpdateApp (0, 0)) [])) = Ok [].
Proof. exact update_after_creator_closeout. Qed.
Print Assumptions C23_update_after_creator_closeout.

(* the executable predicate that the check evaluates on the ledger's answers holds of every
   reachable model state, and it says what the property says *)
Theorem C23_spec_state_holds : forall P cr gs ls ops,
  schema_wf gs -> schema_wf ls -> Forall op_wf ops -> volume ops < 2 ^ 64 ->
  spec_state (run P (winit cr gs ls) ops) = true.
Proof. exact spec_state_holds. Qed.
Print Assumptions C23_spec_state_holds.

Theorem C23_spec_state_sound : forall w, spec_state w = true ->
  w_tb w = N.of_nat (List.length (w_box w)) /\
  w_tbb w = asum (fun name value => blen name + blen value) (w_box w) /\
  (forall s, w_global w = Some s ->
     fst (count_kv (st_kv s)) <= fst (w_gschema w) /\ snd (count_kv (st_kv s)) <= snd (w_gschema w)) /\
  (forall a s sch, In (a, (s, sch)) (w_local w) ->
     fst (count_kv (st_kv s)) <= fst sch /\ snd (count_kv (st_kv s)) <= snd sch).
Proof. exact spec_state_sound. Qed.
Print Assumptions C23_spec_state_sound.

(* non-vacuity: a history that creates, resizes, overwrites and deletes boxes, fills the global
   and a local store up to their schemas, is refused one key more, shrinks the global schema
   only as far as the stored keys allow, and ends with boxes outliving the application *)
Definition nv_ops : list op :=
  [ OCall 1 [] OptIn [SLocalPut 0 [1] (TVu 5); SBoxCreate [9] 4];
    OCall 2 [1] NoOp [SBoxCreate [8; 8] 10; SBoxResize [9] 2; SBoxReplace [8; 8] 3 [1; 2];
                      SGlobalPut [1] (TVu 1); SGlobalPut [2] (TVb [7]); SLocalPut 1 [2] (TVb [3])];
    OCall 2 [] NoOp [SGlobalPut [3] (TVu 2)];
    OCall 2 [] NoOp [SGlobalDel [1]; SGlobalPut [4] (TVu 3); SGlobalPut [5] (TVu 4)];  (* one integer too many *)
    OEndBlock;
    OCall 1 [] (UpdateApp (1, 1)) [];                                      (* two integers stored: refused *)
    OCall 1 [] (UpdateApp (2, 1)) [SBoxDel [9]];
    OCall 1 [] CloseOut [];
    OCall 2 [] DeleteApp [SBoxPut [7] [1; 2; 3]] ].
Example C23_history_nonvacuous :
  let w := run P0 (winit 1 (2, 1) (1, 1)) nv_ops in
  Forall op_wf nv_ops /\ volume nv_ops < 2 ^ 64 /\
  map (fun n => res_code (snd (step P0 (run P0 (winit 1 (2, 1) (1, 1)) (firstn n nv_ops)) (nth n nv_ops OEndBlock))))
      [0; 1; 2; 3; 5; 6; 7; 8]%nat = [0; 0; 0; 2; 3; 0; 0; 0] /\
  w_global w = None /\ w_tb w = 2 /\ w_tbb w = 2 + 10 + 1 + 3 /\ w_local w = [].
Proof.
  cbn zeta. split; [repeat constructor; cbn; unfold schema_wf; cbn; lia|].
  split; [vm_compute; reflexivity|]. vm_compute. repeat split.
Qed.
