(* C40 Consensus objects have one canonical encoding.
   Property theorems only (each closed by [exact] and followed by Print Assumptions).

   Model: coq/model/Msgpack.v -- a schema language for what the msgp generator sees (called named
   types, inlined structure, struct fields sorted by codec name with omitempty / required flags,
   allocbounds), ONE encoder [enc] (canonical msgpack exactly as github.com/algorand/msgp and the
   canonical go-codec handle emit it) and the decoder [dec] transcribed from the generated
   UnmarshalMsgWithState / msgp runtime.  The statements hold for EVERY schema environment [env] that
   passes the static check [env_ok] (field names strictly increasing, every reference resolves), every
   well-typed value and every trailing byte string; C40_real_* instantiate them on the table generated
   from the running code (coq/gen/Schemas.v, re-generated and re-checked on every run).

   [deep] selects whose notion of "empty" is used for omitempty: false = generated msgp code (a non-nil
   pointer is never empty), true = go-codec RecursiveEmptyCheck (looks through pointers).  Every theorem
   holds for both; C40_encoders_agree_* relate the two. *)
From Coq Require Import List NArith ZArith Bool.
Import ListNotations.
From Verif.model Require Import Msgpack.
From Verif.gen Require Import Schemas.
From Verif.proofs Require Import MsgpackPrim MsgpackProofs MsgpackDecProofs MsgpackSchemas.
Open Scope N_scope.

(* decode (encode v) = (normal form of v, rest): for every schema, at every AllowableDepth the value
   needs, with arbitrary trailing bytes.  The normal form only replaces zero-valued omitempty fields by
   "absent" (a nil and an empty slice in such a field are the same object on the wire). *)
Theorem C40_decode_encode : forall env deep, env_ok env = true ->
  forall id v d rest,
  wtb env deep (SRef id) v = true -> (need (norm env deep (SRef id) v) <= d)%nat ->
  decode env deep d id (enc env deep (SRef id) v ++ rest) = Ok (norm env deep (SRef id) v, rest).
Proof. exact decode_encode. Qed.
Print Assumptions C40_decode_encode.

(* the same at every schema node (not only at a named root), against the body decoder *)
Theorem C40_dec_enc_any_schema : forall env deep, env_ok env = true ->
  forall v s, wtb env deep s v = true -> schema_ok env s = true ->
  forall d zero rest, (need (norm env deep s v) <= d)%nat ->
  dec_s env deep (dec env deep d) zero s (enc env deep s v ++ rest) = Ok (norm env deep s v, rest).
Proof. exact dec_enc. Qed.
Print Assumptions C40_dec_enc_any_schema.

(* the encoding is injective on normal forms: identifiers derived from encodings (transaction IDs,
   block hashes, vote / proposal digests) name exactly one object *)
Theorem C40_encode_injective : forall env deep, env_ok env = true ->
  forall s v1 v2, wtb env deep s v1 = true -> wtb env deep s v2 = true -> schema_ok env s = true ->
  enc env deep s v1 = enc env deep s v2 -> norm env deep s v1 = norm env deep s v2.
Proof. exact enc_inj. Qed.
Print Assumptions C40_encode_injective.

(* ... and prefix free: concatenated encodings split in one way only *)
Theorem C40_encode_prefix_free : forall env deep, env_ok env = true ->
  forall s v1 v2 r1 r2, wtb env deep s v1 = true -> wtb env deep s v2 = true -> schema_ok env s = true ->
  enc env deep s v1 ++ r1 = enc env deep s v2 ++ r2 -> norm env deep s v1 = norm env deep s v2 /\ r1 = r2.
Proof. exact enc_prefix_free. Qed.
Print Assumptions C40_encode_prefix_free.

(* bytes that ARE a canonical encoding decode to a value that re-encodes to exactly these bytes, and
   that value is already in normal form *)
Theorem C40_reencode_canonical : forall env deep, env_ok env = true ->
  forall s v0 d zero rest v rest',
  wtb env deep s v0 = true -> schema_ok env s = true -> (need (norm env deep s v0) <= d)%nat ->
  dec_s env deep (dec env deep d) zero s (enc env deep s v0 ++ rest) = Ok (v, rest') ->
  enc env deep s v ++ rest' = enc env deep s v0 ++ rest /\ norm env deep s v = v.
Proof. exact reencode_canonical. Qed.
Print Assumptions C40_reencode_canonical.

(* the encoding does not depend on how a zero omitempty field is represented *)
Theorem C40_enc_norm : forall env deep v s, enc env deep s (norm env deep s v) = enc env deep s v.
Proof. exact enc_norm. Qed.
Print Assumptions C40_enc_norm.

Theorem C40_norm_idempotent : forall env deep v s, norm env deep s (norm env deep s v) = norm env deep s v.
Proof. exact norm_idem. Qed.
Print Assumptions C40_norm_idempotent.

(* generated (msgp) encoder = reflection (go-codec) encoder on every value without a non-nil pointer *)
Theorem C40_encoders_agree_ptr_free : forall env v s,
  ptr_free v = true -> enc env false s v = enc env true s v.
Proof. exact encoders_agree_ptr_free. Qed.
Print Assumptions C40_encoders_agree_ptr_free.

(* The full statement "both encoders agree on every object" is FALSE of the faithful model: a non-nil
   pointer to a zero value (Transaction.HeartbeatTxnFields = &HeartbeatTxnFields{}) is written as an
   explicit empty map by the generated code and omitted by go-codec.  Replayed on the real encoders by
   the harness (signature ptr_to_zero_value_encoders_differ). *)
Theorem C40_encoders_agree_refuted :
  exists env s v, env_ok env = true /\ wtb env false s v = true /\ wtb env true s v = true /\
                  enc env false s v <> enc env true s v.
Proof. exact encoders_agree_refuted. Qed.
Print Assumptions C40_encoders_agree_refuted.

(* the table generated from the running code satisfies the premise, so everything above applies to the
   real types (msgp flavour) with the real AllowableDepth *)
Theorem C40_real_schemas_ok : env_ok Schemas.env = true.
Proof. exact real_env_ok. Qed.
Print Assumptions C40_real_schemas_ok.

Theorem C40_real_decode_encode : forall id v rest,
  wtb Schemas.env false (SRef id) v = true ->
  (need (norm Schemas.env false (SRef id) v) <= Schemas.max_depth)%nat ->
  decode Schemas.env false Schemas.max_depth id (enc Schemas.env false (SRef id) v ++ rest)
  = Ok (norm Schemas.env false (SRef id) v, rest).
Proof. exact real_decode_encode. Qed.
Print Assumptions C40_real_decode_encode.

Theorem C40_real_encode_injective : forall id v1 v2,
  wtb Schemas.env false (SRef id) v1 = true -> wtb Schemas.env false (SRef id) v2 = true ->
  enc Schemas.env false (SRef id) v1 = enc Schemas.env false (SRef id) v2 ->
  norm Schemas.env false (SRef id) v1 = norm Schemas.env false (SRef id) v2.
Proof. exact real_enc_inj. Qed.
Print Assumptions C40_real_encode_injective.

(* soundness of the byte comparison used by the executable checker *)
Theorem C40_spec_bytes_eqb : forall a b, bytes_eqb a b = true <-> a = b.
Proof. exact bytes_eqb_eq. Qed.
Print Assumptions C40_spec_bytes_eqb.

(* non-vacuity: a nested, non-trivial well-typed value of a two-type environment (struct with an
   omitted field, a required field, a bounded slice of a called type, a sorted map) meets every premise
   and round-trips by computation *)
Definition ex_env : list schema :=
  [ SStruct [ (mkF [97] 1 false true, SUint 255);
              (mkF [98] 0 true true, SSlice (Some 4) (SRef 1));
              (mkF [99] 2 false true, SMap (Some 3) (SString None) (SInt 32)) ];
    SFixBytes 2 ].
Definition ex_val : value :=
  VRef (VStruct [ VUint 0; VList [VRef (VBytes [1; 2]); VRef (VBytes [0; 0])];
                  VMap [(VBytes [97], VInt (-5)); (VBytes [98; 98], VInt 70000)] ]).
Example C40_example_premises :
  env_ok ex_env = true /\ wtb ex_env false (SRef 0) ex_val = true /\ (need (norm ex_env false (SRef 0) ex_val) <= 2)%nat.
Proof. vm_compute. repeat split. apply le_n. Qed.
Example C40_example_roundtrip :
  decode ex_env false 2 0 (enc ex_env false (SRef 0) ex_val ++ [7]) = Ok (norm ex_env false (SRef 0) ex_val, [7])
  /\ norm ex_env false (SRef 0) ex_val <> ex_val.
Proof. split; [vm_compute; reflexivity|vm_compute; discriminate]. Qed.
