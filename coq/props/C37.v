(* stub, replaced below *)
From Verif.model Require Import MerkleArray MerkleArrayCheck.
