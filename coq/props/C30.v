(* C30 Catchup only appends authenticated blocks, in order.
   Property theorems only: each is closed by [exact <lemma>] and followed by Print Assumptions.

   Objects (model/Catchup.v).  [Block], [Cert] are arbitrary types with the observations the code
   makes: [blk_round] = block.Round(), [cert_round] = cert.Round, [contents_ok] =
   block.ContentsMatchHeader(), [proto_supported] = config.Consensus knows the block's protocol,
   [authenticate] = BlockAuthenticator.Authenticate(block, cert) == nil -- ALL of them arbitrary
   functions.  [cfg] is ANY configuration (parallelism, seed lookback, retry limit, the switches
   CatchupVerifyPaysetHash / CatchupVerifyCertificate / validate mode).  [run cfg (init lat0) ls]
   executes ANY sequence [ls] of atomic steps from a ledger at round [lat0]: pipelinedFetch
   spawning a fetchAndWrite goroutine or collecting the leading one, any goroutine taking its next
   step with ANY environment input that is possible at that moment (the peer's answer: an error,
   "no block", or any (block, cert) pair whatsoever; which peer; cancellation branches; racy
   reads), the service being cancelled, somebody else (agreement) appending a block.  So the
   theorems quantify over all adversarial peers, all delays / orderings of answers and all
   interleavings of the workers.  [s_trace st] is the log of observable actions, newest first:
   [EAdd r b c lat res validated] = the worker of round r called AddBlock/AddValidatedBlock (b, c)
   when the ledger was at round lat and got res; [EContents r b ok] / [EAuth r b c ok] = it
   evaluated ContentsMatchHeader / Authenticate with that result. *)
From Coq Require Import NArith List Bool.
Import ListNotations.
From Verif.model Require Import Catchup CatchupSpec CatchupCheck.
From Verif.proofs Require Import CatchupProofs CatchupCheckProofs.
Open Scope N_scope.

(* written_implies_checked, default configuration.  Every block the service ever hands to the ledger
   is for the worker's round and was PRECEDED (l1 = what happened before the call) by
   ContentsMatchHeader = true on that block and by a successful Authenticate of that very
   (block, cert) pair -- no matter what peers returned, in what order, under what schedule. *)
Theorem C30_written_implies_checked :
  forall (Block Cert : Type) (blk_round : Block -> N) (cert_round : Cert -> N)
         (contents_ok proto_supported : Block -> bool) (authenticate : Block -> Cert -> bool)
         (cfg : config) (lat0 : N) ls st l2 l1 r b c lat res v,
  c_verify_payset cfg = true -> c_verify_cert cfg = true ->
  run blk_round cert_round contents_ok proto_supported authenticate cfg (init lat0) ls = Some st ->
  s_trace st = l2 ++ EAdd r b c lat res v :: l1 ->
  blk_round b = r /\
  In (EContents r b true) l1 /\ contents_ok b = true /\
  In (EAuth r b c true) l1 /\ authenticate b c = true.
Proof. exact written_implies_checked_default. Qed.
Print Assumptions C30_written_implies_checked.

(* checks_skipped_only_by_config.  For ANY configuration: the contents check is missing only if
   CatchupVerifyPaysetHash is off, the certificate check only if CatchupVerifyCertificate is off. *)
Theorem C30_checks_skipped_only_by_config :
  forall (Block Cert : Type) (blk_round : Block -> N) (cert_round : Cert -> N)
         (contents_ok proto_supported : Block -> bool) (authenticate : Block -> Cert -> bool)
         (cfg : config) (lat0 : N) ls st l2 l1 r b c lat res v,
  run blk_round cert_round contents_ok proto_supported authenticate cfg (init lat0) ls = Some st ->
  s_trace st = l2 ++ EAdd r b c lat res v :: l1 ->
  blk_round b = r /\
  (c_verify_payset cfg = true -> In (EContents r b true) l1 /\ contents_ok b = true) /\
  (c_verify_cert cfg = true -> In (EAuth r b c true) l1 /\ authenticate b c = true).
Proof. exact written_implies_checked. Qed.
Print Assumptions C30_checks_skipped_only_by_config.

(* ... and the switches do switch the checks off (so the premises above are needed): with
   CatchupVerifyCertificate off a forged (block, cert) pair is written, with CatchupVerifyPaysetHash
   off a block whose payset does not match its header; the default configuration refuses both. *)
Theorem C30_cert_switch_off_writes_unauthenticated :
  exists st lat, mrun cfg_nocert (init 0) (happy 1 (RespPair (blkForged 1) (certForged 1))) = Some st /\
    s_trace st = EAdd 1 (blkForged 1) (certForged 1) lat AddOk false :: tl (s_trace st) /\
    d_auth (blkForged 1) (certForged 1) = false.
Proof. exact nocert_run. Qed.
Print Assumptions C30_cert_switch_off_writes_unauthenticated.

Theorem C30_payset_switch_off_writes_mismatching :
  exists st lat, mrun cfg_nopayset (init 0) (happy 1 (RespPair (blkTampered 1) (certA 1))) = Some st /\
    s_trace st = EAdd 1 (blkTampered 1) (certA 1) lat AddOk false :: tl (s_trace st) /\
    b_cok (blkTampered 1) = false.
Proof. exact nopayset_run. Qed.
Print Assumptions C30_payset_switch_off_writes_mismatching.

(* writes_in_order.  [chron_log]: the ledger's call log, oldest first, as the monitor of the harness
   records it.  Blocks enter the ledger in strictly increasing round order without gaps
   (lat0+1, lat0+2, ...), the ledger ends at lat0 + number of accepted writes, and NO call ever
   offers a block beyond latest+1 (the prevFetchComplete chain: a worker reaches the ledger only
   when round r-1 is in). *)
Theorem C30_writes_in_order :
  forall (Block Cert : Type) (blk_round : Block -> N) (cert_round : Cert -> N)
         (contents_ok proto_supported : Block -> bool) (authenticate : Block -> Cert -> bool)
         (cfg : config) (lat0 : N) (blk_id : Block -> N) ls st,
  run blk_round cert_round contents_ok proto_supported authenticate cfg (init lat0) ls = Some st ->
  let log := chron_log blk_round contents_ok authenticate blk_id (s_trace st) in
  writes_in_order_P lat0 log /\
  s_latest st = lat0 + N.of_nat (length (filter wl_ok log)) /\
  Forall (fun e => wl_round e <= wl_lat e + 1) log.
Proof. exact writes_in_order. Qed.
Print Assumptions C30_writes_in_order.

(* "the authentic one": if a certificate authenticates at most the agreed block of its round
   (agreement safety and unforgeable votes: C01/C02, assumed here), what catchup writes for round r
   is the agreed block of round r. *)
Theorem C30_written_is_agreed :
  forall (Block Cert : Type) (blk_round : Block -> N) (cert_round : Cert -> N)
         (contents_ok proto_supported : Block -> bool) (authenticate : Block -> Cert -> bool)
         (cfg : config) (lat0 : N) (blk_id : Block -> N) (agreed : N -> N) ls st l2 l1 r b c lat res v,
  (forall b c, authenticate b c = true -> blk_id b = agreed (blk_round b)) ->
  c_verify_cert cfg = true ->
  run blk_round cert_round contents_ok proto_supported authenticate cfg (init lat0) ls = Some st ->
  s_trace st = l2 ++ EAdd r b c lat res v :: l1 ->
  blk_id b = agreed r.
Proof. exact written_is_agreed. Qed.
Print Assumptions C30_written_is_agreed.

(* The third way catchup feeds the ledger: fetchRound/syncCert, when agreement already holds the
   certificate of round [cround] (committing to header digest [cdigest]) but not the block.
   [fr_run]: any sequence of steps of that loop with any peer answers, peers, cancellation polls and
   concurrent writes by others.  EnsureBlock is called at most once, and only with a block of that
   round whose header digest is the one the certificate commits to and whose payset matches its
   header -- independently of the configuration switches. *)
Theorem C30_fetch_round_ensures_matching :
  forall (Block Cert : Type) (blk_round : Block -> N) (cert_round : Cert -> N)
         (contents_ok : Block -> bool) (blk_digest : Block -> N) (cround cdigest lat0 : N) ls st,
  fr_run blk_round cert_round contents_ok blk_digest cround cdigest (fr_init lat0) ls = Some st ->
  (forall b, In (FREnsure b) (fr_trace st) ->
             blk_round b = cround /\ blk_digest b = cdigest /\ contents_ok b = true) /\
  (n_ensure (fr_trace st) <= 1)%nat.
Proof. exact fetch_round_ensures_matching. Qed.
Print Assumptions C30_fetch_round_ensures_matching.

(* The executable monitor predicate [spec_ok] (model/CatchupSpec.v; evaluated by bin/check on the
   implementation's own call log) means the property ... *)
Theorem C30_spec_ok_sound : forall vp vc lat0 log flat fids,
  spec_ok vp vc lat0 log flat fids = true ->
  writes_in_order_P lat0 log /\ calls_checked_P vp vc log /\
  flat = lat0 + N.of_nat (length (filter wl_ok log)).
Proof. exact spec_ok_sound. Qed.
Print Assumptions C30_spec_ok_sound.

(* ... and holds of the call log of every run of the model. *)
Theorem C30_model_meets_spec_ok :
  forall (Block Cert : Type) (blk_round : Block -> N) (cert_round : Cert -> N)
         (contents_ok proto_supported : Block -> bool) (authenticate : Block -> Cert -> bool)
         (cfg : config) (lat0 : N) (blk_id : Block -> N) ls st,
  run blk_round cert_round contents_ok proto_supported authenticate cfg (init lat0) ls = Some st ->
  spec_ok (c_verify_payset cfg) (c_verify_cert cfg) lat0
          (chron_log blk_round contents_ok authenticate blk_id (s_trace st)) (s_latest st)
          (map wl_id (filter wl_ok (chron_log blk_round contents_ok authenticate blk_id (s_trace st)))) = true.
Proof. exact model_spec_ok. Qed.
Print Assumptions C30_model_meets_spec_ok.

(* Correspondence side: an implementation event log that the trace validator of bin/check accepts
   IS a run of the model (instantiated with the harness' block / certificate descriptors), hence
   everything above applies to it. *)
Theorem C30_accepted_trace_is_model_run : forall cfg dis fuel es st idx st',
  validate cfg dis fuel st es idx = inl st' -> exists ls, mrun cfg st ls = Some st'.
Proof. exact validate_sound. Qed.
Print Assumptions C30_accepted_trace_is_model_run.

(* Non-vacuity: under the default configuration, two workers in flight, round 2 answered first, a
   forged pair and a tampered payset refused for round 1, then both rounds written in order
   (13 observable actions); and before round 1 is in the ledger the write step of round 2 is
   not enabled at all. *)
Example C30_nonvacuous :
  exists st, mrun cfg_default (init 0) demo_labels = Some st /\
             s_latest st = 2 /\ written_ids (s_trace st) = [1; 2] /\ s_first st = 3 /\
             List.length (s_trace st) = 13%nat.
Proof. exact demo_run. Qed.
Example C30_order_guard :
  exists st, mrun cfg_default (init 0) (firstn 7 demo_labels) = Some st /\
             mstep cfg_default st (LWorker 2 (uin 0 (Some 1) RespErr EvOk)) = None.
Proof. exact demo_order_guard. Qed.
Example C30_default_refuses_forged :
  exists st, mrun cfg_default (init 0) (firstn 6 (happy 1 (RespPair (blkForged 1) (certForged 1)))) = Some st /\
             s_latest st = 0 /\ pc_of st 1 = Some PTop.
Proof. exact default_refuses. Qed.
