(* C10 Paginated listings return each resource exactly once.
   Property theorems only: each is closed by [exact <lemma>] and followed by Print Assumptions.

   Model: model/Paging.v (LookupKvPairsByPrefix + LookupKeysByPrefixCursor/processKvRows;
   lookupAssetResources / lookupApplicationResources + LookupLimitedResources); spec and client
   protocols: model/PagingSpec.v ([kv_listing], [res_listing] = the sorted listing computed from
   the world = database snapshot + in-memory deltas; [kv_iter], [res_iter], [res_iter_h]).

   All statements are for ALL databases, delta lists (any split of the history between disk and
   memory), prefixes, cursors, "greater than" ids, limits >= 1, byte caps (including 0) and
   includeValues / includeParams flags.

   Deviation from DESIGN.md: [page = take_while_budget listing] is FALSE of the faithful model
   (C10_kv_budget_not_maximal): when the database scan stops on the byte cap, delta-only keys
   beyond the cutoff are left to the next page even if they would still fit.  What holds, and is
   all the property needs, is: the page is a non-empty prefix of the listing, never longer than
   the budgeted prefix, and the "more" flag is exact. *)
From Coq Require Import NArith List Bool.
Import ListNotations.
From Verif.lib Require Import Term.
From Verif.model Require Import Paging PagingSpec.
From Verif.proofs Require Import PagingBase PagingKv PagingRes PagingIter.
Open Scope N_scope.

(* ---------------------------------------------------------------------------------------- *)
(* boxes                                                                                    *)
(* ---------------------------------------------------------------------------------------- *)
(* the spec listing is what the property says: every key with the prefix above the cursor that
   exists in the world, exactly once, ascending, with its value at that round *)
Theorem C10_kv_listing_spec : forall db deltas prefix cursor incl,
  ssorted bltb (kv_listing db deltas prefix cursor incl) /\
  forall k v, In (k, v) (kv_listing db deltas prefix cursor incl) <->
    has_prefix prefix k = true /\ bltb cursor k = true /\
    exists v0, kv_world db deltas k = Some v0 /\ v = kv_proj incl v0.
Proof. exact kv_listing_spec. Qed.
Print Assumptions C10_kv_listing_spec.

(* keyPrefixIntervalPreprocessing: the SQL key range is exactly "has the prefix", 0xff tails
   included; it only fails for the empty / all-0xff prefix *)
Theorem C10_kv_prefix_range : forall p e k, prefix_end p = Some e -> bytes_ok k ->
  bleb p k && bltb k e = has_prefix p k.
Proof. exact prefix_end_range. Qed.
Print Assumptions C10_kv_prefix_range.

Theorem C10_kv_prefix_strange : forall p, prefix_end p = None <-> Forall (fun b => 255 <= b) p.
Proof. exact prefix_end_none. Qed.
Print Assumptions C10_kv_prefix_strange.

(* one page: a prefix of the listing at the queried round, exact "more" flag, progress, budget *)
Theorem C10_kv_page : forall db dbRound deltas rnd prefix cursor limit maxBytes incl pe,
  NoDup (map fst db) -> (forall r, In r db -> bytes_ok (fst r)) -> 1 <= limit ->
  prefix_end prefix = Some pe -> dbRound <= rnd -> rnd - dbRound <= nlen deltas ->
  let world := firstn (N.to_nat (rnd - dbRound)) deltas in
  exists page more rest,
    kv_lookup db dbRound deltas rnd prefix cursor limit maxBytes incl = Ok (page, more) /\
    kv_listing db world prefix cursor incl = page ++ rest /\
    (more = true <-> rest <> []) /\
    (kv_listing db world prefix cursor incl <> [] -> page <> []) /\
    is_prefix page (kv_trim (kv_listing db world prefix cursor incl) limit maxBytes).
Proof. exact kv_lookup_correct. Qed.
Print Assumptions C10_kv_page.

(* following next-tokens to exhaustion: never an error, never stuck, terminates within
   |listing|+1 pages, and the pages concatenate to exactly the listing *)
Theorem C10_kv_iterate : forall db dbRound deltas rnd prefix limit maxBytes incl pe,
  NoDup (map fst db) -> (forall r, In r db -> bytes_ok (fst r)) -> 1 <= limit ->
  prefix_end prefix = Some pe -> dbRound <= rnd -> rnd - dbRound <= nlen deltas ->
  let world := firstn (N.to_nat (rnd - dbRound)) deltas in
  let pagef := fun c => kv_lookup db dbRound deltas rnd prefix c limit maxBytes incl in
  forall fuel cursor, (length (kv_listing db world prefix cursor incl) < fuel)%nat ->
  exists ps, kv_iter fuel pagef cursor = (map Ok ps, false) /\
             kv_pages_shape ps = true /\
             List.concat (map fst ps) = kv_listing db world prefix cursor incl.
Proof. exact kv_iter_exact. Qed.
Print Assumptions C10_kv_iterate.

(* the executable comparison used by [check] is equality *)
Theorem C10_kv_spec_ok_sound : forall a b, kvrows_eqb a b = true <-> a = b.
Proof. exact kvrows_eqb_eq. Qed.
Print Assumptions C10_kv_spec_ok_sound.

(* DESIGN.md's "page = budgeted prefix" is refuted: database {a ↦ 10 bytes, c ↦ 1 byte}, delta
   creates b ↦ 1 byte, byte cap 5 + 10: the scan stops at c (cap), the cutoff a hides b, the page
   is [a] although [a; b] fits the cap.  (Exact-once is unaffected: b is on the next page.) *)
Theorem C10_kv_budget_not_maximal : exists db deltas prefix cursor limit maxBytes incl page more,
  kv_page db deltas prefix cursor limit maxBytes incl = Ok (page, more) /\
  page <> kv_trim (kv_listing db deltas prefix cursor incl) limit maxBytes.
Proof.
  exists [([1; 1], [0; 0; 0; 0; 0; 0; 0; 0]); ([1; 3], [0; 0; 0; 0])],
         [[([1; 2], Some [7])]], [1], [], 5, 13, true.
  eexists. eexists. split; [vm_compute; reflexivity | vm_compute; discriminate].
Qed.
Print Assumptions C10_kv_budget_not_maximal.

(* ---------------------------------------------------------------------------------------- *)
(* assets and applications of an account                                                    *)
(* ---------------------------------------------------------------------------------------- *)
Theorem C10_res_listing_spec : forall app incl rows deltas addr gt, addr <> 0 ->
  ssorted N.ltb (res_listing app incl rows deltas addr gt) /\
  forall x, In x (res_listing app incl rows deltas addr gt) <->
    gt < fst x /\ res_item app incl rows (r_flat deltas) addr (fst x) = Some x.
Proof. exact res_listing_spec. Qed.
Print Assumptions C10_res_listing_spec.

(* the crux: when the database page is full, over-requesting by numDeltaDeleted leaves at least
   [limit] rows that survive the deltas *)
Theorem C10_overrequest_suffices : forall app incl rows crs deltas owner addr gt,
  res_wf app rows crs (r_flat deltas) owner -> addr <> 0 ->
  forall limit, 1 <= limit -> limit + w_nd (walk addr gt deltas) < 2 ^ 63 ->
  rp_hasMore rows crs deltas addr gt limit = true ->
  limit <= nlen (rp_result0 app incl rows crs deltas addr gt limit).
Proof. exact overrequest_suffices. Qed.
Print Assumptions C10_overrequest_suffices.

(* one page = the first [limit] entries of the listing above the given id, with holding, creator
   and params as they are at the latest round *)
Theorem C10_res_page : forall app incl rows crs deltas owner addr gt,
  res_wf app rows crs (r_flat deltas) owner -> addr <> 0 ->
  forall limit, 1 <= limit -> limit + w_nd (walk addr gt deltas) < 2 ^ 63 ->
  res_page app incl rows crs deltas addr gt limit =
  firstn (N.to_nat limit) (res_listing app incl rows deltas addr gt).
Proof. exact res_page_firstn. Qed.
Print Assumptions C10_res_page.

(* Ledger-level iteration (a short page ends it) and the v2 handler's limit+1 protocol *)
Theorem C10_res_iterate : forall app incl rows crs deltas owner addr bound,
  res_wf app rows crs (r_flat deltas) owner -> addr <> 0 ->
  (forall g, bound + w_nd (walk addr g deltas) < 2 ^ 63) ->
  forall limit, 1 <= limit -> limit <= bound ->
  forall fuel g, (length (res_listing app incl rows deltas addr g) < fuel)%nat ->
  exists ps, res_iter fuel (fun g0 l => res_page app incl rows crs deltas addr g0 l) limit g = (ps, false) /\
             List.concat ps = res_listing app incl rows deltas addr g /\
             res_pages_shape limit ps = true.
Proof. exact res_iter_exact. Qed.
Print Assumptions C10_res_iterate.

Theorem C10_res_iterate_handler : forall app incl rows crs deltas owner addr bound,
  res_wf app rows crs (r_flat deltas) owner -> addr <> 0 ->
  (forall g, bound + w_nd (walk addr g deltas) < 2 ^ 63) ->
  forall limit, 1 <= limit -> limit + 1 <= bound ->
  forall fuel g, (length (res_listing app incl rows deltas addr g) < fuel)%nat ->
  exists ps, res_iter_h fuel (fun g0 l => res_page app incl rows crs deltas addr g0 l) limit g = (ps, false) /\
             List.concat ps = res_listing app incl rows deltas addr g /\
             res_pages_shape_h limit ps = true.
Proof. exact res_iter_h_exact. Qed.
Print Assumptions C10_res_iterate_handler.

(* ---------------------------------------------------------------------------------------- *)
(* non-vacuity                                                                              *)
(* ---------------------------------------------------------------------------------------- *)
(* A world that meets [res_wf] in which the over-request matters: address 2 holds assets
   1001..1004 (created by address 1) in the database; the deltas opt address 2 out of 1001 and
   1002 and create 1005 (by address 2).  With limit 2 the database page must have 4 rows. *)
Definition ex_rows : list dbrow :=
  [mkRow 1 1001 (Some 1) (Some 11); mkRow 1 1002 (Some 2) (Some 12); mkRow 1 1003 (Some 3) (Some 13);
   mkRow 1 1004 (Some 4) (Some 14);
   mkRow 2 1001 (Some 5) None; mkRow 2 1002 (Some 6) None; mkRow 2 1003 (Some 7) None; mkRow 2 1004 (Some 8) None].
Definition ex_crs : list (N * N) := [(1001, 1); (1002, 1); (1003, 1); (1004, 1)].
Definition ex_deltas : list (list rrec) :=
  [[mkRec 2 1001 DNone DDel]; [mkRec 2 1002 DNone DDel; mkRec 2 1005 (DSet 15) (DSet 9)]].
Definition ex_owner (i : N) : N := if i =? 1005 then 2 else 1.

Example C10_res_wf_inhabited : res_wf false ex_rows ex_crs (r_flat ex_deltas) ex_owner.
Proof.
  constructor.
  - vm_compute. repeat (constructor; [cbn; intuition discriminate|]). constructor.
  - intros r H. cbn in H. repeat (destruct H as [<-|H]; [cbn; left; discriminate|]). contradiction.
  - intros _ r H. cbn in H. repeat (destruct H as [<-|H]; [cbn; discriminate|]). contradiction.
  - intros i c. split.
    + intro H. unfold ex_crs in H. cbn [alookup] in H.
      repeat match type of H with
             | (if ?i =? ?k then _ else _) = _ =>
                 let E := fresh "E" in
                 destruct (i =? k) eqn:E; [apply N.eqb_eq in E; subst i; inversion H; subst c; eexists; split; [vm_compute; reflexivity | cbn; discriminate]|]
             end.
      discriminate.
    + intros [r [Hf Hp]]. apply find_row_some in Hf. destruct Hf as [Hin [Ha Hi]].
      cbn in Hin. repeat (destruct Hin as [<-|Hin]; [cbn in *; try (subst; reflexivity); try (exfalso; apply Hp; reflexivity)|]). contradiction.
  - intros r H Hp. cbn in H. repeat (destruct H as [<-|H]; [cbn in *; try reflexivity; try (exfalso; apply Hp; reflexivity)|]). contradiction.
  - intros r H Hp. cbn in H. repeat (destruct H as [<-|H]; [cbn in *; try reflexivity; try discriminate|]). contradiction.
  - intros r H. cbn in H. repeat (destruct H as [<-|H]; [cbn; discriminate|]). contradiction.
  - intros r H. cbn in H. repeat (destruct H as [<-|H]; [cbn; discriminate|]). contradiction.
Qed.

Example C10_res_example_pages :
  res_iter 10 (fun g l => res_page false true ex_rows ex_crs ex_deltas 2 g l) 2 0 =
  ([[(1003, (Some 7, 1, Some 13)); (1004, (Some 8, 1, Some 14))]; [(1005, (Some 9, 2, Some 15))]], false)
  /\ w_nd (walk 2 0 ex_deltas) = 2
  /\ res_listing false true ex_rows ex_deltas 2 0 =
     [(1003, (Some 7, 1, Some 13)); (1004, (Some 8, 1, Some 14)); (1005, (Some 9, 2, Some 15))].
Proof. vm_compute. auto. Qed.

(* a box listing split between database and deltas, paged with limit 2 and a byte cap *)
Example C10_kv_example_pages :
  kv_iter 10 (fun c => kv_lookup [([1; 1], [5]); ([1; 3], [6]); ([1; 255], [7]); ([2], [8])] 3
                                 [[([1; 2], Some [9]); ([1; 3], None)]] 4 [1] c 2 100 true) [] =
  ([Ok ([([1; 1], [5]); ([1; 2], [9])], true); Ok ([([1; 255], [7])], false)], false).
Proof. vm_compute. reflexivity. Qed.
