(* C21 Accounts never end a transaction below minimum balance.
   Property theorems only.  Model: min_balance (basics.MinBalance with
   StateSchema.MinBalance, saturating arithmetic from C45) and checkMinBalance /
   transaction / TransactionGroup in model/EvalGroup.v; closed form: model/EvalSpec.v
   (spec_min_balance, bwp).  The resource counters (assets, apps, schema, extra pages, boxes)
   are fields of the account record; asset creation / opt-in / close-out / destroy change the
   asset counters; application creation / opt-in / close-out / delete change the app, schema
   and extra-page counters, box_create / box_del / box_resize the box counters of the
   application account (programs = any script of such operations and inner transactions). *)
From Coq Require Import NArith ZArith List Bool String.
Import ListNotations.
From Verif.lib Require Import Term.
From Verif.model Require Import Overflow EvalCow EvalApply EvalGroup EvalSpec EvalCheck.
From Verif.proofs Require Import EvalCowProofs EvalGroupProofs EvalConserveProofs EvalMinBalProofs EvalSpecProofs EvalTheorems.
Open Scope N_scope.

(* the saturating Go computation is the capped sum of the per-resource costs *)
Theorem C21_minbal_formula : forall P x,
  params_w64 P -> counts_w64 x -> min_balance P x = spec_min_balance P x.
Proof. exact min_balance_is_spec. Qed.
Print Assumptions C21_minbal_formula.

(* no term dropped *)
Theorem C21_minbal_base : forall P x, p_minbal P < 2 ^ 64 -> p_minbal P <= spec_min_balance P x.
Proof. exact spec_min_balance_base. Qed.
Print Assumptions C21_minbal_base.

Theorem C21_minbal_asset_step : forall P x,
  spec_min_balance P (set_asset_counts x (a_assetparams x) (a_assets x + 1)) < 2 ^ 64 - 1 ->
  spec_min_balance P (set_asset_counts x (a_assetparams x) (a_assets x + 1)) = spec_min_balance P x + p_minbal P.
Proof. exact spec_min_balance_asset_step. Qed.
Print Assumptions C21_minbal_asset_step.

Theorem C21_minbal_box_step : forall P x bytes,
  spec_min_balance P (set_box_counts x (a_boxes x + 1) (a_boxbytes x + bytes)) < 2 ^ 64 - 1 ->
  spec_min_balance P (set_box_counts x (a_boxes x + 1) (a_boxbytes x + bytes)) =
  spec_min_balance P x + p_boxflat P + p_boxbyte P * bytes.
Proof. exact spec_min_balance_box_step. Qed.
Print Assumptions C21_minbal_box_step.

(* the property: after an accepted group every account the group wrote, other than the fee
   sink, the rewards pool and the state proof sender, is empty or holds (with pending
   rewards) at least its requirement *)
Theorem C21_minbal_after_group : forall E ev g lf ev',
  env_ok E -> params_w64 (e_P E) ->
  e_validate E || e_generate E = true -> g <> [] ->
  transaction_group E ev g lf = (ev', Ok tt) ->
  exists c1, group_body E g lf (child (ev_cow ev)) = (c1, Ok tt) /\
    forall a, In a (modified c1) ->
      a <> e_feesink E -> a <> e_pool E -> a <> e_spsender E ->
      let x := lookup (ev_cow ev') a in
      a_algos x < 2 ^ 64 -> a_rbase x <= e_lvl E -> counts_w64 x ->
      acct_is_zero x = true \/ spec_min_balance (e_P E) x <= bwp (e_P E) (e_lvl E) x.
Proof. exact minbal_after_group_spec. Qed.
Print Assumptions C21_minbal_after_group.

(* every account a write reaches is in the modified list that checkMinBalance walks *)
Theorem C21_put_is_modified : forall c a x, In a (modified (put c a x)).
Proof. exact modified_put. Qed.
Print Assumptions C21_put_is_modified.

(* the oracle on the implementation's observations *)
Theorem C21_spec_ok_sound : forall P lvl sink pool sps before after,
  changed_ok P lvl sink pool sps before after = true -> Forall (entry_ok P lvl sink pool sps before) after.
Proof. exact changed_ok_sound. Qed.
Print Assumptions C21_spec_ok_sound.

(* non-vacuity: one microAlgo below the requirement is rejected, exactly at it is accepted *)
Example C21_instance :
  snd (transaction_group (ex_E true true) ex_ev0
         [mkTxn 3 1000 5 20 0 true true 3 0 21 1000000 0 (BPay 5 5399021 0)] 0) = Err E_MINBAL /\
  snd (transaction_group (ex_E true true) ex_ev0
         [mkTxn 3 1000 5 20 0 true true 3 0 21 1000000 0 (BPay 5 5399020 0)] 0) = Ok tt.
Proof. exact minbal_instance. Qed.
