(* C19 Transaction groups apply atomically.
   Property theorems only.  Model: model/EvalCow.v (the copy-on-write overlay as an explicit
   stack: current cow, its parents, the ledger), model/EvalGroup.v (TransactionGroup: child
   cow, per-transaction loop, group checks, fee check, Payset append + commitToParent last,
   recycle on every exit).  The evaluator state [evalst] = (overlay, Payset, corrupted flag);
   the overlay holds all account writes, asset params / holdings / creatables, txids, leases,
   txnCount and feesCollected, so equality of [evalst] is equality of every observable.
   Transactions: payment, keyreg, asset config / transfer / freeze, application calls whose
   program is any finite script of ledger operations (boxes, global / local state, inner
   payment / asset transactions) ending in approve / reject / failure; the program runs in a
   calf (child of the transaction's cow) exactly as StatefulEval does.  Not modelled: blockTxBytes
   (ErrNoSpace), tracer hooks, a panic after the commit point (corruptedState is only ever
   read), Go-level aliasing of pooled cows (observable in the harness only). *)
From Coq Require Import NArith ZArith List Bool String.
Import ListNotations.
From Verif.lib Require Import Term.
From Verif.model Require Import Overflow EvalCow EvalApply EvalGroup EvalSpec EvalCheck.
From Verif.proofs Require Import EvalCowProofs EvalGroupProofs EvalConserveProofs EvalMinBalProofs EvalSpecProofs EvalTheorems.
Open Scope N_scope.

(* every write of a group -- also those made before a failing member -- lands in the child *)
Theorem C19_child_isolation : forall E g lf c,
  let c1 := fst (group_body E g lf (child c)) in
  c_parents c1 = c_top c :: c_parents c /\ c_base c1 = c_base c /\ recycle c1 = c.
Proof. exact child_isolation. Qed.
Print Assumptions C19_child_isolation.

(* ... and so does every write of Move *)
Theorem C19_move_writes_top_only : forall E from to amt fr tr c,
  same_below c (fst (move E from to amt fr tr c)).
Proof. exact move_same_below. Qed.
Print Assumptions C19_move_writes_top_only.

(* the property: whatever the error and wherever it occurs, a failing group leaves the
   evaluator exactly as it was *)
Theorem C19_group_atomic : forall E ev g lf ev' e,
  transaction_group E ev g lf = (ev', Err e) -> ev' = ev.
Proof. exact group_atomic. Qed.
Print Assumptions C19_group_atomic.

(* an accepted group takes effect entirely *)
Theorem C19_group_all : forall E ev g lf ev',
  g <> [] -> transaction_group E ev g lf = (ev', Ok tt) ->
  exists c1, group_body E g lf (child (ev_cow ev)) = (c1, Ok tt) /\
    ev_cow ev' = commit c1 /\
    (forall a, lookup (ev_cow ev') a = lookup c1 a) /\
    ev_payset ev' = ev_payset ev ++ map t_txid g /\
    l_txids (c_top (ev_cow ev')) = l_txids (c_top (ev_cow ev)) ++ map txrec g /\
    c_parents (ev_cow ev') = c_parents (ev_cow ev) /\ c_base (ev_cow ev') = c_base (ev_cow ev).
Proof. exact group_all. Qed.
Print Assumptions C19_group_all.

(* a rejecting or failing program -- at any script position, also after inner transactions --
   leaves the transaction's cow exactly as it was; an approving one writes nothing below it.
   (C19_group_atomic above already covers groups containing such calls: [transaction_group]
   is the same function.) *)
Theorem C19_program_atomic : forall E app clear script acc c c' r,
  stateful_eval E app clear script acc c = (c', r) ->
  (r <> Ok true -> c' = c) /\ same_below c c'.
Proof. exact program_atomic. Qed.
Print Assumptions C19_program_atomic.

(* commitToParent does not change what lookups see *)
Theorem C19_commit_preserves_view : forall c a, okc c -> lookup (commit c) a = lookup c a.
Proof. exact lookup_commit. Qed.
Print Assumptions C19_commit_preserves_view.

(* ---- recovered panics and corruptedState ---- *)
(* without a panic point the panic-aware function is TransactionGroup *)
Theorem C19_no_panic : forall E ev g lf, transaction_group_p E ev g lf None = transaction_group E ev g lf.
Proof. exact tgp_none. Qed.
Print Assumptions C19_no_panic.

(* a panic before the commit point, in any transaction of the loop: clean rejection, the
   evaluator is exactly as before and still usable *)
Theorem C19_panic_before_commit_clean : forall E ev g lf i,
  ev_corrupt ev = false -> g <> [] -> (i < List.length g)%nat ->
  exists e, transaction_group_p E ev g lf (Some (PLoop i)) = (ev, Err e).
Proof. exact panic_before_commit_clean. Qed.
Print Assumptions C19_panic_before_commit_clean.

(* a panic from the commit point on (after the Payset append and any number k of
   commitToParent steps) marks the evaluator corrupted -- unless the group had failed earlier *)
Theorem C19_panic_marks_corrupted : forall E ev g lf k ev' r,
  transaction_group_p E ev g lf (Some (PCommit k)) = (ev', r) ->
  (exists e, r = Err e /\ ev' = ev) \/ r = Ok tt /\ g = [] /\ ev' = ev \/ (r = Err E_PANIC /\ ev_corrupt ev' = true).
Proof. exact panic_marks_corrupted. Qed.
Print Assumptions C19_panic_marks_corrupted.

(* a corrupted evaluator refuses every TransactionGroup and GenerateBlock call, unchanged *)
Theorem C19_corrupted_refuses : forall E ev,
  ev_corrupt ev = true ->
  (forall g lf pp, transaction_group_p E ev g lf pp = (ev, Err E_CORRUPT)) /\
  (forall g lf, transaction_group E ev g lf = (ev, Err E_CORRUPT)) /\
  (forall expired absent, generate_block E ev expired absent = Err E_CORRUPT).
Proof. exact corrupted_refuses. Qed.
Print Assumptions C19_corrupted_refuses.

(* every call, whatever panics: whole group, or untouched, or corrupted *)
Theorem C19_call_trichotomy : forall E ev g lf pp ev' r,
  transaction_group_p E ev g lf pp = (ev', r) ->
  (r = Ok tt /\ transaction_group E ev g lf = (ev', Ok tt)) \/
  (exists e, r = Err e /\ ev' = ev) \/
  (r = Err E_PANIC /\ ev_corrupt ev' = true).
Proof. exact tgp_trichotomy. Qed.
Print Assumptions C19_call_trichotomy.

(* no block with a half-applied group: after any sequence of calls with any panics, an
   evaluator GenerateBlock still accepts is in a state reached by whole accepted groups *)
Theorem C19_uncorrupted_means_whole_groups : forall E ev0 calls,
  ev_corrupt (run_calls E ev0 calls) = false -> whole E ev0 (run_calls E ev0 calls).
Proof. exact uncorrupted_means_whole_groups. Qed.
Print Assumptions C19_uncorrupted_means_whole_groups.

Theorem C19_generate_needs_uncorrupted : forall E ev expired absent ev',
  generate_block E ev expired absent = Ok ev' -> ev_corrupt ev = false.
Proof. exact generate_needs_uncorrupted. Qed.
Print Assumptions C19_generate_needs_uncorrupted.

(* the oracle on the implementation's observations *)
Theorem C19_spec_ok_sound : forall k, spec_ok_c19 k = true ->
  (forall pre g post, k_groups k = pre ++ g :: post ->
     let before := last (map g_snap pre) (k_start k) in
     (s_corrupt before = true -> g_code g = E_CORRUPT /\ g_snap g = before) /\
     (s_corrupt before = false -> g_code g <> 0 -> s_corrupt (g_snap g) = false -> g_snap g = before)) /\
  (s_corrupt (last_snap k) = true -> k_endcode k = E_CORRUPT).
Proof. exact spec_ok_c19_sound. Qed.
Print Assumptions C19_spec_ok_sound.

Theorem C19_group_step_ok_sound : forall sink before g, group_step_ok sink before g = true ->
  (s_corrupt before = true -> g_code g = E_CORRUPT /\ g_snap g = before) /\
  (s_corrupt before = false -> g_code g <> 0 -> s_corrupt (g_snap g) = false -> g_snap g = before) /\
  (s_corrupt before = false -> g_code g = 0 ->
     s_corrupt (g_snap g) = false /\
     s_payset (g_snap g) = s_payset before + N.of_nat (List.length (g_txns g)) /\
     s_txncount before + N.of_nat (List.length (g_txns g)) <= s_txncount (g_snap g) /\
     s_txids (g_snap g) = s_txids before ++ map (fun tx => (t_txid tx, t_lv tx)) (g_txns g) /\
     s_fees before + fees_of sink (g_txns g) <= s_fees (g_snap g)).
Proof. exact group_step_ok_sound. Qed.
Print Assumptions C19_group_step_ok_sound.

(* non-vacuity: the second member overspends after the first one has paid; rejected, state
   identical, and the child cow had been written to *)
Example C19_instance :
  transaction_group (ex_E true true) ex_ev0 ex_bad_group 0 = (ex_ev0, Err E_OVERSPEND) /\
  l_accts (c_top (fst (group_body (ex_E true true) ex_bad_group 0 (child (ev_cow ex_ev0))))) <> [].
Proof. exact group_atomic_instance. Qed.

(* non-vacuity: the same kind of group interrupted after MergeAccounts: Payset grew, accounts
   are merged, the txids are not -- and the evaluator is corrupted and refuses from then on *)
Example C19_corrupted_instance :
  let g := [mkTxn 3 1000 5 20 0 true true 3 0 31 1000000 0 (BPay 5 1000000 0)] in
  let r := transaction_group_p (ex_E true true) ex_ev0 g 0 (Some (PCommit 1)) in
  snd r = Err E_PANIC /\ ev_corrupt (fst r) = true /\ ev_payset (fst r) = [31] /\
  l_txids (c_top (ev_cow (fst r))) = [] /\ a_algos (lookup (ev_cow (fst r)) 5) = 1000000 /\
  transaction_group (ex_E true true) (fst r) g 0 = (fst r, Err E_CORRUPT).
Proof. vm_compute. repeat split. Qed.
