(* C19 Transaction groups apply atomically.
   Property theorems only.  Model: model/EvalCow.v (the copy-on-write overlay as an explicit
   stack: current cow, its parents, the ledger), model/EvalGroup.v (TransactionGroup: child
   cow, per-transaction loop, group checks, fee check, Payset append + commitToParent last,
   recycle on every exit).  The evaluator state [evalst] = (overlay, Payset, corrupted flag);
   the overlay holds all account writes, asset params / holdings / creatables, txids, leases,
   txnCount and feesCollected, so equality of [evalst] is equality of every observable.
   Transactions: payment, keyreg, asset config / transfer / freeze, application calls whose
   program is any finite script of ledger operations (boxes, global / local state, inner
   payment / asset transactions) ending in approve / reject / failure; the program runs in a
   calf (child of the transaction's cow) exactly as StatefulEval does.  Not modelled: blockTxBytes
   (ErrNoSpace), tracer hooks, a panic after the commit point (corruptedState is only ever
   read), Go-level aliasing of pooled cows (observable in the harness only). *)
From Coq Require Import NArith ZArith List Bool String.
Import ListNotations.
From Verif.lib Require Import Term.
From Verif.model Require Import Overflow EvalCow EvalApply EvalGroup EvalSpec EvalCheck.
From Verif.proofs Require Import EvalCowProofs EvalGroupProofs EvalConserveProofs EvalMinBalProofs EvalSpecProofs EvalTheorems.
Open Scope N_scope.

(* every write of a group -- also those made before a failing member -- lands in the child *)
Theorem C19_child_isolation : forall E g lf c,
  let c1 := fst (group_body E g lf (child c)) in
  c_parents c1 = c_top c :: c_parents c /\ c_base c1 = c_base c /\ recycle c1 = c.
Proof. exact child_isolation. Qed.
Print Assumptions C19_child_isolation.

(* ... and so does every write of Move *)
Theorem C19_move_writes_top_only : forall E from to amt fr tr c,
  same_below c (fst (move E from to amt fr tr c)).
Proof. exact move_same_below. Qed.
Print Assumptions C19_move_writes_top_only.

(* the property: whatever the error and wherever it occurs, a failing group leaves the
   evaluator exactly as it was *)
Theorem C19_group_atomic : forall E ev g lf ev' e,
  transaction_group E ev g lf = (ev', Err e) -> ev' = ev.
Proof. exact group_atomic. Qed.
Print Assumptions C19_group_atomic.

(* an accepted group takes effect entirely *)
Theorem C19_group_all : forall E ev g lf ev',
  g <> [] -> transaction_group E ev g lf = (ev', Ok tt) ->
  exists c1, group_body E g lf (child (ev_cow ev)) = (c1, Ok tt) /\
    ev_cow ev' = commit c1 /\
    (forall a, lookup (ev_cow ev') a = lookup c1 a) /\
    ev_payset ev' = ev_payset ev ++ map t_txid g /\
    l_txids (c_top (ev_cow ev')) = l_txids (c_top (ev_cow ev)) ++ map txrec g /\
    c_parents (ev_cow ev') = c_parents (ev_cow ev) /\ c_base (ev_cow ev') = c_base (ev_cow ev).
Proof. exact group_all. Qed.
Print Assumptions C19_group_all.

(* a rejecting or failing program -- at any script position, also after inner transactions --
   leaves the transaction's cow exactly as it was; an approving one writes nothing below it.
   (C19_group_atomic above already covers groups containing such calls: [transaction_group]
   is the same function.) *)
Theorem C19_program_atomic : forall E app clear script acc c c' r,
  stateful_eval E app clear script acc c = (c', r) ->
  (r <> Ok true -> c' = c) /\ same_below c c'.
Proof. exact program_atomic. Qed.
Print Assumptions C19_program_atomic.

(* commitToParent does not change what lookups see *)
Theorem C19_commit_preserves_view : forall c a, okc c -> lookup (commit c) a = lookup c a.
Proof. exact lookup_commit. Qed.
Print Assumptions C19_commit_preserves_view.

(* the oracle on the implementation's observations *)
Theorem C19_spec_ok_sound : forall k, spec_ok_c19 k = true ->
  forall pre g post, k_groups k = pre ++ g :: post ->
    g_code g <> 0 -> g_snap g = last (map g_snap pre) (k_start k).
Proof. exact spec_ok_c19_sound. Qed.
Print Assumptions C19_spec_ok_sound.

Theorem C19_group_step_ok_sound : forall sink before g, group_step_ok sink before g = true ->
  (g_code g <> 0 -> g_snap g = before) /\
  (g_code g = 0 ->
     s_payset (g_snap g) = s_payset before + N.of_nat (List.length (g_txns g)) /\
     s_txncount before + N.of_nat (List.length (g_txns g)) <= s_txncount (g_snap g) /\
     s_txids (g_snap g) = s_txids before ++ map (fun tx => (t_txid tx, t_lv tx)) (g_txns g) /\
     s_fees before + fees_of sink (g_txns g) <= s_fees (g_snap g)).
Proof. exact group_step_ok_sound. Qed.
Print Assumptions C19_group_step_ok_sound.

(* non-vacuity: the second member overspends after the first one has paid; rejected, state
   identical, and the child cow had been written to *)
Example C19_instance :
  transaction_group (ex_E true true) ex_ev0 ex_bad_group 0 = (ex_ev0, Err E_OVERSPEND) /\
  l_accts (c_top (fst (group_body (ex_E true true) ex_bad_group 0 (child (ev_cow ex_ev0))))) <> [].
Proof. exact group_atomic_instance. Qed.
