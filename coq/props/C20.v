(* C20 Proposed blocks validate and evaluation is deterministic.
   Property theorems only.  Model: model/GenVal.v -- ONE evaluator with the [validate] /
   [generate] flags of ledger/eval/eval.go (StartEvaluator, TransactionGroup, transaction,
   takeFee / Move / apply.Payment, endOfBlock, GenerateBlock over a pool, FinishBlock /
   WithProposer, Eval) for payments with close-to, fees and proposer payouts over rewards-free
   accounts; [eval_generate_cap P c0] = flags (true, true) with the node-local block size cap
   [c0] the transaction pool may pass to StartEvaluator (0 = none; [eval_generate] is the
   instance c0 = 0), [eval_generate_full] = the same, fed the way the pool feeds it: until the
   first group that does not fit (ErrNoSpace), then GenerateBlock; [eval_validate] = (true,
   false), [eval_block _ false] = (false, false).

   WHAT IS PROVED: the link between the two modes (for every ledger state, pool, participating
   set, proposer and eligibility), uniqueness of the generate-computed fields among accepted
   blocks, and agreement of the validating and non-validating re-evaluation.
   WHAT IS NOT PROVED HERE: the runtime half of the property -- independence of the real
   eval.Eval from prefetching, parallel signature checking, verified-transaction cache contents
   and Go map iteration order.  A Gallina function is deterministic by construction
   ([C20_eval_function] is immediate and claims nothing about the Go runtime); that half is
   SEARCHED, not proved, by the harness (harness/go/ledger/zz_verif_c20_test.go) and judged by
   [spec_ok] on the implementation's observations.  Not modelled: rewards, key registration /
   participation updates (expired, absent lists: C27), assets, applications, leases, rekeying,
   state-proof tracking, signature verification (C28), the header fields MakeBlock computes
   other than round and bonus. *)
From Coq Require Import NArith ZArith List Bool String.
Import ListNotations.
From Verif.lib Require Import Term.
From Verif.model Require Import GenVal GenValCheck.
From Verif.proofs Require Import GenValProofs GenValTheorems GenValSupply GenValNoValidate GenValPayset GenValCheckProofs.
Open Scope N_scope.

(* Any block assembled from ANY pool (failing groups dropped), finished for ANY proposer, is
   accepted by validation on the same state, and the validator's delta is the generator's plus
   the payout and the proposal record.  Premises: the protocol carries ApplyData in blocks,
   RewardUnit > 0, agreement names a proposer when payouts are on, the money supply fits 64 bits
   (every finite set of accounts sums to at most S < 2^64; C18). *)
Theorem C20_generate_validates : forall S P c0 L r b pool parts proposer elig ub,
  p_applydata P = true -> p_unit P <> 0 ->
  (p_payouts P = true -> proposer <> 0) ->
  bounded S (bal L []) -> S < W64 ->
  eval_generate_cap P c0 L r b pool parts = Ok ub ->
  let blk := finish_block P ub proposer elig in
  exists d, eval_validate P L blk = Ok d /\ finish_delta P L (b_hdr blk) (ub_delta ub) = Ok d.
Proof. exact generate_validates. Qed.
Print Assumptions C20_generate_validates.

(* the same link as an equation between results: no supply premise *)
Theorem C20_generate_validates_eq : forall P c0 L r b pool parts proposer elig ub,
  p_applydata P = true ->
  (p_payouts P = true -> proposer <> 0) ->
  eval_generate_cap P c0 L r b pool parts = Ok ub ->
  let blk := finish_block P ub proposer elig in
  eval_validate P L blk = finish_delta P L (b_hdr blk) (ub_delta ub).
Proof. exact generate_validates_eq. Qed.
Print Assumptions C20_generate_validates_eq.

(* without payouts the validator's delta IS the generator's *)
Theorem C20_generate_validates_same_delta : forall P c0 L r b pool parts proposer elig ub,
  p_applydata P = true -> p_payouts P = false ->
  eval_generate_cap P c0 L r b pool parts = Ok ub ->
  eval_validate P L (finish_block P ub proposer elig) = Ok (ub_delta ub).
Proof. exact generate_validates_same_delta. Qed.
Print Assumptions C20_generate_validates_same_delta.

(* the payout on top of the generator's delta cannot fail *)
Theorem C20_payout_never_fails : forall S P c0 L r b pool parts proposer elig ub,
  p_unit P <> 0 -> bounded S (bal L []) -> S < W64 ->
  eval_generate_cap P c0 L r b pool parts = Ok ub ->
  exists d, finish_delta P L (b_hdr (finish_block P ub proposer elig)) (ub_delta ub) = Ok d.
Proof. exact payout_never_fails. Qed.
Print Assumptions C20_payout_never_fails.

(* the supply premise is met by every ledger whose listed balances sum below 2^64 *)
Theorem C20_bounded_total : forall L, bounded (total (lv_accts L)) (bal L []).
Proof. exact bounded_total. Qed.
Print Assumptions C20_bounded_total.

(* A block over the same transactions that validate mode accepts carries exactly the
   generate-computed fields: every ApplyData, genesis hash, rewards state, transaction root,
   transaction counter, fees collected, load; the payout may only be lower. *)
Theorem C20_validate_unique : forall P c0 L r b pool parts ub blk' d',
  p_applydata P = true ->
  eval_generate_cap P c0 L r b pool parts = Ok ub ->
  Forall2 same_txns (ub_payset ub) (b_payset blk') ->
  eval_validate P L blk' = Ok d' ->
  b_payset blk' = ub_payset ub /\
  h_round (b_hdr blk') = r /\ h_bonus (b_hdr blk') = b /\
  h_genhash (b_hdr blk') = h_genhash (ub_hdr ub) /\ h_rs (b_hdr blk') = h_rs (ub_hdr ub) /\
  h_root (b_hdr blk') = h_root (ub_hdr ub) /\ h_counter (b_hdr blk') = h_counter (ub_hdr ub) /\
  h_fees (b_hdr blk') = h_fees (ub_hdr ub) /\ h_load (b_hdr blk') = h_load (ub_hdr ub) /\
  h_payout (b_hdr blk') <= h_payout (ub_hdr ub).
Proof. exact validate_unique. Qed.
Print Assumptions C20_validate_unique.

(* ... equivalently: a deviation in any of them is rejected *)
Theorem C20_validate_rejects_deviation : forall P c0 L r b pool parts ub blk',
  p_applydata P = true ->
  eval_generate_cap P c0 L r b pool parts = Ok ub ->
  Forall2 same_txns (ub_payset ub) (b_payset blk') ->
  (b_payset blk' <> ub_payset ub \/
   h_genhash (b_hdr blk') <> h_genhash (ub_hdr ub) \/ h_rs (b_hdr blk') <> h_rs (ub_hdr ub) \/
   h_root (b_hdr blk') <> h_root (ub_hdr ub) \/ h_counter (b_hdr blk') <> h_counter (ub_hdr ub) \/
   h_fees (b_hdr blk') <> h_fees (ub_hdr ub) \/ h_load (b_hdr blk') <> h_load (ub_hdr ub) \/
   h_payout (ub_hdr ub) < h_payout (b_hdr blk')) ->
  exists e, eval_validate P L blk' = Err e.
Proof. exact validate_rejects_deviation. Qed.
Print Assumptions C20_validate_rejects_deviation.

(* TxnCounter, FeesCollected and Load of a generated header are functions of the generated
   payset alone, for every pool / cap / interleaving of accepted, failing and not-fitting groups:
   the counters the evaluator accumulates (txn count, feesCollected, blockTxBytes) keep no trace
   of groups that were tried and dropped ... *)
Theorem C20_generated_fields_of_payset : forall P c0 L r b pool parts ub,
  eval_generate_cap P c0 L r b pool parts = Ok ub ->
  h_counter (ub_hdr ub) = (if p_txncounter P then (lv_counter L + payset_count (ub_payset ub)) mod W64 else 0) /\
  (p_payouts P = true -> h_fees (ub_hdr ub) = payset_fees L (ub_payset ub) mod W64) /\
  (p_loadtracking P = true -> compute_load (payset_bytes (ub_payset ub)) (p_maxbytes P) = Ok (h_load (ub_hdr ub))).
Proof. exact generated_fields_of_payset. Qed.
Print Assumptions C20_generated_fields_of_payset.

(* ... and validate mode accepts a block only if its header carries the same functions of its
   own payset *)
Theorem C20_validated_fields_of_payset : forall P L blk d,
  p_applydata P = true ->
  eval_validate P L blk = Ok d ->
  h_counter (b_hdr blk) = (if p_txncounter P then (lv_counter L + payset_count (b_payset blk)) mod W64 else 0) /\
  (p_payouts P = true -> h_fees (b_hdr blk) = payset_fees L (b_payset blk) mod W64) /\
  (p_loadtracking P = true -> compute_load (payset_bytes (b_payset blk)) (p_maxbytes P) = Ok (h_load (b_hdr blk))).
Proof. exact validated_fields_of_payset. Qed.
Print Assumptions C20_validated_fields_of_payset.

(* the pool's "fill until ErrNoSpace, then GenerateBlock" is generation from a prefix of the
   pool: every theorem above covers full blocks *)
Theorem C20_generate_full_is_generate : forall P c0 L r b pool parts ub,
  eval_generate_full P c0 L r b pool parts = Ok ub ->
  exists k, eval_generate_cap P c0 L r b (firstn k pool) parts = Ok ub.
Proof. exact generate_full_is_generate. Qed.
Print Assumptions C20_generate_full_is_generate.

(* Ledger.AddBlock's non-validating re-evaluation of an accepted block gives the same delta *)
Theorem C20_addblock_same_delta : forall P L blk d,
  eval_block P true L blk = Ok d -> eval_block P false L blk = Ok d.
Proof. exact addblock_same_delta. Qed.
Print Assumptions C20_addblock_same_delta.

(* immediate for a Gallina function; NOT the proof of the runtime half (see the header) *)
Theorem C20_eval_function : forall P v L blk d1 d2,
  eval_block P v L blk = Ok d1 -> eval_block P v L blk = Ok d2 -> d1 = d2.
Proof. exact eval_function. Qed.
Print Assumptions C20_eval_function.

(* the oracle evaluated on the implementation's observations *)
Theorem C20_spec_ok_sound : forall o, spec_ok o = true ->
  o_gen_ok o = true /\ o_val_ok o = true /\
  (forall e, In e (o_errs o) -> e = 0) /\
  (forall x y, In x (o_digests o) -> In y (o_digests o) -> x = y) /\
  (forall x y, In x (o_red o) -> In y (o_red o) -> x = y) /\
  (forall m, In m (o_muts o) -> fst m = true -> snd m = true) /\
  hdr_of_payset_ok (o_ps o) = true.
Proof. exact spec_ok_sound. Qed.
Print Assumptions C20_spec_ok_sound.

Theorem C20_hdr_of_payset_ok_sound : forall lt maxb bytes load tc prev ntx counter po feesum fees,
  hdr_of_payset_ok [lt; maxb; bytes; load; tc; prev; ntx; counter; po; feesum; fees] = true ->
  (lt <> 0 -> compute_load bytes maxb = Ok load) /\ (lt = 0 -> load = 0) /\
  counter = (if tc =? 0 then 0 else (prev + ntx) mod W64) /\
  fees = (if po =? 0 then 0 else feesum mod W64).
Proof. exact hdr_of_payset_ok_sound. Qed.
Print Assumptions C20_hdr_of_payset_ok_sound.

(* non-vacuity: a pool of six groups (overspend, committed duplicate and a below-minimum
   receiver are dropped; one member closes its account; a two-member group pools its fee) *)
Example C20_instance_generate :
  exists ub, ex_ub = Ok ub /\
    map (fun g => map (fun s : stib => (t_id (fst s), ad_closing (snd s))) (g_txns g)) (ub_payset ub)
      = [[(1, 0)]; [(3, 149000)]; [(5, 0); (6, 0)]] /\
    h_counter (ub_hdr ub) = 1004 /\ h_fees (ub_hdr ub) = 4000 /\ h_payout (ub_hdr ub) = 1404000 /\
    h_load (ub_hdr ub) = 152.
Proof. exact ex_generate. Qed.

Example C20_instance_supply : bounded 7050000 (bal ex_L []) /\ 7050000 < W64.
Proof. exact ex_supply. Qed.

Example C20_instance_validates :
  exists ub d, ex_ub = Ok ub /\ eval_validate ex_P ex_L (finish_block ex_P ub 2 true) = Ok d /\
    afind 2 (l_accts d) = Some (mkAcct (300000 + 5000 + 149000 - 10 - 2000 + 20 + 1404000) 8) /\
    afind 2 (l_accts (ub_delta ub)) = Some (mkAcct (300000 + 5000 + 149000 - 10 - 2000 + 20) 0).
Proof. exact ex_validates. Qed.

Example C20_instance_rejects :
  exists ub, ex_ub = Ok ub /\
    let blk := finish_block ex_P ub 2 true in
    eval_validate ex_P ex_L (ex_tamper_ad blk) = Err E_AD /\
    eval_validate ex_P ex_L (ex_tamper_hdr (fun h => set_end h (h_root h) (h_counter h + 1) (h_fees h) (h_payout h) (h_load h)) blk) = Err E_COUNT /\
    eval_validate ex_P ex_L (ex_tamper_hdr (fun h => set_payout h (h_payout h + 1)) blk) = Err E_PAYOUT /\
    eval_validate ex_P ex_L (ex_tamper_hdr (fun h => set_end h (h_root h) (h_counter h) (h_fees h - 1) (h_payout h) (h_load h)) blk) = Err E_FEES /\
    eval_validate ex_P ex_L (ex_tamper_hdr (fun h => set_end h (h_root h) (h_counter h) (h_fees h) (h_payout h) (h_load h + 1)) blk) = Err E_LOAD /\
    (exists d, eval_validate ex_P ex_L (ex_tamper_hdr (fun h => set_payout h (h_payout h - 1)) blk) = Ok d).
Proof. exact ex_rejects. Qed.

(* a full block: node-local cap 450 bytes, the last group does not fit (ErrNoSpace), the block
   is generated right away, carries the Load of its 400 bytes and validates *)
Example C20_instance_full :
  exists ub d, ex_ub_full = Ok ub /\
    map (fun g => map (fun s : stib => t_id (fst s)) (g_txns g)) (ub_payset ub) = [[1]; [3]] /\
    gen_codes (mkEnv ex_P true true 8 450) ex_L (mkEv (put layer0 14 (mkAcct 100000 0)) [] 0) ex_pool
      = [0; E_OVERSPEND; E_DUP; 0; E_MINBAL; E_NOSPACE] /\
    h_load (ub_hdr ub) = 76 /\ payset_bytes (ub_payset ub) = 400 /\
    eval_validate ex_P ex_L (finish_block ex_P ub 2 true) = Ok d.
Proof. exact ex_full. Qed.
