(* C43 Peers never deliver oversized or duplicate gossip to handlers.
   Property theorems only: each is closed by [exact <lemma>] and followed by Print Assumptions.

   Models: model/Slurper.v (LimitedReaderSlurper; the io.Reader is an arbitrary finite script of
   chunk sizes, zero-length reads, EOF with or after the last bytes, errors), model/MsgFilter.v
   (messageFilter), model/PeerRead.v (delivery decision of wsPeer.readLoop, several peers on one
   filter under an arbitrary schedule), gen/TagLimits.v (per-tag limits dumped from the running
   code on every run).  All statements quantify over ALL geometries, histories of earlier
   messages on the connection, limits, message contents/lengths, read scripts, call sequences
   and schedules.

   What is NOT proved in the literal wording of the property: "never buffers more than that
   limit".  The code reads a chunk into the free buffer space before it checks the limit, and a
   tag without a limit is read up to the connection maximum; [C43_literal_limit_refuted] and
   [C43_unlimited_tag_witness] record this (findings c43_buffer_slack,
   c43_unlimited_tag_buffered).  The strongest true bound is [C43_slurp_spec] (allocation at
   most one 64 KiB step above the limit, or the 2 KiB base buffer, and never above the
   connection maximum; bytes above the limit are held only while the message is rejected). *)
From Coq Require Import NArith ZArith List Bool String.
Import ListNotations.
From Verif.lib Require Import Term.
From Verif.model Require Import Slurper MsgFilter PeerRead C43Check.
From Verif.gen Require Import TagLimits.
From Verif.proofs Require Import SlurperProofs MsgFilterProofs PeerProofs C43SpecProofs C43NetSpecProofs.
Open Scope N_scope.

(* ---------------------------------------------------------------- slurper *)

(* However the stream is chunked: a successful Read returns exactly the message bytes (the
   concatenation of everything the reader delivered, in order, nothing missing, nothing else),
   of a length within the per-message limit and the connection maximum. *)
Theorem C43_slurp_exact : forall (A : Type) base maxA hist limit (data : list A) script s' r',
  maxA + allocationStep <= two64 ->
  slurp (conn_state (make_slurper base maxA) hist) limit (N.of_nat (List.length data)) script = (ROk, s', r') ->
  bytes_of data (segments s') = data /\ size s' = N.of_nat (List.length data) /\
  (0 < limit -> N.of_nat (List.length data) <= limit) /\ N.of_nat (List.length data) <= maxA.
Proof. exact @slurp_exact. Qed.
Print Assumptions C43_slurp_exact.

(* For every message on a connection with any history: the observation of the model satisfies
   the executable specification that [check] evaluates on the implementation ... *)
Theorem C43_slurp_spec : forall base maxA hist limit total script,
  maxA + allocationStep <= two64 ->
  let m := snd (model_slurp_msg (conn_state (make_slurper base maxA) hist) limit total script) in
  spec_slurp_msg base maxA limit total script (so_err m) (so_size m) (so_cok m) (so_rem m) (so_alloc m)
                 (so_held m) = true.
Proof. exact spec_slurp_conn. Qed.
Print Assumptions C43_slurp_spec.

(* ... and that specification means: allocation is bounded (never above the connection maximum;
   under a limit never above max(base, limit + 64 KiB)); bytes beyond the limit are held only
   when the message is rejected for it; Read never panics and always terminates (err <= 2);
   success means the whole message within the limits; ErrIncomingMsgTooLarge only for an
   over-long message; a reader error only if the reader failed; and without reader errors the
   outcome is exactly "too large iff over-long". *)
Theorem C43_spec_slurp_sound : forall base maxA limit total script err size cok remained alloc held,
  spec_slurp_msg base maxA limit total script err size cok remained alloc held = true ->
  held <= alloc /\ (0 < limit -> limit < held -> err = 1) /\ (err = 0 -> held = size) /\
  alloc + remained = maxA /\ N.min base maxA <= alloc /\
  alloc <= maxA /\ (0 < limit -> alloc <= N.max (N.min base maxA) (limit + allocationStep)) /\
  err <= 2 /\
  (err = 0 -> size = total /\ cok = true /\ (0 < limit -> total <= limit) /\ total <= maxA) /\
  (err = 1 -> (0 < limit /\ limit < total) \/ maxA < total) /\
  (err = 2 -> has_err_ev script) /\
  (~ has_err_ev script -> (err = 1 <-> ((0 < limit /\ limit < total) \/ maxA < total)) /\ err <= 1).
Proof. exact spec_slurp_sound. Qed.
Print Assumptions C43_spec_slurp_sound.

(* The literal wording is false of the faithful model (and of the code: the harness replays
   this witness): readLoop geometry, tag SP (limit 6378), a 70 000-byte frame -- 67 584 bytes
   are read into memory before ErrIncomingMsgTooLarge. *)
Theorem C43_literal_limit_refuted :
  exists base maxA limit total script,
    let '(o, s', r') := slurp (make_slurper base maxA) limit total script in
    0 < limit /\ limit < bytesRead s' /\ bytesRead s' <= allocated s' /\ o = RTooLarge.
Proof. exact literal_limit_refuted. Qed.
Print Assumptions C43_literal_limit_refuted.

(* A tag without a limit is slurped up to the connection maximum (and then dropped by readLoop,
   see C43_delivered_bounded: only tags with a positive limit are ever delivered). *)
Theorem C43_unlimited_tag_witness :
  tag_limit [122; 122] = 0 /\
  let '(o, s', r') := slurp (make_slurper 2048 6291456) (tag_limit [122; 122]) 6291456 [] in
  o = ROk /\ size s' = 6291456.
Proof. exact unknown_tag_witness. Qed.
Print Assumptions C43_unlimited_tag_witness.

(* ---------------------------------------------------------------- per-tag limits (generated table) *)

(* Re-checked by computation against the table dumped from the running code on every run:
   every protocol tag has a positive finite limit <= MaxMessageLength; no other two-byte tag
   has a limit; deprecated tags have none and are not delivered; the tags readLoop delivers or
   consumes are exactly protocol.TagList; dedupSafeTag is as transcribed and only covers
   delivered tags; the slurper geometry of readLoop is as modelled. *)
Theorem C43_tag_limits : limits_ok = true.
Proof. exact limits_ok_true. Qed.
Print Assumptions C43_tag_limits.

(* ---------------------------------------------------------------- message filter *)

(* No duplicate within the retention window: on a filter with n buckets of size mx, after any
   earlier calls, once d was inserted (it was absent) or promoted, every query of d answers
   "present" while fewer than (n-1)*mx add-calls -- of any digests, by any peers -- intervene. *)
Theorem C43_filter_dedup : forall (D : Type) (deqb : D -> D -> bool),
  (forall x y, reflect (x = y) (deqb x y)) ->
  forall n mx f0 pre d p ops,
  make_filter n mx = Some f0 -> (1 <= mx)%Z ->
  let f := fst (run_ops deqb f0 pre) in
  (find deqb f d = None \/ p = true) ->
  (Z.of_nat (count_adds ops) < (Z.of_nat n - 1) * mx)%Z ->
  present deqb (fst (run_ops deqb (fst (check_digest deqb f d true p)) ops)) d = true.
Proof. exact @filter_dedup. Qed.
Print Assumptions C43_filter_dedup.

(* No false positive: a digest that no call adds is never reported present. *)
Theorem C43_filter_no_false_positive : forall (D : Type) (deqb : D -> D -> bool),
  (forall x y, reflect (x = y) (deqb x y)) ->
  forall n mx f0 ops d,
  make_filter n mx = Some f0 ->
  (forall p, ~ In (Op d true p) ops) ->
  Forall2 (fun o h => op_digest o = d -> h = false) ops (snd (run_ops deqb f0 ops)).
Proof. exact @filter_no_false_positive. Qed.
Print Assumptions C43_filter_no_false_positive.

(* The executable filter specification evaluated by [check] holds of the model on every call
   sequence (it states both clauses above along the sequence, with promotion refreshing). *)
Theorem C43_filter_spec : forall n mx f0 ops,
  make_filter (D:=list N) n mx = Some f0 ->
  spec_filter (N.of_nat n) mx ops (snd (run_ops keqb f0 (map mk_op ops))) = true.
Proof. exact spec_filter_model. Qed.
Print Assumptions C43_filter_spec.

(* ---------------------------------------------------------------- what reaches the handlers *)

(* Any number k of peer connections, any filter, any schedule of frames with any read scripts:
   whatever is delivered is the whole payload of a delivered-class tag, whose limit is positive,
   within that limit and within MaxMessageLength. *)
Theorem C43_delivered_bounded : forall k flt sched,
  Forall2 (fun ifr res => forall len, res = PDelivered len ->
             len = ftotal (snd ifr) /\ in_tags (ftag (snd ifr)) deliver_tags = true /\
             0 < tag_limit (ftag (snd ifr)) /\ len <= tag_limit (ftag (snd ifr)) /\
             len <= maxMessageLength)
          sched (net_run (repeat new_peer k) flt sched).
Proof. exact net_bounded_fresh. Qed.
Print Assumptions C43_delivered_bounded.

(* Once a dedup-safe (AV, TX) non-empty message has been delivered, the same message -- same
   tag and payload, from any peer -- is not delivered again while fewer than (n-1)*mx frames
   were processed in between, whatever those frames and their chunkings are. *)
Theorem C43_no_duplicate_delivery : forall k n mx flt pre i1 fr1 mid i2 fr2 post,
  make_filter n mx = Some flt -> (1 <= mx)%Z ->
  dedup_safe (ftag fr1) = true -> 0 < ftotal fr1 ->
  ftag fr2 = ftag fr1 -> fid fr2 = fid fr1 -> ftotal fr2 = ftotal fr1 ->
  (Z.of_nat (List.length mid) < (Z.of_nat n - 1) * mx)%Z ->
  let res := net_run (repeat new_peer k) flt (pre ++ (i1, fr1) :: mid ++ (i2, fr2) :: post) in
  (exists len, nth_error res (List.length pre) = Some (PDelivered len)) ->
  forall len, nth_error res (List.length pre + 1 + List.length mid) <> Some (PDelivered len).
Proof. exact net_no_duplicate_fresh. Qed.
Print Assumptions C43_no_duplicate_delivery.

(* The executable net-level specification evaluated by [check] on what the real readLoops did
   holds of the model for every filter geometry, number of peers and schedule: besides the two
   statements above it says that a connection is torn down only for an over-long message or a
   reader error, and that a known tag's message is dropped only as a duplicate of something
   seen before (no false positive at this level). *)
Theorem C43_net_spec : forall n mx k flt0 sched,
  make_filter (D:=list N) n mx = Some flt0 ->
  spec_net (N.of_nat n) mx k (obs_steps sched (net_run (repeat new_peer k) flt0 sched)) = true.
Proof. exact spec_net_model. Qed.
Print Assumptions C43_net_spec.

(* ---------------------------------------------------------------- non-vacuity *)

(* a 5-byte message in chunks of 2 with an empty read in between, limit 5, tiny geometry that
   forces two allocations: accepted, exactly the bytes *)
Example C43_ex_slurp_ok :
  let '(o, s', _) := slurp (make_slurper 2 5) 5 5 [EvData 2 false; EvData 0 false; EvData 2 false; EvData 2 true] in
  o = ROk /\ bytes_of [10; 20; 30; 40; 50] (segments s') = [10; 20; 30; 40; 50] /\ allocated s' = 5.
Proof. vm_compute. repeat split; reflexivity. Qed.

(* one byte more than the limit: rejected *)
Example C43_ex_slurp_over :
  let '(o, _, _) := slurp (make_slurper 2 100) 5 6 [EvData 2 false; EvData 3 false; EvData 1 true] in
  o = RTooLarge.
Proof. vm_compute. reflexivity. Qed.

(* the filter hypotheses are satisfiable and the window is sharp: 3 buckets of size 2, window
   (3-1)*2 = 4: after 3 other insertions 7 is still present, after 4 it may be gone *)
Example C43_ex_filter_window :
  match make_filter (D:=N) 3 2 with
  | Some f0 =>
      let f := fst (check_digest N.eqb f0 7 true true) in
      present N.eqb (fst (run_ops N.eqb f [Op 1 true true; Op 2 true true; Op 3 true true])) 7 = true /\
      present N.eqb (fst (run_ops N.eqb (fst (check_digest N.eqb (fst (check_digest N.eqb f0 9 true true)) 7 true true))
                                  [Op 1 true true; Op 2 true true; Op 3 true true; Op 4 true true])) 7 = false
  | None => False
  end.
Proof. vm_compute. split; reflexivity. Qed.

(* two peers, the same transaction from both: delivered once *)
Example C43_ex_net_dup :
  match make_filter (D:=list N) 5 512 with
  | Some flt =>
      net_run (repeat new_peer 2) flt
              [(0%nat, mkFrame tTX 1 100 [EvData 40 false]); (1%nat, mkFrame tTX 1 100 []);
               (1%nat, mkFrame tTX 2 100 []); (0%nat, mkFrame tTX 1 5000001 [])] =
      [PDelivered 100; PDropped; PDelivered 100; PClosed RTooLarge]
  | None => False
  end.
Proof. vm_compute. reflexivity. Qed.
