(* C02 Honest nodes never equivocate, even across crashes.
   Generic persist-before-release wrapper (model/Durable.v) around ANY deterministic
   vote-emitting state machine [step]: for every interleaving of events, persist completions,
   persist failures and crashes, the votes released to the network are votes attested along
   the single run that is on disk; hence if single runs never attest two conflicting votes
   (attest-once, a property of the agreement state machine: layer 2 of C01), no crash schedule
   makes the node release two conflicting votes.  The unrepaired wrapper (before the fix
   commit recorded in KNOWN_FINDINGS.txt) is refuted by a two-crash schedule. *)
From Coq Require Import List Bool.
From Verif.model Require Import Durable.
From Verif.proofs Require Import DurableProofs.
Import ListNotations.

Theorem C02_released_after_persist :
  forall (S E V : Type) (init : S) (step : S -> E -> S * list V) (ops : list (dop E)) (v : V),
    In v (released E V (drun S E V init step true ops)) ->
    exists dp dvs, disk E V (drun S E V init step true ops) = Some (Snap E V dp dvs) /\
                   In v (run_votes S E V step init dp).
Proof. exact released_after_persist. Qed.
Print Assumptions C02_released_after_persist.

Theorem C02_crash_nonequiv :
  forall (S E V : Type) (init : S) (step : S -> E -> S * list V) (conflict : V -> V -> Prop),
    (forall evs v1 v2, In v1 (run_votes S E V step init evs) -> In v2 (run_votes S E V step init evs) ->
                       ~ conflict v1 v2) ->
    forall ops v1 v2,
      In v1 (released E V (drun S E V init step true ops)) ->
      In v2 (released E V (drun S E V init step true ops)) -> ~ conflict v1 v2.
Proof. exact crash_nonequiv. Qed.
Print Assumptions C02_crash_nonequiv.

(* the code before the fix: a machine that votes exactly once per run (attest-once holds)
   releases two different values after Ev, PersistOk, Crash, PersistOk, Crash, Ev, PersistOk *)
Theorem C02_unfixed_refuted :
  (forall evs v1 v2, In v1 (run_votes bool nat nat toy_step false evs) ->
                     In v2 (run_votes bool nat nat toy_step false evs) -> ~ (v1 <> v2)) /\
  In 5 (released nat nat (drun bool nat nat false toy_step false toy_ops)) /\
  In 6 (released nat nat (drun bool nat nat false toy_step false toy_ops)).
Proof. split; [exact toy_once|exact unfixed_refuted]. Qed.
Print Assumptions C02_unfixed_refuted.

(* anti-vacuity: the same schedule on the repaired wrapper re-releases only the same vote *)
Theorem C02_fixed_same_schedule :
  released nat nat (drun bool nat nat false toy_step true toy_ops) = [5; 5; 5].
Proof. exact fixed_toy_ok. Qed.
Print Assumptions C02_fixed_same_schedule.
