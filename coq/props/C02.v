(* C02 Honest nodes never equivocate, even across crashes.
   Generic persist-before-release wrapper (model/Durable.v) around ANY deterministic
   vote-emitting state machine [step]: for every interleaving of events, persist completions,
   persist failures and crashes, the votes released to the network are votes attested along
   the single run that is on disk; hence if single runs never attest two conflicting votes
   (attest-once, a property of the agreement state machine: layer 2 of C01), no crash schedule
   makes the node release two conflicting votes.  The unrepaired wrapper (before the fix
   commit recorded in KNOWN_FINDINGS.txt) is refuted by a two-crash schedule. *)
From Coq Require Import List Bool.
From Verif.model Require Import Durable.
From Verif.proofs Require Import DurableProofs.
Import ListNotations.

Theorem C02_released_after_persist :
  forall (S E V : Type) (init : S) (step : S -> E -> S * list V) (ops : list (dop E)) (v : V),
    In v (released E V (drun S E V init step true ops)) ->
    exists dp dvs, disk E V (drun S E V init step true ops) = Some (Snap E V dp dvs) /\
                   In v (run_votes S E V step init dp).
Proof. exact released_after_persist. Qed.
Print Assumptions C02_released_after_persist.

Theorem C02_crash_nonequiv :
  forall (S E V : Type) (init : S) (step : S -> E -> S * list V) (conflict : V -> V -> Prop),
    (forall evs v1 v2, In v1 (run_votes S E V step init evs) -> In v2 (run_votes S E V step init evs) ->
                       ~ conflict v1 v2) ->
    forall ops v1 v2,
      In v1 (released E V (drun S E V init step true ops)) ->
      In v2 (released E V (drun S E V init step true ops)) -> ~ conflict v1 v2.
Proof. exact crash_nonequiv. Qed.
Print Assumptions C02_crash_nonequiv.

(* the code before the fix: a machine that votes exactly once per run (attest-once holds)
   releases two different values after Ev, PersistOk, Crash, PersistOk, Crash, Ev, PersistOk *)
Theorem C02_unfixed_refuted :
  (forall evs v1 v2, In v1 (run_votes bool nat nat toy_step false evs) ->
                     In v2 (run_votes bool nat nat toy_step false evs) -> ~ (v1 <> v2)) /\
  In 5 (released nat nat (drun bool nat nat false toy_step false toy_ops)) /\
  In 6 (released nat nat (drun bool nat nat false toy_step false toy_ops)).
Proof. split; [exact toy_once|exact unfixed_refuted]. Qed.
Print Assumptions C02_unfixed_refuted.

(* anti-vacuity: the same schedule on the repaired wrapper re-releases only the same vote *)
Theorem C02_fixed_same_schedule :
  released nat nat (drun bool nat nat false toy_step true toy_ops) = [5; 5; 5].
Proof. exact fixed_toy_ok. Qed.
Print Assumptions C02_fixed_same_schedule.

(* ------------------------------------------------------------------------------------------
   The wrapper at the granularity at which the real code can be crashed (model/DurableFine.v:
   event / row written / checkpoint delivered + votes released / crash are separate operations; the
   restored state is [restore s], equivalent -- not necessarily equal -- to the encoded state).  It is
   this wrapper, instantiated with the full agreement model, that model/C02Check.v replays against
   the real Service.mainLoop + persistence loop + crash DB. *)
From Verif.model Require Import DurableFine.
From Verif.proofs Require Import DurableFineProofs.

Theorem C02_fine_released_after_persist :
  forall (S E V : Type) (init : S) (step : S -> E -> S * list V) (restore : S -> S) (eqv : S -> S -> Prop),
    (forall s, eqv s s) -> (forall a b c, eqv a b -> eqv b c -> eqv a c) ->
    (forall s s' e, eqv s s' -> snd (step s e) = snd (step s' e) /\ eqv (fst (step s e)) (fst (step s' e))) ->
    (forall s, eqv (restore s) s) ->
    forall (ops : list (fop E)) (v : V),
      In v (f_released S E V (frun S E V init step restore ops)) ->
      exists p s vs, f_disk S E V (frun S E V init step restore ops) = Some (p, s, vs) /\
                     eqv s (state_of S E V step init p) /\ In v (run_votes S E V step init p).
Proof. exact fine_released_after_persist. Qed.
Print Assumptions C02_fine_released_after_persist.

Theorem C02_fine_crash_nonequiv :
  forall (S E V : Type) (init : S) (step : S -> E -> S * list V) (restore : S -> S) (eqv : S -> S -> Prop),
    (forall s, eqv s s) -> (forall a b c, eqv a b -> eqv b c -> eqv a c) ->
    (forall s s' e, eqv s s' -> snd (step s e) = snd (step s' e) /\ eqv (fst (step s e)) (fst (step s' e))) ->
    (forall s, eqv (restore s) s) ->
    forall conflict : V -> V -> Prop,
      (forall evs v1 v2, In v1 (run_votes S E V step init evs) -> In v2 (run_votes S E V step init evs) ->
                         ~ conflict v1 v2) ->
      forall ops v1 v2,
        In v1 (f_released S E V (frun S E V init step restore ops)) ->
        In v2 (f_released S E V (frun S E V init step restore ops)) -> ~ conflict v1 v2.
Proof. exact fine_crash_nonequiv. Qed.
Print Assumptions C02_fine_crash_nonequiv.

(* anti-vacuity: the premises on [restore] / [eqv] are met by restore = identity, eqv = equality *)
Example C02_fine_premises_id : forall (S E V : Type) (step : S -> E -> S * list V),
  (forall s : S, s = s) /\ (forall a b c : S, a = b -> b = c -> a = c) /\
  (forall s s' e, s = s' -> snd (step s e) = snd (step s' e) /\ fst (step s e) = fst (step s' e)) /\
  (forall s : S, (fun x => x) s = s).
Proof. exact fine_premises_id. Qed.

(* SCOPE (DESIGN 4 C02): proposal-votes (step 0) come from assemble / repropose, which are not
   persistent actions (repropose passes an already closed persistStateDone): they are released
   without a persist, so a machine that votes once per run releases two values around a crash.
   Stated as a proved non-theorem; outside the property's quantifier (attest actions). *)
Theorem C02_propose_step_not_persisted :
  (forall evs v1 v2, In v1 (run_votes bool nat nat toy_step false evs) ->
                     In v2 (run_votes bool nat nat toy_step false evs) -> ~ (v1 <> v2)) /\
  In 5 (snd (np_run bool nat nat false toy_step [Some 5; None; Some 6])) /\
  In 6 (snd (np_run bool nat nat false toy_step [Some 5; None; Some 6])).
Proof. split; [exact toy_once|exact np_refuted]. Qed.
Print Assumptions C02_propose_step_not_persisted.

(* in the agreement model: only attest actions are persistent (actions.go: pseudonodeAction.persistent) *)
From Verif.model Require Import AgreementTypes.
Example C02_assemble_repropose_not_persistent : forall r p v,
  persistent [AAssemble r p; ARezero r] = false /\ persistent [ARepropose r p v] = false /\
  persistent [AAttest r p s_soft v] = true.
Proof. exact assemble_repropose_not_persistent. Qed.

(* ------------------------------------------------------------------------------------------
   Soundness of the executable oracle of model/C02Check.v: when [check] accepts a case, no two votes
   released by the real code in that case have equal (sender, round, period, step) and different
   values. *)
From Verif.model Require Import C02Check.
From Verif.proofs Require Import C02SpecProofs.

Theorem C02_spec_ok_sound : forall own ops,
  no_conflict_b (o_rel (spec_run own ops)) = true ->
  forall v1 v2, In v1 (released_obs ops) -> In v2 (released_obs ops) ->
    (cv_snd v1, cv_rnd v1, cv_per v1, cv_step v1) = (cv_snd v2, cv_rnd v2, cv_per v2, cv_step v2) ->
    cv_val v1 = cv_val v2.
Proof. exact spec_ok_no_equivocation. Qed.
Print Assumptions C02_spec_ok_sound.

(* ------------------------------------------------------------------------------------------
   ATTEST-ONCE along single runs of the executable agreement model (the premise of crash_nonequiv),
   for every parameter set with positive thresholds and EVERY event sequence.

   C02_attest_once (all step kinds).  Premises: [trace_ok3] = no uint64 wrap-around of the round /
   period / step counters, round interruptions move forward, verified payloads are of the player's
   round, deadline timeouts arrive at steps below 252 (so no next vote shares a key with late / redo /
   down: each timeout doubles the wait, 250 of them never happen), first round > 0; and
   value-consistency of the thresholds that the delivered votes can back ([cons_sc]: soft/cert
   thresholds of one (round, period) agree; [cons_next]: next-type thresholds of one (round, period)
   agree on their non-bottom value) -- the quorum-intersection facts, discharged in C01.
   Proof (proofs/AgreementAttestOnce.v, AgreementStaging.v):
     soft, next_k   the position (round, period, 2*step + [not napping]) never decreases and every such
                    attest crosses the boundary of its key (no consistency premise needed:
                    C02_attest_once_soft_next);
     cert, late     bind-to-threshold invariant of the router tree: a non-bottom
                    proposalTracker.Staging of (r,p) is the value of a soft/cert threshold of (r,p)
                    backed by delivered votes (written only by handle(soft/certThreshold); GC only
                    deletes or zeroes nodes); a cert attest carries the value of the threshold that
                    made the period committable or the staged value (non-bottom because the payload is
                    of round r > 0), a late attest the committable staged value;
     redo           voteTrackerPeriod.Cached of (r,p-1) non-bottom => value of a next-type threshold of
                    (r,p-1) backed by delivered votes;
     down           bottom by construction.
   C02_attest_once_redo_needs_consistency: without [cons_next] attest-once FAILS for redo (model, and
   directed case of the harness on the real code). *)
From Coq Require Import NArith.
From Verif.model Require Import AgreementPlayer.
From Verif.proofs Require Import AgreementVoteProofs AgreementC03Proofs AgreementAttestOnce AgreementStaging.
Open Scope N_scope.

Theorem C02_attest_once : forall pm r0 es,
  params_pos pm -> 0 < r0 -> trace_ok3 pm (init pm r0) es ->
  cons_sc pm (delivered es) -> cons_next pm (delivered es) ->
  forall r p s v v',
    In (AAttest r p s v) (all_acts pm (init pm r0) es) ->
    In (AAttest r p s v') (all_acts pm (init pm r0) es) -> v = v'.
Proof. exact attest_once_all_proof. Qed.
Print Assumptions C02_attest_once.

(* anti-vacuity: a run that meets every premise and attests soft, cert, late and next_3 *)
Example C02_attest_once_nonvacuous :
  params_pos pmx /\ 0 < 5 /\ trace_ok3 pmx (init pmx 5) script_all /\
  cons_sc pmx (delivered script_all) /\ cons_next pmx (delivered script_all) /\
  filter (fun a => match a with AAttest _ _ _ _ => true | _ => false end) (all_acts pmx (init pmx 5) script_all)
  = [AAttest 5 0 1 vx1; AAttest 5 0 2 vx1; AAttest 5 0 253 vx1; AAttest 5 0 3 vx1].
Proof. exact attest_once_all_nonvacuous. Qed.

(* the consistency premises are satisfiable: they hold whenever the delivered votes carry one value *)
Example C02_consistency_satisfiable : forall pm D v0,
  params_pos pm -> (forall x, In x D -> vt_val x = v0) -> cons_sc pm D /\ cons_next pm D.
Proof. exact cons_single_value. Qed.

(* soft and next_k need no consistency premise and only the weaker trace premises [trace_ok2] *)
Theorem C02_attest_once_soft_next : forall pm r0 es,
  params_pos pm -> trace_ok2 pm (init pm r0) es ->
  forall r p s v v', tracked s = true ->
    In (AAttest r p s v) (all_acts pm (init pm r0) es) ->
    In (AAttest r p s v') (all_acts pm (init pm r0) es) -> v = v'.
Proof. exact attest_once_soft_next_proof. Qed.
Print Assumptions C02_attest_once_soft_next.

(* stronger form: a soft / next_k key does not even occur twice in the action stream of a run *)
Theorem C02_attest_at_most_once_soft_next : forall pm r0 es,
  params_pos pm -> trace_ok2 pm (init pm r0) es ->
  forall l1 l2 l3 r p s v v', tracked s = true ->
    all_acts pm (init pm r0) es <> l1 ++ AAttest r p s v :: l2 ++ AAttest r p s v' :: l3.
Proof. exact attest_at_most_once_proof. Qed.
Print Assumptions C02_attest_at_most_once_soft_next.

(* the consistency premise is not decorative: a run that meets every premise of
   C02_attest_once_soft_next attests redo for two values; its delivered votes back two next-type
   thresholds of one period with different values *)
Theorem C02_attest_once_redo_needs_consistency :
  params_pos pmx /\ trace_ok2 pmx (init pmx 5) script_redo /\
  In (AAttest 5 1 s_redo vx1) (all_acts pmx (init pmx 5) script_redo) /\
  In (AAttest 5 1 s_redo vx2) (all_acts pmx (init pmx 5) script_redo) /\ vx1 <> vx2 /\
  ~ thresholds_consistent pmx (delivered script_redo).
Proof. exact redo_needs_consistency. Qed.
Print Assumptions C02_attest_once_redo_needs_consistency.

(* ... and it is exactly the premise [cons_next] of C02_attest_once that this run violates *)
Theorem C02_redo_counterexample_violates_cons_next : ~ cons_next pmx (delivered script_redo).
Proof. exact script_redo_not_cons_next. Qed.
Print Assumptions C02_redo_counterexample_violates_cons_next.

(* ------------------------------------------------------------------------------------------
   The two halves composed: the agreement model inside the fine-grained persist-before-release
   wrapper never releases two different values for one (sender, round, period, step), for EVERY
   interleaving of events, writes, failed writes, checkpoint deliveries and crashes.  The machine is
   guarded by the decidable trace premises and by ANY sound decidable consistency checker [cons_b]
   (an offending event or a model panic stops the machine); C02_consistency_checker_exists gives one.
   C02_model_nonequiv_soft_next: soft / next_k only, without any consistency guard. *)
From Verif.proofs Require Import C02Compose.

Theorem C02_model_nonequiv :
  forall pm own cons_b r0 (restore : g3state -> g3state) (eqv : g3state -> g3state -> Prop),
    params_pos pm -> 0 < r0 -> (forall D, cons_b D = true -> cons_sc pm D /\ cons_next pm D) ->
    (forall s, eqv s s) -> (forall a b c, eqv a b -> eqv b c -> eqv a c) ->
    (forall s s' e, eqv s s' -> snd (gstep3 pm own cons_b s e) = snd (gstep3 pm own cons_b s' e) /\
                                eqv (fst (gstep3 pm own cons_b s e)) (fst (gstep3 pm own cons_b s' e))) ->
    (forall s, eqv (restore s) s) ->
    forall ops v1 v2,
      In v1 (f_released g3state ext_event cvote (frun g3state ext_event cvote (Some (init pm r0, [])) (gstep3 pm own cons_b) restore ops)) ->
      In v2 (f_released g3state ext_event cvote (frun g3state ext_event cvote (Some (init pm r0, [])) (gstep3 pm own cons_b) restore ops)) ->
      ~ (cv_snd v1 = cv_snd v2 /\ cv_rnd v1 = cv_rnd v2 /\ cv_per v1 = cv_per v2 /\ cv_step v1 = cv_step v2 /\
         cv_val v1 <> cv_val v2).
Proof. exact model_nonequiv_all. Qed.
Print Assumptions C02_model_nonequiv.

Example C02_consistency_checker_exists : forall pm v0, params_pos pm ->
  forall D, single_value_b v0 D = true -> cons_sc pm D /\ cons_next pm D.
Proof. exact single_value_b_sound. Qed.

Theorem C02_model_nonequiv_soft_next :
  forall pm own r0 (restore : mstate -> mstate) (eqv : mstate -> mstate -> Prop),
    params_pos pm ->
    (forall s, eqv s s) -> (forall a b c, eqv a b -> eqv b c -> eqv a c) ->
    (forall s s' e, eqv s s' -> snd (gstep pm own s e) = snd (gstep pm own s' e) /\
                                eqv (fst (gstep pm own s e)) (fst (gstep pm own s' e))) ->
    (forall s, eqv (restore s) s) ->
    forall ops v1 v2,
      In v1 (f_released mstate ext_event cvote (frun mstate ext_event cvote (Some (init pm r0)) (gstep pm own) restore ops)) ->
      In v2 (f_released mstate ext_event cvote (frun mstate ext_event cvote (Some (init pm r0)) (gstep pm own) restore ops)) ->
      ~ (cv_snd v1 = cv_snd v2 /\ cv_rnd v1 = cv_rnd v2 /\ cv_per v1 = cv_per v2 /\ cv_step v1 = cv_step v2 /\
         tracked (cv_step v1) = true /\ cv_val v1 <> cv_val v2).
Proof. exact model_nonequiv_soft_next. Qed.
Print Assumptions C02_model_nonequiv_soft_next.
