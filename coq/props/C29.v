(* C29  Group and block commitments bind their contents.
   Property theorems only.  Hash functions are arbitrary functions [H kind bytes]; binding
   statements are reductions: either the contents are equal or an explicit collision
   [Collision h = exists x y, x <> y /\ h x = h y] of SHA-512/256 is exhibited.  The only
   premises on the hash are the digest length (32) and, for the Merkle commitment, that no
   digest is the all-zero string (the padding of pair.ToBeHashed's zero-initialised buffer and
   the "empty payset" root make the all-zero digest ambiguous: see block.go paysetCommit's
   own comment); both are satisfiable (Examples below). *)
From Coq Require Import String Ascii NArith ZArith List Bool.
Import ListNotations.
From Verif.lib Require Import Term.
From Verif.model Require Import Commitments TxnAuth TxnAuthSpec TxnAuthCheck CommitmentsCheck.
From Verif.proofs Require Import TxnAuthProofs CommitmentsProofs.
Open Scope N_scope.

(* --- groups ---------------------------------------------------------------------------- *)
(* BlockEvaluator.TransactionGroup accepts => the group is a lone transaction without group
   id, or every member carries the same non-zero id and that id is the hash of the "TG"
   encoding of all members' ids (each the hash of the member with its Group field blanked),
   in order *)
Theorem C29_group_id_binds : forall H v maxgroup st fees g st',
  eval_txgroup H v maxgroup st fees g = (EOk, st') -> group_bound_prop H (map e_gtx g).
Proof. exact eval_txgroup_group_bound. Qed.
Print Assumptions C29_group_id_binds.

(* the same for transactions.CheckTxnGroup (verify.TxnGroup, block payset screening) and
   BlockEvaluator.TestTransactionGroup (transaction pool) *)
Theorem C29_group_id_binds_check : forall H g, check_group_id H g = GOk -> group_bound_prop H g.
Proof. exact check_group_id_bound. Qed.
Print Assumptions C29_group_id_binds_check.

Theorem C29_group_id_binds_test : forall H maxgroup g,
  test_txgroup H maxgroup g = TOk -> group_bound_prop H (map fst g).
Proof. exact test_txgroup_group_bound. Qed.
Print Assumptions C29_group_id_binds_test.

(* two groups bound to one non-zero id have the same members (content with the Group field
   blanked), in the same order -- or SHA-512/256 collides *)
Theorem C29_group_id_injective : forall H, (forall x, length (H K512_256 x) = 32%nat) ->
  forall t0 g t0' g',
    group_bound_prop H (t0 :: g) -> group_bound_prop H (t0' :: g') ->
    blen (t0 :: g) < 2 ^ 32 -> blen (t0' :: g') < 2 ^ 32 ->
    g_grp t0 = g_grp t0' -> all_zero (g_grp t0) = false ->
    map g_body (t0 :: g) = map g_body (t0' :: g') \/ Collision (H K512_256).
Proof. exact group_id_binds. Qed.
Print Assumptions C29_group_id_injective.

(* dropping, adding, reordering or altering a member: whatever the evaluator accepts under
   the group id of an accepted group consists of exactly that group's members *)
Theorem C29_group_mutation_rejected : forall H, (forall x, length (H K512_256 x) = 32%nat) ->
  forall v maxgroup st1 fees1 g1 st1' st2 fees2 g2 st2' t1 t2,
    maxgroup < 2 ^ 32 ->
    eval_txgroup H v maxgroup st1 fees1 g1 = (EOk, st1') ->
    eval_txgroup H v maxgroup st2 fees2 g2 = (EOk, st2') ->
    hd_error g1 = Some t1 -> hd_error g2 = Some t2 ->
    g_grp (e_gtx t1) = g_grp (e_gtx t2) -> all_zero (g_grp (e_gtx t1)) = false ->
    map g_body (map e_gtx g1) = map g_body (map e_gtx g2) \/ Collision (H K512_256).
Proof. exact eval_group_mutation_rejected. Qed.
Print Assumptions C29_group_mutation_rejected.

(* --- payset commitment ------------------------------------------------------------------ *)
(* Block.PaysetCommit (flat or Merkle native commitment, any setting of the SHA-256 / SHA-512
   gates): equal native commitments => byte-identical encoded paysets, or a collision.  WF is
   any prefix-free set containing the SignedTxnInBlock encodings (msgpack values are
   self-delimiting; needed for the flat commitment only). *)
Theorem C29_payset_commit_binds : forall H,
  (forall x, length (H K512_256 x) = 32%nat) -> (forall x, H K512_256 x <> zeros 32) ->
  forall WF : bytes -> Prop, (forall a b x y, WF a -> WF b -> a ++ x = b ++ y -> a = b) ->
  forall p ps1 ps2 c1 c2,
    blen ps1 < 2 ^ 32 -> blen ps2 < 2 ^ 32 ->
    Forall (fun s => WF (s_enc s)) ps1 -> Forall (fun s => WF (s_enc s)) ps2 ->
    payset_commit H p ps1 = Some c1 -> payset_commit H p ps2 = Some c2 ->
    cm_native c1 = cm_native c2 ->
    map s_enc ps1 = map s_enc ps2 \/ Collision (H K512_256).
Proof. exact payset_commit_binds. Qed.
Print Assumptions C29_payset_commit_binds.

(* Block.ContentsMatchHeader *)
Theorem C29_contents_match_binds : forall H,
  (forall x, length (H K512_256 x) = 32%nat) -> (forall x, H K512_256 x <> zeros 32) ->
  forall WF : bytes -> Prop, (forall a b x y, WF a -> WF b -> a ++ x = b ++ y -> a = b) ->
  forall p ps1 ps2 hdr,
    blen ps1 < 2 ^ 32 -> blen ps2 < 2 ^ 32 ->
    Forall (fun s => WF (s_enc s)) ps1 -> Forall (fun s => WF (s_enc s)) ps2 ->
    contents_match H p ps1 hdr = true -> contents_match H p ps2 hdr = true ->
    map s_enc ps1 = map s_enc ps2 \/ Collision (H K512_256).
Proof. exact contents_match_binds. Qed.
Print Assumptions C29_contents_match_binds.

Theorem C29_contents_match_iff : forall H p ps hdr,
  contents_match H p ps hdr = true <->
  exists c, payset_commit H p ps = Some c /\ cm_native c = cm_native hdr /\
            cm_sha256 c = cm_sha256 hdr /\ cm_sha512 c = cm_sha512 hdr.
Proof. exact contents_match_iff. Qed.
Print Assumptions C29_contents_match_iff.

(* --- header linkage ---------------------------------------------------------------------- *)
(* PreCheck accepts => successor round (uint64 arithmetic), Branch = SHA-512/256 of the previous
   header, Branch512 = its SHA-512 when enabled and zero when not *)
Theorem C29_precheck_links : forall H i,
  precheck H i = POk -> links_prop H i /\ pc_proto_ok i = true /\ pc_rest_ok i = true.
Proof. exact precheck_links. Qed.
Print Assumptions C29_precheck_links.

Theorem C29_precheck_prev_unique : forall H i j,
  precheck H i = POk -> precheck H j = POk -> pc_branch i = pc_branch j ->
  pc_prev_enc i = pc_prev_enc j \/ Collision (H K512_256).
Proof. exact precheck_prev_unique. Qed.
Print Assumptions C29_precheck_prev_unique.

(* --- the executable oracles are the statements ------------------------------------------- *)
Theorem C29_spec_group_sound : forall H g, group_bound H g = true <-> group_bound_prop H g.
Proof. exact group_bound_iff. Qed.
Print Assumptions C29_spec_group_sound.

Theorem C29_spec_links_sound : forall H i, links H i = true <-> links_prop H i.
Proof. exact links_iff. Qed.
Print Assumptions C29_spec_links_sound.

(* ---- non-vacuity ---- *)
(* a toy hash that meets the premises: 32 bytes, never all-zero *)
Definition ex_H (k : N) (x : bytes) : bytes := 1 :: firstn 31 (x ++ zeros 31).
Example ex_H_len : forall x, length (ex_H K512_256 x) = 32%nat.
Proof.
  intro x. unfold ex_H. cbn [length]. rewrite firstn_length, app_length. unfold zeros. rewrite repeat_length.
  rewrite Nat.min_l; [reflexivity|]. apply Nat.le_add_l.
Qed.
Example ex_H_nz : forall x, ex_H K512_256 x <> zeros 32.
Proof. intro x. unfold ex_H. discriminate. Qed.
(* fixed-width encodings are prefix-free *)
Example ex_WF : forall a b x y : bytes, length a = 4%nat -> length b = 4%nat -> a ++ x = b ++ y -> a = b.
Proof. intros a b x y La Lb E. apply (app_eq_len a b x y); congruence. Qed.

(* an accepted two-member group, and the same group with its members swapped: rejected *)
Definition ex_bodies : list bytes := [[10; 1]; [10; 2]].
Definition ex_gid : bytes := group_hash ex_H (map (txid_of ex_H K512_256) ex_bodies).
Definition ex_member (b : bytes) : etx := mkEtx [7] (repeat 0 32) (repeat 0 32) (mkGtx ex_gid b) true true.
Example ex_group_accept :
  fst (eval_txgroup ex_H true 16 [] true (map ex_member ex_bodies)) = EOk.
Proof. vm_compute. reflexivity. Qed.
Example ex_group_swapped_rejected :
  fst (eval_txgroup ex_H true 16 [] true (map ex_member (rev ex_bodies))) = EErrGroup GErrIncomplete.
Proof. vm_compute. reflexivity. Qed.
Example ex_group_dropped_rejected :
  fst (eval_txgroup ex_H true 16 [] true (map ex_member (tl ex_bodies))) = EErrGroup GErrIncomplete.
Proof. vm_compute. reflexivity. Qed.

(* a two-transaction payset under the Merkle commitment and its own header *)
Definition ex_ps : list stib := [mkStib [1; 1; 1; 1] (Some [5]); mkStib [2; 2; 2; 2] (Some [6])].
Definition ex_cp : cparams := mkCParams true 2 true true.
Example ex_commit_matches :
  match payset_commit ex_H ex_cp ex_ps with
  | Some c => contents_match ex_H ex_cp ex_ps c = true /\ contents_match ex_H ex_cp (rev ex_ps) c = false
  | None => False
  end.
Proof. vm_compute. split; reflexivity. Qed.

(* a header that links to its predecessor *)
Example ex_precheck :
  precheck ex_H (mkPc true true 41 42 (header_hash ex_H K512_256 [3; 3]) (header_hash ex_H K512 [3; 3]) [3; 3] true) = POk /\
  precheck ex_H (mkPc true true 41 42 (header_hash ex_H K512_256 [3; 3]) (header_hash ex_H K512 [3; 3]) [3; 4] true) = PErrBranch.
Proof. vm_compute. split; reflexivity. Qed.
