(* C15 A catchpoint label commits to a unique ledger state.
   Property theorems only: each is closed by [exact <lemma>] and followed by Print Assumptions.

   Objects (model/CatchpointHash.v, byte-exact transcriptions over an ABSTRACT hash H):
     account_leaf / resource_leaf / kv_leaf   = trackerdb.{Account,Resources,Kv}HashBuilderV6
     label_digest, make_label                 = ledgercore.MakeLabel over the V6/V7/current makers
     enc_totals                               = protocol.EncodeReflect(ledgercore.AccountTotals)
     state_label root es ...                  = label of the state whose trie holds the leaves of [es]
   "Except through a hash collision" is an explicit disjunct ([leaf_collision] / [hash_collision]
   / [entries_collide] / the abstract [trie_collision] of the Merkle trie) that NAMES the colliding
   pre-images; no injectivity of H is assumed (it would be unsatisfiable and make the theorems
   vacuous).  Theorems hold for every H, every address / index / data / key / value / state size.

   Result: account and resource leaves are injective, the kinds are domain-separated and the
   label is injective in (block hash, trie root, totals, extra digests) -- but the KV leaf is NOT
   injective ([C15_kv_leaf_inj_refuted], [C15_label_inj_refuted]: hold for EVERY hash function),
   so the strongest true label-level statement is [C15_label_inj_except_kv]. *)
From Coq Require Import List NArith ZArith Bool.
Import ListNotations.
From Verif.lib Require Import Term.
From Verif.model Require Import CatchpointHash CatchpointHashSpec CatchpointHashCheck CatchpointMemo MerkleTrieSha.
From Verif.proofs Require Import CatchpointHashProofs CatchpointHashEncProofs CatchpointHashCheckProofs CatchpointMemoProofs.
Open Scope N_scope.

(* ---- leaves: accounts ---- *)
Theorem C15_account_leaf_inj : forall H a1 u1 r1 e1 a2 u2 r2 e2,
  length a1 = 32%nat -> length a2 = 32%nat ->
  account_leaf H a1 u1 r1 e1 = account_leaf H a2 u2 r2 e2 ->
  (a1 = a2 /\ e1 = e2) \/ leaf_collision H (account_prehash a1 e1) (account_prehash a2 e2).
Proof. exact account_leaf_inj. Qed.
Print Assumptions C15_account_leaf_inj.

(* ... in (address, data), given an injective encoding of the data (C40) *)
Theorem C15_account_leaf_inj_data :
  forall H (AD : Type) (ad_upd ad_rb : AD -> N) (ad_enc : AD -> bytes),
  (forall d1 d2, ad_enc d1 = ad_enc d2 -> d1 = d2) ->
  forall a1 d1 a2 d2, length a1 = 32%nat -> length a2 = 32%nat ->
  account_leaf H a1 (ad_upd d1) (ad_rb d1) (ad_enc d1) = account_leaf H a2 (ad_upd d2) (ad_rb d2) (ad_enc d2) ->
  (a1 = a2 /\ d1 = d2) \/ leaf_collision H (account_prehash a1 (ad_enc d1)) (account_prehash a2 (ad_enc d2)).
Proof. exact account_leaf_inj_data. Qed.
Print Assumptions C15_account_leaf_inj_data.

(* ---- leaves: resources, in (address, creatable index, kind, data) ---- *)
Theorem C15_resource_leaf_inj : forall H ia1 ip1 a1 c1 u1 e1 ia2 ip2 a2 c2 u2 e2 l,
  length a1 = 32%nat -> length a2 = 32%nat -> c1 < 2 ^ 64 -> c2 < 2 ^ 64 ->
  resource_leaf H ia1 ip1 a1 c1 u1 e1 = Some l ->
  resource_leaf H ia2 ip2 a2 c2 u2 e2 = Some l ->
  resource_kind ia1 ip1 = resource_kind ia2 ip2 /\
  ((a1 = a2 /\ c1 = c2 /\ e1 = e2) \/
   leaf_collision H (resource_prehash a1 c1 e1) (resource_prehash a2 c2 e2)).
Proof. exact resource_leaf_inj. Qed.
Print Assumptions C15_resource_leaf_inj.

Theorem C15_resource_leaf_inj_data :
  forall H (RD : Type) (rd_asset rd_app : RD -> bool) (rd_upd : RD -> N) (rd_enc : RD -> bytes),
  (forall d1 d2, rd_enc d1 = rd_enc d2 -> d1 = d2) ->
  forall a1 c1 d1 a2 c2 d2 l,
  length a1 = 32%nat -> length a2 = 32%nat -> c1 < 2 ^ 64 -> c2 < 2 ^ 64 ->
  resource_leaf H (rd_asset d1) (rd_app d1) a1 c1 (rd_upd d1) (rd_enc d1) = Some l ->
  resource_leaf H (rd_asset d2) (rd_app d2) a2 c2 (rd_upd d2) (rd_enc d2) = Some l ->
  (a1 = a2 /\ c1 = c2 /\ d1 = d2) \/
  leaf_collision H (resource_prehash a1 c1 (rd_enc d1)) (resource_prehash a2 c2 (rd_enc d2)).
Proof. exact resource_leaf_inj_data. Qed.
Print Assumptions C15_resource_leaf_inj_data.

(* ---- domain separation of the kinds: no assumption on the hash function at all ---- *)
Theorem C15_leaf_shape : forall H e l, leaf_of H e = Some l ->
  length l = 36%nat /\ nth 4 l 255 = kind_of e /\ kind_of e < 4.
Proof. exact leaf_shape_all. Qed.
Print Assumptions C15_leaf_shape.

Theorem C15_leaf_kinds_separated : forall H e1 e2 l1 l2,
  leaf_of H e1 = Some l1 -> leaf_of H e2 = Some l2 -> kind_of e1 <> kind_of e2 -> l1 <> l2.
Proof. exact leaf_kinds_separated. Qed.
Print Assumptions C15_leaf_kinds_separated.

(* ---- all classes at once: equal leaves => same entry, or the KV ambiguity, or a collision ---- *)
Theorem C15_leaf_of_inj : forall H e1 e2 l,
  wf_entry e1 -> wf_entry e2 -> leaf_of H e1 = Some l -> leaf_of H e2 = Some l ->
  same_ident e1 e2 \/ kv_ambiguous e1 e2 \/ leaf_collision H (prehash_of e1) (prehash_of e2).
Proof. exact leaf_of_inj. Qed.
Print Assumptions C15_leaf_of_inj.

(* ---- KV leaves: the property is FALSE (recorded finding kv_leaf_key_value_boundary) ---- *)
(* boxes "ab" -> "c" and "a" -> "bc" of application 7: different entries, equal box accounting,
   identical leaves under EVERY hash function *)
Theorem C15_kv_leaf_inj_refuted :
  exists k1 v1 k2 v2,
    k1 = make_box_key 7 [97; 98] /\ v1 = [99] /\ k2 = make_box_key 7 [97] /\ v2 = [98; 99] /\
    (k1, v1) <> (k2, v2) /\
    box_bytes [97; 98] v1 = box_bytes [97] v2 /\
    forall H, kv_leaf H k1 v1 = kv_leaf H k2 v2.
Proof. exact kv_leaf_inj_refuted. Qed.
Print Assumptions C15_kv_leaf_inj_refuted.

(* the exact collision class: every pair with equal key‖value collides ... *)
Theorem C15_kv_leaf_concat : forall H k1 v1 k2 v2,
  k1 ++ v1 = k2 ++ v2 -> kv_leaf H k1 v1 = kv_leaf H k2 v2.
Proof. exact kv_leaf_concat. Qed.
Print Assumptions C15_kv_leaf_concat.

(* ... and nothing else does, short of a hash collision *)
Theorem C15_kv_leaf_eq : forall H k1 v1 k2 v2,
  kv_leaf H k1 v1 = kv_leaf H k2 v2 ->
  k1 ++ v1 = k2 ++ v2 \/ leaf_collision H (kv_prehash k1 v1) (kv_prehash k2 v2).
Proof. exact kv_leaf_eq. Qed.
Print Assumptions C15_kv_leaf_eq.

(* strongest true statement for KV leaves: injective among keys of one length *)
Theorem C15_kv_leaf_inj_fixed_len : forall H k1 v1 k2 v2,
  length k1 = length k2 ->
  kv_leaf H k1 v1 = kv_leaf H k2 v2 ->
  (k1 = k2 /\ v1 = v2) \/ leaf_collision H (kv_prehash k1 v1) (kv_prehash k2 v2).
Proof. exact kv_leaf_inj_fixed_len. Qed.
Print Assumptions C15_kv_leaf_inj_fixed_len.

(* ---- label ---- *)
(* one label format (same number of extra digests), totals as encoded bytes *)
Theorem C15_label_inj : forall H bh1 r1 t1 x1 bh2 r2 t2 x2,
  length bh1 = 32%nat -> length bh2 = 32%nat -> length r1 = 32%nat -> length r2 = 32%nat ->
  length x1 = length x2 ->
  Forall (fun d => length d = 32%nat) x1 -> Forall (fun d => length d = 32%nat) x2 ->
  label_digest H bh1 r1 t1 x1 = label_digest H bh2 r2 t2 x2 ->
  (bh1 = bh2 /\ r1 = r2 /\ t1 = t2 /\ x1 = x2) \/
  hash_collision H (label_buffer bh1 r1 t1 x1) (label_buffer bh2 r2 t2 x2).
Proof. exact label_digest_inj. Qed.
Print Assumptions C15_label_inj.

(* the msgpack encoding of AccountTotals is injective (self-delimiting) *)
Theorem C15_enc_totals_inj : forall t1 t2 r1 r2,
  wf_totals t1 -> wf_totals t2 -> enc_totals t1 ++ r1 = enc_totals t2 ++ r2 -> t1 = t2 /\ r1 = r2.
Proof. exact enc_totals_prefix_inj. Qed.
Print Assumptions C15_enc_totals_inj.

(* in the totals themselves, across label formats *)
Theorem C15_label_inj_totals : forall H bh1 r1 t1 x1 bh2 r2 t2 x2,
  length bh1 = 32%nat -> length bh2 = 32%nat -> length r1 = 32%nat -> length r2 = 32%nat ->
  wf_totals t1 -> wf_totals t2 ->
  Forall (fun d => length d = 32%nat) x1 -> Forall (fun d => length d = 32%nat) x2 ->
  label_digest H bh1 r1 (enc_totals t1) x1 = label_digest H bh2 r2 (enc_totals t2) x2 ->
  (bh1 = bh2 /\ r1 = r2 /\ t1 = t2 /\ x1 = x2) \/
  hash_collision H (label_buffer bh1 r1 (enc_totals t1) x1) (label_buffer bh2 r2 (enc_totals t2) x2).
Proof. exact label_inj_totals. Qed.
Print Assumptions C15_label_inj_totals.

(* ---- states: the strongest true label-level statement ---- *)
(* [root] = merkletrie root as a function of the leaves added, [trie_collision] = "a collision
   inside the trie's own hashing"; [root_binding] is what C17 + Merkle hashing provide *)
Theorem C15_label_inj_except_kv :
  forall H (root : list bytes -> bytes) (trie_collision : list bytes -> list bytes -> Prop),
  (forall l, length (root l) = 32%nat) ->
  (forall l1 l2, root l1 = root l2 -> (forall x, In x l1 <-> In x l2) \/ trie_collision l1 l2) ->
  forall es1 es2 bh1 bh2 t1 t2 x1 x2,
  wf_state H es1 -> wf_state H es2 ->
  length bh1 = 32%nat -> length bh2 = 32%nat -> length x1 = length x2 ->
  Forall (fun d => length d = 32%nat) x1 -> Forall (fun d => length d = 32%nat) x2 ->
  state_label H root es1 bh1 t1 x1 = state_label H root es2 bh2 t2 x2 ->
  (bh1 = bh2 /\ t1 = t2 /\ x1 = x2 /\ state_equiv es1 es2)
  \/ hash_collision H (label_buffer bh1 (root (leaves_of H es1)) t1 x1)
                      (label_buffer bh2 (root (leaves_of H es2)) t2 x2)
  \/ trie_collision (leaves_of H es1) (leaves_of H es2)
  \/ entries_collide H es1 es2.
Proof. exact label_inj_except_kv. Qed.
Print Assumptions C15_label_inj_except_kv.

(* with KV keys of one length (e.g. boxes with fixed-length names) the states are the same *)
Theorem C15_label_inj_fixed_keylen :
  forall H (root : list bytes -> bytes) (trie_collision : list bytes -> list bytes -> Prop),
  (forall l, length (root l) = 32%nat) ->
  (forall l1 l2, root l1 = root l2 -> (forall x, In x l1 <-> In x l2) \/ trie_collision l1 l2) ->
  forall n es1 es2 bh1 bh2 t1 t2 x1 x2,
  wf_state H es1 -> wf_state H es2 ->
  kv_keys_fixed_len n es1 -> kv_keys_fixed_len n es2 ->
  length bh1 = 32%nat -> length bh2 = 32%nat -> length x1 = length x2 ->
  Forall (fun d => length d = 32%nat) x1 -> Forall (fun d => length d = 32%nat) x2 ->
  state_label H root es1 bh1 t1 x1 = state_label H root es2 bh2 t2 x2 ->
  (bh1 = bh2 /\ t1 = t2 /\ x1 = x2 /\ state_same es1 es2)
  \/ hash_collision H (label_buffer bh1 (root (leaves_of H es1)) t1 x1)
                      (label_buffer bh2 (root (leaves_of H es2)) t2 x2)
  \/ trie_collision (leaves_of H es1) (leaves_of H es2)
  \/ entries_collide H es1 es2.
Proof. exact label_inj_fixed_keylen. Qed.
Print Assumptions C15_label_inj_fixed_keylen.

(* the property as stated is FALSE at label level: two different well-formed states (the same
   application account -- TotalBoxes 1, TotalBoxBytes 3 in both -- plus box "ab"->"c" resp.
   "a"->"bc") have the same label for EVERY hash function, trie-root function, block hash,
   totals and extra digests *)
Theorem C15_label_inj_refuted :
  forall a u r enc, length a = 32%nat ->
    let acct := EAcct a u r enc in
    (forall H, wf_state H (w_state1 acct) /\ wf_state H (w_state2 acct)) /\
    ~ state_same (w_state1 acct) (w_state2 acct) /\
    state_equiv (w_state1 acct) (w_state2 acct) /\
    forall H root bh t x,
      state_label H root (w_state1 acct) bh t x = state_label H root (w_state2 acct) bh t x.
Proof. exact label_inj_refuted. Qed.
Print Assumptions C15_label_inj_refuted.

(* ---- the executable checker ---- *)
(* its identities are the Prop-level ones ... *)
Theorem C15_ident_eqb_iff : forall e1 e2, ident_eqb e1 e2 = true <-> same_ident e1 e2.
Proof. exact ident_eqb_iff. Qed.
Print Assumptions C15_ident_eqb_iff.

Theorem C15_kv_boundary_iff : forall e1 e2, kv_boundary e1 e2 = true <-> kv_ambiguous e1 e2.
Proof. exact kv_boundary_iff. Qed.
Print Assumptions C15_kv_boundary_iff.

Theorem C15_parse_entry_wf : forall t e, parse_entry t = Some e -> wf_entry e.
Proof. exact parse_entry_wf. Qed.
Print Assumptions C15_parse_entry_wf.

(* ... and a "violation" verdict on a leaf pair on which the implementation's leaves ARE the
   model's leaves exhibits a collision of the hash function the checker runs with (SHA-512/256):
   short of that, verdict 3 means the real builders deviate from the proved pre-images *)
Theorem C15_check_viol_sound : forall H e1 e2 o1 o2 same d,
  wf_entry e1 -> wf_entry e2 ->
  obs_eqb (leaf_of H e1) o1 = true -> obs_eqb (leaf_of H e2) o2 = true ->
  (if same =? 1 then ident_eqb e1 e2 else if same =? 0 then negb (ident_eqb e1 e2) else true) = true ->
  check_leafpair H e1 e2 o1 o2 same = v_viol d ->
  leaf_collision H (prehash_of e1) (prehash_of e2).
Proof. exact check_leafpair_viol_sound. Qed.
Print Assumptions C15_check_viol_sound.

(* ---- the label is a function of the state, not of the catchpoint-tracking history ----
   model/CatchpointMemo.v: node starts with tracking on/off (initializeHashes: reset when
   hashRound <> dbRound, rebuild when the trie is empty, adopt otherwise) and tracker commits
   (commitRound: trie updated and hashRound := dbRound+k when tracking, trie untouched and
   hashRound := 0 otherwise).  For EVERY history: while tracking is on, the persisted trie is the
   set of leaves of the current account tables.  [apply_ok] is C14's statement about
   accountsUpdateBalances. *)
Theorem C15_memo_inv :
  forall (T S D : Type) (leaves : T -> S) (empty : S) (is_empty : S -> bool)
         (apply_tab : T -> D -> T) (apply_trie : S -> T -> D -> S),
  (forall t d, apply_trie (leaves t) t d = leaves (apply_tab t d)) ->
  is_empty empty = true ->
  forall ops g,
    memo_ok T S leaves empty (mrun T S D leaves empty is_empty apply_tab apply_trie ops (mfresh T S empty g)).
Proof. exact memo_inv. Qed.
Print Assumptions C15_memo_inv.

Theorem C15_memo_trie_state_only :
  forall (T S D : Type) (leaves : T -> S) (empty : S) (is_empty : S -> bool)
         (apply_tab : T -> D -> T) (apply_trie : S -> T -> D -> S),
  (forall t d, apply_trie (leaves t) t d = leaves (apply_tab t d)) ->
  is_empty empty = true ->
  forall ops g,
    let s := mrun T S D leaves empty is_empty apply_tab apply_trie ops (mfresh T S empty g) in
    m_on s = true -> m_trie s = leaves (m_tab s).
Proof. exact memo_trie_state_only. Qed.
Print Assumptions C15_memo_trie_state_only.

(* re-enabling tracking after any history (in particular on -> off with diverging writes -> on) *)
Theorem C15_memo_reenable :
  forall (T S D : Type) (leaves : T -> S) (empty : S) (is_empty : S -> bool)
         (apply_tab : T -> D -> T) (apply_trie : S -> T -> D -> S),
  (forall t d, apply_trie (leaves t) t d = leaves (apply_tab t d)) ->
  is_empty empty = true ->
  forall ops g,
    let s := mrun T S D leaves empty is_empty apply_tab apply_trie (ops ++ [Restart true]) (mfresh T S empty g) in
    m_trie s = leaves (m_tab s) /\ m_hash s = m_db s.
Proof. exact memo_reenable. Qed.
Print Assumptions C15_memo_reenable.

(* the checker's instance: a tracking node's trie is current after every history ... *)
Theorem C15_memo_check_current : forall ops,
  let s := fold_left (x_step false) ops x_fresh in m_on s = true -> x_current s = true.
Proof. exact x_memo_current. Qed.
Print Assumptions C15_memo_check_current.

(* ... and this rests on the reset of the hash round by the commits of a non-tracking node: if
   those kept advancing it, the history on, commit, off, commit, on adopts a stale trie *)
Theorem C15_memo_reset_needed :
  exists ops, let s := fold_left (x_step true) ops x_fresh in m_on s = true /\ x_current s = false.
Proof. exact memo_reset_needed. Qed.
Print Assumptions C15_memo_reset_needed.

(* ---- non-vacuity ---- *)
(* the model, run with SHA-512/256, yields exactly the 36-byte leaf the real KvHashBuilderV6
   returns for both witness boxes (bytes copied from the harness output) *)
Example C15_ex_witness_leaf :
  kv_leaf sha512_256 w_k1 w_v1 =
    [0; 0; 0; 0; 3; 200; 152; 232; 34; 251; 61; 114; 41; 179; 144; 242; 30; 193; 137; 137; 244; 147;
     110; 179; 42; 122; 117; 95; 27; 102; 223; 35; 200; 24; 204; 30]
  /\ kv_leaf sha512_256 w_k2 w_v2 = kv_leaf sha512_256 w_k1 w_v1.
Proof. split; vm_compute; reflexivity. Qed.

(* the premises of the state-level theorems are satisfiable (a trivial root / collision
   predicate), the witness states are well-formed, equivalent, not the same *)
Example C15_ex_premises :
  let root := fun _ : list bytes => repeat 0 32 in
  let trie_collision := fun l1 l2 : list bytes => root l1 = root l2 in
  (forall l, length (root l) = 32%nat) /\
  (forall l1 l2, root l1 = root l2 -> (forall x, In x l1 <-> In x l2) \/ trie_collision l1 l2) /\
  wf_state sha512_256 (w_state1 (EAcct (repeat 7 32) 9 0 [129; 161; 98; 1])) /\
  wf_totals {| t_on_mon := 5; t_on_rwd := 0; t_off_mon := 2 ^ 40; t_off_rwd := 1; t_np_mon := 0; t_np_rwd := 0; t_lvl := 300 |}.
Proof.
  cbv zeta. split; [reflexivity|]. split; [intros; right; assumption|]. split.
  - exact (proj1 (proj1 (C15_label_inj_refuted (repeat 7 32) 9 0 [129; 161; 98; 1] eq_refl) sha512_256)).
  - unfold wf_totals; cbn; repeat split; reflexivity.
Qed.

(* an injective "encoding" exists (identity on byte strings), so the data-level theorems have models *)
Example C15_ex_data :
  exists (ad_enc : bytes -> bytes), forall d1 d2, ad_enc d1 = ad_enc d2 -> d1 = d2.
Proof. exists (fun d => d). auto. Qed.

(* enc_totals on a concrete value: the bytes go-codec produces (checked against the implementation
   on every label case of the harness) *)
Example C15_ex_enc_totals :
  enc_totals {| t_on_mon := 5; t_on_rwd := 0; t_off_mon := 0; t_off_rwd := 0; t_np_mon := 0; t_np_rwd := 0; t_lvl := 300 |}
  = [130; 166; 111; 110; 108; 105; 110; 101; 129; 163; 109; 111; 110; 5; 166; 114; 119; 100; 108; 118; 108; 205; 1; 44].
Proof. vm_compute. reflexivity. Qed.
