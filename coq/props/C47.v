(* C47 Ledger storage backends give identical answers.
   Property theorems only: each is closed by [exact <lemma>] and followed by Print Assumptions.

   Model (model/TrackerStore.v).  SPEC: the abstract tracker store, a finite map from structured
   keys (account | resource (addr, aidx) | app kv key | creatable | online row (addr, updround) |
   db round | totals | tx tail round | online round params round | state proof round) to values,
   with the readers written as the SQL statements read (comprehensions, ORDER BY on numeric /
   lexicographic fields, LIMIT).  KV: an ordered byte-string map with the exact key encodings of
   generickv/schema.go and transcriptions of the generickv readers and writers; repaired functions
   (fixes/C47a-c) are modelled twice, [f] repaired and [f_orig] as found.

   [R s kv] (proofs/TrackerStoreRefine.v): kv is strictly sorted and holds exactly the encoded
   rows of s (an online row is stored twice: under its key and under its balance-index key).
   Histories: [run_ops spec_init kv_init kv_init ops = Some (s, kv, kv_orig)] runs a list of
   writer operations that respect the writers' protocol ([op_ok]: insert absent / update, delete
   present rows, rounds forward, numbers inside SQLite's int64) from the freshly migrated stores.

   What is proved: for EVERY such history (any length, any operations, incl. OnlineAccountsDelete)
   the key-value store refines the abstract store and every reader of the agreeing set returns
   the abstract store's answer, for all arguments.  SQLite itself is not modelled: that it answers
   as the abstract store does is checked against the real SQLite backend on every run. *)
From Coq Require Import NArith ZArith List Bool Sorted.
Import ListNotations.
From Verif.lib Require Import Term.
From Verif.model Require Import TrackerStore TrackerStoreCheck.
From Verif.proofs Require Import TrackerStoreKeys TrackerStoreRefine TrackerStoreTheorems TrackerStoreCheckProofs.
Open Scope N_scope.

(* ---- key encodings ---- *)
Theorem C47_key_encoding_inj : forall k1 k2, valid_key k1 = true -> valid_key k2 = true ->
  enc k1 = enc k2 -> k1 = k2.
Proof. exact enc_inj. Qed.
Print Assumptions C47_key_encoding_inj.

(* lexicographic byte order of the encoded keys = order of the tables, then of the fields as numbers
   (big-endian) / byte strings: (address, aidx), (address, round), (round, balance, address), round *)
Theorem C47_key_order_preserving : forall k1 k2, valid_key k1 = true -> valid_key k2 = true ->
  bcmp (enc k1) (enc k2) = skey_cmp k1 k2.
Proof. exact enc_order. Qed.
Print Assumptions C47_key_order_preserving.

Theorem C47_key_order_numeric : forall a i j r q, valid_addr a = true ->
  u64 i = true -> u64 j = true -> u64 r = true -> u64 q = true ->
  bcmp (resourceKey a i) (resourceKey a j) = (i ?= j) /\
  bcmp (onlineAccountKey a r) (onlineAccountKey a q) = (r ?= q) /\
  bcmp (txTailKey r) (txTailKey q) = (r ?= q) /\
  bcmp (onlineAccountRoundParamsKey r) (onlineAccountRoundParamsKey q) = (r ?= q).
Proof. exact key_order_numeric. Qed.
Print Assumptions C47_key_order_numeric.

(* ---- refinement, for every history ---- *)
Theorem C47_kv_store_refines : forall ops s kv ko,
  run_ops spec_init kv_init kv_init ops = Some (s, kv, ko) -> R s kv.
Proof. exact history_refines. Qed.
Print Assumptions C47_kv_store_refines.

(* every reader of the agreeing set ([agree_kind]: point lookups, per-address / per-table range scans,
   prefix scans with cursor / limit / byte budget / exclusions and pre-filled result maps, "latest row
   <= round", expired online accounts (walk over the balance index), tx tail, round params, state
   proof contexts), every argument, every history.  Not in the set: LookupLimitedResources,
   AccountsOnlineTop, the catchpoint stubs (recorded findings), and OnlineAccountsAll /
   LookupOnlineHistory, which are covered by C47_kv_refines_spec_partial *)
Theorem C47_kv_refines_spec : forall ops s kv ko q,
  run_ops spec_init kv_init kv_init ops = Some (s, kv, ko) ->
  query_ok q = true -> agree_kind q = true ->
  obs_kv false kv q = obs_spec s q.
Proof. exact kv_refines_spec. Qed.
Print Assumptions C47_kv_refines_spec.

(* the two readers that differ from SQLite by a recorded detail only: same rows *)
Theorem C47_kv_refines_spec_partial : forall ops s kv ko a mx,
  run_ops spec_init kv_init kv_init ops = Some (s, kv, ko) -> valid_addr a = true ->
  obs_kv false kv (QHist a) = o_hist (spec_lookup_online_history_rows s a) /\
  obs_kv false kv (QOnlAll mx) = o_onlall (spec_online_accounts_all s mx true).
Proof. exact kv_refines_spec_partial. Qed.
Print Assumptions C47_kv_refines_spec_partial.

(* ---- the abstract readers, declaratively ---- *)
Theorem C47_spec_select_char : forall s P, spec_wf s ->
  (forall e, In e (sselect s P) <-> In e s /\ P (fst e) = true) /\ StronglySorted srow_lt (sselect s P).
Proof. exact sselect_char. Qed.
Print Assumptions C47_spec_select_char.

Theorem C47_spec_lookup_online_char : forall s a rnd dbr r d, spec_wf s -> valid_addr a = true ->
  spec_lookup_online s a rnd = Ok (dbr, Some (r, d)) ->
  (exists v0, In (KOnl a r, v0) s /\ d = tl v0) /\ r <= rnd /\
  forall r' v', In (KOnl a r', v') s -> r' <= rnd -> r' <= r.
Proof. exact spec_lookup_online_char. Qed.
Print Assumptions C47_spec_lookup_online_char.

Theorem C47_spec_prefix_rows_char : forall s p k v, spec_wf s ->
  (In (KApp k, v) (sselect s (is_app_with_prefix p)) <-> In (KApp k, v) s /\ is_prefix p k = true).
Proof. exact spec_prefix_rows_char. Qed.
Print Assumptions C47_spec_prefix_rows_char.

(* ---- the executable checker ---- *)
Theorem C47_check_sound : forall ops tq sqlo kvo,
  check (TL [TL ops; tq; sqlo; kvo]) = v_ok \/ check (TL [TL ops; tq; sqlo; kvo]) = v_triv ->
  sqlo = kvo /\
  exists l q s k ko, map_opt dec_op ops = Some l /\ dec_query tq = Some q /\ query_ok q = true /\
    run_ops spec_init kv_init kv_init l = Some (s, k, ko) /\ sqlo = obs_spec s q /\ kvo = obs_kv false k q.
Proof. exact check_sound. Qed.
Print Assumptions C47_check_sound.

(* ---- the code as found: the property is false of the faithful model ---- *)
(* (a) LookupKeysByPrefix / ...Cursor scan the raw prefix range: prefix "bx:a" over boxes bx:aaa1,
   bx:aaa2, bx:abb3, cz:zzz finds nothing (fixes/C47a) *)
Theorem C47_kv_prefix_scan_refuted : after w_kv_ops (fun s k ko =>
  spec_lookup_keys_by_prefix s w_prefix 10 [] 0 = Ok (0, [(k_aaa1, true); (k_aaa2, true); (k_abb3, true)]) /\
  kv_lookup_keys_by_prefix k w_prefix 10 [] 0 = Ok (0, [(k_aaa1, true); (k_aaa2, true); (k_abb3, true)]) /\
  kv_lookup_keys_by_prefix_orig ko w_prefix 10 [] 0 = Ok (0, []) /\
  kv_lookup_keys_by_prefix_cursor_orig ko w_prefix [] 0 0 false [] = Ok (0, [], false)).
Proof. exact prefix_scan_witness. Qed.
Print Assumptions C47_kv_prefix_scan_refuted.

(* (e) result flags of LookupKeysByPrefix as found, range repaired (fixes/C47a) *)
Theorem C47_kv_prefix_flags_refuted : after w_kv_ops (fun s k ko =>
  spec_lookup_keys_by_prefix s w_prefix 10 [(k_aaa1, false)] 0 = Ok (0, [(k_aaa1, false); (k_aaa2, true); (k_abb3, true)]) /\
  kv_lookup_keys_by_prefix_flags k w_prefix 10 [(k_aaa1, false)] 0 = Ok (0, [(k_aaa1, true); (k_aaa2, true); (k_abb3, false)])).
Proof. exact prefix_flags_witness. Qed.
Print Assumptions C47_kv_prefix_flags_refuted.

(* (d) LookupOnline upper bound without carry: rows at 5, 255, 256 (fixes/C47b) *)
Theorem C47_kv_lookup_online_wrap_refuted : after w_onl_ops (fun s k ko =>
  spec_lookup_online s addr1 255 = Ok (0, Some (255, [1000; 20])) /\
  kv_lookup_online k addr1 255 = Ok (0, Some (255, [1000; 20])) /\
  kv_lookup_online_orig ko addr1 255 = Ok (0, None) /\
  spec_lookup_online s addr1 511 = Ok (0, Some (256, [1000; 30])) /\
  kv_lookup_online_orig ko addr1 511 = Ok (0, Some (255, [1000; 20]))).
Proof. exact lookup_online_wrap_witness. Qed.
Print Assumptions C47_kv_lookup_online_wrap_refuted.

(* (j) OnlineAccountsDelete(255) as found includes round 255 (fixes/C47c) *)
Theorem C47_kv_online_delete_refuted : after (w_onl_ops ++ [OOd 255]) (fun s k ko =>
  spec_lookup_online_history_rows s addr1 = Ok (0, [(5, [1000; 10]); (255, [1000; 20]); (256, [1000; 30])]) /\
  kv_lookup_online_history k addr1 = Ok (0, [(5, [1000; 10]); (255, [1000; 20]); (256, [1000; 30])]) /\
  kv_lookup_online_history ko addr1 = Ok (0, [(255, [1000; 20]); (256, [1000; 30])])).
Proof. exact online_delete_witness. Qed.
Print Assumptions C47_kv_online_delete_refuted.

(* recorded findings, not repaired: (i) AccountsOnlineTop order, (g) OnlineAccountsAll round field,
   (h) SQLite LookupOnlineHistory on an address without rows, (b) LookupLimitedResources *)
Theorem C47_kv_online_top_refuted : after w_top_ops (fun s k ko =>
  spec_accounts_online_top s 5 0 1 = [(addr2, [1000; 100])] /\
  kv_accounts_online_top k 5 0 1 = [(addr1, [1000; 10])]).
Proof. exact online_top_witness. Qed.
Print Assumptions C47_kv_online_top_refuted.

Theorem C47_recorded_findings_refuted : after w_onl_ops (fun s k ko =>
  (spec_online_accounts_all s 0 false = Ok [(addr1, 5, 0, [1000; 10]); (addr1, 255, 0, [1000; 20]); (addr1, 256, 0, [1000; 30])]) /\
  (exists l, kv_online_accounts_all (kv_apply k (OUar 7)) 0 = Ok l /\ map (fun e => snd (fst e)) l = [7; 7; 7]) /\
  spec_lookup_online_history s addr2 = ErrNullScan /\ kv_lookup_online_history k addr2 = Ok (0, []) /\
  kv_lookup_limited_resources k addr1 0 10 0 = ErrNotSupported).
Proof. exact recorded_witnesses. Qed.
Print Assumptions C47_recorded_findings_refuted.

(* non-vacuity: a history with every kind of operation respects the protocol, so the hypotheses of
   the refinement theorems are met by it *)
Example C47_histories_exist :
  run_ops spec_init kv_init kv_init (w_kv_ops ++ w_onl_ops ++ [OOd 255] ++ [OUar 300; OIa addr1 7; OIr addr1 5 0 9;
     OIc 5 0 addr2; OTt 300 [1; 2] 300; OPo [3] 1; OSs [(8, 1)]; ODs 4; OPr 1; OPt true 3; ODr addr1 5; ODa addr1; ODc 5 0; ODk k_aaa1]) <> None.
Proof. exact witness_histories_run. Qed.
