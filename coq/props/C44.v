(* C44 The transaction pool only holds transactions that can still commit.

   Model (model/TxPool.v): data/pools/transactionPool.go -- Remember (checkPendingQueueSize with
   the state-proof allowance, ingest, checkSufficientFee / computeFeePerByte with uint64 wrap,
   addToPendingBlockEvaluator with the ErrNoSpace retry that opens another pending whole block,
   rememberCommit), OnNewBlock (round test, fee-multiplier update) and recomputeBlockEvaluator
   (replay of the pending groups in order on a fresh evaluator of the ledger's latest block,
   skipping groups whose first txid is in the committed set, dropping what the evaluator
   rejects) -- parametric in the block evaluator
        tgroup : cstate -> N (blockTxBytes) -> list txn -> EOk c' b' | ENoSpace | EErr code
   and in the ledger ([start] may fail the way StartEvaluator may).  A history is ANY list of
        ORemember g | OLedger l ids (the ledger appended a block) | OOnNewBlock round txids.
   The generic theorems hold for EVERY evaluator satisfying [evaluator_ok] (proofs/TxPoolTheorems.v:
   blockTxBytes only decides between acceptance and ErrNoSpace; accepted txids were unseen and
   are seen afterwards) and every history; [C44_evaluator_model_ok] shows that the payments /
   state-proof evaluator model the harness compares with the real BlockEvaluator is one, and
   [C44_concrete_*] restate everything for it without premises, the ledger being driven by
   blocks of groups (CBlock) that its own evaluator accepts.

   "It never exceeds its configured size" is FALSE of the code as it is: checkPendingQueueSize
   deliberately lets a singleton state-proof group through (stateproof_txn_overflows_pool_by_one)
   and, because rememberCommit(flush) clears stateproofOverflowed on every new block while the
   overflowing transaction may still be pending, the excess is not bounded by one
   ([C44_size_by_one_refuted], replayed on the real pool by the harness).  What holds is
   [size <= max + pending singleton state proofs] and [at most one overflow between two
   recomputations]. *)
From Coq Require Import NArith ZArith List Bool.
Import ListNotations.
From Verif.model Require Import TxPool TxPoolEval TxPoolCheck.
From Verif.proofs Require Import TxPoolProofs TxPoolEvalProofs TxPoolTheorems.
Open Scope N_scope.

(* pool_applies_in_order, strong form: whenever the pool has an evaluator (state c, b bytes),
   feeding the pending groups, in order, to a FRESH evaluator of the ledger state the pool last
   synchronised with -- the way the pool itself feeds them: a transaction must be alive in the
   pending whole block it lands in, a full block opens the next -- accepts every one of them,
   ends in the very same logical state c, and needs no more blocks / bytes than the pool counts *)
Theorem C44_pool_replays_in_order :
  forall (cstate lstate txn txid : Type) (txid_eqb : txid -> txid -> bool)
         (tgroup : cstate -> N -> list txn -> eres cstate) (cround : cstate -> N)
         (start : lstate -> sres cstate) (tid : txn -> txid) (tlast : txn -> N)
         (tstpf tspsnd : txn -> bool) (tfee tenc : txn -> N) (maxsize expf maxb : N)
         (cseen : cstate -> txid -> bool),
    evaluator_ok txid_eqb tgroup tid maxb cseen ->
    forall l com0 ops c b,
      let s := run txid_eqb tgroup cround start tid tlast tstpf tspsnd tfee tenc maxsize expf
                   (init txid_eqb tgroup cround start tid tlast l com0) ops in
      p_eval (s_pool s) = Some (c, b) ->
      exists c0 br nr, start (s_base s) = SOk c0 /\
                       replay tgroup cround tlast c0 0 0 (p_pending (s_pool s)) = Some (c, br, nr) /\
                       (nr < p_npwb (s_pool s) \/ (nr = p_npwb (s_pool s) /\ br <= b)).
Proof. exact (@g_replays). Qed.
Print Assumptions C44_pool_replays_in_order.

(* pool_applies_in_order as in the property text: folding the evaluator's logical application
   over the pending list from the latest synchronised state succeeds *)
Theorem C44_pool_applies_in_order :
  forall (cstate lstate txn txid : Type) (txid_eqb : txid -> txid -> bool)
         (tgroup : cstate -> N -> list txn -> eres cstate) (cround : cstate -> N)
         (start : lstate -> sres cstate) (tid : txn -> txid) (tlast : txn -> N)
         (tstpf tspsnd : txn -> bool) (tfee tenc : txn -> N) (maxsize expf maxb : N)
         (cseen : cstate -> txid -> bool),
    evaluator_ok txid_eqb tgroup tid maxb cseen ->
    forall l com0 ops c b,
      let s := run txid_eqb tgroup cround start tid tlast tstpf tspsnd tfee tenc maxsize expf
                   (init txid_eqb tgroup cround start tid tlast l com0) ops in
      p_eval (s_pool s) = Some (c, b) ->
      exists c0, start (s_base s) = SOk c0 /\ capply_all tgroup c0 (p_pending (s_pool s)) = Some c.
Proof. exact (@g_applies). Qed.
Print Assumptions C44_pool_applies_in_order.

(* no group / no transaction twice; pendingTxids is exactly the set of pending txids *)
Theorem C44_no_dup_txid :
  forall (cstate lstate txn txid : Type) (txid_eqb : txid -> txid -> bool)
         (tgroup : cstate -> N -> list txn -> eres cstate) (cround : cstate -> N)
         (start : lstate -> sres cstate) (tid : txn -> txid) (tlast : txn -> N)
         (tstpf tspsnd : txn -> bool) (tfee tenc : txn -> N) (maxsize expf maxb : N)
         (cseen : cstate -> txid -> bool),
    evaluator_ok txid_eqb tgroup tid maxb cseen ->
    forall (l : lstate) com0 ops,
      let s := run txid_eqb tgroup cround start tid tlast tstpf tspsnd tfee tenc maxsize expf
                   (init txid_eqb tgroup cround start tid tlast l com0) ops in
      NoDup (ids_of_groups tid (p_pending (s_pool s))) /\
      p_ids (s_pool s) = ids_of_groups tid (p_pending (s_pool s)).
Proof. exact (@g_nodup). Qed.
Print Assumptions C44_no_dup_txid.

(* size: at most the configured size plus the pending singleton state-proof groups, and
   between two recomputations at most one transaction above max(size after the last
   recomputation, configured size) *)
Theorem C44_size_bound :
  forall (cstate lstate txn txid : Type) (txid_eqb : txid -> txid -> bool)
         (tgroup : cstate -> N -> list txn -> eres cstate) (cround : cstate -> N)
         (start : lstate -> sres cstate) (tid : txn -> txid) (tlast : txn -> N)
         (tstpf tspsnd : txn -> bool) (tfee tenc : txn -> N) (maxsize expf maxb : N)
         (cseen : cstate -> txid -> bool),
    evaluator_ok txid_eqb tgroup tid maxb cseen ->
    forall (l : lstate) com0 ops,
      let s := run txid_eqb tgroup cround start tid tlast tstpf tspsnd tfee tenc maxsize expf
                   (init txid_eqb tgroup cround start tid tlast l com0) ops in
      txcount (p_pending (s_pool s)) <= maxsize + spcount tstpf (p_pending (s_pool s)) /\
      txcount (p_pending (s_pool s)) <= N.max (s_basecount s) maxsize + (if p_over (s_pool s) then 1 else 0).
Proof. exact (@g_size). Qed.
Print Assumptions C44_size_bound.

(* admit_implies_applicable: a group Remember admits is appended to the pending list and is one
   the evaluator accepts on top of the pending groups *)
Theorem C44_admit_implies_applicable :
  forall (cstate lstate txn txid : Type) (txid_eqb : txid -> txid -> bool)
         (tgroup : cstate -> N -> list txn -> eres cstate) (cround : cstate -> N)
         (start : lstate -> sres cstate) (tid : txn -> txid) (tlast : txn -> N)
         (tstpf tspsnd : txn -> bool) (tfee tenc : txn -> N) (maxsize expf maxb : N)
         (cseen : cstate -> txid -> bool),
    evaluator_ok txid_eqb tgroup tid maxb cseen ->
    forall l com0 ops g p',
      let s := run txid_eqb tgroup cround start tid tlast tstpf tspsnd tfee tenc maxsize expf
                   (init txid_eqb tgroup cround start tid tlast l com0) ops in
      remember txid_eqb tgroup cround tid tlast tstpf tspsnd tfee tenc maxsize expf (s_pool s) g = (p', None) ->
      p_pending p' = p_pending (s_pool s) ++ [g] /\
      exists c0 c c', start (s_base s) = SOk c0 /\
                      capply_all tgroup c0 (p_pending (s_pool s)) = Some c /\ capply tgroup c g = Some c' /\
                      exists b', p_eval p' = Some (c', b').
Proof. exact (@g_admit). Qed.
Print Assumptions C44_admit_implies_applicable.

(* no_committed: if every evaluator the ledger starts knows the txids committed so far
   (env_ok; this is C11), then once the pool has processed the ledger's latest block no
   committed transaction is pending *)
Theorem C44_no_committed :
  forall (cstate lstate txn txid : Type) (txid_eqb : txid -> txid -> bool)
         (tgroup : cstate -> N -> list txn -> eres cstate) (cround : cstate -> N)
         (start : lstate -> sres cstate) (tid : txn -> txid) (tlast : txn -> N)
         (tstpf tspsnd : txn -> bool) (tfee tenc : txn -> N) (maxsize expf maxb : N)
         (cseen : cstate -> txid -> bool),
    evaluator_ok txid_eqb tgroup tid maxb cseen ->
    forall l com0 ops c b id,
      (forall c id, start l = SOk c -> In id com0 -> cseen c id = true) ->
      env_ok start cseen com0 ops ->
      let s := run txid_eqb tgroup cround start tid tlast tstpf tspsnd tfee tenc maxsize expf
                   (init txid_eqb tgroup cround start tid tlast l com0) ops in
      p_eval (s_pool s) = Some (c, b) -> s_base s = p_ledger (s_pool s) ->
      In id (ids_of_groups tid (p_pending (s_pool s))) -> ~ In id (s_committed s).
Proof. exact (@g_no_committed). Qed.
Print Assumptions C44_no_committed.

(* the premise [s_base = p_ledger] above is what a processed OnNewBlock establishes *)
Theorem C44_on_new_block_syncs :
  forall (cstate lstate txn txid : Type) (txid_eqb : txid -> txid -> bool)
         (tgroup : cstate -> N -> list txn -> eres cstate) (cround : cstate -> N)
         (start : lstate -> sres cstate) (tid : txn -> txid) (tlast : txn -> N)
         (tstpf tspsnd : txn -> bool) (tfee tenc : txn -> N) (maxsize expf : N),
    forall (s : @sys cstate lstate txn txid) r committed c b,
      (match p_eval (s_pool s) with Some (c, _) => cround c <=? r | None => true end) = true ->
      let s' := fst (step txid_eqb tgroup cround start tid tlast tstpf tspsnd tfee tenc maxsize expf s
                          (OOnNewBlock r committed)) in
      p_eval (s_pool s') = Some (c, b) -> s_base s' = p_ledger (s_pool s').
Proof. exact (@g_syncs). Qed.
Print Assumptions C44_on_new_block_syncs.

(* non-vacuity of [evaluator_ok]: the evaluator model run against the real code satisfies it *)
Theorem C44_evaluator_model_ok :
  forall P, evaluator_ok N.eqb (eval_group P) t_id (ep_maxbytes P) cseen.
Proof. exact eval_model_ok. Qed.
Print Assumptions C44_evaluator_model_ok.

(* everything, without premises, for every concrete history of submissions, blocks and
   OnNewBlock calls on the modelled ledger *)
Theorem C44_concrete_pool_ok :
  forall P maxsize expf l0 ops s,
    c_blk l0 = [] -> c_run P maxsize expf (p_init P l0) ops = Some s ->
    let p := s_pool s in
    NoDup (pflat (p_pending p)) /\ p_ids p = pflat (p_pending p) /\
    txcount (p_pending p) <= maxsize + spcount t_stpf (p_pending p) /\
    txcount (p_pending p) <= N.max (s_basecount s) maxsize + (if p_over p then 1 else 0) /\
    (forall c b, p_eval p = Some (c, b) ->
       exists c0 br nr, lstart (s_base s) = SOk c0 /\
                        p_replay P c0 0 0 (p_pending p) = Some (c, br, nr) /\
                        logical_apply_all P c0 (p_pending p) = Some c) /\
    (forall c b id, p_eval p = Some (c, b) -> s_base s = p_ledger p ->
                    In id (pflat (p_pending p)) -> ~ In id (s_committed s)).
Proof. exact concrete_pool_ok. Qed.
Print Assumptions C44_concrete_pool_ok.

Theorem C44_concrete_admit :
  forall P maxsize expf l0 ops s g p',
    c_blk l0 = [] -> c_run P maxsize expf (p_init P l0) ops = Some s ->
    p_remember P maxsize expf (s_pool s) g = (p', None) ->
    p_pending p' = p_pending (s_pool s) ++ [g] /\
    exists c0 c c', lstart (s_base s) = SOk c0 /\
                    logical_apply_all P c0 (p_pending (s_pool s)) = Some c /\
                    logical_apply P c g = Some c'.
Proof. exact concrete_admit. Qed.
Print Assumptions C44_concrete_admit.

(* "exceeds the configured size by at most the single state proof" is refuted: one payment,
   the state proof for round 512 (one over), an empty block + OnNewBlock (the flag is cleared,
   both stay pending), the state proof for round 768: size = max + 2 *)
Theorem C44_size_by_one_refuted :
  exists P maxsize expf l0 ops s,
    c_blk l0 = [] /\ c_run P maxsize expf (p_init P l0) ops = Some s /\
    txcount (p_pending (s_pool s)) = maxsize + 2.
Proof. exact size_by_one_refuted. Qed.
Print Assumptions C44_size_by_one_refuted.

(* what the checker's oracle (evaluated on the real pool's observations only) means *)
Theorem C44_spec_ok_sound :
  forall maxsize committed admitted would o,
    obs_hard_ok maxsize committed admitted would o = true <->
    NoDup (concat (o_pend o)) /\
    (o_esync o = true -> o_sync o = true) /\
    (o_esync o = true -> forall id, In id (concat (o_pend o)) -> ~ In id committed) /\
    (o_esync o = true -> o_replay o = (-1)%Z) /\
    total o <= maxsize + o_nsp o /\
    ~ (admitted = true /\ would = 0) /\
    (* PendingTxIDs(), Lookup() and PendingCount() show exactly the pending groups' transactions *)
    (forall id, In id (o_ids o) <-> In id (concat (o_pend o))) /\
    (forall id, In id (o_lkp o) <-> In id (concat (o_pend o))) /\
    o_cnt o = total o.
Proof. exact obs_hard_ok_sound. Qed.
Print Assumptions C44_spec_ok_sound.

(* ... and across one call: an admitted group is appended (and, if the pool is then above its
   configured size, it is a single state-proof transaction), a rejected one changes nothing,
   OnNewBlock only removes groups *)
Theorem C44_spec_trans_sound :
  forall maxsize opk prev gids spsingle admitted o,
    obs_trans_ok maxsize opk prev gids spsingle admitted o = true <->
    (opk = 1 -> admitted = true ->
       o_pend o = prev ++ [gids] /\ (maxsize < total o -> spsingle = true)) /\
    (opk = 1 -> admitted = false -> o_pend o = prev) /\
    (opk = 2 -> Subseq (o_pend o) prev).
Proof. exact obs_trans_ok_sound. Qed.
Print Assumptions C44_spec_trans_sound.

Theorem C44_overflow_class_sound :
  forall maxsize o,
    (overflow_class maxsize o = 0 <-> total o <= maxsize) /\
    (overflow_class maxsize o = 1 <-> total o = maxsize + 1) /\
    (overflow_class maxsize o = 2 <-> maxsize + 2 <= total o).
Proof. exact overflow_class_sound. Qed.
Print Assumptions C44_overflow_class_sound.

(* ---------- non-vacuity: concrete histories ---------- *)
(* a double spend: a, b, (c rejected: overspend); a block commits c from outside; OnNewBlock
   drops a (no longer affordable), keeps b, and the pool is in sync with the ledger *)
Example C44_example_history :
  exists s, c_run wP 10 2 (p_init wP xL) x_ops = Some s /\
            map (map t_id) (p_pending (s_pool s)) = [[2]] /\
            s_committed s = [3] /\ s_base s = p_ledger (s_pool s).
Proof. exact example_history. Qed.

Example C44_example_rejects_conflict :
  exists s r, c_run wP 10 2 (p_init wP xL) [CRemember [x_a]; CRemember [x_b]] = Some s /\
              p_remember wP 10 2 (s_pool s) [x_c] = r /\ snd r = Some C_overspend.
Proof. exact example_rejects_conflict. Qed.

Example C44_example_one_over :
  exists s, c_run wP 1 2 (p_init wP wL) [CRemember [w_pay]; CRemember [w_sp1]] = Some s /\
            txcount (p_pending (s_pool s)) = 2 /\ p_over (s_pool s) = true.
Proof. exact one_over_reachable. Qed.
