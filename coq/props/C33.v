(* C33 Assembler and disassembler round-trip.
   Property theorems only: each is closed by [exact <lemma>] and followed by Print Assumptions.

   What is proved (level: proof, partial): the BINARY INSTRUCTION LAYER of
   data/transactions/logic/assembler.go over the opcode tables regenerated from the running
   code on every check (coq/gen/AvmTables.v):
     - encoding/binary (Put)Uvarint and (Put)Varint round-trip for every 64-bit value;
     - every instruction that is valid in version v per the table (any opcode, sub-opcode,
       field, immediates of every kind incl. switch/match label tables, pushints/pushbytess
       lists of any length) is read back by the disassembler's decoder, whatever follows it;
     - every well-formed program of any length decodes to itself;
     - bytes that decode canonically re-encode to themselves; the lax decoder (what Disassemble
       uses) also reads non-canonical bytes, which do NOT re-encode to themselves (refuted
       witness) -- hence the check demands identity only on canonical bytes;
     - every assemblable op of every version 0..LogicVersion is covered by these statements
       (finite table obligation, recomputed on every run).
   The label layer of the assembler (per-op assemble functions, short forms, dead-code rule,
   findBranchSizes / resolveLabels) is an executable model tied to the code by the
   correspondence run; about it the following is proved for ALL symbolic programs: whatever it
   accepts is the canonical encoding of a well-formed program with one instruction per statement
   (so the disassembler's decoder reads exactly those instructions back, even strictly),
   findBranchSizes reaches its fixpoint within the fuel (no OutOfFuel), every varint branch
   fills its placeholder exactly and every written offset decodes to the start of the labelled
   instruction.  The unrestricted text-level round trip is refuted (finding
   c33_deadcode_label_lost).  The composition "re-assembling the disassembly gives the same
   bytes", the salt, and the text layer are tied only by the correspondence run. *)
From Coq Require Import NArith ZArith List Bool String.
Import ListNotations.
From Verif.lib Require Import Term.
From Verif.model Require Import AvmTypes AvmCodec AvmCodecCheck.
From Verif.gen Require Import AvmTables.
From Verif.proofs Require Import AvmCodecProofs AvmCodecAsmProofs AvmCodecTableProofs.
Open Scope N_scope.

Theorem C33_uvarint_roundtrip : forall strict x rest,
  x < 2 ^ 64 -> get_uvarint strict (put_uvarint x ++ rest) = Some (x, rest).
Proof. exact (fun strict x rest H => uvarint_roundtrip strict x rest (proj2 (N.ltb_lt _ _) H)). Qed.
Print Assumptions C33_uvarint_roundtrip.

Theorem C33_varint_roundtrip : forall strict z rest,
  (- 2 ^ 63 <= z <= 2 ^ 63 - 1)%Z -> get_varint strict (put_varint z ++ rest) = Some (z, rest).
Proof.
  exact (fun strict z rest H =>
           varint_roundtrip strict z rest
             (proj2 (andb_true_iff _ _)
                (conj (proj2 (Z.leb_le _ _) (proj1 H)) (proj2 (Z.leb_le _ _) (proj2 H))))).
Qed.
Print Assumptions C33_varint_roundtrip.

(* for ANY dispatch table and field groups *)
Theorem C33_instr_roundtrip_generic : forall tbl grp strict v plen i rest,
  wf_instr tbl grp v i = true -> nlen (enc_instr i ++ rest) <= plen ->
  dec_instr tbl grp strict v plen (enc_instr i ++ rest) = Some (i, rest).
Proof. exact instr_roundtrip. Qed.
Print Assumptions C33_instr_roundtrip_generic.

(* for the tables of the running code *)
Theorem C33_instr_roundtrip : forall strict v plen i rest,
  c_wf_instr v i = true -> nlen (enc_instr i ++ rest) <= plen ->
  dec_instr gen_tbl gen_grp strict v plen (enc_instr i ++ rest) = Some (i, rest).
Proof. exact (instr_roundtrip gen_tbl gen_grp). Qed.
Print Assumptions C33_instr_roundtrip.

Theorem C33_prog_roundtrip : forall strict v p,
  c_wf_prog v p = true -> c_dec_prog strict (enc_prog v p) = Some (v, p).
Proof. exact (prog_roundtrip gen_tbl gen_grp logic_version). Qed.
Print Assumptions C33_prog_roundtrip.

Theorem C33_reencode_canonical : forall b v p,
  Forall (fun x => x < 256) b -> c_dec_prog true b = Some (v, p) -> enc_prog v p = b.
Proof. exact (reencode_canonical gen_tbl gen_grp logic_version). Qed.
Print Assumptions C33_reencode_canonical.

Theorem C33_canonical_decodes_lax : forall b r,
  c_dec_prog true b = Some r -> c_dec_prog false b = Some r.
Proof. exact (dec_prog_strict_lax gen_tbl gen_grp logic_version). Qed.
Print Assumptions C33_canonical_decodes_lax.

Theorem C33_reencode_refuted :
  exists b v p, Forall (fun x => x < 256) b /\ c_dec_prog false b = Some (v, p) /\ enc_prog v p <> b.
Proof. exact reencode_refuted. Qed.
Print Assumptions C33_reencode_refuted.

Theorem C33_every_table_op_covered : forall v s,
  In v all_versions -> In s (table_specs v) -> c_wf_instr v (default_instr s) = true.
Proof. exact table_op_wf. Qed.
Print Assumptions C33_every_table_op_covered.

Theorem C33_roundtrip_deadcode_refuted :
  exists v p labs b, c_asm_base v p labs = AOk b /\ c_reasm b = AReject.
Proof. exact roundtrip_deadcode_refuted. Qed.
Print Assumptions C33_roundtrip_deadcode_refuted.

(* the assembler model only emits canonical encodings of well-formed programs; [feasible]:
   the counts of list immediates fit 64 bits *)
Theorem C33_asm_output_canonical : forall v p labs b,
  feasible p = true -> c_asm_base v p labs = AOk b ->
  exists q, c_wf_prog v q = true /\ b = enc_prog v q /\ List.length q = List.length p.
Proof. exact asm_output_canonical_gen. Qed.
Print Assumptions C33_asm_output_canonical.

Theorem C33_asm_output_decodes : forall v p labs b,
  feasible p = true -> c_asm_base v p labs = AOk b ->
  exists q, c_dec_prog true b = Some (v, q) /\ c_dec_prog false b = Some (v, q) /\
            enc_prog v q = b /\ List.length q = List.length p.
Proof. exact asm_output_decodes. Qed.
Print Assumptions C33_asm_output_decodes.

(* the same for ANY tables that satisfy the eight table facts *)
Theorem C33_asm_output_canonical_generic :
  forall tbl grp names agrp max_str back_ver logic_ver,
  logic_ver < 2 ^ 64 -> max_str < 2 ^ 64 ->
  (forall v o s op, spec_at tbl v o s = Some op ->
     os_opcode op = o /\ os_sub op = s /\ o < 256 /\ s < 256) ->
  (forall v o s op, spec_at tbl v o s = Some op -> s <> 0 ->
     os_imms op = [] /\ is_special (os_name op) = false) ->
  (forall v o s op im b, spec_at tbl v o s = Some op -> In im (os_imms op) ->
     (im_kind im = 0 -> field_ok grp v (agrp (os_name op) (im_group im)) b = true ->
      (b <? 256) && field_named grp (im_group im) b = true) /\
     (im_kind im = 1 -> im_group im = 0)) ->
  (forall v o s op, spec_at tbl v o s = Some op ->
     (os_name op = "intcblock"%string -> map (fun im => kind_of (im_kind im)) (os_imms op) = [KInts]) /\
     (os_name op = "bytecblock"%string -> map (fun im => kind_of (im_kind im)) (os_imms op) = [KBytess])) ->
  (forall v o s op base n, spec_at tbl v o s = Some op -> os_name op = base ->
     In base ["arg"; "intc"; "bytec"]%string -> n < 4 ->
     let a := by_name names v (short_name base n) in
     wf_instr tbl grp v (mkI (os_opcode a) (os_sub a) []) = true /\
     (base <> "arg"%string -> os_sub a = 0)) ->
  (forall v o s op base n, spec_at tbl v o s = Some op -> os_name op = base ->
     In base ["intc"; "bytec"]%string -> 4 <= n -> n < 256 ->
     wf_instr tbl grp v (mkI (os_opcode (by_name names v base)) 0 [VByte n]) = true) ->
  forall v p labs b,
  feasible p = true ->
  asm_base tbl grp names agrp max_str back_ver logic_ver v p labs = AOk b ->
  exists q, wf_prog tbl grp logic_ver v q = true /\ b = enc_prog v q /\
            List.length q = List.length p.
Proof. exact asm_output_canonical. Qed.
Print Assumptions C33_asm_output_canonical_generic.

Theorem C33_find_branch_sizes_total : forall v p labs, c_asm_base v p labs <> AFuel.
Proof. exact asm_base_no_fuel. Qed.
Print Assumptions C33_find_branch_sizes_total.

(* at the layout found by findBranchSizes every resolved varint branch is exactly as long as
   its placeholder: no placeholder byte survives *)
Theorem C33_branch_sizes_exact : forall labs back_ver v ps fuel vss bytes,
  find_sizes labs fuel ps (map (fun _ => 3%nat) ps) = Some vss ->
  resolve_all back_ver v labs (positions 0 ps vss) (last (positions 0 ps vss) 0%nat) 0 ps vss = Some bytes ->
  exact_sizes labs (positions 0 ps vss) 0 ps vss.
Proof. exact branch_sizes_exact. Qed.
Print Assumptions C33_branch_sizes_exact.

(* label resolution is correct at that layout: the bytes of the i-th statement have exactly the
   size the layout assumed, and every offset written for a label reference makes the
   disassembler's target formula (tgt2: end of instruction + offset; tgtv: start + offset when
   negative, end + offset otherwise) land on the start of the labelled instruction *)
Theorem C33_branch_targets_correct : forall labs back_ver v ps fuel vss bytes,
  find_sizes labs fuel ps (map (fun _ => 3%nat) ps) = Some vss ->
  resolve_all back_ver v labs (positions 0 ps vss) (last (positions 0 ps vss) 0%nat) 0 ps vss = Some bytes ->
  targets_ok labs (positions 0 ps vss) 0 ps vss bytes.
Proof. exact branch_targets_correct. Qed.
Print Assumptions C33_branch_targets_correct.

(* anti-vacuity *)
Example C33_nonvacuous_v13 : c_wf_prog 13 demo_prog13 = true.
Proof. exact demo_prog13_wf. Qed.
Example C33_nonvacuous_v8 : c_wf_prog 8 demo_prog8 = true.
Proof. exact demo_prog8_wf. Qed.
Example C33_table_size : 2000 <= ops_counted.
Proof. exact ops_counted_positive. Qed.
Example C33_asm_nonvacuous : feasible branch_prog = true.
Proof. reflexivity. Qed.
Example C33_label_layer_runs :
  match c_asm_base 13 branch_prog [2%nat; 0%nat; 4%nat; 1%nat] with
  | AOk b => AvmCodecCheck.bytes_eqb (firstn 4 b) [13; 66; 128; 1] &&
             match c_reasm b with AOk b' => AvmCodecCheck.bytes_eqb b b' | _ => false end
  | _ => false
  end = true.
Proof. exact branch_witness. Qed.
