(* C33 Assembler and disassembler round-trip.
   Property theorems only: each is closed by [exact <lemma>] and followed by Print Assumptions.

   What is proved (level: proof, partial): the BINARY INSTRUCTION LAYER of
   data/transactions/logic/assembler.go over the opcode tables regenerated from the running
   code on every check (coq/gen/AvmTables.v):
     - encoding/binary (Put)Uvarint and (Put)Varint round-trip for every 64-bit value;
     - every instruction that is valid in version v per the table (any opcode, sub-opcode,
       field, immediates of every kind incl. switch/match label tables, pushints/pushbytess
       lists of any length) is read back by the disassembler's decoder, whatever follows it;
     - every well-formed program of any length decodes to itself;
     - bytes that decode canonically re-encode to themselves; the lax decoder (what Disassemble
       uses) also reads non-canonical bytes, which do NOT re-encode to themselves (refuted
       witness) -- hence the check demands identity only on canonical bytes;
     - every assemblable op of every version 0..LogicVersion is covered by these statements
       (finite table obligation, recomputed on every run).
   The label layer (findBranchSizes / resolveLabels, short forms, dead-code rule, salt) is an
   executable model tied to the code by the correspondence run; for it only the refutation of
   the unrestricted round-trip (finding c33_deadcode_label_lost) is a theorem here.  The text
   layer is tied only by the correspondence run. *)
From Coq Require Import NArith ZArith List Bool String.
Import ListNotations.
From Verif.lib Require Import Term.
From Verif.model Require Import AvmTypes AvmCodec AvmCodecCheck.
From Verif.gen Require Import AvmTables.
From Verif.proofs Require Import AvmCodecProofs AvmCodecTableProofs.
Open Scope N_scope.

Theorem C33_uvarint_roundtrip : forall strict x rest,
  x < 2 ^ 64 -> get_uvarint strict (put_uvarint x ++ rest) = Some (x, rest).
Proof. exact (fun strict x rest H => uvarint_roundtrip strict x rest (proj2 (N.ltb_lt _ _) H)). Qed.
Print Assumptions C33_uvarint_roundtrip.

Theorem C33_varint_roundtrip : forall strict z rest,
  (- 2 ^ 63 <= z <= 2 ^ 63 - 1)%Z -> get_varint strict (put_varint z ++ rest) = Some (z, rest).
Proof.
  exact (fun strict z rest H =>
           varint_roundtrip strict z rest
             (proj2 (andb_true_iff _ _)
                (conj (proj2 (Z.leb_le _ _) (proj1 H)) (proj2 (Z.leb_le _ _) (proj2 H))))).
Qed.
Print Assumptions C33_varint_roundtrip.

(* for ANY dispatch table and field groups *)
Theorem C33_instr_roundtrip_generic : forall tbl grp strict v plen i rest,
  wf_instr tbl grp v i = true -> nlen (enc_instr i ++ rest) <= plen ->
  dec_instr tbl grp strict v plen (enc_instr i ++ rest) = Some (i, rest).
Proof. exact instr_roundtrip. Qed.
Print Assumptions C33_instr_roundtrip_generic.

(* for the tables of the running code *)
Theorem C33_instr_roundtrip : forall strict v plen i rest,
  c_wf_instr v i = true -> nlen (enc_instr i ++ rest) <= plen ->
  dec_instr gen_tbl gen_grp strict v plen (enc_instr i ++ rest) = Some (i, rest).
Proof. exact (instr_roundtrip gen_tbl gen_grp). Qed.
Print Assumptions C33_instr_roundtrip.

Theorem C33_prog_roundtrip : forall strict v p,
  c_wf_prog v p = true -> c_dec_prog strict (enc_prog v p) = Some (v, p).
Proof. exact (prog_roundtrip gen_tbl gen_grp logic_version). Qed.
Print Assumptions C33_prog_roundtrip.

Theorem C33_reencode_canonical : forall b v p,
  Forall (fun x => x < 256) b -> c_dec_prog true b = Some (v, p) -> enc_prog v p = b.
Proof. exact (reencode_canonical gen_tbl gen_grp logic_version). Qed.
Print Assumptions C33_reencode_canonical.

Theorem C33_canonical_decodes_lax : forall b r,
  c_dec_prog true b = Some r -> c_dec_prog false b = Some r.
Proof. exact (dec_prog_strict_lax gen_tbl gen_grp logic_version). Qed.
Print Assumptions C33_canonical_decodes_lax.

Theorem C33_reencode_refuted :
  exists b v p, Forall (fun x => x < 256) b /\ c_dec_prog false b = Some (v, p) /\ enc_prog v p <> b.
Proof. exact reencode_refuted. Qed.
Print Assumptions C33_reencode_refuted.

Theorem C33_every_table_op_covered : forall v s,
  In v all_versions -> In s (table_specs v) -> c_wf_instr v (default_instr s) = true.
Proof. exact table_op_wf. Qed.
Print Assumptions C33_every_table_op_covered.

Theorem C33_roundtrip_deadcode_refuted :
  exists v p labs b, c_asm_base v p labs = AOk b /\ c_reasm b = AReject.
Proof. exact roundtrip_deadcode_refuted. Qed.
Print Assumptions C33_roundtrip_deadcode_refuted.

(* anti-vacuity *)
Example C33_nonvacuous_v13 : c_wf_prog 13 demo_prog13 = true.
Proof. exact demo_prog13_wf. Qed.
Example C33_nonvacuous_v8 : c_wf_prog 8 demo_prog8 = true.
Proof. exact demo_prog8_wf. Qed.
Example C33_table_size : 2000 <= ops_counted.
Proof. exact ops_counted_positive. Qed.
Example C33_label_layer_runs :
  match c_asm_base 13 branch_prog [2%nat; 0%nat; 4%nat; 1%nat] with
  | AOk b => AvmCodecCheck.bytes_eqb (firstn 4 b) [13; 66; 128; 1] &&
             match c_reasm b with AOk b' => AvmCodecCheck.bytes_eqb b b' | _ => false end
  | _ => false
  end = true.
Proof. exact branch_witness. Qed.
