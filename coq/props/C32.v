(* C32 AVM opcodes compute exactly their specified results.
   Property theorems only: each is closed by [exact <lemma>] and followed by Print Assumptions.
   Statements: the word-level transcription of the Go opcode functions (model/AvmArith.v:
   bits.Add64/Mul64/Div64 semantics, explicit mod 2^64, Crenshaw's loop, the exp/expw loops,
   big.Int SetBytes/Bytes, the 64-byte guard) equals, for ALL operands, the result over
   unbounded arithmetic -- value and error condition alike.  C32_all_opcodes states this for
   the whole opcode table at once against the executable specification model/AvmArithSpec.v
   (the oracle the checker applies to the implementation's observations); the theorems before
   it restate the opcode families in closed form (grouped: one Print Assumptions walks the
   whole proof cone, so fewer, larger statements keep the quick tier fast). *)
From Coq Require Import NArith ZArith List Bool.
Import ListNotations.
From Verif.lib Require Import Term.
From Verif.model Require Import AvmArith AvmArithSpec.
From Verif.proofs Require Import AvmArithUint AvmArithBytes AvmArithSpecProofs AvmArithSummary.
Open Scope N_scope.

(* ---------------- uint64 arithmetic ---------------- *)
(* + - * fail exactly on overflow / underflow; / % exactly on a zero divisor *)
Theorem C32_basic_arith : forall a b, a < W -> b < W ->
  opPlus a b = (if a + b <? W then Ok [U (a + b)] else Err) /\
  opMinus a b = (if b <=? a then Ok [U (a - b)] else Err) /\
  opMul a b = (if a * b <? W then Ok [U (a * b)] else Err) /\
  opDiv a b = (if b =? 0 then Err else Ok [U (a / b)]) /\
  opModulo a b = (if b =? 0 then Err else Ok [U (a mod b)]).
Proof. exact basic_arith_spec. Qed.
Print Assumptions C32_basic_arith.

Theorem C32_addw_mulw : forall a b, a < W -> b < W ->
  (exists hi lo, opAddw a b = Ok [U hi; U lo] /\ hi * W + lo = a + b /\ lo < W /\ hi <= 1) /\
  (exists hi lo, opMulw a b = Ok [U hi; U lo] /\ hi * W + lo = a * b /\ lo < W /\ hi < W).
Proof. exact wide_add_mul_spec. Qed.
Print Assumptions C32_addw_mulw.

(* divw fails exactly on a zero divisor or a quotient that does not fit in 64 bits *)
Theorem C32_divw : forall hi lo y, hi < W -> lo < W -> y < W ->
  opDivw hi lo y =
  if y =? 0 then Err
  else if (hi * W + lo) / y <? W then Ok [U ((hi * W + lo) / y)] else Err.
Proof. exact divw_spec. Qed.
Print Assumptions C32_divw.

Theorem C32_divmodw : forall a b c d, a < W -> b < W -> c < W -> d < W ->
  (c * W + d = 0 -> opDivModw a b c d = Err) /\
  (c * W + d <> 0 ->
   exists qh ql rh rl, opDivModw a b c d = Ok [U qh; U ql; U rh; U rl] /\
     qh < W /\ ql < W /\ rh < W /\ rl < W /\
     (qh * W + ql) * (c * W + d) + (rh * W + rl) = a * W + b /\ rh * W + rl < c * W + d).
Proof. exact divmodw_full_spec. Qed.
Print Assumptions C32_divmodw.

Theorem C32_shifts : forall a s,
  opShiftLeft a s = (if 63 <? s then Err else Ok [U ((a * 2 ^ s) mod W)]) /\
  opShiftRight a s = (if 63 <? s then Err else Ok [U (a / 2 ^ s)]).
Proof. exact shifts_spec. Qed.
Print Assumptions C32_shifts.

(* Crenshaw's 32-iteration loop is the integer square root for EVERY 64-bit x: proved with the
   loop invariant sqrt_inv (second conjunct: it is preserved by one iteration), not by a sweep *)
Theorem C32_sqrt :
  (forall x, x < W -> opSqrt x = Ok [U (N.sqrt x)]) /\
  (forall x k st, x < W -> sqrt_inv x (S k) st -> sqrt_inv x k (sqrt_step st)).
Proof. exact sqrt_full_spec. Qed.
Print Assumptions C32_sqrt.

(* exp / expw: 0^0 fails; otherwise success exactly when base^exp < 2^64 (resp. 2^128) *)
Theorem C32_exp_expw : forall a e, a < W -> e < W ->
  opExp a e = (if (a =? 0) && (e =? 0) then Err
               else if a ^ e <? W then Ok [U (a ^ e)] else Err) /\
  opExpw a e = (if (a =? 0) && (e =? 0) then Err
                else if a ^ e <? 2 ^ 128 then Ok [U (a ^ e / W); U (a ^ e mod W)] else Err).
Proof. exact exp_expw_spec. Qed.
Print Assumptions C32_exp_expw.

(* bitlen on both operand types; bitlen_of n is THE bit length (third conjunct) *)
Theorem C32_bitlen :
  (forall a, opBitLen (U a) = Ok [U (bitlen_of a)]) /\
  (forall l, bytes_wf l -> opBitLen (B l) = Ok [U (bitlen_of (be_val l))]) /\
  (forall n k, bitlen_of n = k <-> (n < 2 ^ k /\ (k = 0 \/ 2 ^ (k - 1) <= n))).
Proof. exact bitlen_full_spec. Qed.
Print Assumptions C32_bitlen.

Theorem C32_compare_bitnot : forall a b, a < W ->
  lt_v a b = b2u (a <? b) /\ gt_v a b = b2u (b <? a) /\
  le_v a b = b2u (a <=? b) /\ ge_v a b = b2u (b <=? a) /\
  opBitNot a = Ok [U (W - 1 - a)].
Proof. exact compare_not_spec. Qed.
Print Assumptions C32_compare_bitnot.

Theorem C32_getbit_setbit_uint : forall t i b,
  opGetBit (U t) i = (if 63 <? i then Err else Ok [U (b2u (N.testbit t i))]) /\
  opSetBit (U t) i b =
  (if 1 <? b then Err else if 63 <? i then Err
   else Ok [U (if b =? 1 then (if N.testbit t i then t else t + 2 ^ i)
               else (if N.testbit t i then t - 2 ^ i else t))]).
Proof. exact bits_uint_spec. Qed.
Print Assumptions C32_getbit_setbit_uint.

(* ---------------- conversions ---------------- *)
(* btoi = big-endian value, fails iff longer than 8 bytes; itob = the 8-byte encoding;
   they are mutually inverse *)
Theorem C32_btoi_itob :
  (forall l, bytes_wf l -> opBtoi l = if 8 <? blen l then Err else Ok [U (be_val l)]) /\
  (forall a, a < W -> exists l, opItob a = Ok [B l] /\ be_val l = a /\ bytes_wf l /\ length l = 8%nat) /\
  (forall a, a < W -> forall l, opItob a = Ok [B l] -> opBtoi l = Ok [U a]) /\
  (forall l, bytes_wf l -> length l = 8%nat ->
     exists a, opBtoi l = Ok [U a] /\ a < W /\ opItob a = Ok [B l]).
Proof. exact conversions_spec. Qed.
Print Assumptions C32_btoi_itob.

Theorem C32_extract_uint : forall n l s, bytes_wf l -> (n <= 8)%nat -> s < W -> blen l + 8 < W ->
  opExtractNBytes (N.of_nat n) l s =
  if blen l <? s + N.of_nat n then Err
  else Ok [U (be_val (slice l s (N.of_nat n) n))].
Proof. exact extract_uint_spec. Qed.
Print Assumptions C32_extract_uint.

(* ---------------- byte math ---------------- *)
(* big.Int.SetBytes decodes big-endian; big.Int.Bytes is THE minimal big-endian encoding
   (right value, bytes in range, no leading zero byte) *)
Theorem C32_bytes_codec :
  (forall l, setbytes l = be_val l) /\
  (forall n, be_val (bigbytes n) = n /\ bytes_wf (bigbytes n) /\ hd 1 (bigbytes n) <> 0).
Proof. exact bytes_codec_spec. Qed.
Print Assumptions C32_bytes_codec.

(* result = minimal encoding of the exact integer result; error iff an operand is longer than
   64 bytes / the difference is negative / the divisor is zero *)
Theorem C32_bytes_arith : forall a b,
  opBytesPlus a b = guard64 a b (Ok [B (bigbytes (be_val a + be_val b))]) /\
  opBytesMinus a b =
    guard64 a b (if be_val a <? be_val b then Err else Ok [B (bigbytes (be_val a - be_val b))]) /\
  opBytesMul a b = guard64 a b (Ok [B (bigbytes (be_val a * be_val b))]) /\
  opBytesDiv a b =
    guard64 a b (if be_val b =? 0 then Err else Ok [B (bigbytes (be_val a / be_val b))]) /\
  opBytesModulo a b =
    guard64 a b (if be_val b =? 0 then Err else Ok [B (bigbytes (be_val a mod be_val b))]) /\
  opBytesSqrt a = (if 64 <? blen a then Err else Ok [B (bigbytes (N.sqrt (be_val a)))]).
Proof. exact bytes_arith_spec. Qed.
Print Assumptions C32_bytes_arith.

(* b< b> b<= b>= b== b!= compare the NUMBERS (leading zeros irrelevant) *)
Theorem C32_bytes_compare : forall a b, bytes_wf a -> bytes_wf b ->
  opBytesLt a b = guard64 a b (Ok [U (b2u (be_val a <? be_val b))]) /\
  opBytesGt a b = guard64 a b (Ok [U (b2u (be_val b <? be_val a))]) /\
  opBytesLe a b = guard64 a b (Ok [U (b2u (be_val a <=? be_val b))]) /\
  opBytesGe a b = guard64 a b (Ok [U (b2u (be_val b <=? be_val a))]) /\
  opBytesEq a b = guard64 a b (Ok [U (b2u (be_val a =? be_val b))]) /\
  opBytesNeq a b = guard64 a b (Ok [U (b2u (negb (be_val a =? be_val b)))]).
Proof. exact bcmp_spec. Qed.
Print Assumptions C32_bytes_compare.

(* b| b& b^ b~ : bitwise on the numbers, result as long as the longer operand *)
Theorem C32_bytes_bitwise : forall a b, bytes_wf a -> bytes_wf b ->
  (exists l, opBytesBitOr a b = Ok [B l] /\ be_val l = N.lor (be_val a) (be_val b) /\
             bytes_wf l /\ length l = Nat.max (length a) (length b)) /\
  (exists l, opBytesBitAnd a b = Ok [B l] /\ be_val l = N.land (be_val a) (be_val b) /\
             bytes_wf l /\ length l = Nat.max (length a) (length b)) /\
  (exists l, opBytesBitXor a b = Ok [B l] /\ be_val l = N.lxor (be_val a) (be_val b) /\
             bytes_wf l /\ length l = Nat.max (length a) (length b)) /\
  (exists l, opBytesBitNot a = Ok [B l] /\ be_val l = 2 ^ (8 * blen a) - 1 - be_val a /\
             bytes_wf l /\ length l = length a).
Proof. exact bytes_bitwise_spec. Qed.
Print Assumptions C32_bytes_bitwise.

(* bit idx of a byte string is bit (8*len - 1 - idx) of the number it denotes *)
Theorem C32_getbit_setbit_bytes : forall l idx bit, bytes_wf l ->
  opGetBit (B l) idx =
    (if 8 * blen l <=? idx then Err
     else Ok [U (b2u (N.testbit (be_val l) (8 * blen l - 1 - idx)))]) /\
  ((1 <? bit) || (8 * blen l <=? idx) = true -> opSetBit (B l) idx bit = Err) /\
  (bit <= 1 -> idx < 8 * blen l ->
   let v := be_val l in let k := 8 * blen l - 1 - idx in
   exists l', opSetBit (B l) idx bit = Ok [B l'] /\
     be_val l' = (if bit =? 1 then (if N.testbit v k then v else v + 2 ^ k)
                  else (if N.testbit v k then v - 2 ^ k else v)) /\
     bytes_wf l' /\ length l' = length l).
Proof. exact bits_bytes_spec. Qed.
Print Assumptions C32_getbit_setbit_bytes.

Theorem C32_getbyte_setbyte : forall l i v,
  opGetByte l i = (if blen l <=? i then Err else Ok [U (byte_at l i)]) /\
  opSetByte l i v =
    (if 255 <? v then Err else if blen l <=? i then Err else Ok [B (replace_at l i v)]).
Proof. exact byte_access_spec. Qed.
Print Assumptions C32_getbyte_setbyte.

(* ---------------- the whole table against the executable specification ---------------- *)
(* every opcode of the table, all well-formed operands (64-bit words, byte strings of at most
   4096 bytes): the model's outcome satisfies the specification's expected outcome *)
Theorem C32_all_opcodes : forall o args m e,
  Forall wf_arg args -> run o args = Some m -> spec o args = Some e -> sat e m.
Proof. exact run_sat_spec. Qed.
Print Assumptions C32_all_opcodes.

(* the specification's bounded power is the real power (it is executable for every exponent) *)
Theorem C32_spec_power : forall bits a e, 0 < bits ->
  pow_capped bits a e = if a ^ e <? 2 ^ bits then Some (a ^ e) else None.
Proof. exact pow_capped_spec. Qed.
Print Assumptions C32_spec_power.

(* the executable comparison used on observations decides the declarative relation *)
Theorem C32_meets_sat : forall e r, meets e r = true <-> sat e r.
Proof. exact meets_sat. Qed.
Print Assumptions C32_meets_sat.

(* soundness of the checker: a non-violation verdict means the IMPLEMENTATION's observation
   satisfies the specification (and equals the model) *)
Theorem C32_check_sound : forall name ver mode targs tobs,
  check (TL [TS name; TZ ver; TS mode; TL targs; tobs]) = v_ok \/
  check (TL [TS name; TZ ver; TS mode; TL targs; tobs]) = v_triv ->
  exists o args r e,
    lookup_op name op_table = Some o /\ map_opt sv_of_term targs = Some args /\
    obs_of_term tobs = Some (ORes r) /\ Forall wf_arg args /\
    spec o args = Some e /\ sat e r /\ run o args = Some r.
Proof. exact check_sound. Qed.
Print Assumptions C32_check_sound.

(* and no false alarm: whatever behaves like the model is accepted *)
Theorem C32_check_no_false_alarm : forall name o ver mode args m,
  lookup_op name op_table = Some o -> Forall wf_arg args -> run o args = Some m ->
  check (TL [TS name; TZ ver; TS mode; TL (map term_of_sv args); term_of_res m]) = v_ok \/
  check (TL [TS name; TZ ver; TS mode; TL (map term_of_sv args); term_of_res m]) = v_triv.
Proof. exact check_no_false_alarm. Qed.
Print Assumptions C32_check_no_false_alarm.

(* ---------------- anti-vacuity: concrete instances on both sides of every boundary ---------------- *)
Example C32_nonvacuous_uint :
  opSqrt (2 ^ 64 - 1) = Ok [U 4294967295] /\ opSqrt (4294967295 * 4294967295 - 1) = Ok [U 4294967294] /\
  opExp 2 63 = Ok [U (2 ^ 63)] /\ opExp 2 64 = Err /\ opExp 0 0 = Err /\ opExp 0 5 = Ok [U 0] /\
  opExp 1 (2 ^ 64 - 1) = Ok [U 1] /\ opExp 4294967296 2 = Err /\ opExp 4294967295 2 = Ok [U 18446744065119617025] /\
  opExpw 2 127 = Ok [U (2 ^ 63); U 0] /\ opExpw 2 128 = Err /\
  opPlus (2 ^ 64 - 1) 1 = Err /\ opMinus 0 1 = Err /\ opMul (2 ^ 32) (2 ^ 32) = Err /\
  opDivw 1 0 1 = Err /\ opDivw 1 0 2 = Ok [U (2 ^ 63)] /\
  opDivModw 0 0 0 0 = Err /\ opDivModw 1 5 0 2 = Ok [U 0; U (2 ^ 63 + 2); U 0; U 1] /\
  opShiftLeft 3 63 = Ok [U (2 ^ 63)] /\ opShiftLeft 1 64 = Err.
Proof. vm_compute. repeat split. Qed.

Example C32_nonvacuous_bytes :
  opBytesPlus [255] [1] = Ok [B [1; 0]] /\ opBytesMinus [1] [2] = Err /\ opBytesMinus [0; 7] [7] = Ok [B []] /\
  opBytesDiv [9] [0; 0] = Err /\ opBytesPlus (repeat 0 65) [1] = Err /\
  opBytesLt [0; 0; 1] [2] = Ok [U 1] /\ opBytesEq [0; 5] [5] = Ok [U 1] /\
  opBytesBitOr [1; 0] [2] = Ok [B [1; 2]] /\ opBytesBitNot [0; 255] = Ok [B [255; 0]] /\
  opBtoi [1; 0; 0; 0; 0; 0; 0; 0; 0] = Err /\ opItob 258 = Ok [B [0; 0; 0; 0; 0; 0; 1; 2]] /\
  opGetBit (B [128; 1]) 0 = Ok [U 1] /\ opGetBit (B [128; 1]) 15 = Ok [U 1] /\ opGetBit (B [128; 1]) 16 = Err /\
  opSetBit (B [0; 0]) 9 1 = Ok [B [0; 64]] /\
  opExtractNBytes 2 [1; 2; 3] 1 = Ok [U 515] /\ opExtractNBytes 2 [1; 2; 3] 2 = Err /\
  opExtractNBytes 8 [1; 2; 3] (2 ^ 64 - 1) = Err.
Proof. vm_compute. repeat split. Qed.

(* the hypotheses of C32_all_opcodes are met by concrete operands, with a non-trivial outcome;
   the oracle rejects the same value in a non-minimal encoding *)
Example C32_all_opcodes_instance :
  Forall wf_arg [B [1; 0; 0]; B [255; 255]] /\
  run OBMul [B [1; 0; 0]; B [255; 255]] = Some (Ok [B [255; 255; 0; 0]]) /\
  spec OBMul [B [1; 0; 0]; B [255; 255]] = Some (XBmin 4294901760) /\
  meets (XBmin 4294901760) (Ok [B [255; 255; 0; 0]]) = true /\
  meets (XBmin 4294901760) (Ok [B [0; 255; 255; 0; 0]]) = false.
Proof.
  split; [|vm_compute; repeat split].
  repeat constructor; vm_compute; reflexivity || (intro; discriminate).
Qed.
