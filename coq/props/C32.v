(* C32 placeholder while the pipeline is brought up; replaced below *)
From Coq Require Import NArith.
From Verif.model Require Import AvmArith AvmArithSpec.
