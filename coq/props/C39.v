(* C39  State proofs verify iff enough valid signatures back them.
   Property theorems only.  Model: model/StateProof.v = crypto/stateproof/prover.go (MakeProver,
   IsValid, Add, coinIndex, CreateProof), verifier.go (Verifier.Verify) and
   stateproof/verify/stateproof.go (ValidateStateProof), with weights.go imported from C38
   (model/SpWeights.v).  Specification-level definitions: model/StateProofSpec.v.

   ABSTRACT, as explicit premises / parameters of every theorem: the signature predicates
   ([sig_ok] = merklesignature Verifier.VerifyBytes, [salt_ok], [commit_ok]), the coin stream as a
   function of the coin-choice seed, and the vector commitment.  What the theorems need of the
   vector commitment ([vc_complete], [vc_sound]) is proved for the merklearray model of C37 under
   C37's hash assumptions (C39_merkle_vc_complete / C39_merkle_vc_sound); "coins below the signed
   weight" is C38_coin_below_weight.  Unforgeability of the signatures and the soundness of the
   SAMPLING argument (how unlikely it is that all coins hit signed slots when less than the proven
   weight signed) are cryptographic and not part of this development: C39_accept_sound is the
   deterministic statement they are applied to.

   [isValid] is the code with /verif/fixes/C39.patch (IsValid also requires the signature to be
   committable); for the code before it the completeness clause is FALSE:
   C39_valid_sig_uncommittable_refuted.
   FALSE of the faithful model and recorded as a finding: the clause "a proof with a tampered reveal
   (position) fails verification" -- C39_position_relabel_refuted (consequence of C37's
   treedepth finding: Verify binds positions only through the two VC proofs).
   By design, not a finding: Verify(round') accepts every round' of the key-lifetime window of the
   signed round (C39_round_window_equiv; VerifyBytes uses round - round mod KeyLifetime);
   ValidateStateProof only passes multiples of StateProofInterval (= KeyLifetime). *)
From Coq Require Import NArith ZArith List Bool.
From Verif.model Require Import SpWeights MerkleArray MerkleArraySpec StateProof StateProofSpec StateProofCheck.
From Verif.proofs Require Import MerkleArrayFinal StateProofProofs StateProofHonest StateProofMerkle StateProofWitness StateProofCheckProofs.
Import ListNotations.
Open Scope N_scope.

(* Verifier.Verify returns nil exactly when every quantity it is meant to check holds: both
   TreeDepths <= 20, the weights inequality for (SignedWeight, lnProvenWeight, #reveals, target), every
   revealed signature has the proof's salt version, is committable and VERIFIES for (round, message)
   under the revealed participant's key, both vector-commitment proofs verify, and the j-th coin of the
   seed (partcom, lnProvenWeight, SigCommit, SignedWeight, message) falls into the slot of the j-th
   revealed position. *)
Theorem C39_verify_accepts_exactly :
  forall (PK Sig Msg Dig Prf : Type) (salt_ok : Sig -> N -> bool) 
    (commit_ok : Sig -> bool) (sig_ok : PK -> N -> Msg -> Sig -> bool)
    (coin : seed Msg Dig -> nat -> N) (prf_depth : Prf -> N)
    (vcs_verify : Dig -> list (N * slotC Sig) -> Prf -> bool)
    (vcp_verify : Dig -> list (N * participant PK) -> Prf -> bool) 
    (v : verifier Dig) (round : N) (data : Msg) (s : stateproof PK Sig Dig Prf),
  verify salt_ok commit_ok sig_ok coin prf_depth vcs_verify vcp_verify v round data s = SOk tt <->
  accept_facts salt_ok commit_ok sig_ok coin prf_depth vcs_verify vcp_verify v round data s.
Proof. exact verify_ok_iff. Qed.
Print Assumptions C39_verify_accepts_exactly.

(* Soundness: an accepted proof is backed, reveal by reveal, by a valid signature over the
   attested message for that round by the participant COMMITTED in the verifier's trusted participants
   commitment (at the position the VC proof binds: vcp_posmap, the identity when the proof carries the
   tree's depth), every coin falls into that participant's weight interval [L, L+weight), and the
   weights inequality holds.  Premise: position binding of the vector commitment (C37). *)
Theorem C39_accept_sound :
  forall (PK Sig Msg Dig Prf : Type) (salt_ok : Sig -> N -> bool) 
    (commit_ok : Sig -> bool) (sig_ok : PK -> N -> Msg -> Sig -> bool)
    (coin : seed Msg Dig -> nat -> N) (prf_depth : Prf -> N)
    (vcs_verify : Dig -> list (N * slotC Sig) -> Prf -> bool)
    (vcp_root : list (participant PK) -> Dig)
    (vcp_verify : Dig -> list (N * participant PK) -> Prf -> bool)
    (vcp_treedepth : list (participant PK) -> N)
    (vcp_posmap : list (participant PK) -> Prf -> N -> N) (parts : list (participant PK))
    (v : verifier Dig) (round : N) (data : Msg) (s : stateproof PK Sig Dig Prf),
  vc_sound vcp_root vcp_verify prf_depth vcp_treedepth vcp_posmap ->
  v_partcom v = vcp_root parts ->
  verify salt_ok commit_ok sig_ok coin prf_depth vcs_verify vcp_verify v round data s = SOk tt ->
  (forall (j : nat) (pos : N),
   nth_error (sp_positions s) j = Some pos ->
   backed sig_ok coin vcp_posmap parts round data v s j pos) /\
  verifyWeights (Z.of_N (sp_sw s)) (Z.of_N (v_lnpw v)) (Z.of_nat (length (sp_positions s)))
    (Z.of_N (v_st v)) = WOk tt.
Proof. exact accept_sound. Qed.
Print Assumptions C39_accept_sound.

(* ... with the tree's own depth in PartProofs the participant is the committed one AT the revealed position. *)
Theorem C39_accept_sound_depth :
  forall (PK Sig Msg Dig Prf : Type) (salt_ok : Sig -> N -> bool) 
    (commit_ok : Sig -> bool) (sig_ok : PK -> N -> Msg -> Sig -> bool)
    (coin : seed Msg Dig -> nat -> N) (prf_depth : Prf -> N)
    (vcs_verify : Dig -> list (N * slotC Sig) -> Prf -> bool)
    (vcp_root : list (participant PK) -> Dig)
    (vcp_verify : Dig -> list (N * participant PK) -> Prf -> bool)
    (vcp_treedepth : list (participant PK) -> N)
    (vcp_posmap : list (participant PK) -> Prf -> N -> N) (parts : list (participant PK))
    (v : verifier Dig) (round : N) (data : Msg) (s : stateproof PK Sig Dig Prf) 
    (j : nat) (pos : N),
  vc_sound vcp_root vcp_verify prf_depth vcp_treedepth vcp_posmap ->
  v_partcom v = vcp_root parts ->
  prf_depth (sp_partproofs s) = vcp_treedepth parts ->
  verify salt_ok commit_ok sig_ok coin prf_depth vcs_verify vcp_verify v round data s = SOk tt ->
  nth_error (sp_positions s) j = Some pos ->
  exists r : reveal PK Sig,
    lookup pos (sp_reveals s) = Some r /\
    nth_error parts (N.to_nat pos) = Some (rv_part r) /\
    sig_ok (pt_pk (rv_part r)) round data (sc_sig (rv_slot r)) = true /\
    sc_L (rv_slot r) <= coin (seed_of v data s) j < sc_L (rv_slot r) + pt_weight (rv_part r).
Proof. exact accept_sound_depth. Qed.
Print Assumptions C39_accept_sound_depth.

(* The signature slots (signature, L) are fixed by SigCommit, which is part of the coin seed: they were chosen before the coins. *)
Theorem C39_accept_sound_slots :
  forall (PK Sig Msg Dig Prf : Type) (salt_ok : Sig -> N -> bool) 
    (commit_ok : Sig -> bool) (sig_ok : PK -> N -> Msg -> Sig -> bool)
    (coin : seed Msg Dig -> nat -> N) (prf_depth : Prf -> N)
    (vcs_root : list (slotC Sig) -> Dig)
    (vcs_verify : Dig -> list (N * slotC Sig) -> Prf -> bool)
    (vcp_verify : Dig -> list (N * participant PK) -> Prf -> bool)
    (vcs_treedepth : list (slotC Sig) -> N) (vcs_posmap : list (slotC Sig) -> Prf -> N -> N)
    (slots : list (slotC Sig)) (v : verifier Dig) (round : N) (data : Msg)
    (s : stateproof PK Sig Dig Prf),
  vc_sound vcs_root vcs_verify prf_depth vcs_treedepth vcs_posmap ->
  sp_sigcommit s = vcs_root slots ->
  verify salt_ok commit_ok sig_ok coin prf_depth vcs_verify vcp_verify v round data s = SOk tt ->
  forall (pos : N) (r : reveal PK Sig),
  In (pos, r) (sp_reveals s) ->
  nth_error slots (N.to_nat (vcs_posmap slots (sp_sigproofs s) pos)) = Some (rv_slot r).
Proof. exact accept_sound_slots. Qed.
Print Assumptions C39_accept_sound_slots.

(* Completeness: a prover filled by MakeProver, then IsValid(pos, sig, true) + Add for any sequence of
   signatures (the code with fixes/C39.patch), whose signed weight exceeds the proven weight and for
   which numReveals succeeds, creates a proof, and its verifier accepts that proof for the message and
   round.  Premises: total weight < 2^64, at most 1024 participants (VotersAllocBound), completeness of
   the vector commitment (C37), coins below the signed weight (C38_coin_below_weight). *)
Theorem C39_honest_verifies :
  forall (PK Sig Msg Dig Prf : Type) (sig0 : Sig) (scheme_salt : N)
    (salt_ok : Sig -> N -> bool) (commit_ok : Sig -> bool)
    (sig_ok : PK -> N -> Msg -> Sig -> bool) (coin : seed Msg Dig -> nat -> N)
    (prf_depth : Prf -> N) (vcs_root : list (slotC Sig) -> Dig)
    (vcs_prove : list (slotC Sig) -> list N -> option Prf)
    (vcs_verify : Dig -> list (N * slotC Sig) -> Prf -> bool)
    (vcp_root : list (participant PK) -> Dig)
    (vcp_prove : list (participant PK) -> list N -> option Prf)
    (vcp_verify : Dig -> list (N * participant PK) -> Prf -> bool) 
    (data : Msg) (round pw lnpw : N) (parts : list (participant PK)) 
    (st : N) (b : builder PK Sig Msg) (nr : Z),
  commit_ok sig0 = true ->
  totw parts < W64 ->
  (length parts <= 1024)%nat ->
  vc_complete vcs_root vcs_prove vcs_verify prf_depth ->
  vc_complete vcp_root vcp_prove vcp_verify prf_depth ->
  (forall (sd : seed Msg Dig) (j : nat), 0 < sd_sw sd -> coin sd j < sd_sw sd) ->
  built sig0 scheme_salt salt_ok commit_ok sig_ok true data round pw lnpw parts st b ->
  ready b = true ->
  numReveals (Z.of_N (b_sw b)) (Z.of_N lnpw) (Z.of_N st) = WOk nr ->
  exists s : stateproof PK Sig Dig Prf,
    createProof scheme_salt commit_ok coin vcs_root vcs_prove vcp_root vcp_prove b = SOk s /\
    verify salt_ok commit_ok sig_ok coin prf_depth vcs_verify vcp_verify
      {| v_st := st; v_lnpw := lnpw; v_partcom := vcp_root parts |} round data s = 
    SOk tt.
Proof. exact honest_verifies_built. Qed.
Print Assumptions C39_honest_verifies.

(* The invariant behind it, kept by every accepted signature (slots hold only verified, committable signatures of the participant's weight; signedWeight is their sum). *)
Theorem C39_prover_invariant :
  forall (PK Sig Msg : Type) (scheme_salt : N) (salt_ok : Sig -> N -> bool)
    (commit_ok : Sig -> bool) (sig_ok : PK -> N -> Msg -> Sig -> bool)
    (b : builder PK Sig Msg) (pos : N) (sig : Sig) (b' : builder PK Sig Msg),
  wf scheme_salt salt_ok commit_ok sig_ok b ->
  isValid scheme_salt salt_ok commit_ok sig_ok b pos sig true = SOk tt ->
  add b pos sig = SOk b' -> wf scheme_salt salt_ok commit_ok sig_ok b'.
Proof. exact add_wf. Qed.
Print Assumptions C39_prover_invariant.

(* Tampered message or round: rejected as soon as one revealed signature is not valid for it. *)
Theorem C39_tamper_round_or_message :
  forall (PK Sig Msg Dig Prf : Type) (salt_ok : Sig -> N -> bool) 
    (commit_ok : Sig -> bool) (sig_ok : PK -> N -> Msg -> Sig -> bool)
    (coin : seed Msg Dig -> nat -> N) (prf_depth : Prf -> N)
    (vcs_verify : Dig -> list (N * slotC Sig) -> Prf -> bool)
    (vcp_verify : Dig -> list (N * participant PK) -> Prf -> bool) 
    (v : verifier Dig) (round' : N) (data' : Msg) (s : stateproof PK Sig Dig Prf) 
    (pos : N) (r : reveal PK Sig),
  In (pos, r) (sp_reveals s) ->
  sig_ok (pt_pk (rv_part r)) round' data' (sc_sig (rv_slot r)) = false ->
  verify salt_ok commit_ok sig_ok coin prf_depth vcs_verify vcp_verify v round' data' s <>
  SOk tt.
Proof. exact tamper_round_or_message. Qed.
Print Assumptions C39_tamper_round_or_message.

(* (Verify sees the round only through the signature check: rounds of one merklesignature key-lifetime window, for which VerifyBytes is the same predicate, are not distinguished.) *)
Theorem C39_round_window_equiv :
  forall (PK Sig Msg Dig Prf : Type) (salt_ok : Sig -> N -> bool) 
    (commit_ok : Sig -> bool) (sig_ok : PK -> N -> Msg -> Sig -> bool)
    (coin : seed Msg Dig -> nat -> N) (prf_depth : Prf -> N)
    (vcs_verify : Dig -> list (N * slotC Sig) -> Prf -> bool)
    (vcp_verify : Dig -> list (N * participant PK) -> Prf -> bool) 
    (v : verifier Dig) (round round' : N) (data : Msg) (s : stateproof PK Sig Dig Prf),
  (forall (pos : N) (r : reveal PK Sig),
   In (pos, r) (sp_reveals s) ->
   sig_ok (pt_pk (rv_part r)) round data (sc_sig (rv_slot r)) =
   sig_ok (pt_pk (rv_part r)) round' data (sc_sig (rv_slot r))) ->
  verify salt_ok commit_ok sig_ok coin prf_depth vcs_verify vcp_verify v round data s = SOk tt <->
  verify salt_ok commit_ok sig_ok coin prf_depth vcs_verify vcp_verify v round' data s =
  SOk tt.
Proof. exact round_window_equiv. Qed.
Print Assumptions C39_round_window_equiv.

(* Tampered signature or key: whatever is put into a reveal must itself pass the signature and salt check. *)
Theorem C39_tamper_signature_or_key :
  forall (PK Sig Msg Dig Prf : Type) (salt_ok : Sig -> N -> bool) 
    (commit_ok : Sig -> bool) (sig_ok : PK -> N -> Msg -> Sig -> bool)
    (coin : seed Msg Dig -> nat -> N) (prf_depth : Prf -> N)
    (vcs_verify : Dig -> list (N * slotC Sig) -> Prf -> bool)
    (vcp_verify : Dig -> list (N * participant PK) -> Prf -> bool) 
    (v : verifier Dig) (round : N) (data : Msg) (s : stateproof PK Sig Dig Prf) 
    (pos : N) (r : reveal PK Sig),
  verify salt_ok commit_ok sig_ok coin prf_depth vcs_verify vcp_verify v round data s = SOk tt ->
  In (pos, r) (sp_reveals s) ->
  sig_ok (pt_pk (rv_part r)) round data (sc_sig (rv_slot r)) = true /\
  salt_ok (sc_sig (rv_slot r)) (sp_salt s) = true.
Proof. exact tamper_signature_or_key. Qed.
Print Assumptions C39_tamper_signature_or_key.

(* Tampered participant (key or weight) or reveal position: a reveal that is not the committed participant of its position is rejected (PartProofs carrying the tree's depth). *)
Theorem C39_tamper_participant_weight_position :
  forall (PK Sig Msg Dig Prf : Type) (salt_ok : Sig -> N -> bool) 
    (commit_ok : Sig -> bool) (sig_ok : PK -> N -> Msg -> Sig -> bool)
    (coin : seed Msg Dig -> nat -> N) (prf_depth : Prf -> N)
    (vcs_verify : Dig -> list (N * slotC Sig) -> Prf -> bool)
    (vcp_root : list (participant PK) -> Dig)
    (vcp_verify : Dig -> list (N * participant PK) -> Prf -> bool)
    (vcp_treedepth : list (participant PK) -> N)
    (vcp_posmap : list (participant PK) -> Prf -> N -> N) (parts : list (participant PK))
    (v : verifier Dig) (round : N) (data : Msg) (s : stateproof PK Sig Dig Prf) 
    (pos : N) (r : reveal PK Sig) (p : participant PK),
  vc_sound vcp_root vcp_verify prf_depth vcp_treedepth vcp_posmap ->
  v_partcom v = vcp_root parts ->
  prf_depth (sp_partproofs s) = vcp_treedepth parts ->
  In (pos, r) (sp_reveals s) ->
  nth_error parts (N.to_nat pos) = Some p ->
  rv_part r <> p ->
  verify salt_ok commit_ok sig_ok coin prf_depth vcs_verify vcp_verify v round data s <>
  SOk tt.
Proof. exact tamper_participant_weight_position. Qed.
Print Assumptions C39_tamper_participant_weight_position.

(* Tampered signature slot (signature or L) against SigCommit. *)
Theorem C39_tamper_slot :
  forall (PK Sig Msg Dig Prf : Type) (salt_ok : Sig -> N -> bool) 
    (commit_ok : Sig -> bool) (sig_ok : PK -> N -> Msg -> Sig -> bool)
    (coin : seed Msg Dig -> nat -> N) (prf_depth : Prf -> N)
    (vcs_root : list (slotC Sig) -> Dig)
    (vcs_verify : Dig -> list (N * slotC Sig) -> Prf -> bool)
    (vcp_verify : Dig -> list (N * participant PK) -> Prf -> bool)
    (vcs_treedepth : list (slotC Sig) -> N) (vcs_posmap : list (slotC Sig) -> Prf -> N -> N)
    (slots : list (slotC Sig)) (v : verifier Dig) (round : N) (data : Msg)
    (s : stateproof PK Sig Dig Prf) (pos : N) (r : reveal PK Sig) 
    (c : slotC Sig),
  vc_sound vcs_root vcs_verify prf_depth vcs_treedepth vcs_posmap ->
  sp_sigcommit s = vcs_root slots ->
  prf_depth (sp_sigproofs s) = vcs_treedepth slots ->
  In (pos, r) (sp_reveals s) ->
  nth_error slots (N.to_nat pos) = Some c ->
  rv_slot r <> c ->
  verify salt_ok commit_ok sig_ok coin prf_depth vcs_verify vcp_verify v round data s <>
  SOk tt.
Proof. exact tamper_slot. Qed.
Print Assumptions C39_tamper_slot.

(* Tampered PositionsToReveal: an entry without reveal, or whose slot does not contain its coin, is rejected. *)
Theorem C39_tamper_reveal_position :
  forall (PK Sig Msg Dig Prf : Type) (salt_ok : Sig -> N -> bool) 
    (commit_ok : Sig -> bool) (sig_ok : PK -> N -> Msg -> Sig -> bool)
    (coin : seed Msg Dig -> nat -> N) (prf_depth : Prf -> N)
    (vcs_verify : Dig -> list (N * slotC Sig) -> Prf -> bool)
    (vcp_verify : Dig -> list (N * participant PK) -> Prf -> bool) 
    (v : verifier Dig) (round : N) (data : Msg) (s : stateproof PK Sig Dig Prf) 
    (j : nat) (pos : N),
  nth_error (sp_positions s) j = Some pos ->
  lookup pos (sp_reveals s) = None \/
  (exists r : reveal PK Sig,
     lookup pos (sp_reveals s) = Some r /\
     ~
     sc_L (rv_slot r) <= coin (seed_of v data s) j < sc_L (rv_slot r) + pt_weight (rv_part r)) ->
  verify salt_ok commit_ok sig_ok coin prf_depth vcs_verify vcp_verify v round data s <>
  SOk tt.
Proof. exact tamper_reveal_position. Qed.
Print Assumptions C39_tamper_reveal_position.

(* Tampered signed weight (or SigCommit / message / lnProvenWeight / participants commitment): these are the coin seed and the inequality; acceptance requires both to hold for the tampered values. *)
Theorem C39_tamper_signed_weight :
  forall (PK Sig Msg Dig Prf : Type) (salt_ok : Sig -> N -> bool) 
    (commit_ok : Sig -> bool) (sig_ok : PK -> N -> Msg -> Sig -> bool)
    (coin : seed Msg Dig -> nat -> N) (prf_depth : Prf -> N)
    (vcs_verify : Dig -> list (N * slotC Sig) -> Prf -> bool)
    (vcp_verify : Dig -> list (N * participant PK) -> Prf -> bool) 
    (v : verifier Dig) (round : N) (data : Msg) (s : stateproof PK Sig Dig Prf),
  verify salt_ok commit_ok sig_ok coin prf_depth vcs_verify vcp_verify v round data s = SOk tt ->
  verifyWeights (Z.of_N (sp_sw s)) (Z.of_N (v_lnpw v)) (Z.of_nat (length (sp_positions s)))
    (Z.of_N (v_st v)) = WOk tt /\
  coins_in_slots coin
    {|
      sd_partcom := v_partcom v;
      sd_lnpw := v_lnpw v;
      sd_sigcom := sp_sigcommit s;
      sd_sw := sp_sw s;
      sd_data := data
    |} (sp_reveals s) (sp_positions s) 0.
Proof. exact tamper_signed_weight. Qed.
Print Assumptions C39_tamper_signed_weight.

(* Verify sees positions only as map keys: ANY injective renaming of the revealed positions that the two VC verifications accept (with whatever TreeDepth <= 20) is accepted. *)
Theorem C39_position_relabel_generic :
  forall (PK Sig Msg Dig Prf : Type) (salt_ok : Sig -> N -> bool) 
    (commit_ok : Sig -> bool) (sig_ok : PK -> N -> Msg -> Sig -> bool)
    (coin : seed Msg Dig -> nat -> N) (prf_depth : Prf -> N)
    (vcs_verify : Dig -> list (N * slotC Sig) -> Prf -> bool)
    (vcp_verify : Dig -> list (N * participant PK) -> Prf -> bool) 
    (v : verifier Dig) (round : N) (data : Msg) (s : stateproof PK Sig Dig Prf) 
    (f : N -> N) (sp' pp' : Prf),
  verify salt_ok commit_ok sig_ok coin prf_depth vcs_verify vcp_verify v round data s = SOk tt ->
  (forall a b : N,
   In a (map fst (sp_reveals s)) -> In b (map fst (sp_reveals s)) -> f a = f b -> a = b) ->
  prf_depth sp' <= MaxTreeDepth ->
  prf_depth pp' <= MaxTreeDepth ->
  vcs_verify (sp_sigcommit s) (sig_claims (sp_reveals (relabel f s sp' pp'))) sp' = true ->
  vcp_verify (v_partcom v) (part_claims (sp_reveals (relabel f s sp' pp'))) pp' = true ->
  verify salt_ok commit_ok sig_ok coin prf_depth vcs_verify vcp_verify v round data
    (relabel f s sp' pp') = SOk tt.
Proof. exact position_relabel_accepted. Qed.
Print Assumptions C39_position_relabel_generic.

(* stateproof/verify.ValidateStateProof accepts exactly when state proofs are enabled, the attested round is a multiple of the interval, the signed weight reaches the acceptable weight, provenWeight = total*threshold/2^32 does not overflow, its ln approximation exists, and Verifier.Verify accepts for (lastAttestedRound, message). *)
Theorem C39_validate_accepts_exactly :
  forall (PK Sig Msg Dig Prf : Type) (ln_approx : N -> option N)
    (inner : verifier Dig -> N -> Msg -> stateproof PK Sig Dig Prf -> spres unit)
    (c : vctx Dig) (s : stateproof PK Sig Dig Prf) (atRound : N) (msg : Msg),
  validate_with ln_approx inner c s atRound msg = SOk tt <->
  c_interval c <> 0 /\
  c_last c mod c_interval c = 0 /\
  acceptableWeight (c_interval c) (c_threshold c) (c_total c) (c_last c) atRound <= sp_sw s /\
  (exists pw lnpw : N,
     muldiv (c_total c) (c_threshold c) (2 ^ 32) = (pw, false) /\
     ln_approx pw = Some lnpw /\
     inner {| v_st := c_strength c; v_lnpw := lnpw; v_partcom := c_voters c |} 
       (c_last c) msg s = SOk tt).
Proof. exact validate_ok_iff. Qed.
Print Assumptions C39_validate_accepts_exactly.

(* The acceptable weight lies between the proven weight and the total online weight. *)
Theorem C39_acceptable_weight_bounds :
  forall interval threshold total last fv pw : N,
  total < W64 ->
  muldiv total threshold (2 ^ 32) = (pw, false) ->
  pw <= total -> pw <= acceptableWeight interval threshold total last fv <= total.
Proof. exact acceptable_bounds. Qed.
Print Assumptions C39_acceptable_weight_bounds.

(* The premises on the vector commitment are theorems of C37 for the merklearray model, for every hash with the digest size ... *)
Theorem C39_merkle_vc_complete :
  forall (E : Type) (s : nat) (hleaf : E -> digest) (hbottom : digest)
    (hnode : list N -> digest),
  hash_sizes E s hleaf hbottom hnode ->
  vc_complete (mroot E s hleaf hbottom hnode) (mprove E s hleaf hbottom hnode)
    (mverify E s hleaf hnode) p_depth.
Proof. exact merkle_vc_complete. Qed.
Print Assumptions C39_merkle_vc_complete.

(* ... and, for soundness, without collisions (C37's explicit hash assumptions). *)
Theorem C39_merkle_vc_sound :
  forall (E : Type) (s : nat) (hleaf : E -> digest) (hbottom : digest)
    (hnode : list N -> digest),
  hash_sizes E s hleaf hbottom hnode ->
  hash_ideal E s hleaf hbottom hnode ->
  vc_sound (mroot E s hleaf hbottom hnode) (mverify E s hleaf hnode) p_depth
    (mtreedepth E s hleaf hbottom hnode) (mposmap E s hleaf hbottom hnode).
Proof. exact merkle_vc_sound. Qed.
Print Assumptions C39_merkle_vc_sound.

(* REFUTED clause "a proof with a tampered reveal (position) fails verification": the whole
   pipeline over the merklearray model with C37's ideal toy hash -- 3 participants of weight 5, all
   sign, proven weight 5; the honest proof reveals positions [1;0;2] with TreeDepth 2 and verifies;
   the SAME reveals under the keys [2;0;4] (4 is past the end of the array), PositionsToReveal
   renamed accordingly and TreeDepth 3 in both VC proofs verify as well.  Replayed on the Go code by
   the harness (mutations relabel_.., depth_only_..); recorded finding c39_position_relabel_via_treedepth. *)
Theorem C39_position_relabel_refuted :
  t_verify t_v 8 42 t_sp = SOk tt /\
  sp_positions t_sp = [1; 0; 2] /\
  sp_positions t_sp' = [2; 0; 4] /\
  map fst (sp_reveals t_sp') = [2; 0; 4] /\
  map snd (sp_reveals t_sp') = map snd (sp_reveals t_sp) /\
  sp_sigcommit t_sp' = sp_sigcommit t_sp /\ sp_sw t_sp' = sp_sw t_sp /\
  (length t_parts = 3)%nat /\
  t_verify t_v 8 42 t_sp' = SOk tt.
Proof. exact position_relabel_witness. Qed.
Print Assumptions C39_position_relabel_refuted.

(* REFUTED before fixes/C39.patch, clause "built from valid participant signatures whose weight
   exceeds the proven weight => verifies": a prover reached by IsValid(.., true) + Add of the unfixed
   code, signed weight 10 > proven weight 3, numReveals = 3, and CreateProof fails with the commit
   error -- for as long as the signature stays; the fixed IsValid rejects that signature.  The real
   signature (genuine, with SingleLeafProof.TreeDepth 17 and the index renamed) is replayed by the
   harness (cases isvalid / prove with commitok = 0). *)
Theorem C39_valid_sig_uncommittable_refuted :
  built 0 0 (fun _ _ => true) u_commit_ok (fun _ _ _ _ => true) false 0 0 3 72000 u_parts 4 u_b1 /\
  ready u_b1 = true /\
  numReveals (Z.of_N (b_sw u_b1)) 72000 4 = WOk 3%Z /\
  createProof (Dig := N) (Prf := N) 0 u_commit_ok (fun _ _ => 0) (fun _ => 0) (fun _ _ => Some 0)
              (fun _ => 0) (fun _ _ => Some 0) u_b1 = SErr ECommit /\
  isValid 0 (fun _ _ => true) u_commit_ok (fun _ _ _ _ => true) u_b0 0 1 true = SErr ECommit.
Proof. exact valid_sig_uncommittable_witness. Qed.
Print Assumptions C39_valid_sig_uncommittable_refuted.

(* Soundness of the oracle [check] evaluates on the implementation's observations: on the recorded
   facts it is the model's acceptance, i.e. (C39_verify_accepts_exactly) [accept_facts] of the
   instance whose abstract functions are those facts. *)
Theorem C39_spec_ok_sound :
  forall (st lnpw sw dS dP : N) (positions : list N) (rf : list rfact) (vcs vcp : bool) (coins : list N),
  sw < W64 -> (length positions <= length coins)%nat ->
  (forall f, In f rf -> rf_L f + rf_w f < W64) ->
  (facts_ok st lnpw sw dS dP positions rf vcs vcp coins = true <->
   model_verify st lnpw sw dS dP positions rf vcs vcp coins = SOk tt).
Proof. exact facts_ok_iff_model. Qed.
Print Assumptions C39_spec_ok_sound.

(* Non-vacuity.  The hash premises are satisfiable (C37's toy hash), so the merklearray instance
   meets [vc_complete] / [vc_sound]; and a concrete run: prover built by three IsValid+Add steps,
   signed weight 15 > proven weight 5, the proof reveals [1;0;2] and verifies for (round 8,
   message 42), also for round 9 of the same key window, and is rejected for round 12 and for
   message 43. *)
Example C39_vc_premises_satisfiable :
  vc_complete (mroot N 1 toy_hleaf toy_hbottom toy_hnode) (mprove N 1 toy_hleaf toy_hbottom toy_hnode)
              (mverify N 1 toy_hleaf toy_hnode) p_depth /\
  vc_sound (mroot N 1 toy_hleaf toy_hbottom toy_hnode) (mverify N 1 toy_hleaf toy_hnode) p_depth
           (mtreedepth N 1 toy_hleaf toy_hbottom toy_hnode) (mposmap N 1 toy_hleaf toy_hbottom toy_hnode).
Proof.
  split; [apply merkle_vc_complete; exact toy_sizes | apply merkle_vc_sound; [exact toy_sizes | exact toy_ideal]].
Qed.

Example C39_honest_instance :
  built 0 0 t_salt_ok t_commit_ok t_sig_ok true 42 8 5 105477 t_parts 4 t_b /\
  b_sw t_b = 15 /\ ready t_b = true /\
  t_create t_b = SOk t_sp /\
  sp_positions t_sp = [1; 0; 2] /\ length (sp_reveals t_sp) = 3%nat /\
  p_depth (sp_sigproofs t_sp) = 2 /\
  t_verify t_v 8 42 t_sp = SOk tt /\
  t_verify t_v 9 42 t_sp = SOk tt /\
  t_verify t_v 12 42 t_sp = SErr ESig /\
  t_verify t_v 8 43 t_sp = SErr ESig.
Proof. exact honest_instance. Qed.
