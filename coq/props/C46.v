(* C46 Wallet keys are deterministic, unique and password-protected.
   Property theorems only: each is closed by [exact <lemma>] and followed by Print Assumptions.

   Model: model/Wallet.v (the kmd SQLite wallet: state = rows of tables keys / msig_addrs, highest
   derivation index, MDK, name, what the password unlocks, the handle's cached password hash;
   [step] transcribes sqlite.go).  The theorems hold for EVERY operation sequence [ops] from
   [create m pw nm] (lists of any length), for arbitrary carrier types, and for arbitrary
   derive / addr / kdf / kdff subject only to the premises written out in each statement:
     - the equality tests decide equality,
     - derive_inj: no two derivation indices of one MDK give the same address,
     - kdff_inj (password theorems): the salted fast hash is injective.
   Nothing is assumed of the slow KDF [kdf] (scrypt); "wrong password" means kdf pw <> kdf pw0.
   For the real scrypt this is weaker than pw <> pw0: C46_wrong_password_bytes_refuted. *)
From Coq Require Import NArith List Bool Sorted.
Import ListNotations.
From Verif.lib Require Import Term.
From Verif.model Require Import Wallet WalletSpec.
From Verif.proofs Require Import WalletProofs WalletSpecProofs.
Open Scope N_scope.

(* "No address appears twice": the key table and the multisig table never hold a duplicate. *)
Theorem C46_no_duplicate_address :
  forall (A K M P H F Nm PW : Type) (A_eqb : A -> A -> bool) (H_eqb : H -> H -> bool)
         (F_eqb : F -> F -> bool) (Nm_eqb : Nm -> Nm -> bool) (derive : M -> N -> K)
         (addr : K -> A) (maddr : P -> option A) (kdf : PW -> H) (kdff : PW -> F) (mdk0 : M),
    (forall a b, A_eqb a b = true <-> a = b) ->
    (forall a b, H_eqb a b = true <-> a = b) ->
    (forall m i j, addr (derive m i) = addr (derive m j) -> i = j) ->
    forall (m : M) (pw : PW) (nm : Nm) (ops : list (op A K P Nm PW)),
      let s := run A_eqb H_eqb F_eqb Nm_eqb derive addr maddr kdf kdff mdk0 (create kdf m pw nm) ops in
      NoDup (addrs s) /\ NoDup (maddrs s).
Proof. exact no_duplicate_address. Qed.
Print Assumptions C46_no_duplicate_address.

(* "The keys a wallet generates are the deterministic sequence derived from its MDK": the
   successful GenerateKey calls of any run form a chain 0 = n_0 < n_1 < ... < n_k = highest index;
   the i-th returns addr (derive m n_i), an address not yet in the wallet, and every index skipped
   between n_(i-1) and n_i was at that moment the address of an imported row (Wallet.gen_chain). *)
Theorem C46_generated_are_derived :
  forall (A K M P H F Nm PW : Type) (A_eqb : A -> A -> bool) (H_eqb : H -> H -> bool)
         (F_eqb : F -> F -> bool) (Nm_eqb : Nm -> Nm -> bool) (derive : M -> N -> K)
         (addr : K -> A) (maddr : P -> option A) (kdf : PW -> H) (kdff : PW -> F) (mdk0 : M),
    (forall a b, A_eqb a b = true <-> a = b) ->
    (forall a b, H_eqb a b = true <-> a = b) ->
    (forall m i j, addr (derive m i) = addr (derive m j) -> i = j) ->
    forall (m : M) (pw : PW) (nm : Nm) (ops : list (op A K P Nm PW)),
      gen_chain derive addr m 0
        (gen_trace A_eqb H_eqb F_eqb Nm_eqb derive addr maddr kdf kdff mdk0 (create kdf m pw nm) ops)
        (maxidx (run A_eqb H_eqb F_eqb Nm_eqb derive addr maddr kdf kdff mdk0 (create kdf m pw nm) ops)).
Proof. exact generated_are_derived. Qed.
Print Assumptions C46_generated_are_derived.

Theorem C46_generated_strictly_increasing :
  forall (A K M P H F Nm PW : Type) (A_eqb : A -> A -> bool) (H_eqb : H -> H -> bool)
         (F_eqb : F -> F -> bool) (Nm_eqb : Nm -> Nm -> bool) (derive : M -> N -> K)
         (addr : K -> A) (maddr : P -> option A) (kdf : PW -> H) (kdff : PW -> F) (mdk0 : M),
    (forall a b, A_eqb a b = true <-> a = b) ->
    (forall a b, H_eqb a b = true <-> a = b) ->
    (forall m i j, addr (derive m i) = addr (derive m j) -> i = j) ->
    forall (m : M) (pw : PW) (nm : Nm) (ops : list (op A K P Nm PW)),
      let tr := gen_trace A_eqb H_eqb F_eqb Nm_eqb derive addr maddr kdf kdff mdk0 (create kdf m pw nm) ops in
      StronglySorted (fun e1 e2 : gen_event A K M P H F Nm => g_idx e1 < g_idx e2) tr /\
      Forall (fun e : gen_event A K M P H F Nm =>
                1 <= g_idx e <= maxidx (run A_eqb H_eqb F_eqb Nm_eqb derive addr maddr kdf kdff mdk0
                                            (create kdf m pw nm) ops) /\
                g_addr e = addr (derive m (g_idx e))) tr.
Proof. exact generated_strictly_increasing. Qed.
Print Assumptions C46_generated_strictly_increasing.

(* "A wallet restored from that key regenerates the same addresses": a wallet created from the
   same MDK (any password, any name) that is initialised and asked for n keys returns
   addr (derive m 1), ..., addr (derive m n) in this order ... *)
Theorem C46_restore_fresh :
  forall (A K M P H F Nm PW : Type) (A_eqb : A -> A -> bool) (H_eqb : H -> H -> bool)
         (F_eqb : F -> F -> bool) (Nm_eqb : Nm -> Nm -> bool) (derive : M -> N -> K)
         (addr : K -> A) (maddr : P -> option A) (kdf : PW -> H) (kdff : PW -> F) (mdk0 : M),
    (forall a b, A_eqb a b = true <-> a = b) ->
    (forall a b, H_eqb a b = true <-> a = b) ->
    (forall m i j, addr (derive m i) = addr (derive m j) -> i = j) ->
    forall (m : M) (pw : PW) (nm : Nm) (n : nat),
      N.of_nat n < sqliteIntOverflow ->
      map (fun e : gen_event A K M P H F Nm => (g_idx e, g_addr e))
          (gen_trace A_eqb H_eqb F_eqb Nm_eqb derive addr maddr kdf kdff mdk0 (create kdf m pw nm)
                     (restore_ops A K P Nm PW pw n)) =
      map (fun i => (i, addr (derive m i))) (seqN 1 n).
Proof. exact restore_fresh. Qed.
Print Assumptions C46_restore_fresh.

(* ... hence every address the original wallet generated (in ANY run, at index g_idx e) is the
   g_idx e-th address the restored wallet generates: same addresses, same order (the indices of
   the original are strictly increasing), the original having skipped only imported keys
   (C46_generated_are_derived). *)
Theorem C46_restore_regenerates :
  forall (A K M P H F Nm PW : Type) (A_eqb : A -> A -> bool) (H_eqb : H -> H -> bool)
         (F_eqb : F -> F -> bool) (Nm_eqb : Nm -> Nm -> bool) (derive : M -> N -> K)
         (addr : K -> A) (maddr : P -> option A) (kdf : PW -> H) (kdff : PW -> F) (mdk0 : M),
    (forall a b, A_eqb a b = true <-> a = b) ->
    (forall a b, H_eqb a b = true <-> a = b) ->
    (forall m i j, addr (derive m i) = addr (derive m j) -> i = j) ->
    forall (m : M) (pw : PW) (nm : Nm) (ops : list (op A K P Nm PW))
           (e : gen_event A K M P H F Nm) (pw' : PW) (nm' : Nm) (n : nat),
      In e (gen_trace A_eqb H_eqb F_eqb Nm_eqb derive addr maddr kdf kdff mdk0 (create kdf m pw nm) ops) ->
      g_idx e <= N.of_nat n -> N.of_nat n < sqliteIntOverflow ->
      1 <= g_idx e <= maxidx (run A_eqb H_eqb F_eqb Nm_eqb derive addr maddr kdf kdff mdk0
                                  (create kdf m pw nm) ops) /\
      nth_error (map g_addr (gen_trace A_eqb H_eqb F_eqb Nm_eqb derive addr maddr kdf kdff mdk0
                                       (create kdf m pw' nm') (restore_ops A K P Nm PW pw' n)))
                (N.to_nat (g_idx e) - 1) = Some (g_addr e).
Proof. exact restore_regenerates. Qed.
Print Assumptions C46_restore_regenerates.

(* "Exporting or deleting a key or the master key fails without the correct password": in every
   reachable state every guarded operation (Init, CheckPassword, ExportKey, DeleteKey,
   ExportMasterDerivationKey, SignProgram, RenameWallet, DeleteMultisigAddr) given a password
   whose slow KDF differs from the creation password's returns an error and changes nothing. *)
Theorem C46_wrong_password_fails :
  forall (A K M P H F Nm PW : Type) (A_eqb : A -> A -> bool) (H_eqb : H -> H -> bool)
         (F_eqb : F -> F -> bool) (Nm_eqb : Nm -> Nm -> bool) (derive : M -> N -> K)
         (addr : K -> A) (maddr : P -> option A) (kdf : PW -> H) (kdff : PW -> F) (mdk0 : M),
    (forall a b, A_eqb a b = true <-> a = b) ->
    (forall a b, H_eqb a b = true <-> a = b) ->
    (forall a b, F_eqb a b = true <-> a = b) ->
    (forall a b, kdff a = kdff b -> a = b) ->
    (forall m i j, addr (derive m i) = addr (derive m j) -> i = j) ->
    forall (m : M) (pw0 : PW) (nm : Nm) (ops : list (op A K P Nm PW)) (o : op A K P Nm PW) (pw : PW),
      op_pw o = Some pw -> kdf pw <> kdf pw0 ->
      let s := run A_eqb H_eqb F_eqb Nm_eqb derive addr maddr kdf kdff mdk0 (create kdf m pw0 nm) ops in
      fst (step A_eqb H_eqb F_eqb Nm_eqb derive addr maddr kdf kdff mdk0 s o) = s /\
      is_err (snd (step A_eqb H_eqb F_eqb Nm_eqb derive addr maddr kdf kdff mdk0 s o)) = true.
Proof. exact wrong_password_fails. Qed.
Print Assumptions C46_wrong_password_fails.

(* The statement with pw <> pw0 in place of kdf pw <> kdf pw0 is FALSE of the faithful model when
   kdf is what scrypt (PBKDF2-HMAC-SHA256) sees of a password, the zero-padded HMAC key
   (WalletSpec.hmac_key): a wallet created with "hunter2" is opened by "hunter2\0", which then
   exports the MDK, deletes keys and renames the wallet, while "hunter2" itself is refused on that
   handle.  Finding c46_password_trailing_nul; the harness replays this witness on the real
   code in every run. *)
Theorem C46_wrong_password_bytes_refuted :
  exists (pw0 pw m nm : bytes),
    pw <> pw0 /\
    let s0 : cstate := create c_kdf m pw0 nm in
    let s := fst (c_step w_tabs s0 (OInit pw)) in
    snd (c_step w_tabs s0 (OInit pw)) = ROk /\
    snd (c_step w_tabs s (OExportMDK pw)) = RMdk m /\
    snd (c_step w_tabs s (ODelete [] pw)) = ROk /\
    snd (c_step w_tabs s (ORename [1] pw)) = ROk /\
    is_err (snd (c_step w_tabs s (OExportMDK pw0))) = true.
Proof. exact wrong_password_bytes_refuted. Qed.
Print Assumptions C46_wrong_password_bytes_refuted.

(* the protection is not vacuous: with an accepted password an initialised handle exports, for
   every address in the wallet, a key with exactly that address *)
Theorem C46_export_right_password :
  forall (A K M P H F Nm PW : Type) (A_eqb : A -> A -> bool) (H_eqb : H -> H -> bool)
         (F_eqb : F -> F -> bool) (Nm_eqb : Nm -> Nm -> bool) (derive : M -> N -> K)
         (addr : K -> A) (maddr : P -> option A) (kdf : PW -> H) (kdff : PW -> F) (mdk0 : M),
    (forall a b, A_eqb a b = true <-> a = b) ->
    (forall a b, H_eqb a b = true <-> a = b) ->
    (forall m i j, addr (derive m i) = addr (derive m j) -> i = j) ->
    forall (m : M) (pw0 : PW) (nm : Nm) (ops : list (op A K P Nm PW)) (a : A) (pw : PW),
      let s := run A_eqb H_eqb F_eqb Nm_eqb derive addr maddr kdf kdff mdk0 (create kdf m pw0 nm) ops in
      inited s = true -> In a (addrs s) -> pw_ok H_eqb F_eqb kdf kdff s pw = true ->
      exists k, step A_eqb H_eqb F_eqb Nm_eqb derive addr maddr kdf kdff mdk0 s (OExport a pw) = (s, RKey k) /\
                addr k = a.
Proof. exact export_right_password_reachable. Qed.
Print Assumptions C46_export_right_password.

(* the fuel the model gives the unbounded skip loop of generateKeyTxLocked is always enough *)
Theorem C46_fuel_is_enough :
  forall (A K M P H F Nm PW : Type) (A_eqb : A -> A -> bool) (H_eqb : H -> H -> bool)
         (F_eqb : F -> F -> bool) (Nm_eqb : Nm -> Nm -> bool) (derive : M -> N -> K)
         (addr : K -> A) (maddr : P -> option A) (kdf : PW -> H) (kdff : PW -> F) (mdk0 : M),
    (forall a b, A_eqb a b = true <-> a = b) ->
    (forall a b, H_eqb a b = true <-> a = b) ->
    (forall m i j, addr (derive m i) = addr (derive m j) -> i = j) ->
    forall (m : M) (pw0 : PW) (nm : Nm) (ops : list (op A K P Nm PW)) (o : op A K P Nm PW),
      snd (step A_eqb H_eqb F_eqb Nm_eqb derive addr maddr kdf kdff mdk0
                (run A_eqb H_eqb F_eqb Nm_eqb derive addr maddr kdf kdff mdk0 (create kdf m pw0 nm) ops) o)
      <> RErr EOutOfFuel.
Proof. exact fuel_is_enough. Qed.
Print Assumptions C46_fuel_is_enough.

(* ---- the executable oracle used on the implementation's observations ------------------------- *)
(* soundness: what [spec_step] accepting an observed step means (WalletSpecProofs.step_okP:
   S1 duplicate-free listing whose indexed rows are derived keys, S2 wrong password => error and
   unchanged listing, S3 generate = least unused index above all previous, S5 export) *)
Theorem C46_spec_step_sound :
  forall (A K M P H Nm PW : Type) (A_eqb : A -> A -> bool) (H_eqb : H -> H -> bool)
         (Nm_eqb : Nm -> Nm -> bool) (derive : M -> N -> K) (addr : K -> A) (kdf : PW -> H),
    (forall a b, A_eqb a b = true <-> a = b) ->
    (forall a b, H_eqb a b = true <-> a = b) ->
    (forall a b, Nm_eqb a b = true <-> a = b) ->
    forall (m : M) (pw0 : PW) (prev : listing A Nm) (ac : acc A) (o : op A K P Nm PW)
           (r : ires A K M) (cur : listing A Nm) (ac' : acc A),
      spec_step A K M P H Nm PW A_eqb H_eqb Nm_eqb derive addr kdf m pw0 prev ac o r cur = Some ac' ->
      step_okP A K M P H Nm PW derive addr kdf m pw0 prev (a_hp ac) o r cur (a_hp ac').
Proof. exact spec_step_sound. Qed.
Print Assumptions C46_spec_step_sound.

(* S4 (restore): what [restore_ok] means for two observed wallets of one MDK *)
Theorem C46_restore_ok_sound :
  forall (A : Type) (A_eqb : A -> A -> bool),
    (forall a b, A_eqb a b = true <-> a = b) ->
    forall (a1 a2 : acc A) (n : N) (a : A),
      restore_ok A A_eqb a1 a2 = true -> In (n, a) (a_gens a1) -> n <= a_hp a2 ->
      In (n, a) (a_gens a2) \/ In a (a_skip a2).
Proof. exact restore_ok_sound. Qed.
Print Assumptions C46_restore_ok_sound.

(* the model's own observations pass the oracle on EVERY operation sequence: whenever the
   implementation agrees with the model the oracle cannot raise a false alarm, and the oracle's
   highest index is the wallet's *)
Theorem C46_model_passes_spec :
  forall (A K M P H F Nm PW : Type) (A_eqb : A -> A -> bool) (H_eqb : H -> H -> bool)
         (F_eqb : F -> F -> bool) (Nm_eqb : Nm -> Nm -> bool) (derive : M -> N -> K)
         (addr : K -> A) (maddr : P -> option A) (kdf : PW -> H) (kdff : PW -> F) (mdk0 : M),
    (forall a b, A_eqb a b = true <-> a = b) ->
    (forall a b, H_eqb a b = true <-> a = b) ->
    (forall a b, F_eqb a b = true <-> a = b) ->
    (forall a b, Nm_eqb a b = true <-> a = b) ->
    (forall m i j, addr (derive m i) = addr (derive m j) -> i = j) ->
    (forall a b, kdff a = kdff b -> a = b) ->
    forall (m : M) (pw0 : PW) (nm : Nm) (ops : list (op A K P Nm PW)),
      exists ac : acc A,
        spec_wallet A K M P H Nm PW A_eqb H_eqb Nm_eqb derive addr kdf m pw0 nm
          (model_steps A K M P H F Nm PW A_eqb H_eqb F_eqb Nm_eqb derive addr maddr kdf kdff mdk0
                       (create kdf m pw0 nm) ops) = Some ac /\
        a_hp ac = maxidx (run A_eqb H_eqb F_eqb Nm_eqb derive addr maddr kdf kdff mdk0
                              (create kdf m pw0 nm) ops).
Proof. exact model_passes_spec. Qed.
Print Assumptions C46_model_passes_spec.

(* ---- non-vacuity ------------------------------------------------------------------------------ *)
(* an instance (carriers N, derive m i = i, addr = kdf = kdff = identity) meets every premise *)
Example C46_hypotheses_satisfiable :
  (forall a b : N, N.eqb a b = true <-> a = b) /\
  (forall (m i j : N), (fun k : N => k) ((fun (_ : N) (i : N) => i) m i) =
                       (fun k : N => k) ((fun (_ : N) (i : N) => i) m j) -> i = j) /\
  (forall a b : N, (fun pw : N => pw) a = (fun pw : N => pw) b -> a = b).
Proof. exact ex_hypotheses. Qed.

(* on it: Generate before Init fails, Init 9 (wrong) fails, Init 7; key 2 imported (twice: second
   refused); Generate, Generate -> indices 1 and 3 (2 skipped); Delete / Export with password 9
   refused; Export 3 and Delete 1 with 7; Generate -> 4.  The oracle accepts the model's trace with
   highest index 4, generated (1,3,4), skipped address 2. *)
Example C46_example_run :
  let tr := gen_trace N.eqb N.eqb N.eqb N.eqb (fun (_ : N) (i : N) => i) (fun k : N => k)
                      (fun p : N => Some p) (fun pw : N => pw) (fun pw : N => pw) 0
                      (create (fun pw : N => pw) 5 7 0) ex_ops in
  map (fun e => (g_idx e, g_addr e)) tr = [(1, 1); (3, 3); (4, 4)] /\
  let s := run N.eqb N.eqb N.eqb N.eqb (fun (_ : N) (i : N) => i) (fun k : N => k)
               (fun p : N => Some p) (fun pw : N => pw) (fun pw : N => pw) 0
               (create (fun pw : N => pw) 5 7 0) ex_ops in
  map (fun r => (key_addr r, key_idx r)) (keys s) = [(2, None); (3, Some 3); (4, Some 4)] /\
  spec_wallet N N N N N N N N.eqb N.eqb N.eqb (fun (_ : N) (i : N) => i) (fun k : N => k)
              (fun pw : N => pw) 5 7 0
              (model_steps N N N N N N N N N.eqb N.eqb N.eqb N.eqb (fun (_ : N) (i : N) => i)
                 (fun k : N => k) (fun p : N => Some p) (fun pw : N => pw) (fun pw : N => pw) 0
                 (create (fun pw : N => pw) 5 7 0) ex_ops)
  = Some (mkAcc 4 [(1, 1); (3, 3); (4, 4)] [2]).
Proof. exact ex_run. Qed.

(* the oracle rejects: a first generated index 2; a DeleteKey accepted under a wrong password; a
   listing with a duplicate address; a generate that skips an index nobody imported *)
Example C46_oracle_rejects :
  let sp := spec_wallet N N N N N N N N.eqb N.eqb N.eqb (fun (_ : N) (i : N) => i) (fun k : N => k)
                        (fun pw : N => pw) 5 7 0 in
  sp [(OGenerate false, IAddr 2, mkL 0 [2] [(2, Some 2)] [])] = None /\
  sp [(OGenerate false, IAddr 1, mkL 0 [1] [(1, Some 1)] []);
      (ODelete 1 9, IOk, mkL 0 [] [] [])] = None /\
  sp [(OGenerate false, IAddr 1, mkL 0 [1] [(1, Some 1)] []);
      (OImport 1, IAddr 1, mkL 0 [1; 1] [(1, Some 1); (1, None)] [])] = None /\
  sp [(OImport 2, IAddr 2, mkL 0 [2] [(2, None)] []);
      (OGenerate false, IAddr 3, mkL 0 [2; 3] [(2, None); (3, Some 3)] [])] = None.
Proof. exact ex_spec_rejects. Qed.
