(* C27 Suspension and expiry lists are justified.
   Property theorems only (each closed by [exact <lemma>], followed by Print Assumptions).
   Model: model/Absent.v (validateExpiredOnlineAccounts, resetExpiredOnlineAccountsParticipationKeys,
   validateAbsentOnlineAccounts, suspendAbsentAccounts, isAbsent, FindChallenge/Failed/bitsMatch);
   declarative predicates and the oracle run on implementation observations: model/AbsentSpec.v.
   The statements hold for ALL states (any number of accounts), lists of any length and all
   values of the consensus parameters read.  Bounds: rounds below 2^63 and uint64 stakes, so
   that the Go round arithmetic does not wrap (see C27_isAbsent_wraps for what lies beyond).

   NOTE (deviation of the code from the property text, not a violation of these theorems):
   the property text only mentions the stake-proportional absence rule; the code (and the
   model) also accepts an account that failed an active CHALLENGE.  The theorems therefore
   state the disjunction [is_absent_spec \/ challenge_failed_spec]; the check reports how many
   accepted members were justified by each disjunct. *)
From Coq Require Import NArith ZArith List Bool String.
Import ListNotations.
From Verif.lib Require Import Term.
From Verif.model Require Import Overflow Absent AbsentSpec.
From Verif.proofs Require Import AbsentProofs.
Open Scope N_scope.

(* expired_justified: the expired list is accepted iff it has no duplicates, respects the
   maximum, and every member holds a vote key whose last valid round has passed *)
Theorem C27_expired_justified : forall st maxExp round l,
  validate_expired st maxExp round l = KOk <->
  NoDup l /\ (List.length l <= maxExp)%nat /\
  (forall a, In a l -> a_hasvote (lookup st a) = true /\ a_lastvalid (lookup st a) < round).
Proof. exact validate_expired_iff. Qed.
Print Assumptions C27_expired_justified.

(* absent_justified: the absent list is accepted iff it has no duplicates, respects
   MaxMarkAbsent, and every member is Online, holds algos, is IncentiveEligible and is absent
   by the stake-proportional rule OR failed the active challenge *)
Theorem C27_absent_justified : forall st sk h p l,
  state_bounded st -> stakes_bounded sk -> params_bounded p -> hdrs_bytes h -> Forall bytes l ->
  (validate_absent st sk h p l = KOk <->
   NoDup l /\ (List.length l <= k_max_abs p)%nat /\
   (forall a, In a l ->
      let d := lookup st a in
      a_status d = st_online /\ 0 < a_algos d /\ a_elig d = true /\
      (is_absent_spec (k_total p) (stake_of sk a) (last_seen d) (k_round p) = true \/
       challenge_failed_spec (k_rules p) h (k_round p) a (last_seen d) = true))).
Proof. exact validate_absent_iff. Qed.
Print Assumptions C27_absent_justified.

(* isAbsent_spec: the absence arithmetic *)
Theorem C27_isAbsent_spec : forall total stake lastSeen current,
  total < 2 ^ 64 -> stake < 2 ^ 64 -> lastSeen < 2 ^ 63 ->
  (is_absent total stake lastSeen current = true <->
   lastSeen <> 0 /\ stake <> 0 /\ 20 * total / stake <= 2 ^ 32 - 1 /\
   lastSeen + 20 * total / stake < current).
Proof. exact is_absent_prop. Qed.
Print Assumptions C27_isAbsent_spec.

(* beyond the bound the uint64 addition wraps: an account seen in round 2^64-1 counts as
   absent in round 5 (unreachable: rounds never get there) *)
Theorem C27_isAbsent_wraps :
  is_absent 1 20 (2 ^ 64 - 1) 5 = true /\ is_absent_spec 1 20 (2 ^ 64 - 1) 5 = false.
Proof. exact is_absent_wrap_witness. Qed.
Print Assumptions C27_isAbsent_wraps.

(* the challenge disjunct, declaratively: the last challenge round lc = interval*(round/interval)
   is non-zero, the round lies in (lc+grace, lc+2*grace], the header of lc is available and was
   produced under the same payout rules, the first ChallengeBits bits of its seed equal those
   of the address, and the account was last seen before lc *)
Theorem C27_challenge_spec : forall ru h cur a ls,
  challenge_failed_spec ru h cur a ls = true <->
  exists lc seed,
    r_interval ru <> 0 /\ lc = r_interval ru * (cur / r_interval ru) /\ lc <> 0 /\
    lc + r_grace ru < cur /\ cur <= lc + 2 * r_grace ru /\
    hdr_of h lc = Some (seed, true) /\
    top_bits_equal seed a (r_bits ru) = true /\ ls < lc.
Proof. exact challenge_failed_spec_prop. Qed.
Print Assumptions C27_challenge_spec.

(* FindChallenge(ChActive) + Failed compute that predicate; bitsMatch is the prefix comparison *)
Theorem C27_challenge_code_is_spec : forall ru cur h a ls,
  cur < 2 ^ 63 -> r_grace ru < 2 ^ 62 -> hdrs_bytes h -> bytes a ->
  ch_failed (find_challenge ru cur h) a ls = challenge_failed_spec ru h cur a ls.
Proof. exact challenge_failed_is_spec. Qed.
Print Assumptions C27_challenge_code_is_spec.

Theorem C27_bits_match_spec : forall a b n, bytes a -> bytes b ->
  bits_match a b n = top_bits_equal a b n.
Proof. exact bits_match_is_spec. Qed.
Print Assumptions C27_bits_match_spec.

(* the block level (endOfBlock order: validate expired, reset them, validate absent on the
   result, suspend): the lists are accepted iff BOTH are justified against the state before
   the block's lists are applied and no account is in both *)
Theorem C27_block_lists_justified : forall st sk h p ex ab,
  state_bounded st -> stakes_bounded sk -> params_bounded p -> hdrs_bytes h -> Forall bytes ab ->
  (fst (knockoff st sk h p ex ab) = KOk <->
   (NoDup ex /\ (List.length ex <= k_max_exp p)%nat /\ (forall a, In a ex -> exp_member st (k_round p) a)) /\
   (NoDup ab /\ (List.length ab <= k_max_abs p)%nat /\ (forall a, In a ab -> abs_member st sk h p a)) /\
   (forall a, In a ab -> ~ In a ex)).
Proof. exact knockoff_accepts_iff. Qed.
Print Assumptions C27_block_lists_justified.

(* what an accepted block does: expired accounts go Offline and lose their keys, absent
   accounts go Offline and lose IncentiveEligible (keys kept), nobody else is touched *)
Theorem C27_block_effect : forall st sk h p ex ab st',
  knockoff st sk h p ex ab = (KOk, st') ->
  forall x, lookup st' x =
    if mem x ab then suspend (if mem x ex then clear_online (lookup st x) else lookup st x)
    else if mem x ex then clear_online (lookup st x) else lookup st x.
Proof. exact knockoff_effect. Qed.
Print Assumptions C27_block_effect.

(* the executable oracle evaluated on implementation observations says what the property
   says, and the model satisfies it on every input *)
Theorem C27_oracle_sound : forall st sk h p ex ab,
  spec_knockoff_ok st sk h p ex ab true = true <->
  (NoDup ex /\ (List.length ex <= k_max_exp p)%nat /\ (forall a, In a ex -> exp_member st (k_round p) a)) /\
  (NoDup ab /\ (List.length ab <= k_max_abs p)%nat /\ (forall a, In a ab -> abs_member st sk h p a)).
Proof. exact spec_knockoff_ok_sound. Qed.
Print Assumptions C27_oracle_sound.

Theorem C27_model_meets_oracle : forall st sk h p ex ab,
  state_bounded st -> stakes_bounded sk -> params_bounded p -> hdrs_bytes h -> Forall bytes ab ->
  spec_knockoff_ok st sk h p ex ab
    (match fst (knockoff st sk h p ex ab) with KOk => true | _ => false end) = true.
Proof. exact model_meets_knockoff_oracle. Qed.
Print Assumptions C27_model_meets_oracle.

(* anti-vacuity: a population in which one account is expired, one absent by the rule, one
   absent only by the challenge, and one fresh; the justified lists are accepted, each
   unjustified variation is rejected with the corresponding error *)
Definition ex_seed : list N := [168; 1; 2].              (* 10101000 ... *)
Definition ex_a1 : addr := [1; 1; 1].                    (* expired keys *)
Definition ex_a2 : addr := [2; 2; 2].                    (* absent by the rule: lag 20*1000/100 = 200 *)
Definition ex_a3 : addr := [175; 9; 9].                  (* 10101111: shares 5 bits with the seed *)
Definition ex_a4 : addr := [4; 4; 4].                    (* fresh *)
Definition ex_st : state :=
  [(ex_a1, mkAcct 1 5 true true 1299 1290 0); (ex_a2, mkAcct 1 100 true true 5000 1099 900);
   (ex_a3, mkAcct 1 1 true true 5000 999 998); (ex_a4, mkAcct 1 100 true true 5000 1200 0)].
Definition ex_sk : stakes := [(ex_a1, 5); (ex_a2, 100); (ex_a3, 1); (ex_a4, 100)].
Definition ex_h : hdrs := [(1000, (ex_seed, true))].
Definition ex_p : kparams := mkKP 32 32 1300 1000 (mkRules 1000 200 5).

Example C27_nonvacuous :
  knockoff ex_st ex_sk ex_h ex_p [ex_a1] [ex_a2; ex_a3] =
    (KOk, suspend_absent (put ex_st ex_a1 (clear_online (lookup ex_st ex_a1))) [ex_a2; ex_a3]) /\
  justified_by ex_st ex_sk ex_h ex_p [ex_a2; ex_a3] = (1, 1, 0) /\
  fst (knockoff ex_st ex_sk ex_h ex_p [ex_a2] []) = KExpNotExpired /\
  fst (knockoff ex_st ex_sk ex_h ex_p [ex_a1; ex_a1] []) = KExpDup /\
  fst (knockoff ex_st ex_sk ex_h ex_p [] [ex_a4]) = KAbsNotAbsent /\
  fst (knockoff ex_st ex_sk ex_h ex_p [ex_a1] [ex_a1]) = KAbsNotOnline /\
  fst (knockoff ex_st ex_sk ex_h ex_p [] [ex_a2; ex_a2]) = KAbsDup /\
  (* one round later (1401) the challenge window is over: a3 is no longer suspendable *)
  fst (knockoff ex_st ex_sk ex_h (mkKP 32 32 1401 1000 (mkRules 1000 200 5)) [] [ex_a3]) = KAbsNotAbsent /\
  (* boundary of the rule: lastSeen 1099 + lag 200 < 1300 holds, at round 1299 it does not *)
  is_absent 1000 100 1099 1300 = true /\ is_absent 1000 100 1099 1299 = false.
Proof. vm_compute. repeat split; reflexivity. Qed.

Example C27_nonvacuous_bounds :
  state_bounded ex_st /\ stakes_bounded ex_sk /\ params_bounded ex_p /\ hdrs_bytes ex_h /\
  Forall bytes [ex_a2; ex_a3].
Proof.
  unfold state_bounded, stakes_bounded, params_bounded, hdrs_bytes, bytes, acct_bounded.
  repeat (constructor; cbn); reflexivity.
Qed.
