(* C14 Catchpoint labels depend only on ledger history.
   Property theorems only: each is closed by [exact <lemma>] and followed by Print Assumptions.

   Objects (no proofs in those files):
     model/CatchpointLabel.v       the catchpoint tracker over the logical Merkle trie of C17:
                                   compaction of the deltas of a commit range, accountsUpdateBalances
                                   (Delete old leaf / Add new leaf per compacted account, resource and KV
                                   delta, the two KV skips, Commit), first stage (trie root + totals +
                                   digests recorded at the round), second stage (MakeLabel), pruning,
                                   newBlock / committedUpTo / reload; [crun] runs a schedule [list cop]
                                   over a history [list block]; [state_at] is the SPECIFICATION (fold of
                                   the first r blocks)
     model/CatchpointLabelCheck.v  the instance with the real leaf builders of C15 ([ckey], [cval],
                                   [cleaf H]) and the executable [check]
   All statements are for EVERY history, EVERY schedule (any interleaving of newBlock, committedUpTo r,
   reload), every CatchpointInterval > 0, MaxAcctLookback and CatchpointLookback, every hash function H
   and every key / value / leaf function meeting the stated hypotheses.

   HYPOTHESIS [leaves_distinct]: no two DIFFERENT keys ever share a leaf.  For accounts and
   resources it follows from C15 (leaf injective up to a hash collision); for KV entries it does
   NOT (recorded finding C15 kv_leaf_key_value_boundary), and without it the property is FALSE:
   [C14_label_schedule_dependent_refuted] (replayed on the real ledger by the harness; recorded
   finding kv_leaf_collision_schedule_dependent_label). *)
From Coq Require Import List NArith ZArith Bool.
Import ListNotations.
From Verif.model Require Import MerkleTrie MerkleTrieSpec MerkleTrieSha CatchpointHash CatchpointLabel CatchpointLabelCheck.
From Verif.proofs Require Import CatchpointLabelCompact CatchpointLabelTrie CatchpointLabelProofs
  CatchpointLabelRefute CatchpointLabelInstance.
Open Scope N_scope.

(* After ANY schedule: no trie call failed, the tracker DB holds state_at(dbRound), and the balances
   trie -- what is live in memory AND what is committed to its pages -- holds exactly
   { leaf k v | state_at(dbRound) k = Some v }, whatever the partition of the history into commits. *)
Theorem C14_trie_set_inv :
  forall (K V : Type) (keq_dec : forall a b : K, {a = b} + {a <> b}) (veqb : V -> V -> bool),
  (forall a b : V, veqb a b = true -> a = b) ->
  forall (kclass : K -> N) (leaf : K -> V -> key) (H : list N -> list N) (n : nat),
  (forall k v, length (leaf k v) = n /\ bytes_ok (leaf k v)) ->
  forall (hist : list (block K V)) (g : store K V) (gleaves : list key) (gtotals : list N),
  genesis_ok K V leaf g gleaves -> leaves_distinct K V keq_dec leaf hist g -> kv_old_ok K V keq_dec kclass hist g ->
  forall (P : params) (ops : list cop), p_interval P <> 0 ->
  let st := crun keq_dec veqb kclass leaf H P hist (init_state g gleaves gtotals) ops in
  c_err st = false /\
  (forall k, c_db st k = state_at keq_dec g hist (c_round st) k) /\
  exists s, Rel (c_trie st) s /\
    (forall x, In x (s_cur s) <-> exists k v, state_at keq_dec g hist (c_round st) k = Some v /\ x = leaf k v) /\
    (forall x, In x (s_committed s) <-> exists k v, state_at keq_dec g hist (c_round st) k = Some v /\ x = leaf k v).
Proof. exact trie_set_inv. Qed.
Print Assumptions C14_trie_set_inv.

(* hence (C17: the trie is a function of its element set) the committed root depends on the history
   and the DB round only -- not on schedule, reloads, interval, lookback (nor, the model having no
   page configuration at all, on the merkletrie MemoryConfig: that part is C17's tested layer) *)
Theorem C14_root_schedule_independent :
  forall (K V : Type) (keq_dec : forall a b : K, {a = b} + {a <> b}) (veqb : V -> V -> bool),
  (forall a b : V, veqb a b = true -> a = b) ->
  forall (kclass : K -> N) (leaf : K -> V -> key) (H : list N -> list N) (n : nat),
  (forall k v, length (leaf k v) = n /\ bytes_ok (leaf k v)) ->
  forall (hist : list (block K V)) (g : store K V) (gleaves : list key) (gtotals : list N),
  genesis_ok K V leaf g gleaves -> leaves_distinct K V keq_dec leaf hist g -> kv_old_ok K V keq_dec kclass hist g ->
  forall (P1 P2 : params) (ops1 ops2 : list cop), p_interval P1 <> 0 -> p_interval P2 <> 0 ->
  c_round (crun keq_dec veqb kclass leaf H P1 hist (init_state g gleaves gtotals) ops1) =
  c_round (crun keq_dec veqb kclass leaf H P2 hist (init_state g gleaves gtotals) ops2) ->
  committed_root H (crun keq_dec veqb kclass leaf H P1 hist (init_state g gleaves gtotals) ops1) =
  committed_root H (crun keq_dec veqb kclass leaf H P2 hist (init_state g gleaves gtotals) ops2).
Proof. exact root_schedule_independent. Qed.
Print Assumptions C14_root_schedule_independent.

(* THE PROPERTY: two nodes that processed the same blocks produce the same catchpoint label for
   every catchpoint round (for which both produce one), regardless of when each flushed or
   restarted and of their CatchpointInterval / MaxAcctLookback *)
Theorem C14_label_schedule_independent :
  forall (K V : Type) (keq_dec : forall a b : K, {a = b} + {a <> b}) (veqb : V -> V -> bool),
  (forall a b : V, veqb a b = true -> a = b) ->
  forall (kclass : K -> N) (leaf : K -> V -> key) (H : list N -> list N) (n : nat),
  (forall k v, length (leaf k v) = n /\ bytes_ok (leaf k v)) ->
  forall (hist : list (block K V)) (g : store K V) (gleaves : list key) (gtotals : list N),
  genesis_ok K V leaf g gleaves -> leaves_distinct K V keq_dec leaf hist g -> kv_old_ok K V keq_dec kclass hist g ->
  forall (P1 P2 : params) (ops1 ops2 : list cop) (R : N) (l1 l2 : list N),
  p_interval P1 <> 0 -> p_interval P2 <> 0 -> p_lookback P1 = p_lookback P2 -> p_nextras P1 = p_nextras P2 ->
  In (R, l1) (c_labels (crun keq_dec veqb kclass leaf H P1 hist (init_state g gleaves gtotals) ops1)) ->
  In (R, l2) (c_labels (crun keq_dec veqb kclass leaf H P2 hist (init_state g gleaves gtotals) ops2)) ->
  l1 = l2.
Proof. exact label_schedule_independent. Qed.
Print Assumptions C14_label_schedule_independent.

(* ... for the REAL keys, values and leaf builders (AccountHashBuilderV6 / ResourcesHashBuilderV6 /
   KvHashBuilderV6 over any hash function returning bytes): the structural hypotheses are theorems *)
Theorem C14_label_schedule_independent_real :
  forall (H : list N -> list N), (forall x, bytes_ok (H x)) ->
  forall (hist : list cblock) (g : store ckey cval) (gleaves : list key) (gtotals : list N),
  genesis_ok ckey cval (cleaf H) g gleaves -> leaves_distinct ckey cval ckey_dec (cleaf H) hist g ->
  kv_old_ok ckey cval ckey_dec cclass hist g ->
  forall (P1 P2 : params) (ops1 ops2 : list cop) (R : N) (l1 l2 : list N),
  p_interval P1 <> 0 -> p_interval P2 <> 0 -> p_lookback P1 = p_lookback P2 -> p_nextras P1 = p_nextras P2 ->
  In (R, l1) (c_labels (crun ckey_dec cval_eqb cclass (cleaf H) H P1 hist (init_state g gleaves gtotals) ops1)) ->
  In (R, l2) (c_labels (crun ckey_dec cval_eqb cclass (cleaf H) H P2 hist (init_state g gleaves gtotals) ops2)) ->
  l1 = l2.
Proof. exact label_schedule_independent_real. Qed.
Print Assumptions C14_label_schedule_independent_real.

(* accountsUpdateBalances walks compactKvDeltas in Go map order: any two orders of any two
   descriptions of one change (one entry per changed key) give the same trie *)
Theorem C14_update_balances_any_order :
  forall (K V : Type), (forall a b : K, {a = b} + {a <> b}) ->
  forall (veqb : V -> V -> bool), (forall a b : V, veqb a b = true -> a = b) ->
  forall (kclass : K -> N) (leaf : K -> V -> key) (n : nat),
  (forall k v, length (leaf k v) = n /\ bytes_ok (leaf k v)) ->
  forall (db sOld sNew : store K V) (c1 c2 : list (cdelta K V)) (m : mstate) (s : sstate),
  describes K V kclass c1 sOld sNew -> describes K V kclass c2 sOld sNew ->
  distinct2 K V leaf sOld sNew -> (forall k, db k = sOld k) ->
  Rel m s -> set_is K V leaf (s_cur s) sOld ->
  exists m1 a1 m2 a2,
    balance_all veqb kclass leaf db c1 m 0 = Some (m1, a1) /\
    balance_all veqb kclass leaf db c2 m 0 = Some (m2, a2) /\
    t_root (m_cur m1) = t_root (m_cur m2).
Proof. exact update_balances_any_order. Qed.
Print Assumptions C14_update_balances_any_order.

(* ---------- the property is FALSE without [leaves_distinct] ---------- *)
(* real builders, real hash: boxes "ab" -> "c" and "a" -> "bc" of app 7 created in round 1, the
   first deleted in round 2; the node that commits rounds 1 and 2 separately and the node that
   commits them together label catchpoint round 4 differently (all other hypotheses hold) *)
Theorem C14_label_schedule_dependent_refuted :
  exists (hist : list cblock) (g : store ckey cval) gleaves gtotals P ops1 ops2 R l1 l2,
    genesis_ok ckey cval (cleaf sha512_256) g gleaves /\
    kv_old_ok ckey cval ckey_dec cclass hist g /\
    p_interval P <> 0 /\
    In (R, l1) (c_labels (crun ckey_dec cval_eqb cclass (cleaf sha512_256) sha512_256 P hist (init_state g gleaves gtotals) ops1)) /\
    In (R, l2) (c_labels (crun ckey_dec cval_eqb cclass (cleaf sha512_256) sha512_256 P hist (init_state g gleaves gtotals) ops2)) /\
    l1 <> l2.
Proof. exact label_schedule_dependent_refuted. Qed.
Print Assumptions C14_label_schedule_dependent_refuted.

(* the mechanism, for EVERY leaf function and hash: if two different KV keys collide,
   Add / duplicate Add (ignored) / Delete leaves an EMPTY trie, "came and went: skipped" / Add a
   non-empty one *)
Theorem C14_collision_schedule_dependent :
  forall (K V : Type) (veqb : V -> V -> bool) (kclass : K -> N) (leaf : K -> V -> key) (n : nat),
  (forall k v, length (leaf k v) = n /\ bytes_ok (leaf k v)) ->
  forall (k1 k2 : K) (v1 v2 : V), kvlike kclass k1 = true -> kvlike kclass k2 = true -> leaf k1 v1 = leaf k2 v2 ->
  forall (db : store K V) (m : mstate) (s : sstate), Rel m s -> s_cur s = [] ->
  exists ma a mb b mc c,
    balance_all veqb kclass leaf db [(k1, (None, Some v1)); (k2, (None, Some v2))] m 0 = Some (ma, a) /\
    balance_all veqb kclass leaf db [(k1, (Some v1, None))] ma 0 = Some (mb, b) /\
    balance_all veqb kclass leaf db [(k1, (None, None)); (k2, (None, Some v2))] m 0 = Some (mc, c) /\
    t_root (m_cur mb) = None /\ t_root (m_cur mc) <> None.
Proof. exact collision_schedule_dependent. Qed.
Print Assumptions C14_collision_schedule_dependent.

(* ... and it is not enough that no two entries live at ONE round share a leaf: if one round
   deletes k1 and creates k2 with the same leaf, the result depends on the ORDER in which the two
   compacted KV deltas are walked, i.e. on Go's map iteration order *)
Theorem C14_collision_order_dependent :
  forall (K V : Type) (veqb : V -> V -> bool) (kclass : K -> N) (leaf : K -> V -> key) (n : nat),
  (forall k v, length (leaf k v) = n /\ bytes_ok (leaf k v)) ->
  forall (k1 k2 : K) (v1 v2 : V), kvlike kclass k1 = true -> kvlike kclass k2 = true -> leaf k1 v1 = leaf k2 v2 ->
  forall (db : store K V) (m0 : mstate) (s0 : sstate), Rel m0 s0 ->
  (forall y, In y (s_cur s0) <-> y = leaf k2 v2) ->
  exists ma a mb b,
    balance_all veqb kclass leaf db [(k1, (Some v1, None)); (k2, (None, Some v2))] m0 0 = Some (ma, a) /\
    balance_all veqb kclass leaf db [(k2, (None, Some v2)); (k1, (Some v1, None))] m0 0 = Some (mb, b) /\
    t_root (m_cur ma) <> None /\ t_root (m_cur mb) = None.
Proof. exact collision_order_dependent. Qed.
Print Assumptions C14_collision_order_dependent.

(* the colliding pair exists for the real KV builder under every hash function (C15) *)
Theorem C14_real_collision : forall H, wk1 <> wk2 /\ cleaf H wk1 wv1 = cleaf H wk2 wv2.
Proof. exact real_collision. Qed.
Print Assumptions C14_real_collision.

(* ---------- non-vacuity: the hypotheses are satisfiable and labels are produced ---------- *)
Example C14_ex_hypotheses :
  (forall a b, Bool.eqb a b = true -> a = b) /\ (forall k v, length (xleaf k v) = 2%nat /\ bytes_ok (xleaf k v)) /\
  genesis_ok bool bool xleaf x_g [xleaf false true] /\ leaves_distinct bool bool bool_dec xleaf x_hist x_g /\
  kv_old_ok bool bool bool_dec xclass x_hist x_g.
Proof. exact (conj x_veqb_eq (conj x_leaf_ok (conj x_genesis_ok (conj x_distinct x_kv_old_ok)))). Qed.

(* two different schedules / intervals / lookbacks / a reload: both label round 4 *)
Example C14_ex_labels :
  exists l1 l2,
    In (4, l1) (c_labels (crun bool_dec Bool.eqb xclass xleaf xH x_P1 x_hist (init_state x_g [xleaf false true] [128]) x_ops1)) /\
    In (4, l2) (c_labels (crun bool_dec Bool.eqb xclass xleaf xH x_P2 x_hist (init_state x_g [xleaf false true] [128]) x_ops2)) /\
    l1 <> [].
Proof. exact x_labels. Qed.
