(* C42  Vote compression is lossless and stays in sync.
   Property theorems only: each is closed by [exact <lemma>] and followed by Print Assumptions.

   Objects: model/Vpack.v is the transcription of /repo/network/vpack (parseMsgpVote,
   StatelessEncoder/Decoder, lruTable, propWindow, StatefulEncoder.Compress,
   StatefulDecoder.Decompress) AS FIXED by /verif/fixes/C42.patch ([strict] = [canon] = true);
   with [false] it is the code before the fix, about which the two [_refuted] theorems speak.
   model/VpackSpec.v: [encode_msgp]/[frame] (the canonical encoding of a vote and its stateless
   frame), [run_conn] (both ends of a connection), and the checker.  A byte string is a
   [list N]; [bytes_ok] says every element is < 256.

   model/VpackNet.v: the sender / receiver wrapper of network/msgCompressor.go (theorems 13-16).

   Not a theorem (tested only, see checks/C42.py): "never a crash" of the Go code on malformed
   frames; what the model can say about malformed input is [refs_in_bounds].  DESIGN.md's
   [malformed_rejected_or_faithful] is false as worded (a literal for a key that is already
   in the table is accepted but an encoder would have sent a reference) and is not claimed. *)
From Coq Require Import NArith List Bool String.
Import ListNotations.
From Verif.lib Require Import Term.
From Verif.model Require Import Vpack VpackSpec VpackNet.
From Verif.proofs Require Import VpackBase VpackStateful VpackParse VpackStateless VpackStream VpackNetProofs.
Open Scope N_scope.

(* 1. Stateless layer: for EVERY byte string the parser accepts, decompression gives back
      exactly that byte string. *)
Theorem stateless_roundtrip : forall m x,
  compress_vote true m = Some x -> decompress_vote x = Some m.
Proof. exact stateless_roundtrip_lemma. Qed.
Print Assumptions stateless_roundtrip.

(* 2. ... because whatever the parser accepts is the canonical encoding of a well-formed vote
      (sorted keys, each once; uints in any of the five msgpack forms) *)
Theorem accepted_is_canonical : forall m x,
  compress_vote true m = Some x -> exists v, wf_vote v = true /\ m = encode_msgp v /\ x = frame v.
Proof. exact parse_canonical. Qed.
Print Assumptions accepted_is_canonical.

(* 3. ... and DecompressVote rebuilds the canonical encoding of every well-formed vote, also
      when per / step / oper / rnd are NOT in their shortest msgpack form *)
Theorem canonical_decompresses : forall v, wf_vote v = true -> decompress_vote (frame v) = Some (encode_msgp v).
Proof. exact decompress_frame. Qed.
Print Assumptions canonical_decompresses.

(* 4. Stateful layer, lockstep: from ANY well-formed table state shared by both ends (any table
      size up to 65536 entries, any content), for EVERY input Compress accepts, Decompress
      returns the input (header byte 1 zeroed, which DecompressVote ignores) and ends in the
      same state as the encoder. *)
Theorem lockstep : forall st x f st',
  wf_state st -> bytes_ok x -> compress true st x = Some (f, st') ->
  decompress st f = Some (norm_frame x, st') /\ wf_state st'.
Proof. exact VpackStateful.lockstep. Qed.
Print Assumptions lockstep.

(* 5. a table / window reference emitted by the encoder names the same content in the decoder *)
Theorem lru_ref_valid : forall t k h id t',
  wf_lru t -> lru_lookup t k h = Some (id, t') -> lru_fetch t id = Some (k, t') /\ id < 65536.
Proof. exact VpackStateful.lru_ref_valid. Qed.
Print Assumptions lru_ref_valid.

Theorem win_ref_valid : forall w pv idx,
  win_lookup w pv = idx -> idx <> 0 -> win_byref w idx = Some pv /\ idx <= w_size w.
Proof. exact VpackStateful.win_ref_valid. Qed.
Print Assumptions win_ref_valid.

(* 6. malformed references are rejected: the decoder only dereferences slots inside the table
      and window indices inside the live part of the window *)
Theorem refs_in_bounds :
  (forall t id k t', lru_fetch t id = Some (k, t') -> N.shiftr id 1 < nb t) /\
  (forall w idx p, win_byref w idx = Some p -> 1 <= idx /\ idx <= w_size w).
Proof. exact (conj lru_fetch_in_bounds win_byref_in_bounds). Qed.
Print Assumptions refs_in_bounds.

(* 7. the test added by the fix is exact: an accepted uint encoding has the length of the
      shortest form iff it is what msgp.AppendUint64 (used by the decoder) produces *)
Theorem canonical_length_test_sound : forall d v,
  is_varuint d = true -> bytes_ok d -> varuint_value d = Some v ->
  List.length d = varuint_size v -> append_uint64 v = d.
Proof. exact canonical_by_length. Qed.
Print Assumptions canonical_length_test_sound.

(* 8. one vote through both ends: the stateful encoder never refuses what the stateless one
      produced, the receiver reconstructs the exact bytes, both states are equal afterwards *)
Theorem send_recv_exact : forall st m x,
  wf_state st -> bytes_ok m -> compress_vote true m = Some x ->
  exists f st', compress true st x = Some (f, st') /\ recv st f = Some (m, st') /\ wf_state st'.
Proof. exact send_recv_step. Qed.
Print Assumptions send_recv_exact.

(* 9. whole connections: every table size the constructor accepts (a power of two >= 16) up to
      65536, EVERY finite sequence of arbitrary byte strings offered as votes: each one the
      stateless layer accepts comes out of the receiver byte for byte, the rejected ones do not
      touch the tables, and after the last message both ends hold the same state. *)
Theorem stream_lossless_in_sync : forall n s0 ms,
  new_state n = Some s0 -> n <= 65536 -> Forall bytes_ok ms ->
  exists st', run_conn true true s0 s0 ms = (map expected ms, st', st') /\ wf_state st'.
Proof.
  exact (fun n s0 ms H Hn HF => stream_lemma ms s0 (wf_new_state n s0 H Hn) HF).
Qed.
Print Assumptions stream_lossless_in_sync.

(* 10. the code BEFORE the fix: a vote whose round 5 is encoded cf 00 00 00 00 00 00 00 05 is
       accepted by both parsers; sent twice on a fresh connection, the second copy comes back
       8 bytes shorter, with no error anywhere (canon = false); with the fix it comes back exact *)
Theorem noncanonical_rnd_refuted :
  let m := encode_msgp (witness_vote noncanon_rnd) in
  wf_vote (witness_vote noncanon_rnd) = true /\ all_bytes m = true /\
  (exists x, compress_vote true m = Some x) /\
  exists s0 m', new_state 16 = Some s0 /\
    fst (fst (run_conn true false s0 s0 [m; m])) = [Some m; Some m'] /\ m' <> m /\
    List.length m = 501%nat /\ List.length m' = 493%nat /\
    fst (fst (run_conn true true s0 s0 [m; m])) = [Some m; Some m].
Proof. exact noncanonical_rnd_witness. Qed.
Print Assumptions noncanonical_rnd_refuted.

(* 11. the code BEFORE the fix: rawVote = { snd, rnd } (keys out of order) is accepted by the
       unfixed parser and decompresses, without an error, to different bytes of the same
       length; the fixed parser rejects it *)
Theorem unordered_keys_refuted :
  all_bytes unordered_vote = true /\
  (exists x m', compress_vote false unordered_vote = Some x /\ decompress_vote x = Some m' /\
                m' <> unordered_vote /\ List.length m' = List.length unordered_vote) /\
  compress_vote true unordered_vote = None.
Proof. exact unordered_keys_witness. Qed.
Print Assumptions unordered_keys_refuted.

(* 12. what [spec_ok] of the checker (spec_v, evaluated on the implementation's observation)
       means when both compressors accepted a vote: the receiver's output is the vote and the
       receiver's table dump equals the sender's *)
Theorem spec_v_sound : forall m x f ds dv es dd,
  spec_v m (TL [TB x; TB f; ds; dv; es; dd]) = true -> dv = TB m /\ dd = TS "same".
Proof. exact spec_v_meaning. Qed.
Print Assumptions spec_v_sound.

(* ---- the real sender / receiver wrapper (network/msgCompressor.go, model/VpackNet.v) ----
   StatefulEncoder.Compress updates its tables while parsing and can fail afterwards, so a failed
   Compress does NOT leave the encoder state unchanged.  What keeps the two ends in step is the
   abort rule of wsPeerMsgCodec.compress / writeLoopSendMsg (flag cleared, VP abort sent, vote
   sent as plain AV).  [ninv]: while the sender's flag is set, the receiver's flag is set and
   encoder state = decoder state.  [transparent data d]: a delivery d for payload data is a
   control outcome or exactly what the plain AV path delivers for data. *)

(* 13. one payload, ANY bytes (compressible vote, raw msgpack fallback, damaged frame, garbage):
       the invariant is preserved and nothing else than the plain-AV result is ever delivered *)
Theorem net_step_in_sync : forall s data,
  ninv s -> bytes_ok data ->
  ninv (snd (net_step s data)) /\ Forall (transparent data) (snd (fst (net_step s data))).
Proof. exact net_step_inv. Qed.
Print Assumptions net_step_in_sync.

(* 14. every history of payloads on a fresh connection of every table size <= 65536 *)
Theorem net_in_sync : forall n s0 l,
  net_init n = Some s0 -> n <= 65536 -> Forall bytes_ok l ->
  ninv (snd (net_run s0 l)) /\
  Forall2 (fun data ds => Forall (transparent data) ds) l (fst (net_run s0 l)).
Proof. exact (fun n s0 l H Hn HF => net_sync_lemma l s0 (ninv_init n s0 H Hn) HF). Qed.
Print Assumptions net_in_sync.

(* 15. a vote the stateless encoder accepts is delivered exactly once and byte for byte,
       whether the stateful stream is still on or was aborted earlier *)
Theorem net_lossless : forall s m x,
  ninv s -> bytes_ok m -> compress_vote true m = Some x ->
  broadcast_data m = x /\ snd (fst (net_step s x)) = [DBytes m].
Proof. exact net_lossless_lemma. Qed.
Print Assumptions net_lossless.

(* 16. the msgpack fallback is lossless for every length.  A vote the stateless encoder refuses
       (e.g. sig.ps != 0) is sent whole by vpackCompressVote (fix 8ff1e5c455).  A msgpack vote
       starts with 0x83 and has more than 420 bytes (the shortest has 493); for every such byte
       string, of ANY length: if the stateful stream is on, Compress fails on it, the stream is
       aborted and the vote follows as plain AV; DecompressVote rejects it as well, and the
       receiver hands on exactly the original bytes, once. *)
Theorem net_fallback_lossless : forall s m b l,
  m = 131 :: b :: l -> (418 < List.length l)%nat -> compress_vote true m = None ->
  broadcast_data m = m /\
  snd (fst (net_step s m)) = if n_son s then [DNone; DBytes m] else [DBytes m].
Proof. exact net_fallback_lossless_lemma. Qed.
Print Assumptions net_fallback_lossless.

(* the fallback BEFORE that fix, as [broadcast_data_unfixed] (copy into a MaxCompressedVoteSize
   buffer): a well-formed 603-byte vote with sig.ps != 0 arrived cut to 502 bytes *)
Example ex_unfixed_fallback_truncates :
  let m := long_uncompressible_vote in
  all_bytes m = true /\ List.length m = 603%nat /\ compress_vote true m = None /\
  (exists s0, net_init 16 = Some s0 /\
     snd (fst (net_step s0 (broadcast_data_unfixed m))) = [DNone; DBytes (firstn 502 m)] /\
     snd (fst (net_step s0 (broadcast_data m))) = [DNone; DBytes m]) /\
  firstn 502 m <> m.
Proof. exact fallback_unfixed_truncated. Qed.

(* ---- non-vacuity ---- *)
(* a vote with every optional field, three of the uints non-canonical, is well-formed, accepted,
   and goes through a fresh 16-entry connection three times exactly (literal, then references) *)
Example ex_wf : wf_vote witness_vote2 = true.
Proof. vm_compute. reflexivity. Qed.
Example ex_accepted : compress_vote true (encode_msgp witness_vote2) = Some (frame witness_vote2).
Proof. vm_compute. reflexivity. Qed.
Example ex_conn : forall s0, new_state 16 = Some s0 ->
  let m := encode_msgp witness_vote2 in
  fst (fst (run_conn true true s0 s0 [m; m; m])) = [Some m; Some m; Some m].
Proof. intros s0 H. vm_compute in H. inversion H; subst. vm_compute. reflexivity. Qed.
(* the second copy really is compressed with references (shorter than the stateless frame) *)
Example ex_refs_used : forall s0, new_state 16 = Some s0 ->
  let x := frame witness_vote2 in
  match compress true s0 x with
  | Some (f1, s1) => match compress true s1 x with
                     | Some (f2, _) => Nat.eqb (List.length f1) (List.length x) && Nat.ltb (List.length f2) 200
                     | None => false end
  | None => false end = true.
Proof. intros s0 H. vm_compute in H. inversion H; subst. vm_compute. reflexivity. Qed.
(* table sizes: 16 and 2048 (the configured maximum) are accepted, 8 and 24 are not *)
Example ex_sizes : (match new_state 16, new_state 2048, new_state 8, new_state 24 with
                    | Some _, Some _, None, None => true | _, _, _, _ => false end) = true.
Proof. vm_compute. reflexivity. Qed.
(* the invariant is not vacuous: after two compressible votes the sender's flag is still set
   (and the states are equal); a frame with one extra byte makes Compress fail at its last check,
   the stream is aborted and the payload still arrives as plain AV *)
Example ex_net : forall s0, net_init 16 = Some s0 ->
  let x := frame witness_vote2 in
  let r := net_run s0 [x; x; x ++ [0]; x] in
  fst r = [[DBytes (encode_msgp witness_vote2)]; [DBytes (encode_msgp witness_vote2)];
           [DNone; DBytes (x ++ [0])]; [DBytes (encode_msgp witness_vote2)]] /\
  n_son (snd (net_run s0 [x; x])) = true /\ n_son (snd r) = false /\ n_ron (snd r) = false.
Proof. intros s0 H. vm_compute in H. inversion H; subst. vm_compute. repeat split; reflexivity. Qed.
