(* C34  Programs cannot use features newer than their version or outside their mode.

   Theorems (all closed; Print Assumptions after each):
   * init_builds_versioned_tables      -- model of opcodes.go:init(), for EVERY OpSpecs list
   * dispatch_respects_version         -- GetOpSpec on the regenerated tables, every program/pc
   * src_lookup_is_dispatch            -- the checker's oracle = the dispatch table (soundness of spec_ok)
   * step_rejects_unknown / step_rejects_mode -- the frame gates, every table / op family
   * sig_mode_excludes_state_ops       -- signature mode never executes a ledger-touching opcode
   * executed_instruction_is_allowed   -- version, origin, mode (proved) and field (contract) of
                                          every successfully executed instruction
   * check_eval_agree                  -- static check vs dynamic pc, every table with paired
                                          op/check functions, every conforming op family
   * check_eval_agree_gen              -- the same for the regenerated tables
   * tables_*                          -- finite obligations on the regenerated tables
   The tables (coq/gen/AvmTables.v) are re-dumped from the running Go code on every check. *)
From Coq Require Import List NArith ZArith String Bool Arith.
From Verif.model Require Import AvmTypes AvmFrame AvmTable AvmC34Check.
From Verif.gen Require Import AvmTables.
From Verif.proofs Require Import AvmFrameProofs AvmAgreeProofs AvmTableProofs AvmC34Proofs.
Import ListNotations.

Theorem init_builds_versioned_tables : forall (specs : list opspec) (v op : N),
    origin specs v (fst (tab_get (init_table specs v) op)) /\
    Forall (origin specs v) (snd (tab_get (init_table specs v) op)).
Proof. exact init_respects_version. Qed.
Print Assumptions init_builds_versioned_tables.

Theorem dispatch_respects_version : forall v prog pc,
    (v <= logic_version)%N -> (byte_at prog pc < 256)%N ->
    let s := get_op_spec gen_tbl v prog pc in
    os_hasop s = true ->
    (os_version s <= v)%N /\
    (if N.eqb v 0 then exists s1, In s1 src_specs /\ os_version s1 = 1%N /\ s = with_version s1 0
     else In s src_specs).
Proof. exact dispatch_respects_version_gen. Qed.
Print Assumptions dispatch_respects_version.

Theorem src_lookup_is_dispatch : forall v op sub,
    (v <= logic_version)%N -> (op < 256)%N -> (sub < 256)%N ->
    (is_prefix_src op = false -> sub = 0%N) -> src_lookup_agrees_at v op sub = true.
Proof. exact AvmC34Proofs.src_lookup_is_dispatch. Qed.
Print Assumptions src_lookup_is_dispatch.

Theorem step_rejects_unknown :
  forall tbl max_depth max_bytes (W : Type) bmax isolate
         (opf : opspec -> list N -> state W -> outcome W) v mode prog (st : state W),
    os_hasop (get_op_spec tbl v prog (st_pc W st)) = false ->
    step tbl max_depth max_bytes W bmax isolate opf v mode prog st = Err EIllegal.
Proof. exact AvmFrameProofs.step_rejects_unknown. Qed.
Print Assumptions step_rejects_unknown.

Theorem step_rejects_mode :
  forall tbl max_depth max_bytes (W : Type) bmax isolate
         (opf : opspec -> list N -> state W -> outcome W) v mode prog (st : state W),
    os_hasop (get_op_spec tbl v prog (st_pc W st)) = true ->
    N.land mode (os_modes (get_op_spec tbl v prog (st_pc W st))) = 0%N ->
    step tbl max_depth max_bytes W bmax isolate opf v mode prog st = Err EMode.
Proof. exact AvmFrameProofs.step_rejects_mode. Qed.
Print Assumptions step_rejects_mode.

Theorem sig_mode_excludes_state_ops :
  forall (W : Type) bmax isolate (opf : opspec -> list N -> state W -> outcome W) v prog (st : state W),
    touches_ledger (os_name (get_op_spec gen_tbl v prog (st_pc W st))) = true ->
    step gen_tbl max_depth_nat max_string_size W bmax isolate opf v mode_sig prog st = Err EMode \/
    step gen_tbl max_depth_nat max_string_size W bmax isolate opf v mode_sig prog st = Err EIllegal.
Proof. exact sig_mode_excludes_state_ops_thm. Qed.
Print Assumptions sig_mode_excludes_state_ops.

Theorem executed_instruction_is_allowed :
  forall (W : Type) bmax isolate (opf : opspec -> list N -> state W -> outcome W) v mode prog (st st' : state W),
    (v <= logic_version)%N -> (byte_at prog (st_pc W st) < 256)%N ->
    (forall s st1 stack' n calls' pool' w',
        opf s prog st1 = OOk W stack' n calls' pool' w' -> field_gate v mode s prog (st_pc W st1) = true) ->
    step gen_tbl max_depth_nat max_string_size W bmax isolate opf v mode prog st = Ok st' ->
    let s := get_op_spec gen_tbl v prog (st_pc W st) in
    (os_version s <= v)%N /\
    (if N.eqb v 0 then exists s1, In s1 src_specs /\ os_version s1 = 1%N /\ s = with_version s1 0
     else In s src_specs) /\
    N.land mode (os_modes s) <> 0%N /\
    field_gate v mode s prog (st_pc W st) = true.
Proof. exact executed_instruction_is_allowed_thm. Qed.
Print Assumptions executed_instruction_is_allowed.

Theorem check_eval_agree :
  forall tbl lsv max_depth max_bytes (W : Type) bmax isolate
         (opf : opspec -> list N -> state W -> outcome W) v mode prog,
    (forall pc, os_hasop (get_op_spec tbl v prog pc) = true -> kinds_ok (get_op_spec tbl v prog pc) = true) ->
    (forall s st stack' n calls' pool' w',
        opf s prog st = OOk W stack' n calls' pool' w' ->
        ctl_allowed lsv max_bytes v s prog (st_pc W st) (st_calls W st) n calls' = true) ->
    forall fuel maxcost vlen starts (st0 st : state W),
      check_loop tbl lsv max_bytes fuel v mode maxcost prog vlen [] [] 0%Z = Some (Ok starts) ->
      st_pc W st0 = vlen -> st_calls W st0 = [] ->
      reach tbl max_depth max_bytes W bmax isolate opf v mode prog st0 st ->
      (st_pc W st < List.length prog -> In (st_pc W st) starts) /\
      Forall (fun r => r < List.length prog -> In r starts) (st_calls W st).
Proof. exact AvmAgreeProofs.check_eval_agree. Qed.
Print Assumptions check_eval_agree.

Theorem check_eval_agree_gen :
  forall lsv (W : Type) bmax isolate (opf : opspec -> list N -> state W -> outcome W)
         mode maxcost minv acc prog v vlen starts (st0 st : state W),
    begin_prog lsv logic_version prog minv acc = Ok (v, vlen) ->
    check_prog gen_tbl lsv max_string_size logic_version mode maxcost minv acc prog = Some (Ok starts) ->
    (forall s st1 stack' n calls' pool' w',
        opf s prog st1 = OOk W stack' n calls' pool' w' ->
        ctl_allowed lsv max_string_size v s prog (st_pc W st1) (st_calls W st1) n calls' = true) ->
    st_pc W st0 = vlen -> st_calls W st0 = [] ->
    reach gen_tbl max_depth_nat max_string_size W bmax isolate opf v mode prog st0 st ->
    (st_pc W st < List.length prog -> In (st_pc W st) starts) /\
    Forall (fun r => r < List.length prog -> In r starts) (st_calls W st).
Proof. exact AvmC34Proofs.check_eval_agree_gen. Qed.
Print Assumptions check_eval_agree_gen.

(* finite obligations on the regenerated tables *)
Theorem tables_built_by_init :
  forallb (fun v => forallb (tables_match_at v) all_bytes) all_versions = true.
Proof. exact tables_match_init_true. Qed.
Print Assumptions tables_built_by_init.

Theorem tables_pair_op_and_check_functions :
  forallb (fun s => implb (os_hasop s) (kinds_ok s)) spec_pool = true.
Proof. exact kinds_ok_pool. Qed.
Print Assumptions tables_pair_op_and_check_functions.

Theorem tables_sig_mode_excludes_state_groups : sig_excludes_state = true.
Proof. exact sig_excludes_state_true. Qed.
Print Assumptions tables_sig_mode_excludes_state_groups.

Theorem tables_fields_well_formed : fields_wf = true.
Proof. exact fields_wf_true. Qed.
Print Assumptions tables_fields_well_formed.

Theorem tables_constants : consts_ok = true.
Proof. exact consts_ok_true. Qed.
Print Assumptions tables_constants.

(* independent specifications: the frozen hand-reviewed field list (AvmFieldSpec.v) and the
   repository's own langspec_v<K>.json agree with the run-time tables *)
Theorem tables_fields_match_frozen_spec : field_spec_agrees = true.
Proof. exact field_spec_agrees_true. Qed.
Print Assumptions tables_fields_match_frozen_spec.

Theorem field_modes_follow_spec : forall g fs,
    In g field_groups -> In fs (fg_fields g) ->
    exists gg nn app_only,
      spec_lookup (fg_name g) (fs_name fs) = Some (gg, nn, fs_field fs, fs_version fs, app_only) /\
      fs_modes fs = (if app_only then ModeApp else 3%N).
Proof. exact AvmTableProofs.field_modes_follow_spec. Qed.
Print Assumptions field_modes_follow_spec.

Theorem tables_match_langspec_ops : langspec_ops_agree = true.
Proof. exact langspec_ops_agree_true. Qed.
Print Assumptions tables_match_langspec_ops.

Theorem tables_match_langspec_fields : langspec_fields_agree = true.
Proof. exact langspec_fields_agree_true. Qed.
Print Assumptions tables_match_langspec_fields.

(* every branch target the static check (and the shared decoders of the op functions) accepts lies
   inside the program, also when the Go int addition wraps *)
Theorem accepted_targets_in_program : forall lsv max_bytes v s prog pc nx ts thr,
    run_check lsv max_bytes v s prog pc = Ok (nx, ts, thr) ->
    Forall (fun o => forall t, o = Some t -> t <= List.length prog) ts.
Proof. exact AvmAgreeProofs.accepted_targets_in_program. Qed.
Print Assumptions accepted_targets_in_program.

(* non-vacuity: the contract on op families is satisfiable, a branching program passes the static
   check and runs through two taken branches to the end of the program *)
Example ref_ops_conform : forall lsv max_bytes v s prog st stack' n calls' pool' w',
    ref_opf lsv max_bytes v s prog st = OOk unit stack' n calls' pool' w' ->
    ctl_allowed lsv max_bytes v s prog (st_pc unit st) (st_calls unit st) n calls' = true.
Proof. exact ref_opf_conforms. Qed.

Example branching_program_checks :
  check_prog gen_tbl 14 max_string_size logic_version ModeSig 20000 0 false ex_prog = Some (Ok [5; 4; 1]).
Proof. exact ex_check. Qed.

Example branching_program_runs :
  reach gen_tbl max_depth_nat max_string_size unit 20000 false (ref_opf 14 max_string_size 4) 4 ModeSig ex_prog
        (ex_st 1 0) (ex_st 8 2).
Proof. exact ex_reach. Qed.
