(* C17 Merkle trie root depends only on the element set.
   Property theorems only: each is closed by [exact <lemma>] and followed by Print Assumptions.

   Objects (no proofs in those files):
     model/MerkleTrie.v      transcription of node.find/add/remove/calculateHash and of
                             Trie.Add/Delete/RootHash/Commit/Evict + reload ([step], [run]);
                             [None]/[RPanic] = Go run-time panic
     model/MerkleTrieSpec.v  the property on SETS: [sstep]/[srun] (membership answers, length
                             error, what a reload brings back) and [canon n s], the canonical trie
                             built directly from a set; the canonical hash of a set s is
                             [root_hash H (canon_set s)] for the hash function H (arbitrary here).
   All statements are for EVERY finite sequence of operations over byte-string elements of any
   length ([Forall op_ok ops] only says that elements are lists of bytes), and for every H.

   The paged node store (cache.go) is modelled in model/MerkleTrieStore.v: nodes by id, the
   in-memory view and the stored pages, created/deleted bookkeeping, the deferred page load, commit
   with re-allocation of nodes to fresh ids, evict, reload.  Proved below (theorems C17_store_...): for EVERY
   page size 0 < npp <= 0x4160, every choice of evicted pages and every re-allocation accepted by
   [rho_ok], each operation preserves [Abs] (the store unfolds to the logical trie; the STORED
   PAGES ALONE unfold to the committed trie), Add/Delete/RootHash never hit a missing node, and
   the eviction rule that was in the code before fixes/C17.patch does lose committed nodes
   (C17_unfixed_evict_refuted).
   What is still NOT proved (hence the suffix _partial stays on the root-hash theorems): that the
   re-allocation chosen by cache.go is always accepted by [rho_ok] and that cache.go writes exactly
   the pages the model writes (both are checked on every store case of the correspondence run, which
   compares memory, pages and bookkeeping with the model after every operation), the reuse of
   cached digests in node.hash, and the byte encoding of pages. *)
From Coq Require Import List NArith Bool Sorted.
Import ListNotations.
From Verif.model Require Import MerkleTrie MerkleTrieSpec MerkleTrieStore MerkleTrieStoreRel.
From Verif.proofs Require Import MerkleTrieProofs MerkleTrieCanonProofs MerkleTrieHeapProofs
                                 MerkleTriePagedProofs MerkleTrieStoreRefine MerkleTrieStoreFinal.
Open Scope N_scope.

(* Every observable result of every history is the one the set semantics prescribes:
   Add answers "was absent", Delete answers "was present", wrong lengths / Evict(false) with
   pending changes are refused, and every RootHash call reports the canonical trie of the set
   at that moment ([RRoot (canon_set s)]; its digest is [root_hash H] of that). *)
Theorem C17_results_are_set_semantics : forall ops, Forall op_ok ops ->
  snd (run m_init ops) = snd (srun s_init ops).
Proof. exact results_are_set_semantics. Qed.
Print Assumptions C17_results_are_set_semantics.

(* ... and after every history the live trie and the committed one (what a reload brings
   back) are the canonical tries of the corresponding sets, whatever the order of insertions,
   deletions, commits, evictions and reloads that produced them. *)
Theorem C17_trie_is_canonical : forall ops, Forall op_ok ops ->
  t_root (m_cur (fst (run m_init ops))) = canon_set (s_cur (fst (srun s_init ops))) /\
  t_root (m_committed (fst (run m_init ops))) = canon_set (s_committed (fst (srun s_init ops))).
Proof. exact final_trie_canonical. Qed.
Print Assumptions C17_trie_is_canonical.

Theorem C17_root_hash_is_canonical_partial : forall (H : list N -> list N) ops, Forall op_ok ops ->
  root_hash H (t_root (m_cur (fst (run m_init ops)))) =
  root_hash H (canon_set (s_cur (fst (srun s_init ops)))).
Proof. exact root_hash_canonical. Qed.
Print Assumptions C17_root_hash_is_canonical_partial.

(* history independence: two histories that end with the same set have the same root *)
Theorem C17_root_set_only_partial : forall (H : list N -> list N) ops1 ops2,
  Forall op_ok ops1 -> Forall op_ok ops2 ->
  (forall k, In k (s_cur (fst (srun s_init ops1))) <-> In k (s_cur (fst (srun s_init ops2)))) ->
  root_hash H (t_root (m_cur (fst (run m_init ops1)))) =
  root_hash H (t_root (m_cur (fst (run m_init ops2)))).
Proof. exact root_set_only. Qed.
Print Assumptions C17_root_set_only_partial.

(* the index-out-of-range panics of node.find / add / remove (d[0], n.hash[idiff],
   children[indexOf]) are unreachable *)
Theorem C17_no_panic : forall ops, Forall op_ok ops -> ~ In RPanic (snd (run m_init ops)).
Proof. exact run_no_panic. Qed.
Print Assumptions C17_no_panic.

(* single steps, for any trie that represents a set s (the invariant [rel], preserved) *)
Theorem C17_add_reports_membership : forall st s k, rel st s -> bytes_ok k ->
  if len_mismatch k s then trie_add st k = (st, RErr, false)
  else if mem k s then trie_add st k = (st, RBool false, false)
  else exists st', trie_add st k = (st', RBool true, true) /\ rel st' (k :: s).
Proof. exact trie_add_refines. Qed.
Print Assumptions C17_add_reports_membership.

Theorem C17_delete_reports_membership : forall st s k, rel st s ->
  if len_mismatch k s then trie_delete st k = (st, RErr, false)
  else if mem k s then exists st', trie_delete st k = (st', RBool true, true) /\ rel st' (set_del k s)
  else trie_delete st k = (st, RBool false, false).
Proof. exact trie_delete_refines. Qed.
Print Assumptions C17_delete_reports_membership.

Theorem C17_mem_is_membership : forall k s, mem k s = true <-> In k s.
Proof. exact mem_in. Qed.
Print Assumptions C17_mem_is_membership.

(* [canon]: the canonical trie of a non-empty set of n-byte strings holds exactly the set and
   has the canonical shape; and the canonical shape is unique for a given set, so [canon] is
   THE function from sets to tries that the stored trie must equal. *)
Theorem C17_canon_holds_the_set : forall n s, s <> [] -> keys_ok n s ->
  exists t, canon n s = Some t /\ wf n t /\ (forall k, In k (elems t) <-> In k s).
Proof. exact canon_ok. Qed.
Print Assumptions C17_canon_holds_the_set.

Theorem C17_canonical_shape_unique : forall t1 n t2, wf n t1 -> wf n t2 ->
  (forall k, In k (elems t1) <-> In k (elems t2)) -> t1 = t2.
Proof. exact wf_unique. Qed.
Print Assumptions C17_canonical_shape_unique.

(* ---------- the paged store ---------- *)

(* one operation, from any store state that represents a logical state: the new store state
   represents the new logical state and the results agree (in particular no storage failure) *)
Theorem C17_store_step_refines : forall npp, 0 < npp <= base_id -> forall s m o s' r,
  Abs npp s m -> pstep npp true s o = (s', r) -> snd (step m (erase_op o)) <> RPanic -> r <> PBadOracle ->
  Abs npp s' (fst (step m (erase_op o))) /\ res_rel r (snd (step m (erase_op o))).
Proof. exact pstep_refines. Qed.
Print Assumptions C17_store_step_refines.

Theorem C17_store_refines : forall npp ops, 0 < npp <= base_id -> Forall op_ok (map erase_op ops) ->
  ~ In PBadOracle (snd (prun npp true p_init ops)) ->
  Abs npp (fst (prun npp true p_init ops)) (fst (run m_init (map erase_op ops))) /\
  Forall2 res_rel (snd (prun npp true p_init ops)) (snd (run m_init (map erase_op ops))).
Proof. exact store_refines. Qed.
Print Assumptions C17_store_refines.

Theorem C17_store_never_fails : forall npp ops, 0 < npp <= base_id -> Forall op_ok (map erase_op ops) ->
  ~ In PBadOracle (snd (prun npp true p_init ops)) -> ~ In PFail (snd (prun npp true p_init ops)).
Proof. exact store_never_fails. Qed.
Print Assumptions C17_store_never_fails.

(* the committed pages contain every node reachable from the committed root (they unfold to the
   canonical trie of the committed set), for every page size, eviction choice and re-allocation *)
Theorem C17_committed_pages_closed : forall npp ops, 0 < npp <= base_id -> Forall op_ok (map erase_op ops) ->
  ~ In PBadOracle (snd (prun npp true p_init ops)) ->
  let s := fst (prun npp true p_init ops) in
  let ss := fst (srun s_init (map erase_op ops)) in
  disk_ok s (canon_set (s_committed ss)) /\ exists fp, live_ok s fp (canon_set (s_cur ss)).
Proof. exact store_canonical. Qed.
Print Assumptions C17_committed_pages_closed.

(* the code before fixes/C17.patch (evict without the deferred load of the partially filled tail
   page): after this history no trie at all is stored below the committed root *)
Theorem C17_unfixed_evict_refuted :
  Forall op_ok (map erase_op bad_ops) /\ ~ In PBadOracle (snd (prun 2 false p_init bad_ops)) /\
  let s := fst (prun 2 false p_init bad_ops) in
  p_droot s <> 0 /\ ~ exists t fp, repr (p_disk s) t (p_droot s) fp.
Proof.
  exact (conj bad_ops_ok (conj (proj1 bad_ops_oracles_admissible) unfixed_evict_loses_committed_nodes)).
Qed.
Print Assumptions C17_unfixed_evict_refuted.

(* non-vacuity of the store theorems: the same history with the repaired rule *)
Example ex_store_fixed :
  ~ In PBadOracle (snd (prun 2 true p_init bad_ops)) /\
  committed_trie (fst (prun 2 true p_init bad_ops)) =
  Some (Some (Node [(0, Node [(0, Node [(0, Leaf []); (1, Leaf [])])]); (1, Leaf [0; 0])])).
Proof. exact (conj (proj2 bad_ops_oracles_admissible) fixed_evict_on_the_same_history). Qed.

(* ---------- non-vacuity ---------- *)
Definition ex_ops : list op :=
  [OAdd [0;0;1]; OAdd [0;0;0]; OAdd [1;0;0]; OEvict false; OCommit; ODel [0;0;1]; OAdd [0;0];
   OAdd [0;1;2]; OReload; ORoot; ODel [0;0;0]; ODel [1;0;0]; ORoot].

Example ex_ops_ok : Forall op_ok ex_ops.
Proof. repeat constructor. Qed.

(* chains of single-child nodes, a refused Evict, a length error, a reload that discards
   uncommitted changes, the cascading collapse back to a single leaf *)
Example ex_results :
  snd (run m_init ex_ops) =
  [RBool true; RBool true; RBool true; RErr; ROk; RBool true; RErr; RBool true; ROk;
   RRoot (Some (Node [(0, Node [(0, Node [(0, Leaf []); (1, Leaf [])])]); (1, Leaf [0;0])]));
   RBool true; RBool true; RRoot (Some (Leaf [0;0;1]))].
Proof. vm_compute. reflexivity. Qed.

Example ex_canon :
  canon 3 [[1;0;0]; [0;0;1]; [0;0;0]] =
  Some (Node [(0, Node [(0, Node [(0, Leaf []); (1, Leaf [])])]); (1, Leaf [0;0])]).
Proof. vm_compute. reflexivity. Qed.

Example ex_keys_ok : keys_ok 3 [[1;0;0]; [0;0;1]; [0;0;0]].
Proof.
  intros k [<-|[<-|[<-|[]]]]; (split; [reflexivity | repeat constructor]).
Qed.

(* two different histories, same final set, same trie *)
Example ex_history_independent :
  t_root (m_cur (fst (run m_init [OAdd [0;0;0]; OAdd [1;0;0]; OAdd [0;0;1]; ODel [1;0;0]]))) =
  t_root (m_cur (fst (run m_init [OAdd [0;0;1]; OCommit; OAdd [0;0;0]; OEvict true]))).
Proof. vm_compute. reflexivity. Qed.
