(* C12 Reported account totals equal the sum over accounts.
   Property theorems only: each is closed by [exact <lemma>] and followed by Print Assumptions.

   Model (model/Totals.v): AccountTotals.AddAccount / DelAccount / ApplyRewards with wrapping
   uint64 arithmetic and the sticky OverflowTracker flag, the evaluator's CalculateTotals
   (ApplyRewards to the block's RewardsLevel, then DelAccount old / AddAccount new for every
   modified account, rejected when the flag is up), the genesis totals, and accountUpdates'
   roundTotals under NewBlock / Commit / Reload.  Spec (model/TotalsSpec.v): [class_sums] — for
   each status class the exact (unbounded) sum of AccountData.Money at the round's rewards
   level and of the reward units over the accounts of that round, the accounts being read off
   the block history alone ([state_at]).

   "No overflow" is the checked hypothesis [ledger_run … = Some tr] / [trun … = Some s]: a block
   whose CalculateTotals raises the flag, changes the money supply or panics is rejected by the
   evaluator and never enters the ledger.  [mods_ok] / [block_ok] are the uint64 typing of the
   inputs and the fact that a StateDelta lists an address once. *)
From Coq Require Import NArith ZArith List Bool String.
Import ListNotations.
From Verif.lib Require Import Term.
From Verif.model Require Import Overflow Totals TotalsSpec.
From Verif.proofs Require Import TotalsProofs.
Open Scope N_scope.

(* For EVERY genesis, EVERY list of blocks (status changes, closes = zero account data, new
   accounts, rewards-level changes, any reward unit) that the evaluator accepts, and EVERY round
   r: the accounts of round r are the fold of the deltas, and the totals of round r are the
   class-wise sums over exactly those accounts. *)
Theorem C12_totals_eq_sum : forall unit genesis bs tr,
  mods_ok genesis = true -> forallb block_ok bs = true ->
  ledger_run unit genesis bs = Some tr ->
  List.length tr = Datatypes.S (List.length bs) /\
  forall r, (r <= List.length bs)%nat ->
    nth_error tr r = Some (state_at genesis bs r, spec_totals unit genesis bs r).
Proof. exact ledger_run_sums. Qed.
Print Assumptions C12_totals_eq_sum.

(* The observable form of the property (anchor: "Ledger.Totals(rnd) vs sum of LookupAccount over
   all addresses"): at every round LookupAccount does not panic on any account of that round and
   the totals are the sums of its answers (balance with pending rewards per status class; reward
   units from the balance without rewards). *)
Theorem C12_totals_eq_lookup_sums : forall unit genesis bs tr r w t,
  mods_ok genesis = true -> forallb block_ok bs = true -> unit <> 0 ->
  ledger_run unit genesis bs = Some tr -> nth_error tr r = Some (w, t) ->
  (forall k a, In (k, a) w ->
     lookup_account unit (level_at bs r) a = Some (a_st a, money_at unit (level_at bs r) a, a_malgos a)) /\
  t = obs_sums unit (level_at bs r) (lookups_of unit (level_at bs r) w).
Proof. exact totals_eq_lookup_sums. Qed.
Print Assumptions C12_totals_eq_lookup_sums.

(* One evaluator step preserves "totals = class sums of the world" (the induction step, for an
   arbitrary world satisfying the invariant — not only worlds reached from a genesis). *)
Theorem C12_calculate_totals_step : forall unit w t b t',
  TInv unit w t -> block_ok b = true ->
  calculate_totals unit t w (b_level b) (b_mods b) = COk t' ->
  TInv unit (wapply (b_mods b) w) t' /\ t_level t' = b_level b /\ t_level t <= b_level b.
Proof. exact calculate_totals_sound. Qed.
Print Assumptions C12_calculate_totals_step.

Theorem C12_invariant_is_class_sums : forall unit w t,
  TInv unit w t -> t = class_sums unit (t_level t) w.
Proof. exact TInv_class_sums. Qed.
Print Assumptions C12_invariant_is_class_sums.

(* For EVERY schedule of new blocks, commits (any offsets) and reloads: accountUpdates serves
   exactly the rounds dbRound..latest, and what it serves for round rnd is the class sum over
   the accounts of round rnd — a function of the block history and rnd only. *)
Theorem C12_totals_served_any_schedule : forall unit genesis ops s0 s,
  mods_ok genesis = true -> forallb block_ok (blocks_of ops) = true ->
  tracker_init unit genesis = Some s0 -> trun unit s0 ops = Some s ->
  forall rnd,
    serve s rnd =
    if (tr_dbround s <=? rnd) && (rnd <=? N.of_nat (List.length (blocks_of ops)))
    then Some (spec_totals unit genesis (blocks_of ops) (N.to_nat rnd)) else None.
Proof. exact totals_served_any_schedule. Qed.
Print Assumptions C12_totals_served_any_schedule.

Theorem C12_schedule_independent : forall unit genesis ops1 ops2 s01 s02 s1 s2 rnd t1 t2,
  mods_ok genesis = true -> forallb block_ok (blocks_of ops1) = true ->
  blocks_of ops1 = blocks_of ops2 ->
  tracker_init unit genesis = Some s01 -> trun unit s01 ops1 = Some s1 ->
  tracker_init unit genesis = Some s02 -> trun unit s02 ops2 = Some s2 ->
  serve s1 rnd = Some t1 -> serve s2 rnd = Some t2 -> t1 = t2.
Proof. exact totals_schedule_independent. Qed.
Print Assumptions C12_schedule_independent.

(* the comparisons [check] evaluates on the implementation's observations are equality *)
Theorem C12_totals_eqb_sound : forall a b, totals_eqb a b = true <-> a = b.
Proof. exact totals_eqb_eq. Qed.
Print Assumptions C12_totals_eqb_sound.

(* the sums [check] computes from the observed LookupAccount answers are the class sums when the
   answers are those of the accounts of the round *)
Theorem C12_obs_sums_sound : forall unit L w,
  obs_sums unit L (lookups_of unit L w) = class_sums unit L w.
Proof. exact obs_sums_lookups. Qed.
Print Assumptions C12_obs_sums_sound.

(* overflow tracking: for ALL uint64 totals, account data, reward units and tracker flags, one
   AddAccount / DelAccount / ApplyRewards call of the wrapped model satisfies the closed-form step
   spec that [check] evaluates on the implementation's raw observations: it panics exactly when
   the status is unknown, the reward unit is 0 or the balance with pending rewards is not
   representable; the flag is raised exactly when the exact result leaves uint64; while it is down
   the stored numbers are the exact ones and the other classes are untouched. *)
Theorem C12_add_del_meet_spec : forall (add : bool) unit a t ot,
  u64 unit = true -> totals_u64 t = true -> acct_ok a = true ->
  spec_adddel add unit a t ot (if add then add_account unit a t ot else del_account unit a t ot) = true.
Proof. exact add_del_meet_spec. Qed.
Print Assumptions C12_add_del_meet_spec.

Theorem C12_rewards_meet_spec : forall level t ot,
  u64 level = true -> totals_u64 t = true ->
  spec_rewards level t ot (Some (apply_rewards level t ot)) = true.
Proof. exact rewards_meet_spec. Qed.
Print Assumptions C12_rewards_meet_spec.

(* Participating / All / RewardUnits: the exact sum, or a panic exactly when it leaves uint64 *)
Theorem C12_all_meets_spec : forall t, totals_u64 t = true ->
  participating t = spec_sum2 (c_money (t_on t)) (c_money (t_off t)) /\
  all_money t = match spec_sum2 (c_money (t_on t)) (c_money (t_off t)) with
                | Some p => spec_sum2 (c_money (t_np t)) p | None => None end /\
  part_units t = spec_sum2 (c_units (t_on t)) (c_units (t_off t)).
Proof. exact all_meets_spec. Qed.
Print Assumptions C12_all_meets_spec.

(* anti-vacuity: a concrete history meets the hypotheses and exercises a status change
   (offline -> online), a close (account 3 -> zero data, money to account 1), a move to
   non-participating and two rewards-level changes; the totals of round 3 are non-trivial. *)
Definition ex_genesis : list (N * acct) :=
  [(0, mkA stNotPart 5000000 0); (1, mkA stOnline 3000000 0); (2, mkA stOffline 2500000 0);
   (3, mkA stOffline 1000000 0)].
Definition ex_blocks : list block :=
  [ mkB 3 [(2, mkA stOnline 2500006 3); (0, mkA stNotPart 4999982 0)];
    mkB 3 [(3, acct0); (1, mkA stOnline 4000012 3)];
    mkB 7 [(2, mkA stNotPart 2500014 7); (0, mkA stNotPart 4999958 0)] ].
Definition ex_final : totals := mkT (mkAC 4000028 4) (mkAC 0 0) (mkAC 7499972 6) 7.
Definition ex_sched : list top :=
  [TNewBlock (nth 0 ex_blocks (mkB 0 [])); TNewBlock (nth 1 ex_blocks (mkB 0 []));
   TCommit 1; TReload; TNewBlock (nth 2 ex_blocks (mkB 0 [])); TCommit 1].
Example C12_nonvacuous :
  mods_ok ex_genesis = true /\ forallb block_ok ex_blocks = true /\
  blocks_of ex_sched = ex_blocks /\
  option_map (fun tr => option_map snd (nth_error tr 3)) (ledger_run 1000000 ex_genesis ex_blocks)
    = Some (Some ex_final) /\
  match tracker_init 1000000 ex_genesis with
  | Some s0 => option_map (fun s => (tr_dbround s, serve s 1, serve s 3)) (trun 1000000 s0 ex_sched)
  | None => None
  end = Some (2, None, Some ex_final).
Proof. vm_compute. repeat split. Qed.
