(* C38  State proof prover and verifier agree on the required reveals.
   Property theorems only.  Model: model/SpWeights.v = crypto/stateproof/weights.go
   (getSubExpressions, numReveals, verifyWeights) and the rejection sampling of
   coinGenerator.go, over Z.  lnProvenWeight (the float64 LnIntApproximation output) is an
   arbitrary input.  All statements are for every integer (signedWeight, lnProvenWeight,
   strengthTarget), no side condition.  [numReveals] is the code with /verif/fixes/C38.patch;
   for the code before the fix ([numReveals_unfixed], big.Int.Uint64 truncation) the first
   theorem is false: C38_prover_satisfies_verifier_refuted. *)
From Coq Require Import ZArith List Bool String.
Import ListNotations.
From Verif.lib Require Import Term.
From Verif.model Require Import SpWeights.
From Verif.proofs Require Import SpWeightsProofs.
Open Scope Z_scope.

(* Whenever the prover decides the signed weight can prove the target (numReveals returns a
   count), that count satisfies the verifier's security inequality. *)
Theorem C38_prover_satisfies_verifier : forall sw lnPW st n,
  numReveals sw lnPW st = WOk n ->
  verifyWeights sw lnPW n st = WOk tt.
Proof. exact prover_satisfies_verifier_l. Qed.
Print Assumptions C38_prover_satisfies_verifier.

(* The verifier accepts exactly the counts within MaxReveals that satisfy the inequality
   n * (x + w*y) >= (strengthTarget*T + n*P) * y. *)
Theorem C38_verifier_exact : forall sw lnPW n st,
  verifyWeights sw lnPW n st = WOk tt <->
  n <= MaxReveals /\ sw <> 0 /\
  (st * ln2Int + n * lnPW) * subY sw <= n * (subX sw + subW sw * subY sw).
Proof. exact verifyWeights_ok_iff. Qed.
Print Assumptions C38_verifier_exact.

(* The verifier rejects every smaller count that violates the inequality: all m < n-1 are
   rejected, and n-1 is accepted exactly when the division was exact (so the prover's n is
   the least accepted count or that plus one). *)
Theorem C38_verifier_rejects_smaller : forall sw lnPW st n,
  numReveals sw lnPW st = WOk n ->
  (forall m, 0 <= m < n - 1 -> verifyWeights sw lnPW m st = WErr ErrInsufficientSignedWeight) /\
  (verifyWeights sw lnPW (n - 1) st = WOk tt <-> numerator sw st mod denom sw lnPW = 0).
Proof. exact verifier_rejects_smaller_l. Qed.
Print Assumptions C38_verifier_rejects_smaller.

(* Acceptance is monotone in the count, and an accepted count bounds the prover's quotient:
   whenever the verifier accepts n, the prover's equation is feasible and asks for at most
   n + 1 reveals. *)
Theorem C38_verifier_monotone : forall sw lnPW st n n',
  0 < sw -> 0 < st -> verifyWeights sw lnPW n st = WOk tt -> 0 <= n ->
  n <= n' -> n' <= MaxReveals -> verifyWeights sw lnPW n' st = WOk tt.
Proof. exact verifier_monotone_l. Qed.
Print Assumptions C38_verifier_monotone.

Theorem C38_verifier_accept_bounds_prover : forall sw lnPW st n,
  0 < sw -> 0 < st -> 0 <= n -> verifyWeights sw lnPW n st = WOk tt ->
  0 < denom sw lnPW /\ numerator sw st / denom sw lnPW <= n.
Proof. exact verifier_accept_bounds_quotient_l. Qed.
Print Assumptions C38_verifier_accept_bounds_prover.

(* Every revealed coin lies below the signed weight, for every XOF output stream. *)
Theorem C38_coin_below_weight : forall fuel sw stream, 0 < sw ->
  Forall (fun c => 0 <= c < sw) (coins fuel sw stream).
Proof. exact coins_below. Qed.
Print Assumptions C38_coin_below_weight.

(* ... and the rejection sampling is uniform: among accepted 64-bit words each coin value
   has exactly floor(2^64/sw) pre-images. *)
Theorem C38_coin_uniform : forall sw c z,
  0 < sw -> 0 <= c < sw -> 0 <= z < coinThreshold sw ->
  (z mod sw = c <-> exists j, 0 <= j < two64 / sw /\ z = j * sw + c).
Proof. exact coin_uniform_l. Qed.
Print Assumptions C38_coin_uniform.

(* Before the fix the property is false on uint64 inputs: where the exact quotient does not
   fit 64 bits, numReveals returned the truncated count and the verifier rejects it
   (signedWeight 2, lnProvenWeight 45425, strengthTarget = 45427^-1 mod 2^64; replayed on
   the Go code by the harness; consensus uses strengthTarget = 256).  The fixed code answers
   ErrTooManyReveals there, and is identical wherever the count fits 64 bits. *)
Theorem C38_prover_satisfies_verifier_refuted :
  exists sw lnPW st n,
    0 < sw < two64 /\ 0 <= lnPW < two64 /\ 0 <= st < two64 /\
    numReveals_unfixed sw lnPW st = WOk n /\
    verifyWeights sw lnPW n st = WErr ErrInsufficientSignedWeight /\
    two64 <= numerator sw st / denom sw lnPW /\
    numReveals sw lnPW st = WErr ErrTooManyReveals.
Proof. exact prover_satisfies_verifier_refuted_l. Qed.
Print Assumptions C38_prover_satisfies_verifier_refuted.

Theorem C38_fix_conservative : forall sw lnPW st,
  0 <= st -> numerator sw st / denom sw lnPW + 1 < two64 ->
  numReveals sw lnPW st = numReveals_unfixed sw lnPW st.
Proof. exact numReveals_fix_conservative. Qed.
Print Assumptions C38_fix_conservative.

(* Soundness of the oracle used by [check] on implementation observations: it is the
   verifier's acceptance condition, computed without log2. *)
Theorem C38_spec_ok_sound : forall sw lnPW n st, 0 < sw < two64 ->
  spec_verify sw lnPW n st = true <-> verifyWeights sw lnPW n st = WOk tt.
Proof. exact spec_verify_sound. Qed.
Print Assumptions C38_spec_ok_sound.

(* Non-vacuity: consensus-like parameters meet the hypotheses and give a non-trivial count. *)
Example C38_nonvacuous :
  let sw := 2 ^ 40 in let lnPW := 1738076 (* ~ 2^16 * ln(0.3 * 2^40) *) in let st := 256 in
  numReveals sw lnPW st = WOk 148 /\
  verifyWeights sw lnPW 148 st = WOk tt /\
  verifyWeights sw lnPW 147 st = WErr ErrInsufficientSignedWeight.
Proof. vm_compute. repeat split; reflexivity. Qed.
