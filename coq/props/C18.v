(* C18 Blocks neither create nor destroy Algos.
   Property theorems only: each is closed by [exact <lemma>] and followed by
   Print Assumptions.  Model: model/EvalCow.v, EvalApply.v, EvalGroup.v (transcription of
   ledger/eval/cow.go, eval.go, ledger/apply/payment.go, keyreg.go, apply.go); the property in
   closed form: model/EvalSpec.v ([bwp] = balance with pending rewards, [tot_at] = its sum over
   a universe U of accounts seen through the overlay).  Transaction types modelled: payment
   (incl. CloseRemainderTo), key registration, asset config / transfer (opt-in, clawback,
   close-out) / freeze, all with fee and rekey, and application calls: create / opt-in /
   close-out / clear state / delete around a program that is ANY finite script of ledger
   operations (boxes, global / local state, inner payment / asset transactions) ending in
   approve, reject or a failure.  Not modelled: inner application calls, UpdateApplication,
   heartbeats, state proofs. *)
From Coq Require Import NArith ZArith List Bool String.
Import ListNotations.
From Verif.lib Require Import Term.
From Verif.model Require Import Overflow EvalCow EvalApply EvalGroup EvalSpec EvalCheck.
From Verif.proofs Require Import EvalCowProofs EvalGroupProofs EvalConserveProofs EvalMinBalProofs EvalSpecProofs EvalTheorems.
Open Scope N_scope.

(* Move (incl. the "unfunded sender" skip branches, pending rewards applied to both sides,
   from = to): whenever it returns without error the total is unchanged *)
Theorem C18_move_conserves : forall E U from to amt fr tr c c' r,
  env_ok E -> NoDup U -> amt < 2 ^ 64 -> In from U -> In to U -> wf_cow (e_lvl E) c ->
  move E from to amt fr tr c = (c', Ok r) ->
  tot_at (e_P E) (e_lvl E) U c' = tot_at (e_P E) (e_lvl E) U c /\ wf_cow (e_lvl E) c'.
Proof. exact move_conserves. Qed.
Print Assumptions C18_move_conserves.

(* the two error exits of Move: an overspend (any failure of the debit side) leaves the cow
   untouched; a failure of the credit side leaves the debit written -- the caller must drop
   the cow, which TransactionGroup does (C19) *)
Theorem C18_move_error_exits : forall E from to amt fr tr c c' e,
  move E from to amt fr tr c = (c', Err e) ->
  c' = c \/ (e <> E_OVERSPEND /\ exists r1, move_side E true from amt fr c = (c', Ok r1)).
Proof. exact move_error_exits. Qed.
Print Assumptions C18_move_error_exits.

(* applyTransaction = takeFee (fee to the fee sink) + Rekey + Payment (with close) / Keyreg /
   AssetConfig / AssetTransfer / AssetFreeze (a status switch to NotParticipating never drops
   pending rewards: takeFee has settled them; asset transactions only touch counters) *)
Theorem C18_txn_conserves : forall E U tx ctr c c' ad,
  env_ok E -> NoDup U -> tx_ok E U tx -> wf_cow (e_lvl E) c ->
  apply_transaction E tx ctr c = (c', Ok ad) ->
  tot_at (e_P E) (e_lvl E) U c' = tot_at (e_P E) (e_lvl E) U c /\ wf_cow (e_lvl E) c'.
Proof. exact txn_conserves. Qed.
Print Assumptions C18_txn_conserves.

(* TransactionGroup, accepted or rejected *)
Theorem C18_group_conserves : forall E U ev g lf,
  env_ok E -> NoDup U -> Forall (tx_ok E U) g -> wf_cow (e_lvl E) (ev_cow ev) ->
  let ev' := fst (transaction_group E ev g lf) in
  tot_at (e_P E) (e_lvl E) U (ev_cow ev') = tot_at (e_P E) (e_lvl E) U (ev_cow ev) /\
  wf_cow (e_lvl E) (ev_cow ev').
Proof. exact group_conserves. Qed.
Print Assumptions C18_group_conserves.

(* StartEvaluator: the pool pays (level increase) x (reward units); counted at the new level
   the accounts hold exactly that much more in pending rewards *)
Theorem C18_rewards_conserve : forall E b prevlvl ru U ev,
  env_ok E -> prevlvl < 2 ^ 64 -> ru < 2 ^ 64 -> NoDup U -> In (e_pool E) U ->
  wf_cow prevlvl (base_cow b) -> ru = units_of (e_P E) U (base_cow b) ->
  start_block E b prevlvl ru = Ok ev ->
  tot_at (e_P E) (e_lvl E) U (ev_cow ev) = tot_at (e_P E) prevlvl U (base_cow b) /\
  wf_cow (e_lvl E) (ev_cow ev).
Proof. exact rewards_conserve. Qed.
Print Assumptions C18_rewards_conserve.

(* endOfBlock: expired / absent resets, proposer payout from the fee sink, recordProposal *)
Theorem C18_end_block_conserves : forall E U expired absent proposer payout c c' u,
  env_ok E -> NoDup U -> e_validate E = true ->
  payout < 2 ^ 64 -> In (e_feesink E) U -> (proposer <> 0 -> In proposer U) ->
  (forall a, In a expired -> In a U /\ a_status (lookup c a) <> NotPart) ->
  (forall a, In a absent -> In a U) -> wf_cow (e_lvl E) c ->
  end_block E expired absent proposer payout c = (c', Ok u) ->
  tot_at (e_P E) (e_lvl E) U c' = tot_at (e_P E) (e_lvl E) U c /\ wf_cow (e_lvl E) c'.
Proof. exact end_block_conserves. Qed.
Print Assumptions C18_end_block_conserves.

(* the property: a whole block (any number of groups of any size) *)
Theorem C18_block_conserves : forall E b prevlvl ru gs expired absent proposer payout U ev,
  env_ok E -> e_validate E = true ->
  prevlvl < 2 ^ 64 -> ru < 2 ^ 64 -> payout < 2 ^ 64 -> NoDup U ->
  In (e_pool E) U -> In (e_feesink E) U -> (proposer <> 0 -> In proposer U) ->
  (forall a, In a expired -> In a U) -> (forall a, In a absent -> In a U) ->
  groups_ok E U gs ->
  wf_cow prevlvl (base_cow b) ->
  ru = units_of (e_P E) U (base_cow b) ->
  (forall ev0 ev1, start_block E b prevlvl ru = Ok ev0 -> eval_groups E ev0 gs = Ok ev1 ->
                   forall a, In a expired -> a_status (lookup (ev_cow ev1) a) <> NotPart) ->
  eval_block E b prevlvl ru gs expired absent proposer payout = Ok ev ->
  tot_at (e_P E) (e_lvl E) U (ev_cow ev) = tot_at (e_P E) prevlvl U (base_cow b) /\
  wf_cow (e_lvl E) (ev_cow ev).
Proof. exact block_conserves_thm. Qed.
Print Assumptions C18_block_conserves.

(* every history: any number of blocks, each evaluated on the ledger its predecessor left *)
Theorem C18_history_conserves : forall P U b l ds b' l',
  NoDup U -> run P U b l ds b' l' -> wf_cow l (base_cow b) ->
  tot_at P l' U (base_cow b') = tot_at P l U (base_cow b) /\ wf_cow l' (base_cow b').
Proof. exact history_conserves. Qed.
Print Assumptions C18_history_conserves.

(* the premise about the expired list cannot be dropped: the faithful model of
   resetExpiredOnlineAccountsParticipationKeys creates 200 microAlgos of pending rewards when
   the header lists a NotParticipating account that kept a vote key *)
Theorem C18_expire_nonparticipating_refuted :
  exists c', end_block (ex_E true false) [6] [] 0 0 ex_np_cow = (c', Ok tt) /\
    tot_at ex_P 4 [1; 2; 6] c' = tot_at ex_P 4 [1; 2; 6] ex_np_cow + 200.
Proof. exact expire_nonparticipating_refuted. Qed.
Print Assumptions C18_expire_nonparticipating_refuted.

(* ---- application calls ---- *)
(* an inner transaction: its fee goes from the application account to the fee sink, its body
   moves money between accounts *)
Theorem C18_inner_txn_conserves : forall E U app fee b c c' u,
  env_ok E -> NoDup U -> inner_ok E U app (fee, b) -> wf_cow (e_lvl E) c ->
  perform E app fee b c = (c', Ok u) ->
  tot_at (e_P E) (e_lvl E) U c' = tot_at (e_P E) (e_lvl E) U c /\ wf_cow (e_lvl E) c'.
Proof. exact inner_txn_conserves. Qed.
Print Assumptions C18_inner_txn_conserves.

(* StatefulEval of any program, whatever its verdict *)
Theorem C18_program_conserves : forall E U app clear script acc c c' r,
  env_ok E -> NoDup U -> Forall (op_ok E U app) script -> wf_cow (e_lvl E) c ->
  stateful_eval E app clear script acc c = (c', r) ->
  tot_at (e_P E) (e_lvl E) U c' = tot_at (e_P E) (e_lvl E) U c /\ wf_cow (e_lvl E) c'.
Proof. exact program_conserves. Qed.
Print Assumptions C18_program_conserves.

Theorem C18_app_call_conserves : forall E U sender call ctr c c' u,
  env_ok E -> NoDup U -> call_ok E U call -> wf_cow (e_lvl E) c ->
  application_call E sender call ctr c = (c', Ok u) ->
  tot_at (e_P E) (e_lvl E) U c' = tot_at (e_P E) (e_lvl E) U c /\ wf_cow (e_lvl E) c'.
Proof. exact app_call_conserves. Qed.
Print Assumptions C18_app_call_conserves.
(* C18_txn_conserves / group_conserves / block_conserves / history_conserves above quantify over
   [tx_ok] transactions, which include application calls ([call_ok]). *)

(* the oracle evaluated on the implementation's observations is the statement *)
Theorem C18_spec_ok_sound : forall k, spec_ok_c18 k = true ->
  let T := total (k_P k) (k_prevlvl k) (k_base k) in
  total (k_P k) (k_lvl k) (s_table (k_start k)) = T /\
  Forall (fun g => total (k_P k) (k_lvl k) (s_table (g_snap g)) = T) (k_groups k) /\
  (k_endcode k = 0 -> total (k_P k) (k_lvl k) (k_final k) = T).
Proof. exact spec_ok_c18_sound. Qed.
Print Assumptions C18_spec_ok_sound.

(* non-vacuity: a block with a payment, a close-out, rewards and a payout satisfies the
   hypotheses and evaluates *)
Example C18_instance :
  exists ev, eval_block (ex_E true false) ex_base 0 25 ex_groups [] [] 4 700 = Ok ev /\
    tot_at ex_P 4 ex_U (ev_cow ev) = 1035500000 /\ tot_at ex_P 0 ex_U (base_cow ex_base) = 1035500000 /\
    a_algos (lookup (ev_cow ev) 3) = 0 /\ a_algos (lookup (ev_cow ev) 4) = 24498800.
Proof. exact block_conserves_instance. Qed.

Example C18_instance_hypotheses :
  NoDup ex_U /\ groups_ok (ex_E true false) ex_U ex_groups /\
  25 = units_of ex_P ex_U (base_cow ex_base) /\
  (forall a, a_algos (base_lookup ex_base a) < 2 ^ 64 /\ a_rbase (base_lookup ex_base a) <= 0).
Proof. exact block_conserves_hypotheses. Qed.
