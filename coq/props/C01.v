(* C01 Consensus safety: no two honest nodes commit different blocks for a round.
   Layer 1 (abstract protocol, model/AbstractBA.v): for EVERY reachable trace -- any number of
   nodes, periods and steps, any interleaving / delay / reordering / duplication / drop of
   messages (a node may act on any subset of the votes cast so far), arbitrary Byzantine
   votes -- two cert quorums of one round carry the same value.  The quorum-intersection
   hypotheses QI_same / QI_cross are explicit premises (they are the sortition facts that
   hold with overwhelming probability while the Byzantine stake is below the bound). *)
From Coq Require Import List Arith NArith Bool Lia.
From Verif.model Require Import AbstractBA ConcreteBA.
From Verif.proofs Require Import AbstractBAProofs ConcreteBAProofs AbstractBAExample.
Import ListNotations.

Theorem C01_ba_safety :
  forall (node value : Type)
         (node_eq_dec : forall a b : node, {a = b} + {a <> b})
         (value_eq_dec : forall a b : value, {a = b} + {a <> b})
         (honest : node -> Prop) (quorum : nat -> nat -> (node -> Prop) -> Prop),
    (forall p s Q1 Q2, quorum p s Q1 -> quorum p s Q2 -> exists n, honest n /\ Q1 n /\ Q2 n) ->
    (forall p p' s Qc Qn, p <= p' -> 3 <= s -> quorum p 2 Qc -> quorum p' s Qn ->
                          exists n, honest n /\ Qc n /\ Qn n) ->
    forall t, reachable node value node_eq_dec value_eq_dec honest quorum t ->
    forall p v p' v',
      has_q node value quorum t p 2 (Some v) -> has_q node value quorum t p' 2 (Some v') -> v = v'.
Proof. exact ba_safety. Qed.
Print Assumptions C01_ba_safety.

Theorem C01_one_block_per_round :
  forall (node value : Type)
         (node_eq_dec : forall a b : node, {a = b} + {a <> b})
         (value_eq_dec : forall a b : value, {a = b} + {a <> b})
         (honest : node -> Prop) (quorum : nat -> nat -> (node -> Prop) -> Prop),
    (forall p s Q1 Q2, quorum p s Q1 -> quorum p s Q2 -> exists n, honest n /\ Q1 n /\ Q2 n) ->
    (forall p p' s Qc Qn, p <= p' -> 3 <= s -> quorum p 2 Qc -> quorum p' s Qn ->
                          exists n, honest n /\ Qc n /\ Qn n) ->
    forall t, reachable node value node_eq_dec value_eq_dec honest quorum t ->
    forall v v', committable_value node value quorum t v -> committable_value node value quorum t v' -> v = v'.
Proof. exact one_block_per_round. Qed.
Print Assumptions C01_one_block_per_round.

(* after a cert quorum for v, every next-type quorum of the same or a later period is for v:
   the round can neither be skipped (bottom) nor steered to another value *)
Theorem C01_no_conflicting_next :
  forall (node value : Type)
         (node_eq_dec : forall a b : node, {a = b} + {a <> b})
         (value_eq_dec : forall a b : value, {a = b} + {a <> b})
         (honest : node -> Prop) (quorum : nat -> nat -> (node -> Prop) -> Prop),
    (forall p s Q1 Q2, quorum p s Q1 -> quorum p s Q2 -> exists n, honest n /\ Q1 n /\ Q2 n) ->
    (forall p p' s Qc Qn, p <= p' -> 3 <= s -> quorum p 2 Qc -> quorum p' s Qn ->
                          exists n, honest n /\ Qc n /\ Qn n) ->
    forall t, reachable node value node_eq_dec value_eq_dec honest quorum t ->
    forall p v q x, has_q node value quorum t p 2 (Some v) -> p <= q ->
                    nextq node value quorum t q x -> x = Some v.
Proof. exact no_conflicting_next. Qed.
Print Assumptions C01_no_conflicting_next.

Theorem C01_no_bottom_cert :
  forall (node value : Type)
         (node_eq_dec : forall a b : node, {a = b} + {a <> b})
         (value_eq_dec : forall a b : value, {a = b} + {a <> b})
         (honest : node -> Prop) (quorum : nat -> nat -> (node -> Prop) -> Prop),
    (forall p s Q1 Q2, quorum p s Q1 -> quorum p s Q2 -> exists n, honest n /\ Q1 n /\ Q2 n) ->
    forall t p, reachable node value node_eq_dec value_eq_dec honest quorum t ->
                ~ has_q node value quorum t p 2 None.
Proof. exact no_bottom_cert. Qed.
Print Assumptions C01_no_bottom_cert.

(* the executable rule checker used on recorded traces of real state machines is sound *)
Theorem C01_monitor_sound :
  forall (honest_b : N -> bool) (qdec : nat -> nat -> list N -> bool)
         (quorum : nat -> nat -> (N -> Prop) -> Prop),
    (forall p s l, qdec p s l = true -> quorum p s (fun n => In n l)) ->
    forall t, reachable_b honest_b qdec t = true ->
              reachable N N N.eq_dec N.eq_dec (fun n => honest_b n = true) quorum t.
Proof. exact reachable_b_sound. Qed.
Print Assumptions C01_monitor_sound.

(* anti-vacuity: a concrete committee satisfies both intersection hypotheses, and a concrete
   two-period trace (soft/cert in period 0, next votes, period 1 entered on the next quorum,
   soft/cert again, with a Byzantine node voting for a conflicting value / bottom throughout)
   is reachable and ends with cert quorums in two different periods; and the checker flags a
   trace in which a cert-voter next-votes bottom *)
Theorem C01_nonvacuous :
  (forall p s Q1 Q2, ex_quorum p s Q1 -> ex_quorum p s Q2 -> exists n, ex_honest n /\ Q1 n /\ Q2 n) /\
  (forall (p p' s : nat) Qc Qn, p <= p' -> 3 <= s -> ex_quorum p 2 Qc -> ex_quorum p' s Qn ->
                        exists n, ex_honest n /\ Qc n /\ Qn n) /\
  reachable N N N.eq_dec N.eq_dec ex_honest ex_quorum ex_trace /\
  has_q N N ex_quorum ex_trace 0 2 (Some 7%N) /\ has_q N N ex_quorum ex_trace 1 2 (Some 7%N).
Proof. exact ex_nonvacuous. Qed.
Print Assumptions C01_nonvacuous.

Theorem C01_monitor_flags_violation : first_bad ex_honest_b ex_qdec ex_bad_trace = Some 4.
Proof. exact ex_bad_flagged. Qed.
Print Assumptions C01_monitor_flags_violation.

(* ------------------------------------------------------------------------------------------
   Layer 2 = runtime refinement checking (model/C01Check.v): the check records ONE global trace
   per run of N real agreement state machines and evaluates ConcreteBA.first_bad on it with the
   stake-weight quorum predicate.  The theorems below tie that executable verdict to layer 1. *)
From Verif.lib Require Import Term.
From Verif.model Require Import C01Check.
From Verif.proofs Require Import C01CheckProofs.

(* the quorum-intersection hypotheses are DECIDED for the weights of a case (enumeration of the
   splits of the honest set): every two duplicate-free voter lists reaching the thresholds share
   an honest node *)
Theorem C01_qi_decided :
  forall (ths honest byz : list N) (tbl : wtable),
    qi_b ths honest byz tbl = true ->
    let quorum := quorum_weights (weight_of (honest ++ byz) tbl) (step_threshold ths) in
    (forall p s Q1 Q2, quorum p s Q1 -> quorum p s Q2 ->
                       exists n, honest_b honest n = true /\ Q1 n /\ Q2 n) /\
    (forall (p p' s : nat) Qc Qn, (p <= p')%nat -> (3 <= s)%nat -> quorum p 2%nat Qc -> quorum p' s Qn ->
                       exists n, honest_b honest n = true /\ Qc n /\ Qn n).
Proof. exact (fun ths honest byz tbl H => conj (qi_same_holds ths honest byz tbl H) (qi_cross_holds ths honest byz tbl H)). Qed.
Print Assumptions C01_qi_decided.

(* a trace accepted by the checker, whose committee weights satisfy the decided intersection
   hypotheses, is a reachable trace of the abstract protocol and has no conflicting cert quorums
   (corollary of C01_monitor_sound and C01_ba_safety) *)
Theorem C01_checked_trace_safe :
  forall (ths honest byz : list N) (tbl : wtable),
    qi_b ths honest byz tbl = true ->
    forall t, first_bad (honest_b honest) (qdec ths honest byz tbl) t = None ->
    let quorum := quorum_weights (weight_of (honest ++ byz) tbl) (step_threshold ths) in
    reachable N N N.eq_dec N.eq_dec (fun n => honest_b honest n = true) quorum t /\
    forall p v p' v', has_q N N quorum t p 2%nat (Some v) -> has_q N N quorum t p' 2%nat (Some v') -> v = v'.
Proof. exact checked_trace_safe. Qed.
Print Assumptions C01_checked_trace_safe.

(* the executable safety monitor of the check means what it should ... *)
Theorem C01_certs_agree_b_iff :
  forall (ths honest byz : list N) (tbl : wtable),
    qi_b ths honest byz tbl = true ->
    forall t, certs_agree_b ths honest byz tbl t = true <->
      (forall p x p' y, has_q_b (qdec ths honest byz tbl) t p 2%nat (Some x) = true ->
                        has_q_b (qdec ths honest byz tbl) t p' 2%nat (Some y) = true -> x = y).
Proof. exact certs_agree_b_iff. Qed.
Print Assumptions C01_certs_agree_b_iff.

(* ... and it can only fail on a trace that the rule checker rejects: whenever the real machines
   stay inside the abstract rules, no two cert quorums of the recorded run differ *)
Theorem C01_checked_trace_certs_agree :
  forall (ths honest byz : list N) (tbl : wtable),
    qi_b ths honest byz tbl = true ->
    forall t, first_bad (honest_b honest) (qdec ths honest byz tbl) t = None ->
              certs_agree_b ths honest byz tbl t = true.
Proof. exact checked_trace_certs_agree. Qed.
Print Assumptions C01_checked_trace_certs_agree.

(* anti-vacuity for layer 2: real thresholds, five senders with 20 % each: the intersection test
   holds with one Byzantine sender and fails with three; a two-period run (period 0 skipped on a
   next quorum for bottom formed with the Byzantine sender's help, value 7 certified in period 1)
   is accepted, and a cert-voter that next-votes bottom is flagged *)
Theorem C01_layer2_nonvacuous :
  qi_b ex_ths [1;2;3;4]%N [5]%N ex_tbl = true /\
  qi_b ex_ths [1;2]%N [3;4;5]%N ex_tbl = false /\
  first_bad (honest_b [1;2;3;4]%N) (qdec ex_ths [1;2;3;4]%N [5]%N ex_tbl) ex_run = None /\
  has_q_b (qdec ex_ths [1;2;3;4]%N [5]%N ex_tbl) ex_run 1%nat 2%nat (Some 7%N) = true /\
  first_bad (honest_b [1;2;3;4]%N) (qdec ex_ths [1;2;3;4]%N [5]%N ex_tbl) ex_run_bad = Some 6%nat.
Proof.
  exact (conj ex_qi_holds (conj ex_qi_fails_over_bound
          (conj (proj1 ex_run_accepted) (conj (proj1 (proj2 ex_run_accepted)) ex_run_bad_flagged)))).
Qed.
Print Assumptions C01_layer2_nonvacuous.

(* the only clause of the abstract rules that the real code was seen to leave (cert-voter next-votes bottom
   after a cert threshold for ANOTHER value of the same period overwrote its staging value) is left only
   when QI_same is already false: under QI_same the exception "a cert quorum for y' <> y exists in the period"
   is vacuous for an honest cert-voter, so relaxing R_next by it does not change the reachable traces that
   ba_safety talks about (proofs/C01RelaxProofs.v) *)
From Verif.proofs Require Import C01RelaxProofs.
Theorem C01_next_rule_relaxation_vacuous :
  forall (node value : Type)
         (node_eq_dec : forall a b : node, {a = b} + {a <> b})
         (value_eq_dec : forall a b : value, {a = b} + {a <> b})
         (honest : node -> Prop) (quorum : nat -> nat -> (node -> Prop) -> Prop),
    (forall p s Q1 Q2, quorum p s Q1 -> quorum p s Q2 -> exists n, honest n /\ Q1 n /\ Q2 n) ->
    forall t h q y y',
      reachable node value node_eq_dec value_eq_dec honest quorum t -> honest h ->
      voted node value t (mkVote node value h q 2%nat (Some y)) ->
      has_q node value quorum t q 2%nat (Some y') -> y' = y.
Proof. exact cert_voter_exception_vacuous. Qed.
Print Assumptions C01_next_rule_relaxation_vacuous.
