(* C01 Consensus safety: no two honest nodes commit different blocks for a round.
   Layer 1 (abstract protocol, model/AbstractBA.v): for EVERY reachable trace -- any number of
   nodes, periods and steps, any interleaving / delay / reordering / duplication / drop of
   messages (a node may act on any subset of the votes cast so far), arbitrary Byzantine
   votes -- two cert quorums of one round carry the same value.  The quorum-intersection
   hypotheses QI_same / QI_cross are explicit premises (they are the sortition facts that
   hold with overwhelming probability while the Byzantine stake is below the bound). *)
From Coq Require Import List Arith NArith Bool Lia.
From Verif.model Require Import AbstractBA ConcreteBA.
From Verif.proofs Require Import AbstractBAProofs ConcreteBAProofs AbstractBAExample.
Import ListNotations.

Theorem C01_ba_safety :
  forall (node value : Type)
         (node_eq_dec : forall a b : node, {a = b} + {a <> b})
         (value_eq_dec : forall a b : value, {a = b} + {a <> b})
         (honest : node -> Prop) (quorum : nat -> nat -> (node -> Prop) -> Prop),
    (forall p s Q1 Q2, quorum p s Q1 -> quorum p s Q2 -> exists n, honest n /\ Q1 n /\ Q2 n) ->
    (forall p p' s Qc Qn, p <= p' -> 3 <= s -> quorum p 2 Qc -> quorum p' s Qn ->
                          exists n, honest n /\ Qc n /\ Qn n) ->
    forall t, reachable node value node_eq_dec value_eq_dec honest quorum t ->
    forall p v p' v',
      has_q node value quorum t p 2 (Some v) -> has_q node value quorum t p' 2 (Some v') -> v = v'.
Proof. exact ba_safety. Qed.
Print Assumptions C01_ba_safety.

Theorem C01_one_block_per_round :
  forall (node value : Type)
         (node_eq_dec : forall a b : node, {a = b} + {a <> b})
         (value_eq_dec : forall a b : value, {a = b} + {a <> b})
         (honest : node -> Prop) (quorum : nat -> nat -> (node -> Prop) -> Prop),
    (forall p s Q1 Q2, quorum p s Q1 -> quorum p s Q2 -> exists n, honest n /\ Q1 n /\ Q2 n) ->
    (forall p p' s Qc Qn, p <= p' -> 3 <= s -> quorum p 2 Qc -> quorum p' s Qn ->
                          exists n, honest n /\ Qc n /\ Qn n) ->
    forall t, reachable node value node_eq_dec value_eq_dec honest quorum t ->
    forall v v', committable_value node value quorum t v -> committable_value node value quorum t v' -> v = v'.
Proof. exact one_block_per_round. Qed.
Print Assumptions C01_one_block_per_round.

(* after a cert quorum for v, every next-type quorum of the same or a later period is for v:
   the round can neither be skipped (bottom) nor steered to another value *)
Theorem C01_no_conflicting_next :
  forall (node value : Type)
         (node_eq_dec : forall a b : node, {a = b} + {a <> b})
         (value_eq_dec : forall a b : value, {a = b} + {a <> b})
         (honest : node -> Prop) (quorum : nat -> nat -> (node -> Prop) -> Prop),
    (forall p s Q1 Q2, quorum p s Q1 -> quorum p s Q2 -> exists n, honest n /\ Q1 n /\ Q2 n) ->
    (forall p p' s Qc Qn, p <= p' -> 3 <= s -> quorum p 2 Qc -> quorum p' s Qn ->
                          exists n, honest n /\ Qc n /\ Qn n) ->
    forall t, reachable node value node_eq_dec value_eq_dec honest quorum t ->
    forall p v q x, has_q node value quorum t p 2 (Some v) -> p <= q ->
                    nextq node value quorum t q x -> x = Some v.
Proof. exact no_conflicting_next. Qed.
Print Assumptions C01_no_conflicting_next.

Theorem C01_no_bottom_cert :
  forall (node value : Type)
         (node_eq_dec : forall a b : node, {a = b} + {a <> b})
         (value_eq_dec : forall a b : value, {a = b} + {a <> b})
         (honest : node -> Prop) (quorum : nat -> nat -> (node -> Prop) -> Prop),
    (forall p s Q1 Q2, quorum p s Q1 -> quorum p s Q2 -> exists n, honest n /\ Q1 n /\ Q2 n) ->
    forall t p, reachable node value node_eq_dec value_eq_dec honest quorum t ->
                ~ has_q node value quorum t p 2 None.
Proof. exact no_bottom_cert. Qed.
Print Assumptions C01_no_bottom_cert.

(* the executable rule checker used on recorded traces of real state machines is sound *)
Theorem C01_monitor_sound :
  forall (honest_b : N -> bool) (qdec : nat -> nat -> list N -> bool)
         (quorum : nat -> nat -> (N -> Prop) -> Prop),
    (forall p s l, qdec p s l = true -> quorum p s (fun n => In n l)) ->
    forall t, reachable_b honest_b qdec t = true ->
              reachable N N N.eq_dec N.eq_dec (fun n => honest_b n = true) quorum t.
Proof. exact reachable_b_sound. Qed.
Print Assumptions C01_monitor_sound.

(* anti-vacuity: a concrete committee satisfies both intersection hypotheses, and a concrete
   two-period trace (soft/cert in period 0, next votes, period 1 entered on the next quorum,
   soft/cert again, with a Byzantine node voting for a conflicting value / bottom throughout)
   is reachable and ends with cert quorums in two different periods; and the checker flags a
   trace in which a cert-voter next-votes bottom *)
Theorem C01_nonvacuous :
  (forall p s Q1 Q2, ex_quorum p s Q1 -> ex_quorum p s Q2 -> exists n, ex_honest n /\ Q1 n /\ Q2 n) /\
  (forall (p p' s : nat) Qc Qn, p <= p' -> 3 <= s -> ex_quorum p 2 Qc -> ex_quorum p' s Qn ->
                        exists n, ex_honest n /\ Qc n /\ Qn n) /\
  reachable N N N.eq_dec N.eq_dec ex_honest ex_quorum ex_trace /\
  has_q N N ex_quorum ex_trace 0 2 (Some 7%N) /\ has_q N N ex_quorum ex_trace 1 2 (Some 7%N).
Proof. exact ex_nonvacuous. Qed.
Print Assumptions C01_nonvacuous.

Theorem C01_monitor_flags_violation : first_bad ex_honest_b ex_qdec ex_bad_trace = Some 4.
Proof. exact ex_bad_flagged. Qed.
Print Assumptions C01_monitor_flags_violation.
